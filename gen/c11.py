"""C11 — enum variants carry rustc's numeric value in every binding (DESIGN §5 C11)."""
import re, shutil
from common import *
import e2e

PROP = "C11"
HEADER = "From Coq Require Import List ZArith Bool.\nImport ListNotations.\nLocal Open Scope Z_scope.\nFrom DV Require Import Enums.Model."
NAMES = ["Aa", "Bb", "Cc", "Dd", "Ee", "Ff", "Gg", "Hh"]


def discs(vs):
    out, last = [], -1
    for v in vs:
        last = v if v is not None else last + 1
        out.append(last)
    return out


def gen_enums(ctx):
    rng = ctx.rng
    fixed = [[None], [None, None, None], [5, 2, None, -7, None], [0, 2, 1, 3], [0, 1, 5], [1, 0], [None, None, 7, None],
             [-1], [2147483647], [-2147483648, None], [0, None, None, 1000, None], [3, None, 0, None], [None, 1, 2, 3], [1, 2, 0],
             [10, 9, 8, 7, 6, 5, 4, 3], [None, None, None, None, None, None, None, None], [0, 1, 2, 4], [2, 0, 1]]
    n = 40 if ctx.quick() else 400
    enums = [f for f in fixed if len(set(discs(f))) == len(f)]
    while len(enums) < n:
        k = rng.randint(1, 8)
        vs = []
        for i in range(k):
            r = rng.random()
            if r < 0.45:
                vs.append(None)
            elif r < 0.7:
                vs.append(rng.randint(0, k))           # small: permutations / near-contiguous
            elif r < 0.85:
                vs.append(rng.randint(-20, 20))
            else:
                vs.append(rng.choice([-2147483648 + rng.randint(0, 3), 2147483647 - rng.randint(8, 20), rng.randint(-10**6, 10**6)]))
        ds = discs(vs)
        if len(set(ds)) == len(ds) and all(-2**31 <= d < 2**31 for d in ds):
            enums.append(vs)
    return enums


def bridge_src(enums):
    s = "#[diplomat::bridge]\nmod ffi {\n"
    for e, vs in enumerate(enums):
        s += f"    pub enum En{e} {{\n" + "".join(f"        {NAMES[i]}{'' if v is None else ' = ' + str(v)},\n" for i, v in enumerate(vs)) + "    }\n"
        s += (f"    impl En{e} {{\n        pub fn rt(self) -> En{e} {{ self }}\n"
              f"        #[diplomat::attr(not(js), disable)]\n        pub fn opt(self) -> Option<En{e}> {{ Some(self) }}\n    }}\n")
    s += "}\n#[no_mangle]\npub extern \"C\" fn verif_disc(e: u32, v: u32) -> i64 {\n    match (e, v) {\n"
    for e, vs in enumerate(enums):
        for i in range(len(vs)):
            s += f"        ({e}, {i}) => ffi::En{e}::{NAMES[i]} as isize as i64,\n"
    s += "        _ => i64::MIN,\n    }\n}\n"
    return s


def camel(n):
    return n[0].lower() + n[1:]


def c_enum_values(body):
    """enumerator values with C / C++ semantics: an enumerator without initializer continues from the previous one"""
    out, prev = {}, -1
    for name, val in re.findall(r"(\w+)\s*(?:=\s*(-?\d+))?\s*,", body + ","):
        prev = int(val) if val not in (None, "") else prev + 1
        out[name] = prev
    return out


CASE_BRIDGE = """#[diplomat::bridge]
mod ffi {
    pub enum DataUnit { Mb, MB, Gb }
    impl DataUnit { pub fn bump(self) -> DataUnit { self } }
}
"""


def check(ctx, replay=None):
    build_harness()
    phase = standard_proof_phase(ctx, PROP, ["theories/Properties/C11.v"])
    e2e.build_tool()
    enums = gen_enums(ctx)
    if replay and "enum" in replay.get("replay", {}):
        enums = [replay["replay"]["enum"]]
    d, lib, p = e2e.bridge_crate("c11e", bridge_src(enums))
    obs = {}          # backend -> list per enum of (vals, back)
    broken = []

    def record(backend, e, vals, back):
        obs.setdefault(backend, {})[e] = (vals, back)

    if lib is None:
        ctx.violation("e2e:bridge-build", {"broken": "enum bridge does not compile with the real macro", "log": p.stderr[-2000:]}, False)
        return batch_evidence(ctx, PROP, phase, [], [], 1, 0, "", "", [], [])
    src = os.path.join(d, "src", "lib.rs")
    outs = {}
    for backend in ("c", "cpp", "js", "dart", "kotlin", "nanobind"):
        o = os.path.join(d, "out_" + backend)
        q = e2e.run_tool(backend, src, o, config=["lib_name=somelib", "kotlin.domain=dev.x"])
        if q.returncode != 0:
            ctx.violation("e2e:tool-" + backend, {"broken": f"diplomat-tool {backend} failed on the enum bridge", "log": q.stderr[-1500:]}, False)
        else:
            outs[backend] = o
    # --- rustc + C
    rust = {}
    if "c" in outs:
        body = ['#include <stdio.h>', '#include <stdint.h>'] + [f'#include "En{e}.h"' for e in range(len(enums))]
        body += ["int64_t verif_disc(uint32_t e, uint32_t v);", "int main(void) {"]
        for e, vs in enumerate(enums):
            for i in range(len(vs)):
                body.append(f'  printf("r {e} {i} %lld\\n", (long long)verif_disc({e}, {i}));')
                body.append(f'  printf("c {e} {i} %lld\\n", (long long)En{e}_{NAMES[i]});')
                body.append(f'  printf("b {e} {i} %lld\\n", (long long)En{e}_rt((En{e})verif_disc({e}, {i})));')
        body.append("  return 0;\n}")
        cp = os.path.join(d, "drv.c")
        open(cp, "w").write("\n".join(body))
        c, r = e2e.cc_run(cp, [outs["c"]], lib, os.path.join(d, "drv_c"))
        if r is None or r.returncode != 0:
            ctx.violation("e2e:c-driver", {"broken": "C driver over the enum headers failed", "log": (c.stderr if r is None else r.stderr)[-1500:]}, False)
        else:
            tab = {}
            for line in r.stdout.split():
                pass
            for line in r.stdout.strip().split("\n"):
                k, e, i, v = line.split()
                tab[(k, int(e), int(i))] = int(v)
            for e, vs in enumerate(enums):
                rust[e] = [tab[("r", e, i)] for i in range(len(vs))]
                vals = [tab[("c", e, i)] for i in range(len(vs))]
                # C has no conversion: a value received from Rust *is* the enumerator with that value
                back = [vals.index(tab[("b", e, i)]) if tab[("b", e, i)] in vals else None for i in range(len(vs))]
                record("C", e, vals, back)
    # --- C++
    if "cpp" in outs and rust:
        body = ['#include <cstdio>'] + [f'#include "En{e}.hpp"' for e in range(len(enums))] + ["int main() {"]
        for e, vs in enumerate(enums):
            for i in range(len(vs)):
                body.append(f'  printf("v {e} {i} %lld %lld\\n", (long long)En{e}::{NAMES[i]}, (long long)En{e}(En{e}::{NAMES[i]}).AsFFI());')
                alts = " : ".join(f"x == En{e}::{NAMES[j]} ? {j}" for j in range(len(vs))) + " : -1"
                body.append(f'  {{ En{e} x = En{e}::FromFFI((diplomat::capi::En{e})({rust[e][i]}LL)); printf("b {e} {i} %d\\n", {alts}); }}')
        body.append("  return 0;\n}")
        cp = os.path.join(d, "drv.cpp")
        open(cp, "w").write("\n".join(body))
        for std in (["c++17"] if ctx.quick() else ["c++17", "c++20"]):
            c, r = e2e.cc_run(cp, [outs["cpp"]], lib, os.path.join(d, "drv_cpp"), std=std, cxx=True)
            if r is None or r.returncode != 0:
                ctx.violation("e2e:cpp-driver", {"broken": "C++ driver over the enum headers failed", "log": (c.stderr if r is None else r.stderr)[-1500:]}, False)
            else:
                tab = {}
                for line in r.stdout.strip().split("\n"):
                    f = line.split()
                    tab[(f[0], int(f[1]), int(f[2]))] = [int(x) for x in f[3:]]
                for e, vs in enumerate(enums):
                    vals = [tab[("v", e, i)][0] for i in range(len(vs))]
                    if any(tab[("v", e, i)][0] != tab[("v", e, i)][1] for i in range(len(vs))):
                        vals = [tab[("v", e, i)][1] for i in range(len(vs))]
                    back = [tab[("b", e, i)][0] if tab[("b", e, i)][0] >= 0 else None for i in range(len(vs))]
                    record("Cpp", e, vals, back)
    # --- JS: execute the generated modules in node with a stub wasm module
    if "js" in outs and rust:
        jd = outs["js"]
        open(os.path.join(jd, "diplomat-wasm.mjs"), "w").write(
            "const memory = new WebAssembly.Memory({ initial: 4 }); let bump = 4096;\n"
            "const base = { memory, diplomat_alloc(size, align) { bump = Math.ceil(bump / align) * align; const p = bump; bump += size + 16; return p; }, diplomat_free() {} };\n"
            "export default new Proxy(base, { get(t, name) { if (name in t) return t[name]; const n = String(name);\n"
            "  // Option<Enum> comes back through memory: discriminant at +0 (as Rust stores it: a signed 32-bit value), flag at +4\n"
            "  if (n.endsWith('_opt')) return (buf, self) => { const v = new DataView(memory.buffer); v.setInt32(buf, globalThis.__ret !== undefined ? globalThis.__ret : self, true); v.setUint8(buf + 4, 1); };\n"
            "  return (...args) => (globalThis.__ret !== undefined ? globalThis.__ret : args[0]); } });\n")
        drv = ["const out = [];"]
        for e, vs in enumerate(enums):
            drv.append(f'{{ const m = await import("./En{e}.mjs"); const E = m.En{e}; const names = {json.dumps(NAMES[:len(vs)])};')
            drv.append(f'  const vals = names.map(n => E[n].ffiValue); const byName = names.map(n => E.fromValue(n).ffiValue);')
            drv.append(f'  const back = {json.dumps(rust[e])}.map(d => {{ globalThis.__ret = d; let r; try {{ r = E[names[0]].rt(); }} catch (x) {{ r = undefined; }} globalThis.__ret = undefined; return r === undefined || r === null ? null : names.indexOf(r.value); }});')
            drv.append(f'  const backMem = {json.dumps(rust[e])}.map(d => {{ globalThis.__ret = d; let r; try {{ r = E[names[0]].opt(); }} catch (x) {{ r = undefined; }} globalThis.__ret = undefined; return r === undefined || r === null ? null : names.indexOf(r.value); }});')
            drv.append(f'  out.push({{e: {e}, vals, byName, back, backMem}}); }}')
        drv.append("console.log(JSON.stringify(out));")
        open(os.path.join(jd, "drv.mjs"), "w").write("\n".join(drv))
        r = sh(["node", "drv.mjs"], cwd=jd, timeout=300)
        if r.returncode != 0:
            ctx.violation("e2e:js-driver", {"broken": "node failed on the generated enum modules", "log": r.stderr[-1500:]}, False)
        else:
            for row in json.loads(r.stdout):
                back = [b if (b is not None and b >= 0) else None for b in row["back"]]
                back_mem = [b if (b is not None and b >= 0) else None for b in row["backMem"]]
                if back_mem != back:
                    back = back_mem          # a value that crosses through memory decodes differently: that one is reported
                vals = row["vals"] if row["vals"] == row["byName"] else row["byName"]
                record("Js", row["e"], vals, back)
    # --- Dart, Kotlin, nanobind: parsed tables (no toolchain here to execute them)
    for e, vs in enumerate(enums):
        n = len(vs)
        if "dart" in outs:
            txt = open(os.path.join(outs["dart"], f"En{e}.g.dart")).read()
            m = re.search(r"enum En%d\s*\{(.*?);" % e, txt, re.S)
            order = re.findall(r"^\s*(\w+),?\s*$", m.group(1), re.M)
            sw = dict((a, int(b)) for a, b in re.findall(r"case (\w+):\s*return (-?\d+);", txt))
            if order != [camel(x) for x in NAMES[:n]]:
                broken.append(f"dart enum En{e} variant order {order}")
            vals = [sw[camel(NAMES[i])] for i in range(n)] if sw else list(range(n))
            if ("_ffi" in txt.split("rt()")[1].split("}")[0]) != bool(sw) and n:
                pass
            uses_index = bool(re.search(r"_En%d_rt\(index\)" % e, txt))
            if uses_index and sw:
                vals = list(range(n))
            if f"En{e}.values[result]" in txt:
                back = [d if 0 <= d < n else None for d in rust.get(e, [])]
            else:
                back = [vals.index(d) if d in vals else None for d in rust.get(e, [])]
            record("Dart", e, vals, back)
        if "kotlin" in outs:
            txt = open(os.path.join(outs["kotlin"], "src/main/kotlin/dev/x/somelib", f"En{e}.kt")).read()
            m = re.search(r"enum class En%d(\(val inner: Int\))? \{(.*?);" % e, txt, re.S)
            if m.group(1):
                tbl = [(a, int(b)) for a, b in re.findall(r"(\w+)\((-?\d+)\)", m.group(2))]
                vals = [dict(tbl)[NAMES[i]] for i in range(n)]
            else:
                order = re.findall(r"(\w+)", m.group(2))
                vals = [order.index(NAMES[i]) for i in range(n)]
            fm = re.search(r"fun fromNative\(native: Int\): En%d \{(.*?)\n        \}" % e, txt, re.S).group(1)
            if "entries[native]" in fm:
                back = [d if 0 <= d < n else None for d in rust.get(e, [])]
            else:
                w = dict((int(a), b) for a, b in re.findall(r"(-?\d+) -> (\w+)", fm))
                back = [NAMES.index(w[d]) if d in w else None for d in rust.get(e, [])]
            record("Kotlin", e, vals, back)
        if "nanobind" in outs:
            hdr = open(os.path.join(outs["nanobind"], "include", f"En{e}.d.hpp")).read()
            en = c_enum_values(re.search(r"enum Value \{(.*?)\};", hdr, re.S).group(1))
            cpp = "".join(open(os.path.join(outs["nanobind"], f)).read() for f in os.listdir(outs["nanobind"]) if f.endswith(".cpp"))
            bound = re.findall(r'\.value\("(\w+)", En%d::(\w+)\)' % e, cpp)
            if [b[0] for b in bound] != NAMES[:n] or any(a != b for a, b in bound):
                broken.append(f"nanobind enum En{e} bindings {bound}")
            vals = [en[NAMES[i]] for i in range(n)]
            back = [vals.index(d) if d in vals else None for d in rust.get(e, [])]
            record("Nanobind", e, vals, back)
    for b in broken[:2]:
        ctx.violation("parse:" + b.split()[0], {"what": b}, True)
    # --- direct check of the property, then the model
    goals, meta, viol = [], [], 0
    cz = lambda l: "[" + "; ".join(str(x) for x in l) + "]"
    cvs = lambda vs: "[" + "; ".join("None" if v is None else f"Some ({v})" for v in vs) + "]"
    cback = lambda l: "[" + "; ".join("None" if x is None else f"Some {x}%nat" for x in l) + "]"
    for e, vs in enumerate(enums):
        if e not in rust:
            continue
        goals.append(f"agree_rustc {cvs(vs)} {cz(rust[e])}"); meta.append(("rustc", e))
        if rust[e] != discs(vs) and len(ctx.violations) < 3:
            viol += 1
            ctx.violation("direct:rustc", {"enum": vs, "what": f"rustc numbers the variants {rust[e]}, the discriminant rule gives {discs(vs)}"}, True)
        for backend in sorted(obs):
            if e not in obs[backend]:
                continue
            vals, back = obs[backend][e]
            goals.append(f"agree_backend {backend} {cvs(vs)} {cz(vals)} {cback(back)}"); meta.append((backend, e))
            if (vals != rust[e] or back != list(range(len(vs)))) and len(ctx.violations) < 3:
                viol += 1
                ctx.violation("direct:" + backend, {"enum": vs, "backend": backend, "what":
                              f"{backend} numbers the variants {vals} (rustc: {rust[e]}); values received from Rust select variants {back} "
                              f"(expected {list(range(len(vs)))})"}, True)
    fails = run_shards(PROP, HEADER, goals) if goals else []
    if fails and not ctx.violations:
        for f in fails[:2]:
            ctx.violation("corr:" + meta[f][0], {"enum": enums[meta[f][1]], "broken": "correspondence goal " + goals[f][:300] +
                          " (Enums/Model.v no longer describes this backend); no variant with a wrong value was found"}, False)
    nontriv = len({json.dumps(vs) for vs in enums if any(v is not None for v in vs)})
    shutil.rmtree(os.path.join(d, "out_js"), ignore_errors=True)
    # variant names that differ only in letter case: the JS (and Dart) formatter maps them to one name (recorded finding when present)
    cpath = os.path.join(BUILD, "e2e", "c11case"); os.makedirs(cpath, exist_ok=True)
    open(os.path.join(cpath, "lib.rs"), "w").write(CASE_BRIDGE)
    q = e2e.run_tool("js", os.path.join(cpath, "lib.rs"), os.path.join(cpath, "out_js"))
    if q.returncode == 0:
        txt = open(os.path.join(cpath, "out_js", "DataUnit.mjs")).read()
        if len(re.findall(r"static Mb\b", txt)) > 1:
            ctx.violation("js-variant-case-collision", {"lib_rs": CASE_BRIDGE, "what": "enum DataUnit { Mb, MB, Gb }: both Mb and MB are emitted as the JS member `Mb`; the value table loses a "
                                                        "key and, the enum being contiguous, every later name denotes the wrong discriminant"}, True)
    return batch_evidence(
        ctx, PROP, phase, goals, fails, len(goals), nontriv,
        "one generated bridge with %d enums (1..8 variants; explicit / implicit / negative / non-monotonic / permuted / i32-extreme "
        "discriminants, pairwise distinct), compiled with the real macro. Observed: rustc's `as isize` (also validates the spec), C and "
        "C++ values through compiled drivers (AsFFI/FromFFI), JS by executing the generated modules in node with a stub wasm, Dart / "
        "Kotlin / nanobind by parsing the generated tables (no toolchain to execute them). One Coq goal per (enum, backend). "
        "non-trivial = enum with at least one explicit discriminant" % len(enums),
        "Modelled, not verified: Enum::new and each backend's numbering scheme (templates + is_contiguous + Kotlin's EnumVariants fold) "
        "transcribed into Enums/Model.v; Dart/Kotlin/nanobind semantics are emulated by the parser, not executed",
        [{"enum": enums[i], "rustc": rust.get(i), "backends": {b: obs[b].get(i) for b in obs}} for i in (2, len(enums) - 1)],
        ["discriminants are integer literals within i32 and pairwise distinct (rustc rejects duplicates)"],
        {"enums": len(enums), "backends_observed": sorted(obs)})
