"""C15 — demo_gen's constructor search (Dispatch/Ctor.v): generated constructor-dependency graphs through the real CLI."""
from common import *
import e2e

HEADER = "From Coq Require Import List Bool Arith.\nImport ListNotations.\nFrom DV Require Import Dispatch.Ctor."
CFG = ["lib_name=somelib"]


def gen_table(rng, n):
    """per opaque type: the opaque parameter types of its constructor, or None (no constructor at all)"""
    tab = []
    for t in range(n):
        r = rng.random()
        if r < 0.12:
            tab.append(None)
        else:
            k = rng.choice([0, 0, 1, 1, 2, 3])
            # biased towards earlier types (acyclic) with occasional self / forward references (cycles)
            tab.append([rng.randrange(0, max(1, t)) if rng.random() < 0.7 else rng.randrange(0, n) for _ in range(k)])
    return tab


def bridge(tab):
    s = "#[diplomat::bridge]\nmod ffi {\n    use diplomat_runtime::DiplomatWrite;\n"
    for t in range(len(tab)):
        s += f"    #[diplomat::opaque]\n    pub struct K{t}(pub u8);\n"
    for t, ps in enumerate(tab):
        s += f"    impl K{t} {{\n"
        if ps is not None:
            args = ", ".join(f"a{i}: &K{p}" for i, p in enumerate(ps))
            s += f"        #[diplomat::attr(auto, constructor)]\n        pub fn new({args}) -> Box<K{t}> {{ Box::new(K{t}(0)) }}\n"
        s += "        pub fn show(&self, w: &mut DiplomatWrite) {}\n    }\n"
    return s + "}\n"


def c_tab(tab):
    return clist(["None" if ps is None else "(Some " + clist([str(p) for p in ps]) + ")" for ps in tab])


FIXED = [[[0]], [[1], [0]], [[1], [2], [0]], [[], [0], [1, 0]], [None, [0]], [[0, 0]], [[1, 1], []], [[], [], [0, 1], [2, 2, 0]]]


def run(ctx):
    """returns (#tool runs, goals, failing goal indices)"""
    rng = ctx.rng
    d = os.path.join(BUILD, "e2e", "c15ctor"); os.makedirs(d, exist_ok=True)
    tabs = FIXED + [gen_table(rng, rng.randint(2, 6)) for _ in range(14 if ctx.quick() else 150)]
    goals, runs, stats = [], 0, {"ok": 0, "errors": 0, "cyclic_tables": 0}
    for i, tab in enumerate(tabs):
        path = os.path.join(d, f"t{i}.rs"); open(path, "w").write(bridge(tab))
        for extra in ([], ["js.abi=spec"]):
            q = e2e.run_tool("demo_gen", path, os.path.join(d, "out"), config=CFG + extra, timeout=60)
            runs += 1
            cls = e2e.classify_tool(q)
            if cls == "panic":
                site, slug = e2e.panic_site(q.stderr)
                ctx.violation(f"panic:demo_gen:{site}:{slug}:constructor-graph", {"backend": "demo_gen", "config": extra, "constructors": {f"K{t}": ps for t, ps in enumerate(tab)},
                              "what": "diplomat-tool demo_gen crashes (or does not terminate) while looking for constructor calls on a bridge that passed lowering",
                              "stderr": q.stderr[-500:], "lib_rs": bridge(tab)}, True)
                continue
            if cls not in ("ok", "backend-error"):
                raise MachineryError(f"C15 constructor graphs: unexpected outcome {cls} of demo_gen: {q.stderr[-600:]}\n{bridge(tab)}")
            stats["ok" if cls == "ok" else "errors"] += 1
            if not extra:
                goals.append(f"agree_demo {c_tab(tab)} {len(tab)} {cbool(cls == 'backend-error')}")
    fails = run_shards("C15", HEADER, goals, per_shard=120) if goals else []
    if fails and not ctx.violations:
        i = fails[0]
        ctx.violation("corr:demo-constructors", {"constructors": {f"K{t}": ps for t, ps in enumerate(tabs[i])}, "broken": "correspondence goal " + goals[i][:300] +
                      " : Dispatch/Ctor.v no longer predicts whether demo_gen reports an error for this constructor graph (theorem C15_demo_constructor_search_terminates)"}, False)
    return runs, goals, fails, stats
