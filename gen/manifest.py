#!/usr/bin/env python3
"""Regenerates MANIFEST.json from the table below (run by hand after adding a property)."""
import json, os
HERE = os.path.dirname(os.path.dirname(os.path.abspath(__file__)))
TECH = "Coq theorem over a Gallina model + kernel-checked (vm_compute) correspondence of the model with the real implementation"
CHECKS = {
 "C12": dict(
   text="Proof: Write/Model.v transcribes the DiplomatWrite state machine; C12_exact/no_partial/in_bounds/sticky/spec/simple_flush/owned/cpp_string "
        "are proved for all chunk lists, capacities and grow-outcome lists (induction over the history). The model is tied to runtime/src/write.rs on "
        "every run by driving the real fmt::Write impl, diplomat_simple_write and diplomat_buffer_write_* through a repr(C) mirror with scripted grow "
        "callbacks and canary zones, and proving in Coq that the model reproduces every observed state.",
   note="Trusted: Coq kernel+vm_compute; hand transcription of write.rs (checked by correspondence, not by translation); python generator/printer; "
        "Rust oracle; allocator behind Vec::reserve is an oracle input; usize overflow out of scope.",
   design="§5 C12"),
}
CHECKS["C16"] = dict(
   text="Proof: C16_utf8_exact (the validator accepts a byte string iff it is a concatenation of RFC 3629 encodings of Unicode scalar values; all lengths, "
        "pure arithmetic proof, no sweep) and the view round-trip / NULL-normalisation theorems over an abstract pointer model. Tied to the code by "
        "driving the real From/Into/Deref impls for 14 element types and the exported diplomat_is_str (all strings of length <= 2 exhaustively plus a "
        "near-valid stream; thorough: all of length 3) and proving in Coq that the model reproduces every observation.",
   note="Trusted: Coq kernel+vm_compute; hand-written models Slices/Model.v, Utf8/Model.v; core::str::from_utf8 is std code reached only through "
        "diplomat_is_str; pointer provenance is not modelled.",
   design="§5 C16")
CHECKS["C03"] = dict(
   text="Proof (partial) + end-to-end lifecycles (opaques, owned slices, callbacks with destructors through the generated C header under ASan): Own/Model.v models the runtime's owners (DiplomatResult/Option, owned slices, callbacks) as token moves and drops; "
        "C03_exactly_once / C03_never_twice are proved for every well-typed history (invariant: the multiset of dropped + still-owned tokens is "
        "exactly the set of tokens created), C03_unrepaired_into_refuted records the double drop that was repaired in /repo. Tied to the code "
        "by running the same histories on the real types with drop-logging payloads and proving per-operation agreement in Coq.",
   note="Partial: exactly-once is proved over the ownership model; absence of out-of-bounds/use-after-free in real memory is not modelled. "
        "Trusted: Coq kernel+vm_compute, hand-written model, generator, Rust oracle.",
   design="§5 C03")
CHECKS["C17"] = dict(
   text="Proof: Config/Model.v transcribes Config::set/get_overridden/read_file and the per-language setters; C17_effective (for every finite write "
        "sequence the effective shared settings of a language are the last language-scoped write, else the last shared write), C17_source_order "
        "(file < CLI < attribute), C17_scoped_only_that_language, C17_kebab_snake. Tied to the code by driving the public Config API exactly as "
        "main.rs/gen() do on exhaustive source assignments and seeded mixes, plus runs of the real CLI (kotlin package / Native.load name, nanobind "
        "module name, acceptance of references in callbacks), each compared with the model inside Coq.",
   note="Trusted: Coq kernel+vm_compute; hand-written model; keys split at the first '.' by the generator; toml crate and heck; python/Rust oracle glue.",
   design="§5 C17")
CHECKS["C11"] = dict(
   text="Proof: Enums/Model.v transcribes Enum::new's discriminant inference and every backend's numbering scheme (C/C++/nanobind enumerators, "
        "JS array-vs-object table, Dart index-vs-_ffi, Kotlin's EnumVariants fold); C11_values_agree shows for enums of any size with distinct "
        "discriminants that each backend's value of variant i is the discriminant and maps back to variant i; C11_kotlin_fold, C11_contiguous_iff. "
        "Tied to the code by one generated bridge of enums compiled with the real macro: rustc's `as isize`, compiled C/C++ drivers, generated JS "
        "executed in node, Dart/Kotlin/nanobind tables parsed; one kernel-checked agreement goal per (enum, backend).",
   note="Trusted: Coq kernel+vm_compute; hand transcription of the numbering schemes; python parsers emulate Dart/Kotlin/nanobind semantics "
        "(no toolchains to execute them); gcc/g++/node/rustc as executors.",
   design="§5 C11")
CHECKS["C13"] = dict(
   text="Proof: Cfg/Model.v transcribes satisfies_cfg (short-circuiting any/all, auto tracking), Attrs::from_ast (disable / rename / errors) and the "
        "inheritance rules; C13_sat_sound (evaluator = propositional meaning, any depth), C13_false_cfg_is_noop (non-interference for any payload, "
        "position and parent), C13_disable_iff, C13_method_present, C13_rename_effective. The backend truth tables (attr_support of all seven backends, "
        "supports= names, extra backend names) are regenerated from /repo's source into gen/Tables.v on every run. Tied to behaviour by ~240 canary "
        "items per run through the real CLI for every backend with/without the attributes (presence, rendered names, byte identity where the condition "
        "is false, nm of the macro-built library), one kernel-checked goal per (canary, backend), plus a malformed-formula stream.",
   note="Trusted: Coq kernel+vm_compute; hand transcription in Cfg/Model.v; gen/tablegen.py translator (cross-checked by the supports= canaries); "
        "python presence/name parsers; demo_gen observed at method level only; rename observed in cpp/js/dart/nanobind.",
   design="§5 C13")
CHECKS["C06"] = dict(
   text="Proof: Rename/Model.v transcribes abi_rename pattern application and inheritance (module > impl > method; module > type for destructors), the set "
        "gen_bridge exports and the set a backend refers to (methods/destructors present for it, via Cfg/Model.v); C06_apply_subst_first / "
        "C06_apply_no_placeholder (pattern language, all strings), C06_innermost, C06_referenced_subset_exported (all modules, backends, placements). "
        "Tied to the code by generated bridges compiled with the real macro: nm of the crate's archive member and the symbols parsed from every "
        "backend's output must equal the model's sets (kernel-checked set equality per bridge and backend).",
   note="Trusted: Coq kernel+vm_compute; hand transcription; python symbol parsers (C prototypes, extern blocks, wasm.<sym>, Dart symbol:, JNA interfaces); "
        "nm; gen/Tables.v translator.",
   design="§5 C06")
CHECKS["C01"] = dict(
   text="Proof (type-level) + end-to-end transport: Abi/Model.v gives, for every parameter/return shape of the documented grammar, the C type the "
        "header declares and the representation class the macro compiles; C01_prim_abi / C01_capi_rows (re-checked against tables regenerated from "
        "fmt_primitive_as_c, the derived-name function and capi.h.jinja on every run), C01_param_abi_* (declared C type means the macro's FFI type for "
        "primitives, enums, structs, options in both spellings, slices, strings, opaque pointers, write). Tied to the code by generated bridges built "
        "with the real macro and called through the generated header by a compiled C driver: every call must enter Rust once with bit-identical "
        "arguments and return bit-identical values; prototypes, result typedefs and struct layouts (C and rustc) are compared with the model in Coq.",
   note="Partial in one respect: value transport relies on rustc and gcc implementing one C ABI for equal repr(C) types (trusted, exercised by the runs). "
        "Trusted: Coq kernel+vm_compute, hand transcription in Abi/Model.v, gen/tablegen.py, header parser, generators.",
   design="§5 C01")
CHECKS["C10"] = dict(
   text="Proof + end-to-end: C10_spelling_irrelevant (std Option and DiplomatOption give the same C declaration and representation for every payload), "
        "C10_unit_arm_no_payload, C10_flag_after_payload ({payload, is_ok}), C10_pointer_options (absent optional pointer = NULL, no flag). Tied to the "
        "code by paired-spelling methods for every payload kind in parameter and return position plus random optional/fallible methods, built with the "
        "real macro and driven through the generated C header (both arms, unit arms, stale payload in None), declarations compared textually and with "
        "the model in Coq; runtime conversions themselves are covered by C03.",
   note="Trusted: as C01; the C compiler's union layout (SysV ABI).",
   design="§5 C10")
CHECKS["C02"] = dict(
   text="Proof (partial) + end-to-end: Cpp/Model.v gives the conversion semantics of the generated C++ wrappers over an abstract value domain; "
        "C02_to_cpp_to_c (values of any nesting arrive unchanged), C02_ret_arm_preserved, C02_none_ignores_payload, "
        "C02_invalid_utf8_never_reaches_rust (via C16's UTF-8 theorem). Tied to the code by generated bridges built with the real macro and driven "
        "through the generated C++ class API by a compiled driver (c++17; c++20 too in the thorough tier): Rust-side logs and returned values must "
        "equal what was passed/produced, invalid UTF-8 must be rejected on the C++ side; each transported value is also checked against the model in Coq.",
   note="Partial: libstdc++, template instantiation and std::function lifetimes are executed, not modelled. Trusted: Coq kernel+vm_compute, hand "
        "transcription in Cpp/Model.v, canonical-text parser, g++ and rustc.",
   design="§5 C02")
CHECKS["C09"] = dict(
   text="Partial. Coq carries the bookkeeping of the generated C headers (Headers/Model.v: include sets, include-once expansion, declared-before-use "
        "check; C09_check_composes, C09_uses_after_decls_ok, and the general C09_headers_declare_before_use: for every set of definitions with acyclic "
        "by-value containment and arbitrary pointer / signature references, the include-once expansion of any header declares before it uses) and the check is evaluated on the include graph parsed from the real headers of every run. "
        "Whether output compiles is decided by the real toolchains on four corpora (generated grammar bridge, a bridge with cyclic references / "
        "namespaces / renames / keyword-named parameters, feature_tests, example): rustc on the macro expansion, gcc -std=c11 -fsyntax-only on each C "
        "header alone and all headers in random orders, g++ c++17 and c++20 likewise, node --check on every .mjs, include/import targets exist. "
        "Identifier escaping is modelled too (Escape/Model.v; the C / C++ / JS / Python keyword tables are regenerated from the formatters on every run): "
        "C09_escaped_is_not_a_keyword, C09_cpp_table_extends_c, C09_escape_collisions_are_the_recorded_class (two names collide iff one is a keyword k and "
        "the other k_), C09_escape_injective_refuted; tied to the code by a bridge whose parameters are named after, and whose methods are renamed to, "
        "every word of the tables: emitted names compared in Coq, files compiled / parsed. "
        "Headers/Cpp.v models the C++ headers (decl header: includes of by-value fields + forward declarations; impl header: own decl header first, "
        "then every other mentioned type's impl header): C09_cpp_complete_before_body (every class complete before an inline body or field needs it, "
        "for all reference graphs with acyclic by-value containment, cyclic impl includes included), C09_cpp_decl_names_declared; includes and forward "
        "declarations of the generated .d.hpp / .hpp files are compared with the model in Coq.",
   note="Partial: the grammars of C/C++/JS/Rust are not modelled (the theorem is about declaration order under include guards, the compilers "
        "decide everything else). Three recorded findings (known_findings.txt): keyword-escape collision, parameter named `this`, C++ include-guard collision (Headers/Guard.v: C09_cpp_guard_injective_on_clean_names / _refuted).",
   design="§5 C09")
CHECKS["C14"] = dict(
   text="Partial. Collect/Model.v transcribes how Module::from_syn / File fold items into name-keyed BTreeMaps; C14_collect_lookup, "
        "C14_order_independent (any reordering that keeps each type's impl blocks in relative order collects to the same map), C14_others_ignored, "
        "C14_unrelated_type_local. Tied to the code by comparing ast::File's own iteration with the model in Coq, and by differential runs of the real "
        "CLI for all seven backends: same input twice in fresh processes, permuted modules/items, extra non-bridge items (incl. same-named types and a "
        "foreign ::bridge attribute), an unreferenced type removed — outputs compared byte for byte.",
   note="Partial: the renderers are not modelled; their independence from hash-iteration order and from unrelated types is only exercised by the runs. "
        "Trusted: Coq kernel+vm_compute, hand transcription, generators.",
   design="§5 C14")
CHECKS["C05"] = dict(
   text="Proof: Gate/Model.v transcribes lower_type, lower_out_type, lower_return_type, lower_callback_param, the struct / out-struct field checks and "
        "is_ffi_safe as acceptance functions; Gate/Spec.v states the documented rules declaratively (what is allowed in inputs, outputs, returns, "
        "callback parameters); C05_inputs / C05_outputs / C05_returns / C05_callback_params prove the two equivalent for all types (unbounded nesting) "
        "and all flag settings, C05_write_only_last the DiplomatWrite rule. Tied to the code by exhaustively enumerating the type grammar to depth 2 x 6 "
        "positions as tiny bridges through the real CLI for all seven backends' support profiles and both unsafe_references_in_callbacks settings "
        "(~13k kernel-checked goals), plus the lifetime rules in every position of a return type, plus error-context checks. "
        "C05_elided_return_rejected (Lifetimes/Elision.v, the model of core/src/hir/elision.rs): an elided return lifetime whose source is not a named "
        "lifetime is refused by validation, whatever else the signature contains.",
   note="Trusted: Coq kernel+vm_compute; hand transcription in Gate/Model.v; gen/Tables.v translator for the support flags; traits not enumerated; "
        "self-parameter and ZST-method rules modelled but not enumerated.",
   design="§5 C05")
CHECKS["C15"] = dict(
   text="Partial. Coq proves that everything the gate accepts as an output, a non-callback input or a return type is at most three constructors deep "
        "(C15_outputs_enumerated / C15_inputs_enumerated / C15_returns_enumerated via the Gate equivalence theorems), so the finite witness enumeration "
        "contains every accepted shape literally. Each witness (position x type, ~1.9k) and a set of grammar-wide generated modules is run through the "
        "real CLI for all seven backends and config variants; any panic after lowering is a violation keyed by backend and panic site. 18 pre-existing "
        "panic sites are recorded in known_findings.txt; the optional-slice/Kotlin crash was repaired in /repo. "
        "C15_docs_* (Docs/Model.v): the documentation renderer is total. C15_lowered_lifetimes_in_range (Lifetimes/Elision.v): every lifetime lowering hands "
        "to a backend for a method lies inside the method's LifetimeEnv (fmt_lifetime's out-of-range panic is unreachable for them).",
   note="Partial: the backends' dispatch code (60+ unreachable!/panic! sites) is not modelled; absence of panics is only observed on the witnesses, and "
        "uniformity within a shape class is assumed. Trusted: Coq kernel, Gate transcription, CLI runner.",
   design="§5 C15")
CHECKS["C07"] = dict(
   text="Proof + declaration comparison: C07_dart_prims (every primitive's dart:ffi type has exactly the Rust primitive's width, signedness and float kind) "
        "and C07_kotlin_prims (JNA parameter/return and struct-field types have its width and kind), re-checked against tables regenerated from the Dart "
        "and Kotlin formatters on every run. For generated bridges inside each backend's profile, every native function declaration and struct mirror is "
        "parsed (with its result/option/slice/struct classes) into representation classes and compared in Coq with what the macro compiles (Abi/Model.v), "
        "field order included; parameter counts are compared with the C header.",
   note="No Dart/Kotlin toolchain exists in the sandbox: declarations are compared as declarations, nothing is executed. Trusted: Coq kernel+vm_compute, "
        "Abi/Model.v transcription, the meaning tables of dart:ffi/JNA names, python parsers, gen/tablegen.py.",
   design="§5 C07")
CHECKS["C08"] = dict(
   text="Proof: Layout/Model.v transcribes js/layout.rs (struct_field_info, size/alignment/scalar counts, Option layout), byte-level reads/writes and "
        "the forcePadding logic; C08_offsets_are_reprC (offsets, size, alignment = the repr(C) rule, for all nested structs and field orders), "
        "C08_padding_typed_exact (typed padding = the gap to the next field / struct end, in units of the field's alignment; the run-time assertion "
        "in layout.rs cannot fire), C08_size_multiple_of_align, C08_read_after_write (what _writeToArrayBuffer stores _fromFFI reads back, any nesting / "
        "field order / surrounding memory), C08_write_in_bounds, C08_flat_js_is_documented (the legacy argument list the JS builds = the documented ABI "
        "rule, for every struct without zero-sized members and outside the one excluded corner). Tied to the code by executing the generated JS (js.abi legacy and spec) in node "
        "against a mock wasm module: argument lists, bytes written, values read back from repr(C) bytes, receive-buffer size/alignment; each "
        "observation is compared with an independent python repr(C)/ABI-doc implementation and with the model in Coq. "
        "Layout/Result.v: the receive buffer of Option<S> / Result<S, E> returns is laid out like repr(C) DiplomatResult (C08_result_buffer_is_reprC; "
        "C08_result_buffer_unrepaired_refuted + C08_result_buffer_repair_is_conservative record the defect repaired in /repo, ebd2380); exercised for every "
        "struct with five error structs of alignment 1..8, both outcomes, both ABIs. The mock allocator returns dirty memory (second repaired defect, 20f97e6: "
        "is_ok not written for absent optional fields; C08_absent_option_unrepaired_refuted).",
   note="No wasm32 Rust target in the sandbox: the legacy flattened argument list is checked against docs/wasm_abi_quirks.md, not rustc. Slices, "
        "opaque fields and 128-bit integers are not generated; one corner (2-scalar struct inside an aggregate with a union) departs from the documented rule: recorded finding, exercised by two fixed shapes on every run, outside C08_flat_js_is_documented. "
        "Trusted: Coq kernel+vm_compute, hand transcription, python spec, node.",
   design="§5 C08")
CHECKS["C04"] = dict(
   text="Proof: Lifetimes/Model.v transcribes LifetimeEnv construction (declared bounds, the &'a T<'b> rule with its already-longer test), "
        "the stack+visited DFS behind all_longer_lifetimes, validate_ty_in_env for methods and struct definitions, and visit_param / borrow_map; "
        "Lifetimes/Spec.v states Rust's outlives relation declaratively (declared + implied bounds, definition requirements as a least fixpoint "
        "through nested fields). C04_borrow_edges_exact: for every accepted method and return lifetime the reported edges are exactly the "
        "parameters / struct slots mentioning a lifetime forced to outlive it; with C04_all_longer_is_closure (DFS = closure, fuel always "
        "suffices), C04_env_is_closure_of_written_bounds, C04_definition_bounds_are_recorded, C04_outlives_iff_recorded, C04_borrow_map_keys/entry, "
        "C04_struct_accessor_exact (JS/Dart _fieldsForLifetime accessors yield exactly the fields carrying the lifetime, any nesting), "
        "C04_spec_executable (the specification has an executable form, evaluated against rustc in Coq). "
        "Lifetimes/Elision.v models core/src/hir/elision.rs (written -> HIR lifetimes, elision source state machine, Self cache, padding): "
        "C04_elision_source_is_rusts_rule / _exists_iff, C04_elided_return_edges (an accepted method with elided return lifetimes gets exactly the edges "
        "Rust requires for the explicit spelling), C04_lowering_panics_only_without_source; every lowered lifetime of every accepted method is compared "
        "with the model in Coq, elided spellings are validated against rustc. "
        "Tied to the code per run: generated bridges go through the real TypeContext::from_syn and borrowing_param_visitor; acceptance and the "
        "literal borrow_map are compared with the model in Coq, the edge sets with an independent python reading of Rust's rules, that reading "
        "with rustc itself ((r,x) coercion probes), and the js/dart/kotlin/nanobind output is parsed for edge arrays, constructor arguments, "
        "append arrays and struct accessors (literally against the model), and the generated JS is executed under node --expose-gc: no input the "
        "result may borrow from is collected while the result is alive.",
   note="Outside the statement: bounds rustc infers from an opaque's private fields, derivations through 'static (counted as "
        "rustc_pairs_static_bridged), plain-object struct arguments in JS. Backend emission is checked on generated code, not modelled. "
        "Known finding: a borrowed Option<slice> parameter panics.",
   design="DESIGN.md §5 C04")
NOT_YET = {
}
ALL = [f"C{i:02d}" for i in range(1, 18)]
m = {
 "version": 1,
 "setup_cmd": "./check --setup",
 "hooks": {
   "guard": "--cfg rust_diplomat_diplomat_verif",
   "enable": "RUSTFLAGS (harness/.cargo/config.toml build.rustflags) = --cfg rust_diplomat_diplomat_verif when the harness builds /repo's crates as path dependencies",
   "baseline_off_cmd": "cd /repo && cargo test --workspace --no-fail-fast --offline",
   "source_commits": [],
   "add_only": True,
 },
 "engines": [{"name": "check", "path": "check", "serves_properties": sorted(CHECKS), "kind_free_text":
              "python driver: cargo-builds the oracle against /repo's working tree, builds the Coq cone of the property (full .vo), audits "
              "(no Admitted/Axiom, Print Assumptions), generates cases, runs the implementation, proves model/implementation agreement in Coq, "
              "writes evidence; on breakage searches for a failing input"}],
 "checks": [],
 "not_applicable": [],
 "notes": "Technique family: machine-checked proof in Coq 8.16. See DESIGN.md. known_findings.txt lists recorded defects and fixes.",
}
for pid in ALL:
    if pid in CHECKS:
        c = CHECKS[pid]
        m["checks"].append({
          "property_id": pid,
          "quick_cmd": f"./check {pid} --tier quick",
          "thorough_cmd": f"./check {pid} --tier thorough",
          "evidence_file": f"/verif/evidence/{pid}.json",
          "replay_cmd_template": f"./check {pid} --replay {{path}}",
          "engine": "check",
          "level_claimed": {"category": "proof", "text": c["text"], "design_ref": c["design"]},
          "level_note": c["note"],
          "technique": c.get("technique", TECH),
        })
    else:
        m["not_applicable"].append({"property_id": pid, "reason": NOT_YET.get(pid, "not claimed yet: model, theorems and correspondence for this property are still being built (DESIGN.md §5/§7); no check is registered until it is sound on the unchanged tree")})
json.dump(m, open(os.path.join(HERE, "MANIFEST.json"), "w"), indent=1)
print("wrote MANIFEST.json:", len(m["checks"]), "checks")
