"""C15 — the documentation renderer (ast::Docs::to_markdown / DocsUrlGenerator) against Docs/Model.v."""
from common import *
import c15_fixed

HEADER = ("From Coq Require Import List String Ascii.\nImport ListNotations.\nFrom DV Require Import gen.Tables Docs.Model.\n"
          "Open Scope string_scope.")
COQ_TYP = {"Struct": "DStruct", "StructField": "DStructField", "Enum": "DEnum", "EnumVariant": "DEnumVariant", "EnumVariantField": "DEnumVariantField",
           "Trait": "DTrait", "FnInStruct": "DFnInStruct", "FnInTypedef": "DFnInTypedef", "FnInEnum": "DFnInEnum", "FnInTrait": "DFnInTrait",
           "DefaultFnInTrait": "DDefaultFnInTrait", "Fn": "DFn", "Mod": "DMod", "Constant": "DConstant", "AssociatedConstantInEnum": "DAssociatedConstantInEnum",
           "AssociatedConstantInTrait": "DAssociatedConstantInTrait", "AssociatedConstantInStruct": "DAssociatedConstantInStruct", "Macro": "DMacro",
           "AssociatedTypeInEnum": "DAssociatedTypeInEnum", "AssociatedTypeInTrait": "DAssociatedTypeInTrait", "AssociatedTypeInStruct": "DAssociatedTypeInStruct",
           "Typedef": "DTypedef"}
assert [k for k, _ in c15_fixed.DOC_KINDS] == list(COQ_TYP)
DISP = {None: "Normal", "normal": "Normal", "compact": "Compact", "hidden": "Hidden"}
SEGS = ["foo", "bar", "baz_qux", "Item", "member", "field", "m0", "x", "Self_", "typ", "latest", "index"]
BASES = [None, "https://docs.rs/", "https://docs.rs", "https://example.org/api", "https://example.org/api/", "", "/", "https://docs.rs//", "file:///d"]
LINES = ["", " ", "A.", " A. ", "\tTabbed\t", "two  words", "`code` & <tag> \"q\"", "caf\u00e9", "a\u00a0nbsp inside", "* bullet", "# Heading", "trailing \\", "[a](b)", "   "]


def cs(s):
    b = s.encode("utf-8")
    if all(32 <= x < 127 for x in b):
        return cstr(s)
    return "(str_of_codes [" + ";".join(str(x) for x in b) + "])"


def gen_cases(ctx):
    rng = ctx.rng
    out = []
    # exhaustive: every kind x path length 1..5 x display, default generator
    for kind, _ in c15_fixed.DOC_KINDS:
        for n in range(1, 6):
            for disp in (None, "compact"):
                out.append({"lines": ["d"], "links": [{"path": (["foo", "bar", "Item", "member", "field"])[:n], "typ": kind, "disp": disp}], "default": None, "bases": []})
    n = 300 if ctx.quick() else 4000
    for _ in range(n):
        links = []
        for _ in range(rng.choice([0, 1, 1, 2, 3, 5])):
            links.append({"path": [rng.choice(SEGS) for _ in range(rng.choice([1, 1, 2, 2, 3, 3, 4, 5, 6]))], "typ": rng.choice(list(COQ_TYP)),
                          "disp": rng.choice([None, None, "normal", "compact", "compact", "hidden"])})
        keys = rng.sample(SEGS[:4], rng.choice([0, 0, 1, 2]))
        out.append({"lines": [rng.choice(LINES) for _ in range(rng.choice([0, 1, 2, 3, 4]))], "links": links,
                    "default": rng.choice(BASES), "bases": [[k, rng.choice(BASES[1:])] for k in keys]})
    return out


def coq_case(c, o):
    g = f"(mkGen {copt(cs(c['default']) if c['default'] is not None else None)} {clist(['(' + cs(k) + ', ' + cs(v) + ')' for k, v in c['bases']])})"
    links = clist([f"mkLink {clist([cs(s) for s in l['path']])} {COQ_TYP[l['typ']]} {DISP[l['disp']]}" for l in c["links"]])
    d = f"(mkDocs {clist([cs(x) for x in c['lines']])} {links})"
    obs = "None" if "panic" in o else "(Some (str_of_codes [" + ";".join(str(x) for x in o["md"]) + "]))"
    return f"agree_md {g} {d} {obs}"


def run(ctx):
    """returns (#cases, #goals, fails, kinds)"""
    cases = gen_cases(ctx)
    outs, p = oracle("docs", cases)
    if outs is None:
        raise MachineryError(f"docs oracle failed: {p.stderr[-1500:]}")
    if any("rejected" in o for o in outs):
        raise MachineryError("docs generator produced an attribute the parser rejects: " + json.dumps(cases[[i for i, o in enumerate(outs) if "rejected" in o][0]]))
    seen = set()
    for c, o in zip(cases, outs):
        if "panic" in o:
            key = "panic:docs-renderer:" + re.sub(r"[^A-Za-z]+", "-", o["panic"])[:48].strip("-")
            if key in seen:
                continue
            seen.add(key)
            # shrink: one link, no lines
            small = c
            for l in c["links"]:
                cand = dict(c, lines=[], links=[l])
                oo, _ = oracle("docs", [cand])
                if oo and "panic" in oo[0]:
                    small = cand
                    break
            ctx.violation(key, {"case": small, "what": "Docs::to_markdown (called by every backend that renders documentation) panics on a "
                                "rust_link that parsing and lowering accept: " + o["panic"][:200],
                                "rust": "#[diplomat::rust_link(" + "::".join(small["links"][0]["path"]) + ", " + small["links"][0]["typ"] + ")]" if small["links"] else ""}, True)
    goals = [coq_case(c, o) for c, o in zip(cases, outs)]
    fails = run_shards("C15", HEADER, goals, per_shard=120)
    if fails and not seen:
        i = fails[0]
        ctx.violation("corr:docs-renderer", {"case": cases[i], "observed": bytes(outs[i]["md"]).decode("utf-8", "replace") if "md" in outs[i] else outs[i],
                                             "broken": "correspondence agree_md (Docs/Model.v to_markdown vs ast::Docs::to_markdown): the model no longer reproduces the "
                                                       "documentation text the implementation renders, so C15_docs_markdown_total no longer speaks about this code; "
                                                       "no panicking input was found"}, False)
    kinds = {}
    for c in cases:
        for l in c["links"]:
            kinds[l["typ"]] = kinds.get(l["typ"], 0) + 1
    return len(cases), goals, fails, kinds
