"""C16 — slice/str views round-trip; the exported UTF-8 check is exact (DESIGN §5 C16)."""
import itertools
from common import *

TYPES = ["u8", "i8", "u16", "i16", "u32", "i32", "u64", "i64", "usize", "isize", "f32", "f64", "bool", "char"]
TEXT = "aé€😀zß한x𝄞q" * 12


def cptr(p):
    if p == "null":
        return "PNull"
    if p == "dangling":
        return "PDangling"
    if isinstance(p, dict):
        return f"(PAt {cN(p['at'])})"
    return None  # misaligned: no model value


def py_valid(bs):
    try:
        bytes(bs).decode("utf-8", errors="strict")
        return True
    except UnicodeDecodeError:
        return False


class C16(Spec):
    prop = "C16"
    cone = ["theories/Properties/C16.v"]
    header = "From Coq Require Import List NArith Bool.\nImport ListNotations.\nFrom DV Require Import Slices.Model Utf8.Model."
    area = "slices"
    list_fields = ("bytes", "prefix")
    modelled = ("Modelled, not verified: runtime/src/slices.rs conversions transcribed into Slices/Model.v over abstract pointers "
                "(NULL / offset in the caller's allocation / other non-null aligned address); core::str::from_utf8 is std code: the "
                "theorem is about Utf8/Model.v's validator, correspondence shows the exported diplomat_is_str computes it")
    rule = ("slices: every primitive element type x lengths 0..N (17 quick / 257 thorough) x {borrowed, mutable, boxed, str, boxed str, "
            "foreign-built views incl. NULL+0} with sub-slice offsets; utf8: all byte strings of length <= 2 exhaustively (one goal per prefix: "
            "the set of accepted last bytes), a seeded near-valid stream (mutated encodings), thorough adds all 3-byte strings. non-trivial = "
            "length > 0 or NULL view (slices), contains a byte >= 0x80 (utf8); distinct by full case")
    assumptions = ("pointer provenance/aliasing rules are outside the model (Miri territory)",
                   "elements are compared as bit patterns (floats incl. NaN payloads are not normalised)")

    def gen_cases(self, ctx):
        rng, cases = ctx.rng, []
        N = 17 if ctx.quick() else 257
        lens = list(range(0, 18)) if ctx.quick() else list(range(0, 258))
        for ty in TYPES:
            for ln in lens:
                for kind in ("borrow", "mut", "owned"):
                    if not ctx.quick() and ln > 17 and kind != "borrow" and ln % 16:
                        continue
                    off = rng.choice([0, 0, 1, 3])
                    cases.append({"kind": kind, "ty": ty, "n": ln + off + rng.choice([0, 2]), "off": off, "len": ln})
            for target in ("slice", "mut", "owned"):
                cases.append({"kind": "foreign", "target": target, "ty": ty, "n": 4, "off": 0, "len": 0, "null": True})
            for target in ("slice", "mut"):
                for ln in (0, 1, 5):
                    cases.append({"kind": "foreign", "target": target, "ty": ty, "n": 8, "off": 2, "len": ln, "null": False})
        for ln in lens[:40]:
            # cut on char boundaries
            bounds = [i for i in range(len(TEXT.encode()) + 1) if py_valid(TEXT.encode()[:i])]
            off = rng.choice(bounds[:10])
            end = min((b for b in bounds if b >= off + ln), default=bounds[-1])
            for kind in ("str", "ownedstr"):
                cases.append({"kind": kind, "text": TEXT, "off": off, "len": end - off})
        cases.append({"kind": "nullstr", "text": "abc", "off": 0, "len": 0})
        # utf8, exhaustive up to length 2 (thorough: 3)
        cases.append({"kind": "utf8", "bytes": []})
        cases.append({"kind": "utf8_null", "bytes": []})
        cases.append({"kind": "utf8_last", "prefix": []})
        for a in range(256):
            cases.append({"kind": "utf8_last", "prefix": [a]})
        if not ctx.quick():
            for a in range(0x80, 256):          # ascii leads add nothing over the 2-byte sweep
                for b in range(256):
                    cases.append({"kind": "utf8_last", "prefix": [a, b]})
        # near-valid stream: encodings with one mutation, truncations, concatenations
        pool = [0x24, 0x7F, 0x80, 0xA2, 0x7FF, 0x800, 0xFFF, 0x1000, 0xD7FF, 0xE000, 0xFFFD, 0xFFFF, 0x10000, 0x3FFFF, 0x40000, 0x10FFFF]
        n = 1500 if ctx.quick() else 40000
        for _ in range(n):
            bs = []
            for _ in range(rng.randint(1, 4)):
                c = rng.choice(pool) if rng.random() < 0.5 else rng.choice([rng.randrange(0, 0xD800), rng.randrange(0xE000, 0x110000)])
                bs += list(chr(c).encode("utf-8"))
            r = rng.random()
            if r < 0.3 and bs:
                i = rng.randrange(len(bs)); bs[i] = rng.choice([0x80, 0xBF, 0xC0, 0xC1, 0xE0, 0xED, 0xF0, 0xF4, 0xF5, 0xFF, 0x7F, 0xA0, 0x9F, 0x90, 0x8F, rng.randrange(256)])
            elif r < 0.5 and bs:
                bs = bs[:rng.randrange(len(bs))]
            elif r < 0.6:
                bs.insert(rng.randrange(len(bs) + 1), rng.choice([0x80, 0xBF, 0xED, 0xF4]))
            elif r < 0.65:
                # surrogates and overlongs spelled out
                bs += rng.choice([[0xED, 0xA0, 0x80], [0xED, 0xBF, 0xBF], [0xC0, 0xAF], [0xE0, 0x80, 0xAF], [0xF0, 0x80, 0x80, 0xAF],
                                  [0xF4, 0x90, 0x80, 0x80], [0xF0, 0x8F, 0xBF, 0xBF], [0xE0, 0x9F, 0xBF]])
            cases.append({"kind": "utf8", "bytes": bs})
        # the same classes of sequences behind ASCII runs of every length (word-, SIMD- or chunk-wise validators have
        # lane / boundary conditions that strings of a few bytes never reach)
        seqs = [[0x80], [0xBF], [0xC0, 0xAF], [0xC2], [0xC2, 0xA2], [0xC3, 0xA9], [0xDF, 0xBF], [0xE0, 0x80, 0xAF], [0xE0, 0xA0, 0x80], [0xE2, 0x82],
                [0xE2, 0x82, 0xAC], [0xED, 0x9F, 0xBF], [0xED, 0xA0, 0x80], [0xEF, 0xBF, 0xBF], [0xF0, 0x80, 0x80, 0xAF], [0xF0, 0x90, 0x80, 0x80],
                [0xF0, 0x9F, 0x98, 0x80], [0xF0, 0x9F, 0x98], [0xF4, 0x8F, 0xBF, 0xBF], [0xF4, 0x90, 0x80, 0x80], [0xF5, 0x80, 0x80, 0x80], [0xFF], [0x7F], [0x00]]
        tails = [[], [0x7A], [0xC3, 0xA9, 0x20, 0x74, 0x61, 0x69, 0x6C], [0x61] * 9 + [0x80]]
        for pl in range(0, 41 if ctx.quick() else 133):
            for sq in seqs:
                for tl in (tails if ctx.quick() else tails + [[0x61] * 17, [0xE2, 0x82, 0xAC] * 3]):
                    cases.append({"kind": "utf8", "bytes": [0x61 + (i % 26) for i in range(pl)] + sq + tl})
        return cases

    def direct_check(self, case, out):
        k = case["kind"]
        if k in ("utf8", "utf8_null"):
            if out["valid"] != py_valid(case["bytes"]):
                return f"diplomat_is_str({bytes(case['bytes'])!r}) = {out['valid']}, but the string is {'valid' if not out['valid'] else 'not valid'} UTF-8"
            if out.get("differing_offsets"):
                return (f"diplomat_is_str({bytes(case['bytes'])!r}) answers {not out['valid']} when the same bytes start {out['differing_offsets']} byte(s) past a "
                        f"16-aligned address (a sub-view of a larger buffer) and {out['valid']} in a fresh allocation: the answer depends on where the bytes sit")
            return None
        if k == "utf8_last":
            want = [b for b in range(256) if py_valid(case["prefix"] + [b])]
            if out["accept"] != want:
                diff = sorted(set(out["accept"]) ^ set(want))
                return f"diplomat_is_str disagrees with UTF-8 on prefix {case['prefix']} + last byte(s) {diff[:6]}"
            return None
        # slices: same pointer/length and contents; NULL+0 -> empty; references non-null and aligned
        if out["back"][0] in ("null", "misaligned"):
            return f"conversion produced a {out['back'][0]} Rust slice pointer (must be non-null and aligned)"
        if not out["deref_same"]:
            return "Deref/DerefMut disagree with the From conversion"
        if k == "foreign" and case.get("null") or k == "nullstr":
            if out["back"][1] != 0 or out["read"]:
                return "a NULL view did not become the empty slice"
            return None
        exp = out["elems"][case["off"]:case["off"] + case["len"]] if k in ("borrow", "mut", "str", "foreign") else out["elems"]
        if out["read"] != exp or out["back"][1] != len(exp):
            return f"contents/length changed in the round trip: {out['read'][:4]}.. len {out['back'][1]} vs {exp[:4]}.. len {len(exp)}"
        if k in ("borrow", "mut", "str") and (out["view"] != [{"at": case["off"]}, case["len"]] and case["len"] > 0):
            return f"view fields {out['view']} are not (ptr+{case['off']}, {case['len']})"
        if out["back"][0] != out["view"][0] and out["view"][0] != "null":
            return "pointer changed in the round trip"
        return None

    def goal_of(self, case, out):
        k = case["kind"]
        if k in ("utf8", "utf8_null"):
            return f"Bool.eqb (utf8_valid {cbytes(case['bytes'])}) {cbool(out['valid'])}"
        if k == "utf8_last":
            return f"agree_last {cbytes(case['prefix'])} {cbytes(out['accept'])}"
        vp, bp = cptr(out["view"][0]), cptr(out["back"][0])
        if vp is None or bp is None:
            return "false"
        ov = f"(mkV {vp} {cN(out['view'][1])})"
        ob = f"(mkS {bp} {cN(out['back'][1])})"
        el = cbytes(out["elems"])
        rd = cbytes(out["read"])
        if k in ("borrow", "mut", "str"):
            return f"agree_borrow {el} (mkS (PAt {cN(case['off'])}) {cN(case['len'])}) {ov} {ob} {rd}"
        if k in ("owned", "ownedstr"):
            return f"agree_owned_slice {el} (mkS (PAt 0) {cN(case['len'])}) {ov} {ob} {rd}"
        if k == "nullstr":
            return f"agree_foreign true {el} (mkV PNull 0) {ob} {rd}"
        return f"agree_foreign {cbool(case['target'] == 'owned')} {el} {ov} {ob} {rd}"

    def nontrivial_key(self, case, out):
        k = case["kind"]
        if k == "utf8_null":
            return ("null",)
        if k == "utf8":
            return ("u", tuple(case["bytes"])) if any(b >= 0x80 for b in case["bytes"]) else None
        if k == "utf8_last":
            return ("ul", tuple(case["prefix"]))
        if case.get("len", 0) > 0 or case.get("null") or k == "nullstr":
            return json.dumps(case, sort_keys=True)
        return None

    def key_of(self, case):
        return case["kind"] + ":" + case.get("ty", case.get("target", ""))

    def sample(self, case, out):
        c = dict(case)
        if "text" in c:
            c["text"] = c["text"][:12] + "..."
        o = dict(out)
        for f in ("elems", "read", "accept"):
            if f in o and len(o[f]) > 8:
                o[f] = o[f][:8] + ["..."]
        return {"case": c, "observed": o}


def check(ctx, replay=None):
    return run_property(C16(), ctx, replay)
