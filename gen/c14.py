"""C14 — deterministic, order-independent, local output (DESIGN §5 C14, partial)."""
import filecmp, shutil, re
from common import *
import e2e
from c13 import BACKENDS, CFG, type_file

PROP = "C14"
HEADER = "From Coq Require Import List Arith Bool.\nImport ListNotations.\nFrom DV Require Import Collect.Model."
INDEX_FILES = re.compile(r"(index\.(mjs|d\.ts)|lib\.g\.dart|Lib\.kt|_ext\.cpp|build\.gradle\.kts|settings\.gradle\.kts|diplomat.*|pyproject\.toml)$")

NOISE = r'''
// non-bridge modules that sort before, between and after the bridge modules and carry backend attributes of their own
#[diplomat::attr(*, rename = "Leak{0}")]
pub mod aaa_detail { pub struct Point { pub x: u8 } }
#[diplomat::attr(*, namespace = "leaked")]
mod ffi0_detail { pub struct Ty1; }
#[diplomat::attr(*, disable)]
mod ffi { pub fn nothing() {} }
#[diplomat::abi_rename = "leak_{0}"]
mod ffi1a { pub struct Ty2; }
pub struct Widget { pub unrelated: u64 }      // same name as a bridge type, outside any bridge
pub fn free_function() -> u32 { 7 }
pub mod helper {
    pub struct Ty1;
    impl Ty1 { pub fn not_ffi(&self) {} }
}
#[cxx::bridge]
mod other_bridge {
    pub struct SharedBlob { pub x: u8 }
}
#[cfg(test)]
mod tests { #[test] fn t() {} }
pub const K: u8 = 3;
'''


def gen_module_set(rng, ntypes, with_unref=True):
    """list of modules; each module = list of items ('type', name, kind, attrs) / ('impl', name, attrs, methods)"""
    names = [f"Ty{i}" for i in range(1, ntypes + 1)]
    mods = [[] for _ in range(rng.choice([1, 2, 3]))]
    home = {}
    for n in names:
        m = rng.randrange(len(mods)); home[n] = m
        mods[m].append(("type", n, rng.choice(["opaque", "opaque", "struct", "enum"])))
    mid = [0]
    for n in names:
        for _ in range(rng.choice([0, 1, 1, 2, 3])):
            attrs = rng.choice([[], [], ['#[diplomat::abi_rename = "legacy_{0}"]'], ['#[diplomat::attr(cpp, rename = "renamed_{0}")]'], ['#[diplomat::attr(dart, disable)]']])
            ms = []
            for _ in range(rng.randint(1, 3)):
                mid[0] += 1
                others = [o for o in names if o != n and o != "Ty1" and home[o] == home[n] and any(i[0] == "type" and i[1] == o and i[2] == "opaque" for i in mods[home[n]])]
                ref = rng.choice(others) if others and rng.random() < 0.4 else None
                ms.append((f"me{mid[0]}", ref))
            mods[home[n]].append(("impl", n, attrs, ms))
    return mods, home


def render(mods, order=None, drop=None, noise=""):
    """order: per module a permutation of its item indices; drop: type name to leave out"""
    out = []
    mod_order = order["mods"] if order else list(range(len(mods)))
    for mi in mod_order:
        items = mods[mi]
        idxs = order["items"][mi] if order else list(range(len(items)))
        s = f"#[diplomat::bridge]\nmod ffi{mi} {{\n"
        kinds = {i[1]: i[2] for i in items if i[0] == "type"}
        for ii in idxs:
            it = items[ii]
            if drop and it[1] == drop:
                continue
            if it[0] == "type":
                s += {"opaque": f"    #[diplomat::opaque]\n    pub struct {it[1]};\n", "struct": f"    pub struct {it[1]} {{ pub x: u8 }}\n",
                      "enum": f"    pub enum {it[1]} {{ A, B }}\n"}[it[2]]
            else:
                s += "".join(f"    {a}\n" for a in it[2]) + f"    impl {it[1]} {{\n"
                for (mn, ref) in it[3]:
                    recv = "&self" if kinds.get(it[1]) == "opaque" else "self"
                    arg = f", o: &{ref}" if (ref and ref != drop) else ""
                    s += f"        pub fn {mn}({recv}{arg}) {{}}\n"
                s += "    }\n"
        s += "}\n"
        out.append(s)
    return "".join(out) + noise


# present in every variant: one type whose header forward-declares types from several namespaces (any per-process iteration
# order in a backend shows up as a difference between identical runs)
HUB = """#[diplomat::bridge]
mod ffihub {
    #[diplomat::opaque]
    #[diplomat::attr(supports = namespacing, namespace = "aaa")]
    pub struct NsA;
    #[diplomat::opaque]
    #[diplomat::attr(supports = namespacing, namespace = "bbb")]
    pub struct NsB;
    #[diplomat::opaque]
    #[diplomat::attr(supports = namespacing, namespace = "ccc")]
    pub struct NsC;
    #[diplomat::opaque]
    #[diplomat::attr(supports = namespacing, namespace = "ddd::eee")]
    pub struct NsD;
    #[diplomat::attr(supports = namespacing, namespace = "fff")]
    pub struct NsS { pub v: u8 }
    #[diplomat::attr(supports = namespacing, namespace = "ggg")]
    pub enum NsE { P, Q }
    #[diplomat::opaque]
    pub struct Hub;
    impl Hub {
        pub fn all(&self, a: &NsA, b: &NsB, c: &NsC, d: &NsD, s: NsS, e: NsE) -> NsS { s }
        pub fn mk_a(&self) -> Box<NsA> { Box::new(NsA) }
        pub fn mk_d(&self) -> Option<Box<NsD>> { None }
    }
    impl NsB { pub fn peer(&self, c: &NsC, h: &Hub) -> NsE { NsE::P } }
    // several related lifetimes in one signature (sets of lifetimes are printed by some backends)
    #[diplomat::opaque]
    pub struct View<'v>(pub &'v Hub);
    impl Hub {
        pub fn view3<'a, 'b: 'a, 'c: 'b>(&'a self, x: &'b NsA, y: &'c NsB) -> Box<View<'a>> { Box::new(View(self)) }
        pub fn view4<'a, 'b: 'a, 'c: 'a, 'd: 'b + 'c>(&'a self, x: &'b NsA, y: &'c NsB, z: &'d NsC) -> Box<View<'a>> { Box::new(View(self)) }
    }
}
"""

# locality with traits and callbacks around: adding a type nothing refers to must leave every other file alone
FIX_BASE = """#[diplomat::bridge]
mod ffi {
    pub struct Point { pub x: i32, pub y: i32 }
    pub trait Listener {
        fn on_point(&self, p: Point) -> i32;
        fn on_tick(&self);
    }
    #[diplomat::opaque]
    pub struct Emitter(pub u8);
    impl Emitter {
        pub fn new() -> Box<Emitter> { Box::new(Emitter(0)) }
        pub fn each(f: impl Fn(i32) -> i32, x: i32) -> i32 { f(x) }
        pub fn listen(l: impl Listener, x: i32) -> i32 { l.on_point(Point { x, y: 2 }) }
    }
    #[diplomat::opaque]
    pub struct Aquiet(pub u8);
    impl Aquiet { pub fn id(&self) -> u8 { self.0 } }
%s}
"""
FIX_EXTRAS = {"enum": "    pub enum ZzUnrelated { A, B }\n", "struct": "    pub struct ZzUnrelated { pub v: u8 }\n",
              "opaque": "    #[diplomat::opaque]\n    pub struct ZzUnrelated(pub u8);\n", "early_enum": "    pub enum AaUnrelated { A, B }\n"}



SAME_BASE = """#[diplomat::bridge]
mod alpha {
    #[diplomat::opaque]
    pub struct Handle(pub u8);
    pub enum Kind { A, B }
    pub struct Point { pub x: i32, pub y: i32 }
    #[diplomat::opaque]
    pub struct User(pub u8);
    impl Handle { pub fn id(&self) -> u8 { self.0 } }
    impl User {
        pub fn new(h: &Handle, k: Kind) -> Box<User> { Box::new(User(h.0)) }
        pub fn handle(&self) -> Box<Handle> { Box::new(Handle(self.0)) }
        pub fn place(&self, p: Point) -> Point { p }
        pub fn kind(&self) -> Kind { Kind::A }
    }
}
"""
SAME_EXTRA = """#[diplomat::bridge]
#[diplomat::abi_rename = "beta_{0}"]
#[diplomat::attr(*, rename = "Beta{0}")]
mod beta {
    #[diplomat::opaque]
    pub struct Handle(pub u16);
    pub enum Kind { X, Y, Z }
    pub struct Point { pub lat: f64 }
    impl Handle { pub fn wide(&self) -> u16 { self.0 } }
}
"""


def permute(mods, rng):
    """a permutation that keeps impls after their type and the relative order of one type's impl blocks"""
    order = {"mods": list(range(len(mods))), "items": []}
    rng.shuffle(order["mods"])
    for items in mods:
        idxs = list(range(len(items)))
        for _ in range(200):
            rng.shuffle(idxs)
            pos = {ii: p for p, ii in enumerate(idxs)}
            ok = True
            for ii, it in enumerate(items):
                if it[0] == "impl":
                    tpos = [pos[j] for j, t in enumerate(items) if t[0] == "type" and t[1] == it[1]]
                    if tpos and tpos[0] > pos[ii]:
                        ok = False
            for n in {it[1] for it in items if it[0] == "impl"}:
                imp = [ii for ii, it in enumerate(items) if it[0] == "impl" and it[1] == n]
                if [pos[i] for i in imp] != sorted(pos[i] for i in imp):
                    ok = False
            if ok:
                break
        else:
            idxs = list(range(len(items)))
        order["items"].append(idxs)
    return order


def dir_files(d):
    out = {}
    for root, _, fs in os.walk(d):
        for f in fs:
            p = os.path.join(root, f)
            out[os.path.relpath(p, d)] = p
    return out


def diff_dirs(a, b, ignore=None):
    fa, fb = dir_files(a), dir_files(b)
    diffs = []
    for k in sorted(set(fa) | set(fb)):
        if ignore and ignore(k):
            continue
        if k not in fa or k not in fb:
            diffs.append(k + (" (only in second)" if k not in fa else " (only in first)"))
        elif not filecmp.cmp(fa[k], fb[k], shallow=False):
            diffs.append(k)
    return diffs


def check(ctx, replay=None):
    build_harness()
    phase = standard_proof_phase(ctx, PROP, ["theories/Properties/C14.v"])
    e2e.build_tool()
    rng = ctx.rng
    d = os.path.join(BUILD, "e2e", "c14")
    shutil.rmtree(d, ignore_errors=True)
    os.makedirs(d, exist_ok=True)
    viol, runs, goals, samples, cases = 0, 0, [], [], []
    def violate(key, obj):
        nonlocal viol
        if len(ctx.violations) < 4:
            viol += 1
            ctx.violation(key, obj, True)
    # fixed locality pairs
    for b in BACKENDS:
        o0 = os.path.join(d, f"fix_{b}_base")
        open(os.path.join(d, "fix_base.rs"), "w").write(FIX_BASE % "")
        q0 = e2e.run_tool(b, os.path.join(d, "fix_base.rs"), o0, config=CFG); runs += 1
        for tag, extra in FIX_EXTRAS.items():
            open(os.path.join(d, f"fix_{tag}.rs"), "w").write(FIX_BASE % extra)
            o1 = os.path.join(d, f"fix_{b}_{tag}")
            q1 = e2e.run_tool(b, os.path.join(d, f"fix_{tag}.rs"), o1, config=CFG); runs += 1
            if (q0.returncode == 0) != (q1.returncode == 0):
                violate(f"direct:accept:{b}", {"backend": b, "what": "adding an unreferenced type changes whether the bridge is accepted", "stderr": (q0.stderr + q1.stderr)[-600:], "src": FIX_BASE % extra})
            elif q0.returncode == 0:
                dd = diff_dirs(o0, o1, ignore=lambda k: "Unrelated" in k or INDEX_FILES.search(os.path.basename(k)) is not None)
                if dd:
                    violate(f"direct:local:{b}", {"backend": b, "what": f"adding the unreferenced {tag.replace('early_', '')} {'Aa' if 'early' in tag else 'Zz'}Unrelated changes other types' files {dd[:5]}", "src": FIX_BASE % extra})
            shutil.rmtree(o1, ignore_errors=True)
        shutil.rmtree(o0, ignore_errors=True)
    # the same Rust identifiers declared again in a second bridge module, kept apart by renames: nothing of the first module may change
    # (a lookup table keyed by the bare identifier would make references resolve to the other module's types)
    open(os.path.join(d, "same_base.rs"), "w").write(SAME_BASE)
    open(os.path.join(d, "same_extra.rs"), "w").write(SAME_BASE + SAME_EXTRA)
    for b in ("cpp", "js", "dart", "nanobind", "demo_gen"):
        o0, o1 = os.path.join(d, f"same_{b}_base"), os.path.join(d, f"same_{b}_extra")
        q0 = e2e.run_tool(b, os.path.join(d, "same_base.rs"), o0, config=CFG); q1 = e2e.run_tool(b, os.path.join(d, "same_extra.rs"), o1, config=CFG); runs += 2
        if q0.returncode != 0 or q1.returncode != 0:
            if (q0.returncode == 0) != (q1.returncode == 0):
                violate(f"direct:accept:{b}", {"backend": b, "what": "adding a second bridge module that declares the same identifiers (renamed) changes whether the bridge is accepted",
                                              "stderr": (q0.stderr + q1.stderr)[-600:], "src": SAME_BASE + SAME_EXTRA})
            continue
        dd = diff_dirs(o0, o1, ignore=lambda k: "Beta" in k or "beta" in os.path.basename(k) or INDEX_FILES.search(os.path.basename(k)) is not None)
        if dd:
            violate(f"direct:local:{b}", {"backend": b, "what": f"adding an unreferenced bridge module whose (renamed) types have the same Rust identifiers changes other types' files {dd[:5]}",
                                         "src": SAME_BASE + SAME_EXTRA})
        shutil.rmtree(o0, ignore_errors=True); shutil.rmtree(o1, ignore_errors=True)
    nsets = 2 if ctx.quick() else 12
    nperm = 3 if ctx.quick() else 10
    backends = BACKENDS
    for si in range(nsets):
        mods, home = gen_module_set(rng, rng.randint(4, 9))
        base_src = render(mods) + HUB
        variants = {"base": base_src, "again": base_src, "again2": base_src, "again3": base_src, "again4": base_src, "noise": render(mods, noise=HUB + NOISE)}
        orders = []
        for k in range(nperm):
            o = permute(mods, rng); orders.append(o)
            variants[f"perm{k}"] = render(mods, order=o) + HUB
        # a type nothing references (Ty1 is never used as an argument)
        variants["minus"] = render(mods, drop="Ty1") + HUB
        for name, src in variants.items():
            open(os.path.join(d, f"s{si}_{name}.rs"), "w").write(src)
        for b in backends:
            outs = {}
            for name in variants:
                o = os.path.join(d, f"o_{si}_{b}_{name}")
                q = e2e.run_tool(b, os.path.join(d, f"s{si}_{name}.rs"), o, config=CFG)
                runs += 1
                outs[name] = (o, q)
            if any(q.returncode != 0 for _, q in outs.values()):
                bad = [n for n, (_, q) in outs.items() if q.returncode != 0]
                if len(bad) != len(outs):
                    violate(f"direct:accept:{b}", {"backend": b, "what": f"variants {bad} are rejected/crash while others are accepted", "stderr": outs[bad[0]][1].stderr[-600:],
                                                  "src": variants[bad[0]][:3000]})
                continue
            base = outs["base"][0]
            for again in ("again", "again2", "again3", "again4"):
                dd = diff_dirs(base, outs[again][0])
                if dd:
                    violate(f"direct:rerun:{b}", {"backend": b, "what": f"two runs on the same input differ in {dd[:5]}", "src": base_src[:3000]})
                    break
            for k in range(nperm):
                dd = diff_dirs(base, outs[f"perm{k}"][0])
                if dd:
                    violate(f"direct:permute:{b}", {"backend": b, "what": f"permuting modules/items changes {dd[:5]}", "src": base_src[:3000], "permuted": variants[f'perm{k}'][:3000]})
                    break
            dd = diff_dirs(base, outs["noise"][0])
            if dd:
                violate(f"direct:nonbridge:{b}", {"backend": b, "what": f"items outside #[diplomat::bridge] modules change {dd[:5]}", "noise": NOISE})
            ty1 = {type_file(b, None, "Ty1"), type_file(b, None, "Ty1").replace(".h", ".d.h").replace(".hpp", ".d.hpp"), "Ty1.d.ts", "js/Ty1.d.ts", "js/Ty1.mjs", "Ty1.d.h", "Ty1.d.hpp", "include/Ty1.d.hpp"}
            dd = diff_dirs(base, outs["minus"][0], ignore=lambda k: k in ty1 or os.path.basename(k).startswith("Ty1.") or INDEX_FILES.search(os.path.basename(k)) is not None)
            if dd:
                violate(f"direct:local:{b}", {"backend": b, "what": f"removing the unreferenced type Ty1 changes other types' files {dd[:5]}", "src": base_src[:3000]})
            for name in variants:
                shutil.rmtree(outs[name][0], ignore_errors=True)
        # the reader's own collection order vs the model
        allnames = sorted({it[1] for items in mods for it in items}, key=lambda s: s)      # string order of identifiers
        idx = {n: i for i, n in enumerate(allnames)}
        for name in ["base", "perm0", "noise"]:
            cases.append({"src": variants[name], "set": si, "variant": name})
        outs_c, _ = oracle("collect", [{"src": variants[n]} for n in ("base", "perm0", "noise")])
        if outs_c is None:
            ctx.violation("oracle:collect", {"broken": "ast::File::from crashed on a generated source"}, False)
        else:
            for vname, oc in zip(("base", "perm0", "noise"), outs_c):
                order = None if vname != "perm0" else orders[0]
                for mi, items in enumerate(mods):
                    midx = order["items"][mi] if order else list(range(len(items)))
                    mth = {}
                    coq_items = []
                    for ii in midx:
                        it = items[ii]
                        if it[0] == "type":
                            coq_items.append(f"TypeDecl {idx[it[1]]}")
                        else:
                            ms = []
                            for (mn, _) in it[3]:
                                mth[mn] = int(mn[2:]); ms.append(str(int(mn[2:])))
                            coq_items.append(f"ImplBlock {idx[it[1]]} {clist(ms)}")
                    if vname == "noise":
                        coq_items.append("Other 0")
                    obs = next((tys for (mname, tys) in oc["modules"] if mname == f"ffi{mi}"), [])
                    obs_t = clist([f"({idx[t]}, {clist([str(int(m[2:])) for m in ms])})" for t, ms in obs if t in idx])
                    goals.append(f"agree_collect {clist(coq_items)}%nat {obs_t}%nat")
                stray = [m for m in oc["modules"] if m[0] not in [f"ffi{i}" for i in range(len(mods))] + ["ffihub"] and m[1]]
                if vname == "noise" and stray:
                    violate("direct:nonbridge-collected", {"what": f"types of modules outside #[diplomat::bridge] were collected: {stray}"})
        if si == 0:
            samples.append({"base_src": base_src[:1200], "permuted": variants["perm0"][:600]})
    fails = run_shards(PROP, HEADER, goals) if goals else []
    if fails and not ctx.violations:
        ctx.violation("corr:collect", {"broken": "correspondence goal " + goals[fails[0]][:400] + " : ast::File does not collect what Collect/Model.v derives"}, False)
    return batch_evidence(
        ctx, PROP, phase, goals, fails, runs, max(2, nsets * (nperm + 3)),
        "%d generated module sets (1-3 bridge modules, 4-9 types, several impl blocks per type incl. impl-level abi_rename / attr, methods referring "
        "to other types); for each and for all 7 backends the real CLI runs on: the same input twice (fresh processes, so different hash seeds), "
        "%d permutations of module order and item order (impls stay after their type, a type's impl blocks keep their relative order), the input plus "
        "non-bridge items (same-named struct, free fn, plain mod with a same-named type, a module under another crate's ::bridge attribute, cfg(test) "
        "mod), the input minus an unreferenced type; outputs compared byte for byte (for the removal: all files except the removed type's own and the "
        "per-library index files). Coq goals: ast::File's iteration order vs Collect/Model.v. evaluations = tool runs" % (nsets, nperm),
        "Modelled, not verified: Module::from_syn / File / Env collection into BTreeMaps (Collect/Model.v). NOT modelled: the renderers; that they never "
        "consult hash-iteration order or anything outside the type and what it references is only exercised by the differential runs (partial)",
        samples, ["index-like files that enumerate all types (index.mjs, lib.g.dart, Lib.kt, nanobind module file) are excluded from the locality comparison"],
        {"module_sets": nsets, "permutations_each": nperm, "tool_runs": runs})
