"""Shared bridge generator for the end-to-end ABI group (C01, C10, C02, C07, C09, C03-e2e).
One abstract module description is printed as Rust bridge source (method bodies log their arguments bit-exactly and
return scripted values), as a C11 driver, as a C++ driver and as Gallina terms."""
import struct as _struct

PRIMS = {  # name: (rust, c type, bits, kind)
    "u8": ("u8", "uint8_t", 8, "u"), "i8": ("i8", "int8_t", 8, "i"), "u16": ("u16", "uint16_t", 16, "u"), "i16": ("i16", "int16_t", 16, "i"),
    "u32": ("u32", "uint32_t", 32, "u"), "i32": ("i32", "int32_t", 32, "i"), "u64": ("u64", "uint64_t", 64, "u"), "i64": ("i64", "int64_t", 64, "i"),
    "usize": ("usize", "size_t", 64, "u"), "isize": ("isize", "intptr_t", 64, "i"), "f32": ("f32", "float", 32, "f"), "f64": ("f64", "double", 64, "f"),
    "bool": ("bool", "bool", 8, "b"), "char": ("DiplomatChar", "char32_t", 32, "u"), "byte": ("DiplomatByte", "uint8_t", 8, "u"),
}
CAP = {"u8": "U8", "i8": "I8", "u16": "U16", "i16": "I16", "u32": "U32", "i32": "I32", "u64": "U64", "i64": "I64", "usize": "Usize",
       "isize": "Isize", "f32": "F32", "f64": "F64", "bool": "Bool", "char": "Char", "byte": "U8"}
SLICE_PRIMS = ["u8", "i8", "u16", "i16", "u32", "i32", "u64", "i64", "usize", "isize", "f32", "f64", "bool", "char"]


class Module:
    def __init__(self, rng, n_enums=2, n_structs=3, profile="c"):
        self.rng = rng
        self.enums, self.structs = {}, {}
        for i in range(n_enums):
            k = rng.randint(1, 4)
            ds, last = [], -1
            for _ in range(k):
                last = last + 1 if rng.random() < 0.5 else rng.choice([last + 3, rng.randint(-40, 40) * 7 + 1, rng.randint(-2**31, 2**31 - 50)])
                while last in ds:
                    last += 1
                ds.append(last)
            self.enums[f"En{i}"] = ds
            # a variant is written without `= d` when that is what rustc would infer anyway
            self.enum_implicit = getattr(self, "enum_implicit", {})
            self.enum_implicit[f"En{i}"] = [(d == (ds[j - 1] + 1 if j else 0)) and rng.random() < 0.8 for j, d in enumerate(ds)]
        for i in range(n_structs):
            fields = []
            for j in range(rng.randint(1, 5)):
                r = rng.random()
                if r < 0.6:
                    t = ("prim", rng.choice([p for p in PRIMS if p != "byte"]))
                elif r < 0.72:
                    t = ("enum", rng.choice(list(self.enums)))
                elif r < 0.86 and self.structs:
                    t = ("struct", rng.choice(list(self.structs)))
                elif profile == "kotlin":
                    t = ("prim", rng.choice(["u8", "i64", "f32", "bool", "usize"]))
                else:
                    inner = rng.choice([("prim", rng.choice(["u8", "i32", "f64", "bool", "u16"])), ("enum", rng.choice(list(self.enums)))])
                    t = ("opt", "dipl", inner)
                fields.append((f"f{j}", t))
            self.structs[f"St{i}"] = fields
        if profile != "kotlin":
            # optional fields before and between non-optional ones (field order is part of the layout)
            e0 = list(self.enums)[0]
            self.structs[f"St{n_structs}"] = [("f0", ("opt", "dipl", ("prim", "u8"))), ("f1", ("prim", "u32")), ("f2", ("opt", "dipl", ("enum", e0))), ("f3", ("prim", "i16"))]

    # ---------------- values
    def rand_value(self, ty, depth=0):
        rng, k = self.rng, ty[0]
        if k == "prim":
            p = ty[1]
            rust, c, bits, kind = PRIMS[p]
            if kind == "b":
                return rng.random() < 0.5
            if p == "char":
                return rng.choice([0, 0x41, 0xD800, 0x10FFFF, 0x110000, 0xFFFFFFFF, rng.randrange(0, 2**32)])   # unvalidated: any u32
            if kind == "f":
                pool = {32: [0, 0x80000000, 0x7F800000, 0xFF800000, 0x7FC00001, 0xFFC12345, 0x3F800000, 0x00000001],
                        64: [0, 1 << 63, 0x7FF0000000000000, 0x7FF8000000000001, 0xFFF80000DEADBEEF, 0x3FF0000000000000, 1]}[bits]
                return rng.choice(pool) if rng.random() < 0.6 else rng.randrange(0, 2**bits)
            if kind == "u":
                return rng.choice([0, 1, 2**bits - 1, 2**(bits - 1), rng.randrange(0, 2**bits)])
            return rng.choice([0, -1, 2**(bits - 1) - 1, -2**(bits - 1), rng.randrange(-2**(bits - 1), 2**(bits - 1))])
        if k == "enum":
            return rng.randrange(len(self.enums[ty[1]]))
        if k == "struct":
            return {f: self.rand_value(t, depth + 1) for f, t in self.structs[ty[1]]}
        if k in ("oref", "obox", "orefret"):
            return rng.randrange(1, 10**6)
        if k in ("oopt", "oboxopt", "orefopt"):
            return None if rng.random() < 0.4 else rng.randrange(1, 10**6)
        if k == "slice":
            n = rng.choice([0, 0, 1, 2, 5])
            return [self.rand_value(("prim", ty[1])) for _ in range(n)]
        if k == "str":
            if ty[1] == "d16":
                return [rng.choice([0x41, 0xD800, 0xFFFF, 0x20AC, 0]) for _ in range(rng.choice([0, 1, 3]))]
            if ty[1] == "dstr":
                return list(rng.choice([b"", b"abc", b"\xff\xfe", "héllo".encode(), b"\x00x"]))
            return list(rng.choice(["", "abc", "héllo €", "\U0001F600", "x\u0000y"]).encode())
        if k == "opt":
            return None if rng.random() < 0.4 else [self.rand_value(ty[2], depth + 1)]
        if k == "optslice":
            return None if rng.random() < 0.4 else [[self.rand_value(("prim", ty[1])) for _ in range(rng.choice([0, 2]))]]
        if k == "optstr":
            return None if rng.random() < 0.4 else [list(rng.choice(["", "opté"]).encode())]
        if k == "res":
            arm = "ok" if rng.random() < 0.5 else "err"
            return {arm: self.rand_value(ty[1] if arm == "ok" else ty[2], depth + 1)}
        if k in ("unit", "zst"):
            return None
        if k == "ordering":
            return rng.choice([-1, 0, 1])
        raise ValueError(ty)

    def canon(self, ty, v):
        k = ty[0]
        if k == "prim":
            rust, c, bits, kind = PRIMS[ty[1]]
            if kind == "b":
                return "1" if v else "0"
            if kind == "f":
                return ("%08x" if bits == 32 else "%016x") % v
            return str(v)
        if k == "enum":
            return "e%d" % self.enums[ty[1]][v]
        if k == "struct":
            return "{" + ",".join(self.canon(t, v[f]) for f, t in self.structs[ty[1]]) + "}"
        if k in ("oref", "obox", "orefret"):
            return "#%d" % v
        if k in ("oopt", "oboxopt", "orefopt"):
            return "N" if v is None else "S(#%d)" % v
        if k == "slice":
            return "[" + " ".join(self.canon(("prim", ty[1]), x) for x in v) + "]"
        if k == "str":
            return ("w[" if ty[1] == "d16" else "s[") + " ".join(str(x) for x in v) + "]"
        if k == "opt":
            return "N" if v is None else "S(" + self.canon(ty[2], v[0]) + ")"
        if k == "optslice":
            return "N" if v is None else "S(" + self.canon(("slice", ty[1], "ref"), v[0]) + ")"
        if k == "optstr":
            return "N" if v is None else "S(" + self.canon(("str", "utf8", "ref"), v[0]) + ")"
        if k == "res":
            return "O(" + self.canon(ty[1], v["ok"]) + ")" if "ok" in v else "E(" + self.canon(ty[2], v["err"]) + ")"
        if k == "unit":
            return "()"
        if k == "zst":
            return "{}"
        if k == "ordering":
            return "o%d" % v
        raise ValueError(ty)

    # ---------------- Rust
    def rust_ty(self, ty):
        k = ty[0]
        if k == "prim": return PRIMS[ty[1]][0]
        if k in ("enum", "struct"): return ty[1]
        if k == "oref": return "&mut Op" if ty[1] else "&Op"
        if k == "oopt": return "Option<&Op>"
        if k == "obox": return "Box<Op>"
        if k == "oboxopt": return "Option<Box<Op>>"
        if k == "orefret": return "&'a Op"
        if k == "orefopt": return "Option<&'a Op>"
        if k == "slice":
            p = PRIMS[ty[1]][0]
            return {"ref": f"&[{p}]", "mut": f"&mut [{p}]", "box": f"Box<[{p}]>"}[ty[2]]
        if k == "str":
            base = {"utf8": "str", "dstr": "DiplomatStr", "d16": "DiplomatStr16"}[ty[1]]
            return f"&{base}" if ty[2] == "ref" else f"Box<{base}>"
        if k == "opt":
            return ("Option<%s>" if ty[1] == "std" else "DiplomatOption<%s>") % self.rust_ty(ty[2])
        if k == "optunit": return "Option<()>"          # only as the return of a write-out method (declaration checks)
        if k == "optslice": return f"Option<&[{PRIMS[ty[1]][0]}]>"
        if k == "optstr": return "Option<&str>"
        if k == "res":
            return "Result<%s, %s>" % (self.rust_ty(ty[1]), self.rust_ty(ty[2]))
        if k == "unit": return "()"
        if k == "zst": return "Zs"
        if k == "ordering": return "core::cmp::Ordering"
        raise ValueError(ty)

    def rust_canon(self, ty, e):
        """Rust expression (String) with the canonical text of expression e : ty"""
        k = ty[0]
        if k == "prim":
            rust, c, bits, kind = PRIMS[ty[1]]
            if kind == "b": return f'(if {e} {{ "1" }} else {{ "0" }}).to_string()'
            if kind == "f": return f'format!("{{:0{bits // 4}x}}", ({e}).to_bits())'
            return f'format!("{{}}", {e})'
        if k == "enum": return f'format!("e{{}}", ({e}) as isize)'
        if k == "struct":
            parts = [self.rust_canon(t, f"({e}).{f}") for f, t in self.structs[ty[1]]]
            return 'format!("{{{}}}", [' + ", ".join(parts) + '].join(","))'
        if k in ("oref", "obox", "orefret"): return f'format!("#{{}}", ({e}).0)'
        if k in ("oopt", "oboxopt", "orefopt"):
            return f'(match &({e}) {{ Some(x) => format!("S(#{{}})", x.0), None => "N".to_string() }})'
        if k == "slice":
            inner = self.rust_canon(("prim", ty[1]), "*x")
            return f'format!("[{{}}]", ({e}).iter().map(|x| {inner}).collect::<Vec<_>>().join(" "))'
        if k == "str":
            it = f"({e}).as_bytes().iter()" if ty[1] == "utf8" else f"({e}).iter()"
            return 'format!("%s[{}]", %s.map(|x| format!("{}", x)).collect::<Vec<_>>().join(" "))' % ("w" if ty[1] == "d16" else "s", it)
        if k == "opt":
            conv = f"({e})" if ty[1] == "std" else f"({e}).into_option()"
            return f'(match {conv} {{ Some(x) => format!("S({{}})", {self.rust_canon(ty[2], "x")}), None => "N".to_string() }})'
        if k == "optslice":
            return f'(match {e} {{ Some(x) => format!("S({{}})", {self.rust_canon(("slice", ty[1], "ref"), "x")}), None => "N".to_string() }})'
        if k == "optstr":
            return f'(match {e} {{ Some(x) => format!("S({{}})", {self.rust_canon(("str", "utf8", "ref"), "x")}), None => "N".to_string() }})'
        if k == "unit": return '"()".to_string()'
        raise ValueError(ty)

    def rust_make(self, ty, v):
        k = ty[0]
        if k == "prim":
            rust, c, bits, kind = PRIMS[ty[1]]
            if kind == "b": return "true" if v else "false"
            if kind == "f": return f"{rust}::from_bits(0x{v:x})"
            return f"({v}i128 as {rust})"
        if k == "enum":
            return f"{ty[1]}::V{v}"
        if k == "struct":
            return ty[1] + " { " + ", ".join(f"{f}: {self.rust_make(t, v[f])}" for f, t in self.structs[ty[1]]) + " }"
        if k == "obox": return f"Box::new(Op({v}))"
        if k == "oboxopt": return "None" if v is None else f"Some(Box::new(Op({v})))"
        if k == "opt":
            if v is None:
                return "None" if ty[1] == "std" else "None.into()"
            inner = self.rust_make(ty[2], v[0])
            return f"Some({inner})" if ty[1] == "std" else f"Some({inner}).into()"
        if k == "res":
            return f"Ok({self.rust_make(ty[1], v['ok'])})" if "ok" in v else f"Err({self.rust_make(ty[2], v['err'])})"
        if k == "optunit": return "None" if v is None else "Some(())"
        if k == "unit": return "()"
        if k == "zst": return "Zs {}"
        if k == "ordering": return {-1: "core::cmp::Ordering::Less", 0: "core::cmp::Ordering::Equal", 1: "core::cmp::Ordering::Greater"}[v]
        raise ValueError(ty)

    # ---------------- C
    def c_ty(self, ty):
        k = ty[0]
        if k == "prim": return PRIMS[ty[1]][1]
        if k in ("enum", "struct"): return ty[1]
        if k == "oref": return "Op*" if ty[1] else "const Op*"
        if k in ("oopt", "orefret", "orefopt"): return "const Op*"
        if k in ("obox", "oboxopt"): return "Op*"
        if k == "slice": return "Diplomat%sView%s" % (CAP[ty[1]], "" if ty[2] == "ref" else "Mut")
        if k == "str": return {"utf8": "DiplomatStringView", "dstr": "DiplomatStringView", "d16": "DiplomatString16View"}[ty[1]]
        if k == "opt":
            inner = ty[2]
            return "Option" + CAP[inner[1]] if inner[0] == "prim" else inner[1] + "_option"
        if k == "optslice": return "Option%sView" % CAP[ty[1]]
        if k == "optstr": return "OptionStringView"
        if k == "ordering": return "int8_t"
        if k == "unit": return "void"
        raise ValueError(ty)

    def c_make(self, ty, v, pre, uid):
        """C expression for value v : ty; setup statements are appended to pre; uid() gives fresh names"""
        k = ty[0]
        if k == "prim":
            rust, c, bits, kind = PRIMS[ty[1]]
            if kind == "b": return "true" if v else "false"
            if kind == "f": return f"f{bits}_bits(0x{v:x}ULL)"
            if kind == "u": return f"(({c}){v}ULL)"
            return f"(({c})({v}LL))" if v != -2**63 else f"(({c})(-9223372036854775807LL - 1))"
        if k == "enum":
            return f"{ty[1]}_V{v}"          # the constant the generated header declares
        if k == "struct":
            return f"(({ty[1]}){{" + ", ".join(f".{f} = {self.c_make(t, v[f], pre, uid)}" for f, t in self.structs[ty[1]]) + "})"
        if k == "oref":
            n = uid(); pre.append(f"Op* {n} = Op_new({v}LL);"); pre.append(("free", f"Op_destroy({n});"))
            return n
        if k == "oopt":
            if v is None: return "NULL"
            n = uid(); pre.append(f"Op* {n} = Op_new({v}LL);"); pre.append(("free", f"Op_destroy({n});"))
            return n
        if k == "slice":
            c = PRIMS[ty[1]][1]
            view = self.c_ty(ty)
            if not v:
                return f"(({view}){{NULL, 0}})"
            n = uid()
            elems = ", ".join(self.c_make(("prim", ty[1]), x, pre, uid) for x in v)
            if ty[2] == "box":   # Rust takes ownership and frees with its allocator
                pre.append(f"{c}* {n} = ({c}*)diplomat_alloc(sizeof({c}) * {len(v)}, _Alignof({c}));")
                pre.append(f"{{ {c} tmp[] = {{{elems}}}; memcpy({n}, tmp, sizeof tmp); }}")
            else:
                pre.append(f"{c} {n}[] = {{{elems}}};")
            return f"(({view}){{{n}, {len(v)}}})"
        if k == "str":
            view = self.c_ty(ty)
            c = "char16_t" if ty[1] == "d16" else "char"
            if not v:
                return f"(({view}){{NULL, 0}})"
            n = uid()
            elems = ", ".join(f"({c}){x}" for x in v)
            if ty[2] == "box":
                pre.append(f"{c}* {n} = ({c}*)diplomat_alloc(sizeof({c}) * {len(v)}, _Alignof({c}));")
                pre.append(f"{{ {c} tmp[] = {{{elems}}}; memcpy({n}, tmp, sizeof tmp); }}")
            else:
                pre.append(f"{c} {n}[] = {{{elems}}};")
            return f"(({view}){{{n}, {len(v)}}})"
        if k == "opt":
            t = self.c_ty(ty)
            if v is None:
                # a stale payload in the None arm must be ignored
                n = uid(); pre.append(f"{t} {n}; memset(&{n}, 0x5A, sizeof {n}); {n}.is_ok = false;")
                return n
            return f"(({t}){{ {{ {self.c_make(ty[2], v[0], pre, uid)} }}, true }})"
        if k == "optslice":
            t = self.c_ty(ty)
            if v is None: return f"(({t}){{ .is_ok = false }})"
            return f"(({t}){{ {{ {self.c_make(('slice', ty[1], 'ref'), v[0], pre, uid)} }}, true }})"
        if k == "optstr":
            t = self.c_ty(ty)
            if v is None: return f"(({t}){{ .is_ok = false }})"
            return f"(({t}){{ {{ {self.c_make(('str', 'utf8', 'ref'), v[0], pre, uid)} }}, true }})"
        raise ValueError(ty)

    def c_print(self, ty, e, out, uid, cpp=False):
        """append C statements printing the canonical text of expression e : ty"""
        k = ty[0]
        if k == "prim":
            rust, c, bits, kind = PRIMS[ty[1]]
            if kind == "b": out.append(f'printf("%d", (int)({e}));')
            elif kind == "f": out.append(f'printf("%0{bits // 4}llx", (unsigned long long)bits_f{bits}({e}));')
            elif kind == "u": out.append(f'printf("%llu", (unsigned long long)({e}));')
            else: out.append(f'printf("%lld", (long long)({e}));')
        elif k == "enum":
            out.append(f'printf("e%lld", (long long)({e}));')
        elif k == "struct":
            out.append('printf("{");')
            for i, (f, t) in enumerate(self.structs[ty[1]]):
                if i: out.append('printf(",");')
                self.c_print(t, f"({e}).{f}", out, uid, cpp)
            out.append('printf("}");')
        elif k in ("obox",):
            n = uid(); out.append(f"{{ Op* {n} = {e}; printf(\"#%lld\", (long long)Op_id({n})); Op_destroy({n}); }}")
        elif k in ("orefret",):
            out.append(f'printf("#%lld", (long long)Op_id({e}));')
        elif k in ("oboxopt", "orefopt"):
            n = uid()
            fr = f"Op_destroy((Op*){n});" if k == "oboxopt" else ""
            out.append(f'{{ const Op* {n} = {e}; if ({n}) {{ printf("S(#%lld)", (long long)Op_id({n})); {fr} }} else printf("N"); }}')
        elif k == "opt":
            n = uid(); out.append(f"{{ {self.c_ty(ty)} {n} = {e}; if ({n}.is_ok) {{ printf(\"S(\");")
            self.c_print(ty[2], f"{n}.ok", out, uid, cpp)
            out.append('printf(")"); } else printf("N"); }')
        elif k == "ordering":
            out.append(f'printf("o%d", (int)({e}));')
        else:
            raise ValueError(ty)


# ------------------------------------------------------------------ methods and scenarios

def gen_methods(mod, n, rng, profile="c"):
    enums, structs = list(mod.enums), list(mod.structs)
    def prim(): return ("prim", rng.choice([p for p in PRIMS if p != "byte"]))
    def small(): return rng.choice([prim(), ("enum", rng.choice(enums)), ("struct", rng.choice(structs))])
    def param():
        r = rng.random()
        if r < 0.30: return prim()
        if r < 0.38: return ("enum", rng.choice(enums))
        if r < 0.48: return ("struct", rng.choice(structs))
        if r < 0.54: return ("oref", False)
        if r < 0.58: return ("oopt",)
        if r < 0.70: return ("slice", rng.choice(SLICE_PRIMS), rng.choice(["ref", "ref", "mut", "box"]))
        if r < 0.80: return ("str", rng.choice(["utf8", "dstr", "d16"]), rng.choice(["ref", "ref", "box"]))
        if r < 0.93: return ("opt", rng.choice(["std", "dipl"]), small())
        if r < 0.97: return ("optslice", rng.choice(["u8", "u16", "i32", "f64"]))
        return ("optstr",)
    def ret(has_self):
        r = rng.random()
        if r < 0.12: return ("unit",)
        if r < 0.30: return prim()
        if r < 0.36: return ("enum", rng.choice(enums))
        if r < 0.46: return ("struct", rng.choice(structs))
        if r < 0.52: return ("obox",)
        if r < 0.56: return ("oboxopt",)
        if r < 0.60 and has_self: return ("orefret",)
        if r < 0.63 and has_self: return ("orefopt",)
        if r < 0.78: return ("opt", rng.choice(["std", "dipl"]), small())
        if r < 0.97:
            arm = lambda ok: rng.choice([("unit",), prim(), ("enum", rng.choice(enums)), ("struct", rng.choice(structs)), ("zst",)] + ([("obox",)] if ok else []))
            return ("res", arm(True), arm(False))
        return ("ordering",)
    def allowed(t, is_ret=False):
        """restrict to what a backend's own feature profile accepts (decided by trying; see C07)"""
        if profile == "c":
            return True
        k = t[0]
        if profile == "dart":
            if k in ("optslice", "optstr"): return False
            if k in ("slice", "str") and t[2] == "box": return False
            if k == "zst" or (k == "res" and ("zst",) in t[1:]): return False
            return True
        if profile == "kotlin":
            if k in ("optslice", "optstr", "zst"): return False
            if k == "opt" and not is_ret: return False
            if k in ("slice", "str") and t[2] != "ref": return False
            if k == "str" and t[1] == "utf8": return False
            if k == "res": return t[2] == ("unit",) and allowed(t[1], True) and t[1][0] != "zst"
            if k == "opt": return t[2][0] == "prim"
            if k == "struct": return all(ft[0] != "opt" for _, ft in mod.structs[t[1]])
            if k in ("orefret", "orefopt", "ordering"): return False
            return True
        return True
    methods = []
    for i in range(n):
        self_kind = rng.choice([None, "ref", "ref", "mut"])
        ps = [(f"p{j}", param()) for j in range(rng.randint(0, 4))]
        ps = [(nm, t) for nm, t in ps if allowed(t)]
        if self_kind == "mut":
            ps = [(nm, t) for nm, t in ps if t[0] not in ("oref", "oopt")] + []
        r = ret(self_kind == "ref")
        for _ in range(20):
            if allowed(r, True):
                break
            r = ret(self_kind == "ref")
        else:
            r = ("prim", "u8")
        write = rng.random() < 0.15 and (r[0] == "unit" or (r[0] == "res" and r[1][0] == "unit"))
        if i == 0:
            r, write = ("unit",), True                       # every bridge has write-out methods of both shapes
        elif i == 1:
            r, write = ("res", ("unit",), rng.choice([("enum", rng.choice(enums)), prim()]) if profile != "kotlin" else ("unit",)), True
        methods.append({"name": f"m{i}", "self": self_kind, "params": ps, "ret": r, "write": write,
                        "rets": [mod.rand_value(r) for _ in range(3)] if r[0] not in ("orefret", "orefopt") else [None, None, None]})
    return methods


def paired_spelling_methods(mod, rng):
    """C10: methods that differ only in the spelling of Option (std vs DiplomatOption), in parameter and return position"""
    out, i = [], 0
    inners = [("prim", p) for p in ("u8", "i16", "u32", "i64", "f32", "f64", "bool", "char", "usize")] + \
             [("enum", e) for e in mod.enums] + [("struct", s) for s in mod.structs]
    for inner in inners:
        rets = [mod.rand_value(("opt", "std", inner)) for _ in range(3)]
        rets[0], rets[1] = None, rets[1] if rets[1] is not None else [mod.rand_value(inner)]
        for sp in ("std", "dipl"):
            out.append({"name": f"pp{i}_{sp}", "self": None, "params": [("a", ("opt", sp, inner)), ("b", ("prim", "u8"))], "ret": ("opt", sp, inner),
                        "write": False, "rets": rets, "pair": i})
        i += 1
    return out


def rust_source(mod, methods, extra_items=""):
    L = ["#[diplomat::bridge]", "mod ffi {",
         "    #[allow(unused_imports)]",
         "    use diplomat_runtime::{DiplomatWrite, DiplomatStr, DiplomatStr16, DiplomatOption, DiplomatChar, DiplomatByte};",
         "    #[allow(unused_imports)]", "    use core::fmt::Write;"]
    for e, ds in mod.enums.items():
        L.append(f"    pub enum {e} {{ " + ", ".join((f"V{i}" if mod.enum_implicit[e][i] else f"V{i} = {d}") for i, d in enumerate(ds)) + " }")
    for s, fs in mod.structs.items():
        L.append(f"    pub struct {s} {{ " + ", ".join(f"pub {f}: {mod.rust_ty(t)}" for f, t in fs) + " }")
    L += ["    pub struct Zs {}", "    #[diplomat::opaque]", "    pub struct Op(pub i64);", "    impl Op {",
          "        pub fn new(id: i64) -> Box<Op> { Box::new(Op(id)) }",
          "        pub fn id(&self) -> i64 { self.0 }",
          "        pub fn set_sel(n: u32) { crate::SEL.store(n, core::sync::atomic::Ordering::SeqCst) }",
          "        pub fn take_log(w: &mut DiplomatWrite) { let s = core::mem::take(&mut *crate::LOG.lock().unwrap()); let _ = w.write_str(&s); }"]
    for m in methods:
        lt = "<'a>" if m["ret"][0] in ("orefret", "orefopt") else ""
        recv = {None: [], "ref": ["&'a self" if lt else "&self"], "mut": ["&mut self"]}[m["self"]]
        ps = recv + [f"{n}: {mod.rust_ty(t)}" for n, t in m["params"]] + (["w: &mut DiplomatWrite"] if m["write"] else [])
        rt = "" if m["ret"][0] == "unit" else " -> " + mod.rust_ty(m["ret"])
        logs = ([mod.rust_canon(("oref", False), "self")] if m["self"] else []) + [mod.rust_canon(t, n) for n, t in m["params"]]
        body = f'crate::log(format!("{m["name"]}({{}})", [' + ", ".join(logs) + '].join(";")));' if logs else f'crate::log("{m["name"]}()".to_string());'
        if m["write"]:
            body += f' let _ = w.write_str("wr-{m["name"]}-"); let _ = write!(w, "{{}}", crate::sel());'
        k = m["ret"][0]
        if k == "orefret":
            body += " self"
        elif k == "orefopt":
            body += " if crate::sel() == 0 { None } else { Some(self) }"
        elif k != "unit":
            body += " match crate::sel() { " + " ".join(f"{i} => {mod.rust_make(m['ret'], v)}," for i, v in enumerate(m["rets"][:2])) + \
                    f" _ => {mod.rust_make(m['ret'], m['rets'][2])} }}"
        L.append(f"        pub fn {m['name']}{lt}({', '.join(ps)}){rt} {{ {body} }}")
    L += ["    }", "}",
          "pub static SEL: core::sync::atomic::AtomicU32 = core::sync::atomic::AtomicU32::new(0);",
          "pub static LOG: std::sync::Mutex<String> = std::sync::Mutex::new(String::new());",
          "pub fn sel() -> u32 { SEL.load(core::sync::atomic::Ordering::SeqCst) }",
          "pub fn log(s: String) { let mut l = LOG.lock().unwrap(); l.push_str(&s); l.push('\\n'); }",
          "#[no_mangle] pub extern \"C\" fn verif_layout(t: u32, k: u32) -> usize {", "    match (t, k) {"]
    for ti, (s, fs) in enumerate(mod.structs.items()):
        L.append(f"        ({ti}, 0) => core::mem::size_of::<ffi::{s}>(), ({ti}, 1) => core::mem::align_of::<ffi::{s}>(),")
        for fi, (f, t) in enumerate(fs):
            L.append(f"        ({ti}, {fi + 2}) => core::mem::offset_of!(ffi::{s}, {f}),")
    L += ["        _ => usize::MAX,", "    }", "}", extra_items]
    return "\n".join(L) + "\n"


def scenarios(mod, methods, rng, per_method=3):
    calls = []
    for m in methods:
        for s in range(per_method):
            args = [mod.rand_value(t) for _, t in m["params"]]
            selfv = rng.randrange(1, 10**6) if m["self"] else None
            calls.append({"m": m, "sel": s % 3, "self": selfv, "args": args})
    return calls


def expected(mod, call):
    m = call["m"]
    parts = ([mod.canon(("oref", False), call["self"])] if m["self"] else []) + [mod.canon(t, v) for (n, t), v in zip(m["params"], call["args"])]
    log = f"{m['name']}({';'.join(parts)})"
    k = m["ret"][0]
    if k == "orefret":
        ret = "#%d" % call["self"]
    elif k == "orefopt":
        ret = "N" if call["sel"] == 0 else "S(#%d)" % call["self"]
    else:
        ret = mod.canon(m["ret"], m["rets"][min(call["sel"], 2)])
    wr = f"wr-{m['name']}-{call['sel']}" if m["write"] else None
    return log, ret, wr


C_PRELUDE = r'''
#include <stdio.h>
#include <stdint.h>
#include <string.h>
#include <uchar.h>
#include "Op.h"
static float f32_bits(unsigned long long b) { uint32_t x = (uint32_t)b; float f; memcpy(&f, &x, 4); return f; }
static double f64_bits(unsigned long long b) { uint64_t x = b; double f; memcpy(&f, &x, 8); return f; }
static unsigned long long bits_f32(float f) { uint32_t x; memcpy(&x, &f, 4); return x; }
static unsigned long long bits_f64(double f) { uint64_t x; memcpy(&x, &f, 8); return x; }
size_t verif_layout(uint32_t t, uint32_t k);
void* diplomat_alloc(size_t size, size_t align);   /* exported by diplomat-runtime; not declared in diplomat_runtime.h */
static void dump_log(void) {
  DiplomatWrite* w = diplomat_buffer_write_create(64);
  Op_take_log(w);
  printf("log %.*s|\n", (int)diplomat_buffer_write_len(w), diplomat_buffer_write_get_bytes(w));
  diplomat_buffer_write_destroy(w);
}
'''


def c_driver(mod, methods, calls):
    cnt = [0]
    def uid():
        cnt[0] += 1
        return f"v{cnt[0]}"
    L = [C_PRELUDE, "int main(void) {"]
    for ti, (s, fs) in enumerate(mod.structs.items()):
        L.append(f'  printf("layout {s} c %zu %zu' + " %zu" * len(fs) + f'\\n", sizeof({s}), _Alignof({s})' + "".join(f", offsetof({s}, {f})" for f, _ in fs) + ");")
        L.append(f'  printf("layout {s} r %zu %zu' + " %zu" * len(fs) + f'\\n", verif_layout({ti}, 0), verif_layout({ti}, 1)' +
                 "".join(f", verif_layout({ti}, {i + 2})" for i in range(len(fs))) + ");")
    for ci, call in enumerate(calls):
        m, pre, out = call["m"], [], []
        args = []
        if m["self"]:
            args.append(mod.c_make(("oref", m["self"] == "mut"), call["self"], pre, uid))
        for (n, t), v in zip(m["params"], call["args"]):
            args.append(mod.c_make(t, v, pre, uid))
        wname = None
        if m["write"]:
            wname = uid(); pre.append(f"DiplomatWrite* {wname} = diplomat_buffer_write_create(4);"); args.append(wname)
        setup = [p for p in pre if isinstance(p, str)]
        frees = [p[1] for p in pre if isinstance(p, tuple)]
        L.append("  {")
        L += ["    " + s for s in setup]
        L.append(f"    Op_set_sel({call['sel']});")
        callx = f"Op_{m['name']}({', '.join(args)})"
        rt = m["ret"]
        if rt[0] == "unit":
            L.append(f"    {callx}; printf(\"call {ci} ret=()\");")
        elif rt[0] == "res":
            r = uid()
            L.append(f"    Op_{m['name']}_result {r} = {callx}; printf(\"call {ci} ret=\");")
            for arm, fld, t in (("O", "ok", rt[1]), ("E", "err", rt[2])):
                cond = f"{r}.is_ok" if arm == "O" else f"!{r}.is_ok"
                inner = []
                if t[0] in ("unit", "zst"):
                    inner.append('printf("()");' if t[0] == "unit" else 'printf("{}");')
                else:
                    mod.c_print(t, f"{r}.{fld}", inner, uid)
                L.append(f"    if ({cond}) {{ printf(\"{arm}(\"); " + " ".join(inner) + ' printf(")"); }')
        elif rt[0] == "opt":
            r = uid()
            L.append(f"    Op_{m['name']}_result {r} = {callx}; printf(\"call {ci} ret=\");")
            inner = []
            mod.c_print(rt[2], f"{r}.ok", inner, uid)
            L.append(f"    if ({r}.is_ok) {{ printf(\"S(\"); " + " ".join(inner) + ' printf(")"); } else printf("N");')
        else:
            r = uid()
            L.append(f"    {mod.c_ty(rt)} {r} = {callx}; printf(\"call {ci} ret=\");")
            inner = []
            mod.c_print(rt, r, inner, uid)
            L += ["    " + s for s in inner]
        if wname:
            L.append(f'    printf(" wr=%.*s", (int)diplomat_buffer_write_len({wname}), diplomat_buffer_write_get_bytes({wname})); diplomat_buffer_write_destroy({wname});')
        L.append('    printf("\\n");')
        L += ["    " + s for s in frees]
        L.append("    dump_log();")
        L.append("  }")
    L.append("  return 0;\n}")
    return "\n".join(L)


# ------------------------------------------------------------------ C++ driver (C02)

CPP_PRELUDE = r'''
#include <cstdio>
#include <cstdint>
#include <cstring>
#include <string>
#include <string_view>
#include <optional>
#include <memory>
#include "Op.hpp"
extern "C" void* diplomat_alloc(size_t size, size_t align);
static float f32_bits(unsigned long long b) { uint32_t x = (uint32_t)b; float f; memcpy(&f, &x, 4); return f; }
static double f64_bits(unsigned long long b) { uint64_t x = b; double f; memcpy(&f, &x, 8); return f; }
static unsigned long long bits_f32(float f) { uint32_t x; memcpy(&x, &f, 4); return x; }
static unsigned long long bits_f64(double f) { uint64_t x; memcpy(&x, &f, 8); return x; }
static void dump_log() { std::string s = Op::take_log(); printf("log %s|\n", s.c_str()); }
'''


def cpp_ty(mod, ty):
    k = ty[0]
    if k == "prim": return PRIMS[ty[1]][1]
    if k in ("enum", "struct"): return ty[1]
    if k == "zst": return "Zs"
    if k == "opt": return f"std::optional<{cpp_ty(mod, ty[2])}>"
    raise ValueError(ty)


def cpp_make(mod, ty, v, pre, uid):
    k = ty[0]
    if k == "prim":
        rust, c, bits, kind = PRIMS[ty[1]]
        if kind == "b": return "true" if v else "false"
        if kind == "f": return f"f{bits}_bits(0x{v:x}ULL)"
        if kind == "u": return f"(({c}){v}ULL)"
        return f"(({c})({v}LL))" if v != -2**63 else f"(({c})(-9223372036854775807LL - 1))"
    if k == "enum":
        return f"{ty[1]}({ty[1]}::V{v})"
    if k == "struct":
        return ty[1] + "{" + ", ".join(cpp_make(mod, t, v[f], pre, uid) for f, t in mod.structs[ty[1]]) + "}"
    if k == "oref":
        n = uid(); pre.append(f"std::unique_ptr<Op> {n} = Op::new_({v}LL);")
        return f"*{n}"
    if k == "oopt":
        if v is None: return "nullptr"
        n = uid(); pre.append(f"std::unique_ptr<Op> {n} = Op::new_({v}LL);")
        return f"{n}.get()"
    if k == "slice":
        c = PRIMS[ty[1]][1]
        const = "const " if ty[2] == "ref" else ""
        if not v:
            return f"diplomat::span<{const}{c}>(({const}{c}*)nullptr, (size_t)0)"
        n = uid()
        elems = ", ".join(cpp_make(mod, ("prim", ty[1]), x, pre, uid) for x in v)
        if ty[2] == "box":
            pre.append(f"{c}* {n} = ({c}*)diplomat_alloc(sizeof({c}) * {len(v)}, alignof({c}));")
            pre.append(f"{{ {c} tmp[] = {{{elems}}}; memcpy({n}, tmp, sizeof tmp); }}")
        else:
            pre.append(f"{c} {n}[] = {{{elems}}};")
        return f"diplomat::span<{const}{c}>({n}, (size_t){len(v)})"
    if k == "str":
        wide = ty[1] == "d16"
        c, view = ("char16_t", "std::u16string_view") if wide else ("char", "std::string_view")
        if not v:
            return f"{view}()"
        n = uid()
        elems = ", ".join(f"({c}){x}" for x in v)
        if ty[2] == "box":
            pre.append(f"{c}* {n} = ({c}*)diplomat_alloc(sizeof({c}) * {len(v)}, alignof({c}));")
            pre.append(f"{{ {c} tmp[] = {{{elems}}}; memcpy({n}, tmp, sizeof tmp); }}")
        else:
            pre.append(f"{c} {n}[] = {{{elems}}};")
        return f"{view}({n}, (size_t){len(v)})"
    if k == "opt":
        t = cpp_ty(mod, ty)
        return "std::nullopt" if v is None else f"{t}({cpp_make(mod, ty[2], v[0], pre, uid)})"
    if k == "optslice":
        c = PRIMS[ty[1]][1]
        return "std::nullopt" if v is None else f"std::optional<diplomat::span<const {c}>>({cpp_make(mod, ('slice', ty[1], 'ref'), v[0], pre, uid)})"
    if k == "optstr":
        return "std::nullopt" if v is None else f"std::optional<std::string_view>({cpp_make(mod, ('str', 'utf8', 'ref'), v[0], pre, uid)})"
    raise ValueError(ty)


def cpp_print(mod, ty, e, out, uid):
    k = ty[0]
    if k == "prim":
        rust, c, bits, kind = PRIMS[ty[1]]
        if kind == "b": out.append(f'printf("%d", (int)({e}));')
        elif kind == "f": out.append(f'printf("%0{bits // 4}llx", (unsigned long long)bits_f{bits}({e}));')
        elif kind == "u": out.append(f'printf("%llu", (unsigned long long)({e}));')
        else: out.append(f'printf("%lld", (long long)({e}));')
    elif k == "enum":
        out.append(f'printf("e%lld", (long long)({e}).AsFFI());')
    elif k == "struct":
        n = uid(); out.append(f"{{ const {ty[1]}& {n} = {e}; printf(\"{{\");")
        for i, (f, t) in enumerate(mod.structs[ty[1]]):
            if i: out.append('printf(",");')
            cpp_print(mod, t, f"{n}.{f}", out, uid)
        out.append('printf("}"); }')
    elif k == "zst":
        out.append('printf("{}");')
    elif k == "unit":
        out.append('printf("()");')
    elif k == "obox":
        out.append(f'printf("#%lld", (long long)({e})->id());')
    elif k == "orefret":
        # `const Op&` directly, std::reference_wrapper<const Op> inside diplomat::result / std::optional
        out.append(f'printf("#%lld", (long long)(static_cast<const Op&>({e})).id());')
    elif k in ("oboxopt", "orefopt"):
        n = uid(); out.append(f'{{ const Op* {n} = {e}{".get()" if k == "oboxopt" else ""}; if ({n}) printf("S(#%lld)", (long long){n}->id()); else printf("N"); }}')
    elif k == "opt":
        n = uid(); out.append(f"{{ const auto& {n} = {e}; if ({n}.has_value()) {{ printf(\"S(\");")
        cpp_print(mod, ty[2], f"{n}.value()", out, uid)
        out.append('printf(")"); } else printf("N"); }')
    elif k == "ordering":
        out.append(f'printf("o%d", (int)({e}));')
    else:
        raise ValueError(ty)


def has_direct_str(m):
    return any(t[0] == "str" and t[1] == "utf8" for _, t in m["params"])


def cpp_driver(mod, methods, calls):
    cnt = [0]
    def uid():
        cnt[0] += 1
        return f"v{cnt[0]}"
    L = [CPP_PRELUDE, "int main() {"]
    for ci, call in enumerate(calls):
        m, pre, args = call["m"], [], []
        selfx = None
        if m["self"]:
            n = uid(); pre.append(f"std::unique_ptr<Op> {n} = Op::new_({call['self']}LL);"); selfx = n
        for (pn, t), v in zip(m["params"], call["args"]):
            args.append(cpp_make(mod, t, v, pre, uid))
        L.append("  {")
        L += ["    " + s for s in pre]
        L.append(f"    Op::set_sel({call['sel']});")
        name = m["name"]
        callx = (f"{selfx}->{name}" if selfx else f"Op::{name}") + "(" + ", ".join(args) + ")"
        rt = m["ret"]
        r = uid()
        is_void = rt[0] == "unit" and not m["write"] and not has_direct_str(m)
        L.append(f"    {callx};" if is_void else f"    auto&& {r}0 = {callx};")
        L.append(f'    printf("call {ci} ret=");')
        cur = None if is_void else f"{r}0"
        close = []
        if has_direct_str(m):
            # generated wrapper validates UTF-8 first: result<R, Utf8Error>
            L.append(f'    if ({cur}.is_err()) {{ printf("UTF8ERR"); }} else {{')
            close.append("    }")
            if rt[0] == "unit" and not m["write"]:
                L.append('    printf("()");')
                cur = None
            else:
                L.append(f"    auto {r}1 = std::move({cur}).ok().value();")
                cur = f"{r}1"
        inner = []
        if is_void:
            inner.append('printf("()");')
        elif cur is None:
            pass
        elif m["write"]:
            if rt[0] == "res":
                inner.append(f'if ({cur}.is_ok()) {{ printf("O(())"); printf(" wr=%s", std::move({cur}).ok().value().c_str()); }} else {{ printf("E(");')
                ev = uid(); inner.append(f"auto {ev} = std::move({cur}).err().value();")
                if rt[2][0] in ("unit",): inner.append('printf("()");')
                else: cpp_print(mod, rt[2], ev, inner, uid)
                inner.append('printf(")"); }')
            else:
                inner.append(f'printf("() wr=%s", {cur}.c_str());')
        elif rt[0] == "unit":
            inner.append('printf("()");')
        elif rt[0] == "res":
            inner.append(f"if ({cur}.is_ok()) {{ printf(\"O(\");")
            if rt[1][0] == "unit": inner.append('printf("()");')
            else:
                ov = uid(); inner.append(f"auto {ov} = std::move({cur}).ok().value();"); cpp_print(mod, rt[1], ov, inner, uid)
            inner.append('printf(")"); } else { printf("E(");')
            if rt[2][0] == "unit": inner.append('printf("()");')
            else:
                ev = uid(); inner.append(f"auto {ev} = std::move({cur}).err().value();"); cpp_print(mod, rt[2], ev, inner, uid)
            inner.append('printf(")"); }')
        else:
            cpp_print(mod, rt, cur, inner, uid)
        L += ["    " + s for s in inner] + close
        L.append('    printf("\\n");')
        L.append("    dump_log();")
        L.append("  }")
    L.append("  return 0;\n}")
    return "\n".join(L)


def cpp_scenarios(mod, methods, rng, per_method=3):
    """like scenarios(), plus, for every directly passed &str parameter position of every method, one call with invalid
    UTF-8 in exactly that position (must be rejected on the C++ side, whatever the other arguments are)"""
    calls = scenarios(mod, methods, rng, per_method)
    bad = [[0xFF, 0x61], [0xC3], [0xED, 0xA0, 0x80], [0x61, 0xF4, 0x90, 0x80, 0x80], [0xC0, 0xAF]]
    for m in methods:
        idx = [i for i, (_, t) in enumerate(m["params"]) if t[0] == "str" and t[1] == "utf8" and t[2] == "ref"]
        for i in idx:
            args = [mod.rand_value(t) for _, t in m["params"]]
            args[i] = rng.choice(bad)
            calls.append({"m": m, "sel": 0, "self": rng.randrange(1, 10**6) if m["self"] else None, "args": args, "invalid_utf8": True})
    return calls


def expected_cpp(mod, call):
    if call.get("invalid_utf8"):
        return "", "UTF8ERR", None
    log, ret, wr = expected(mod, call)
    if wr is not None and ret.startswith("E("):
        wr = None          # diplomat::result<std::string, E>: the string only exists in the Ok arm
    return log, ret, wr
