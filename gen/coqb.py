#!/usr/bin/env python3
import sys, os
sys.path.insert(0, os.path.dirname(os.path.abspath(__file__)))
import common
ok, log = common.build_coq(sys.argv[1:] or None, timeout=3000)
print(log[-6000:])
sys.exit(0 if ok else 1)
