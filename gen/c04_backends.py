"""C04, second half: what the managed backends attach to the returned object.  The generated JS / Dart / Kotlin /
nanobind code of accepted bridges is parsed: per-method edge arrays, the arguments of the returned object's constructor,
append arrays of struct parameters, and the struct-level accessors / forwarding (JS, Dart).  Everything required by the
independent reading of Rust's rules (c04gen.spec_map) must be there; more is allowed."""
import os, re, shutil
from common import *
import e2e
import c04gen as G

ATTR = {"js": "js", "dart": "dart", "kotlin": "kotlin", "nanobind": "nanobind"}
CFG = 'lib-name = "somelib"\n[kotlin]\ndomain = "dev.verif"\n'


def backend_ok(m):
    """shapes every managed backend can render: no 'static inside the return type (js/dart panic on it: C15), no struct errors"""
    for t in m["ret"]:
        if "static" in G.ty_lts(t):
            return False
    if m["wrap"] == "result2":
        return False
    if m.get("elided_ret"):
        return False
    for t in m["params"]:
        if t[0] == "slice" and t[1]:
            return False                    # Option<slice>
        if "static" in G.ty_lts(t):
            return False                    # &'static str needs static_slices
    return True


def source(D, ms, backend, disabled):
    out = ["#[diplomat::bridge]", "mod ffi {", "    #[allow(unused_imports)]",
           "    use diplomat_runtime::{DiplomatStr, DiplomatStrSlice, DiplomatSlice, DiplomatOption};"]
    for name in G.ORDER:
        if name in disabled:
            out.append(f"    #[diplomat::attr({ATTR[backend]}, disable)]")
        out.append(G.r_def(D, name))
    for m in ms:
        out.append(f"    {G.r_impl_header(m)} {{")
        if f"{m['owner']}::{m['name']}" in disabled:
            out.append(f"        #[diplomat::attr({ATTR[backend]}, disable)]")
        out.append(G.r_method(m, with_attr=True))
        out.append("    }")
    out.append("}")
    return "\n".join(out) + "\n"


def generate(D, ms, backend, d):
    """run the real tool, disabling what this backend cannot lower; returns (outdir, disabled) or (None, reason)"""
    disabled = set()
    os.makedirs(d, exist_ok=True)
    open(os.path.join(d, "cfg.toml"), "w").write(CFG)
    for _ in range(5):
        open(os.path.join(d, "lib.rs"), "w").write(source(D, ms, backend, disabled))
        out = os.path.join(d, "out_" + backend)
        p = e2e.run_tool(backend, os.path.join(d, "lib.rs"), out, config_file=os.path.join(d, "cfg.toml"))
        if p.returncode == 0:
            return out, disabled
        errs = set(re.findall(r"Lowering error in ([\w:]+): ", p.stderr)) | set(re.findall(r"Found errors whilst generating [^\n]*?([A-Z]\w+::\w+)", p.stderr))
        errs |= {x.replace(".", "::") for x in re.findall(r"\[([A-Z]\w+[:.]+\w+)\]", p.stderr)}
        if "panicked at" in p.stderr or not errs or errs <= disabled:
            return None, p.stderr[-600:]
        disabled |= errs
        # a method that mentions a disabled definition goes with it (the tool does not object to such a method, it emits nonsense)
        changed = True
        while changed:
            changed = False
            for name in G.ORDER:
                if name not in disabled and any(t[0] == "struct" and t[2] in disabled for _, t in D.d[name]["fields"]):
                    disabled.add(name); changed = True
        for m in ms:
            if m["owner"] in disabled or any(G.ty_use(t) and G.ty_use(t)[0] in disabled for t in m["params"] + m["ret"]):
                disabled.add(f"{m['owner']}::{m['name']}")
    return None, "did not converge"


def lt_edges(m, l):
    if l is None:
        return "[]"
    return G.method_names(m)[l] + "Edges"


def ret_seq(m, t):
    """the edge arrays handed to the constructor of a returned value of type t, in order"""
    if t[0] == "opaque": return [lt_edges(m, t[2])] + [lt_edges(m, a) for a in t[4]]
    if t[0] == "struct": return [lt_edges(m, a) for a in t[3]]
    if t[0] == "slice": return [lt_edges(m, t[2])]
    return []


def js_entry(e):
    e = e.strip()
    m = re.fullmatch(r"\.\.\.\(?(\w+)\??\._fieldsForLifetime(\w)(?: \|\| \[\]\))?", e)
    if m: return ("struct", m.group(1), m.group(2).lower())
    m = re.fullmatch(r"(\w+)Slice", e)
    if m: return ("slice", m.group(1))
    if re.fullmatch(r"\w+", e): return ("opaque", e)
    return ("?", e)


def dart_entry(e):
    e = e.strip()
    m = re.fullmatch(r"\.\.\.\??(\w+)\??\._fieldsForLifetime(\w)", e)
    if m: return ("struct", m.group(1), m.group(2).lower())
    m = re.fullmatch(r"(\w+)Arena", e)
    if m: return ("slice", m.group(1))
    if re.fullmatch(r"\w+", e): return ("opaque", e)
    return ("?", e)


def want_entries(m, edges):
    out = []
    for e in edges:
        pn = m["pnames"][e[1]]
        if e[0] == "struct":
            out.append(("struct", pn, G.DEF_LT[m["params"][e[1]][2]][e[2]]))
        else:
            out.append((e[0], pn))
    return out


def split_top(s):
    parts, depth, cur = [], 0, ""
    for ch in s:
        if ch in "([": depth += 1
        if ch in ")]": depth -= 1
        if ch == "," and depth == 0:
            parts.append(cur); cur = ""
        else:
            cur += ch
    if cur.strip(): parts.append(cur)
    return parts


def js_method(text, name):
    m = re.search(r"^    (?:static )?%s\(([^)]*)\) \{\n(.*?)^    \}$" % re.escape(name), text, re.M | re.S)
    return m.group(2) if m else None


def dart_method(text, name):
    m = re.search(r"^  (?:static )?[^\n(]*? %s\(([^\n]*)\) \{\n(.*?)^  \}$" % re.escape(name), text, re.M | re.S)
    return m.group(2) if m else None


def check_method(backend, D, m, body, violate, stats, lib_rs):
    names = G.method_names(m)
    spec = G.spec_map(D, m)
    if backend == "js":
        arrays = {k: [js_entry(e) for e in split_top(v)] for k, v in re.findall(r"let (\w+)Edges = \[(.*?)\];", body)}
    else:
        arrays = {k: [dart_entry(e) for e in split_top(v)] for k, v in re.findall(r"core\.List<Object> (\w+)Edges = \[(.*?)\];", body)}
    def bad(what, **kw):
        violate(f"direct:backend-missing:{backend}", dict({"backend": backend, "method": f"{m['owner']}::{m['name']}", "what": what,
                "signature": G.r_impl_header(m) + " { " + G.r_method(m).strip() + " }", "lib_rs": lib_rs}, **kw))
    for r, edges in spec:
        stats[f"{backend}_keys"] += 1
        got = arrays.get(names[r])
        if got is None:
            bad(f"no {names[r]}Edges array although '{names[r]} appears in the return type"); continue
        for w in want_entries(m, edges):
            stats[f"{backend}_edges"] += 1
            if w not in got:
                bad(f"{names[r]}Edges = {got} does not contain {w}: the returned object does not keep that input alive")
    # the returned object's constructor receives the arrays of the lifetimes of its type, in order
    for t in m["ret"]:
        seq = ret_seq(m, t)
        if not seq or all(s == "[]" for s in seq):
            continue
        stats[f"{backend}_returns"] += 1
        if not re.search(r"[(,] ?" + re.escape(", ".join(seq)) + r"\)", body):
            bad(f"the returned value is not constructed with ({', '.join(seq)}) as its lifetime edges")
    # struct parameters: every slot whose lifetime outlives a return lifetime hands its slices to those arrays
    for p, t in enumerate(m["params"]):
        if t[0] != "struct":
            continue
        pn = m["pnames"][p]
        if backend == "js":
            mm = (re.search(r"internalConstructor, %s\)\._intoFFI\(functionCleanupArena, \{(.*?)\}\)" % pn, body) or
                  re.search(r"optionToArgsForCalling\(%s, .*?_writeToArrayBuffer\(arrayBuffer, offset \+ 0, functionCleanupArena, \{(.*?)\}\)" % pn, body))
        else:
            mm = re.search(r"\b%s\._toFfi\(temp\.arena(.*?)\)" % pn, body)
        maps = {k.lower(): [x.strip() for x in v.split(",") if x.strip()] for k, v in re.findall(r"(\w)AppendArray: \[(.*?)\]", mm.group(1))} if mm else {}
        for slot, l in enumerate(t[3]):
            need = [names[r] + "Edges" for r, edges in spec if ("struct", p, slot, t[1]) in edges]
            if not need or not struct_has_slices(D, t[2], slot):
                continue
            stats[f"{backend}_append_arrays"] += 1
            have = maps.get(G.DEF_LT[t[2]][slot], [])
            if any(n not in have for n in need):
                bad(f"struct parameter {pn}: {G.DEF_LT[t[2]][slot]}AppendArray is {have}, needs {need}: slices in that slot are freed while the returned value may borrow them")


def struct_has_slices(D, name, slot):
    for _, t in D.d[name]["fields"]:
        if t[0] == "slice" and t[2] == slot:
            return True
        if t[0] == "struct" and any(a == slot and struct_has_slices(D, t[2], j) for j, a in enumerate(t[3])):
            return True
    return False


def leaves(D, name, slot, prefix=""):
    """non-slice fields a value of this struct may borrow from through lifetime parameter [slot]"""
    out = set()
    for fn, t in D.d[name]["fields"]:
        if t[0] == "opaque" and slot in G.ty_lts(t):
            out.add(prefix + fn)
        if t[0] == "struct":
            for j, a in enumerate(t[3]):
                if a == slot:
                    out |= leaves(D, t[2], j, prefix + fn + ".")
    return out


def parse_accessors(backend, text):
    if backend == "js":
        raw = re.findall(r"get _fieldsForLifetime(\w)\(\) \{\s*return \[(.*?)\];", text, re.S)
    else:
        raw = re.findall(r"get _fieldsForLifetime(\w) => \[(.*?)\];", text, re.S)
    acc = {}
    for l, body in raw:
        ents = []
        for e in split_top(body):
            e = e.strip()
            mm = re.fullmatch(r"\.\.\.\??(?:this\.#?)?(\w+)\??\._fieldsForLifetime(\w)", e)
            if mm: ents.append(("nested", mm.group(1), mm.group(2).lower()))
            else: ents.append(("field", re.sub(r"^this\.#?", "", e)))
        acc[l.lower()] = ents
    return acc


def expand(D, accs, name, lname, prefix=""):
    out = set()
    for e in accs.get(name, {}).get(lname, []):
        if e[0] == "field":
            ft = dict(D.d[name]["fields"]).get(e[1])
            if ft and ft[0] == "struct":              # the whole nested value is retained
                for j in range(D.d[ft[2]]["n"]):
                    out |= leaves(D, ft[2], j, prefix + e[1] + ".")
            else:
                out.add(prefix + e[1])
        else:
            ft = dict(D.d[name]["fields"]).get(e[1])
            if ft and ft[0] == "struct":
                out |= expand(D, accs, ft[2], e[2], prefix + e[1] + ".")
    return out


def check_structs(backend, D, out, violate, stats, lib_rs, disabled, goals):
    ext = ".mjs" if backend == "js" else ".g.dart"
    accs, texts = {}, {}
    for name in ("S1", "S2", "S3"):
        path = os.path.join(out, name + ext)
        if name in disabled or not os.path.exists(path):
            continue
        texts[name] = open(path).read()
        accs[name] = parse_accessors(backend, texts[name])
    def bad(what):
        violate(f"direct:backend-struct:{backend}", {"backend": backend, "what": what, "lib_rs": lib_rs})
    for name, text in texts.items():
        d = D.d[name]
        fidx = {fn: i for i, (fn, _) in enumerate(d["fields"])}
        for slot in range(d["n"]):
            ln = G.DEF_LT[name][slot]
            # the accessor as generated, literally, against Lifetimes/Struct.v
            ents, okp = [], True
            for e in accs[name].get(ln, []):
                if e[0] == "field" and e[1] in fidx: ents.append(f"AField {fidx[e[1]]}")
                elif e[0] == "nested" and e[1] in fidx and d["fields"][fidx[e[1]]][1][0] == "struct" and e[2] in G.DEF_LT[d["fields"][fidx[e[1]]][1][2]]:
                    ents.append(f"ANested {fidx[e[1]]} {G.DEF_LT[d['fields'][fidx[e[1]]][1][2]].index(e[2])}")
                else: okp = False
            if okp:
                goals.append(f"agree_accessor {G.c_defs(D)} {G.TID[name]} {slot} {G.c_list(ents)}")
            want = leaves(D, name, slot)
            if any(t[0] == "struct" and t[2] not in texts for _, t in d["fields"]):
                continue
            got = expand(D, accs, name, ln)
            stats[f"{backend}_accessors"] += 1
            if not want <= got:
                bad(f"{name}._fieldsForLifetime{ln.upper()} yields {sorted(got)}; fields {sorted(want - got)} also carry '{ln} and are not kept alive")
        # forwarding into nested struct fields and slice fields (host -> Rust), and edges handed down (Rust -> host)
        for fn, t in d["fields"]:
            if t[0] == "struct" and t[2] in texts:
                for j, a in enumerate(t[3]):
                    if a == "static" or not struct_has_slices(D, t[2], j):
                        continue
                    inner, outer = G.DEF_LT[t[2]][j], G.DEF_LT[name][a]
                    stats[f"{backend}_forwarding"] += 1
                    if backend == "js":
                        pat = r"this\.#%s\)?\)\._(?:intoFFI|writeToArrayBuffer)\([^\n]*?%sAppendArray: \[\.\.\.appendArrayMap\['%sAppendArray'\]" % (fn, inner, outer)
                        pat2 = r"this\.#%s, [^\n]*?%sAppendArray: \[\.\.\.appendArrayMap\['%sAppendArray'\]" % (fn, inner, outer)
                        ok = re.search(pat, text) or re.search(pat2, text)
                    else:
                        ok = re.search(r"\b%s\._toFfi\(temp[^\n]*?%sAppendArray: \[\.\.\.%sAppendArray\]" % (fn, inner, outer), text)
                    if not ok:
                        bad(f"{name}: the nested field {fn} does not receive {inner}AppendArray from {outer}AppendArray: its slices are freed while borrowed")
            if t[0] == "slice" and t[2] != "static":
                outer = G.DEF_LT[name][t[2]]
                stats[f"{backend}_forwarding"] += 1
                if backend == "js":
                    ok = re.search(r"appendArrayMap\['%sAppendArray'\]\)[^\n]*?this\.#%s\b|this\.#%s\b[^\n]*?appendArrayMap\['%sAppendArray'\]" % (outer, fn, fn, outer), text)
                else:
                    ok = re.search(r"struct\.%s = [^\n]*?%sAppendArray" % (fn, outer), text)
                if not ok:
                    bad(f"{name}: the slice field {fn} is not allocated in an arena joined to {outer}AppendArray")
            if t[0] in ("opaque", "struct", "slice"):
                seq = [("[]" if l is None else ("[]" if l == "static" else G.DEF_LT[name][l] + "Edges")) for l in
                       (([t[2]] + list(t[4])) if t[0] == "opaque" else list(t[3]) if t[0] == "struct" else [t[2]])]
                if seq and not all(s == "[]" for s in seq):
                    stats[f"{backend}_fromffi"] += 1
                    body = re.search(r"_from(?:FFI|Ffi)\(.*?(?:return new|;\n\n)", text, re.S)
                    if body and not re.search(r"[(,] ?" + re.escape(", ".join(seq)) + r"\)", body.group(0)):
                        bad(f"{name}._fromFFI does not hand ({', '.join(seq)}) down to the field {fn}")


def check_nanobind(D, ms, out, violate, stats, lib_rs, disabled):
    files = [os.path.join(dp, f) for dp, _, fs in os.walk(out) for f in fs if f.endswith(".cpp")]
    text = "\n".join(open(f).read() for f in files)
    for m in ms:
        if f"{m['owner']}::{m['name']}" in disabled or m["owner"] in disabled:
            continue
        if any(t[0] == "slice" and t[3] != "u8" for t in m["ret"]):
            continue                                     # strings are copied; primitive slices are zero-copy arrays and need keep_alive
        if m.get("attr") == "constructor":
            # nb::new_: the nurse is the object under construction (index 1), so the explicit arguments start at index 2
            mm = re.search(r'\.def\(nb::new_\(&%s::%s\)([^\n]*)' % (m["owner"], m["name"]), text)
            kept = {int(x) - 1 for x in re.findall(r"nb::keep_alive<1, (\d+)>", mm.group(1))} if mm else set()
        else:
            mm = re.search(r'\.def(?:_static)?\("%s", &%s::%s\b([^\n]*)' % (m["name"], m["owner"], m["name"]), text)
            kept = {int(x) for x in re.findall(r"nb::keep_alive<0, (\d+)>", mm.group(1))} if mm else set()
        if not mm:
            continue
        need = {e[1] + 1 for _, edges in G.spec_map(D, m) for e in edges}
        stats["nanobind_methods"] += 1
        if not need <= kept:
            violate("direct:backend-missing:nanobind", {"backend": "nanobind", "method": f"{m['owner']}::{m['name']}", "what":
                    f"keep_alive for argument positions {sorted(kept)}, but the return value may borrow from positions {sorted(need)}",
                    "binding": mm.group(0)[:400], "lib_rs": lib_rs})


def check_kotlin(D, ms, out, violate, stats, lib_rs, disabled):
    for m in ms:
        if f"{m['owner']}::{m['name']}" in disabled or m["owner"] in disabled:
            continue
        paths = [os.path.join(dp, f) for dp, _, fs in os.walk(out) for f in fs if f == m["owner"] + ".kt"]
        if not paths or len(m["ret"]) != 1 or m["ret"][0][0] not in ("opaque", "struct"):
            continue
        text = open(paths[0]).read()
        mm = re.search(r"^    fun %s\(.*?^    \}$" % m["name"], text, re.M | re.S)
        if not mm:
            continue
        body = mm.group(0)
        names = G.method_names(m)
        t = m["ret"][0]
        arrays = {}
        for k, v in re.findall(r"val (\w+)Edges: List<Any\??> = ([^\n]*)", body):
            ents = []
            for e in v.split(" + "):
                e = e.strip()
                a = re.fullmatch(r"listOf\((\w*)\)", e)
                b = re.fullmatch(r"(\w+)\.(\w)Edges", e)
                c = re.fullmatch(r"listOf\((\w+)Mem\)", e)
                if c: ents.append(("slice", c.group(1)))
                elif a and a.group(1): ents.append(("opaque", a.group(1)))
                elif b: ents.append(("struct", b.group(1), b.group(2)))
            arrays.setdefault(k, []).extend(ents)
        for r, edges in G.spec_map(D, m):
            key = "self" if (t[0] == "opaque" and t[2] == r and "self" in arrays) else names[r]
            got = arrays.get(key, []) + (arrays.get(names[r], []) if key == "self" else [])
            stats["kotlin_keys"] += 1
            for w in want_entries(m, edges):
                if w[0] == "struct" and w[1] == "this":
                    continue                             # a struct self keeps its own edge lists
                if w not in got:
                    violate("direct:backend-missing:kotlin", {"backend": "kotlin", "method": f"{m['owner']}::{m['name']}", "what":
                            f"{key}Edges = {got} does not contain {w}", "signature": G.r_method(m).strip(), "lib_rs": lib_rs})


def run(ctx, bridges, violate, goals=None):
    import collections
    goals = goals if goals is not None else []
    stats = collections.Counter()
    root = os.path.join(BUILD, "e2e", "c04")
    shutil.rmtree(root, ignore_errors=True)
    for bi, (D, ms) in enumerate(bridges):
        ms = [m for m in ms if backend_ok(m)]
        for backend in ("js", "dart", "kotlin", "nanobind"):
            d = os.path.join(root, f"b{bi}_{backend}")
            out, disabled = generate(D, ms, backend, d)
            if out is None:
                stats[f"{backend}_skipped"] += 1
                continue
            stats[f"{backend}_bridges"] += 1
            lib_rs = open(os.path.join(d, "lib.rs")).read()
            if backend in ("js", "dart"):
                ext = ".mjs" if backend == "js" else ".g.dart"
                for m in ms:
                    if f"{m['owner']}::{m['name']}" in disabled or m["owner"] in disabled:
                        continue
                    path = os.path.join(out, m["owner"] + ext)
                    if not os.path.exists(path):
                        continue
                    # a constructor is `#defaultConstructor(..)` in JS and `factory Owner(..)` in Dart
                    lookup = m["name"] if m.get("attr") != "constructor" else ("#defaultConstructor" if backend == "js" else m["owner"])
                    body = (js_method if backend == "js" else dart_method)(open(path).read(), lookup)
                    if body is None:
                        continue
                    stats[f"{backend}_methods"] += 1
                    check_method(backend, D, m, body, violate, stats, G.rust_source(D, [m]))
                check_structs(backend, D, out, violate, stats, lib_rs, disabled, goals)
            elif backend == "nanobind":
                check_nanobind(D, ms, out, violate, stats, lib_rs, disabled)
            else:
                check_kotlin(D, ms, out, violate, stats, lib_rs, disabled)
    return {"backends": dict(stats)}
