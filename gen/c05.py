"""C05 — the lowering gate accepts exactly the documented shapes (DESIGN §5 C05)."""
from common import *
import gate_run, tablegen
from c13 import BACKENDS

PROP = "C05"
HEADER = "From Coq Require Import List Bool.\nImport ListNotations.\nFrom DV Require Import Gate.Model."


def check(ctx, replay=None):
    build_harness()
    tablegen.main()
    phase = standard_proof_phase(ctx, PROP, ["theories/Properties/C05.v", "theories/Lifetimes/Check.v"])
    cs = gate_run.cases(ctx)
    if replay and "case" in replay.get("replay", {}):
        c = replay["replay"]["case"]
        cs = [(c["pos"], tuple_ify(c["ty"]))]
    flags = gate_run.backend_flags()
    unsafe = (False, True) if not ctx.quick() else (False,)
    # callback positions are also run with unsafe_references_in_callbacks = true
    res = gate_run.run_all(ctx, cs, unsafe_refs=(False,))
    cb_idx = [i for i, (pos, t) in enumerate(cs) if pos in ("PCbParam", "PCbRet", "PParam")]
    res_u = gate_run.run_all(ctx, [cs[i] for i in cb_idx], unsafe_refs=(True,)) if True else {}
    goals, meta, viol = [], [], 0
    def add(i, b, u, cls):
        fl = flags[b]
        cfl = f"(mkFlags {cbool(fl['option'])} {cbool(fl['callbacks'])} {cbool(fl['static_slices'])} {cbool(u)})"
        pos, t = cs[i]
        if cls == "panic":
            return                                           # crashes are C15's business; no statement about acceptance is derived from them
        accepted = cls in ("ok", "backend-error")
        goals.append(f"agree_gate {cfl} {pos} {gate_run.coq_ty(t)} {cbool(accepted)}")
        meta.append((i, b, u, cls))
    for (i, b, u), (cls, err) in res.items():
        if cls == "other":
            continue
        add(i, b, u, cls)
    for (j, b, u), (cls, err) in res_u.items():
        if cls != "other":
            add(cb_idx[j], b, u, cls)
    # error context: a rejected method/struct is named in the diagnostics
    for (i, b, u), (cls, err) in res.items():
        if cls == "lowering-error":
            pos, t = cs[i]
            want = "Holder" if "Struct" in pos else "Op::f"
            if f"Lowering error in {want}" not in err and len(ctx.violations) < 3:
                viol += 1
                ctx.violation("direct:error-context", {"case": {"pos": pos, "ty": t}, "backend": b, "what":
                              f"the lowering error does not carry the offending item ({want}) as its context", "stderr": err}, True)
    # R9: lifetimes in return types, in every position of the return type
    import e2e, shutil
    d9 = os.path.join(BUILD, "e2e", "gate9"); shutil.rmtree(d9, ignore_errors=True); os.makedirs(d9, exist_ok=True)
    r9 = []
    for rp, wrap in (("RPlain", "{}"), ("RInOption", "Option<{}>"), ("(RInOk true)", "Result<{}, ()>"), ("(RInOk false)", "Result<{}, u8>"),
                     ("(RInErr true)", "Result<(), {}>"), ("(RInErr false)", "Result<u8, {}>")):
        for elided in (False, True):
            for needed, declared in ((False, False), (True, False), (True, True)):
                if elided and needed:
                    continue
                if needed:
                    inner = "Box<Bounded<'x, 'y>>"
                    gen = "<'x, 'y: 'x>" if declared else "<'x, 'y>"
                    sig = f"pub fn f{gen}(&'x self, o: &'y Op) -> {wrap.format(inner)} {{ todo!() }}"
                else:
                    inner = "&Op" if elided else "&'x Op"
                    sig = f"pub fn f{'' if elided else chr(60) + chr(39) + 'x' + chr(62)}(&{'' if elided else chr(39) + 'x '}self) -> {wrap.format(inner)} {{ todo!() }}"
                src = ("#[diplomat::bridge]\nmod ffi {\n    #[diplomat::opaque]\n    pub struct Op(pub u8);\n    #[diplomat::opaque]\n"
                       "    pub struct Bounded<'a, 'b: 'a>(pub &'a u8, pub &'b u8);\n    impl Op { " + sig + " }\n}\n")
                r9.append((rp, elided, needed, declared, src))
    for k, (rp, elided, needed, declared, src) in enumerate(r9):
        path = os.path.join(d9, f"r{k}.rs"); open(path, "w").write(src)
        q = e2e.run_tool("c", path, os.path.join(d9, "out"))
        cls = e2e.classify_tool(q)
        if cls in ("ok", "lowering-error"):
            goals.append(f"agree_ret_lifetimes {rp} {cbool(elided)} {cbool(needed)} {cbool(declared)} {cbool(cls == 'ok')}")
            meta.append((None, "c", False, cls, src))
            want_ok = (not elided) and (not needed or declared)
            if (cls == "ok") != want_ok and len(ctx.violations) < 3:
                viol += 1
                why = "has an elided lifetime" if elided else ("uses a type whose definition implies a bound that is not spelled out on the method" if needed and not declared else "is fine")
                ctx.violation(f"direct:R9:{rp}", {"bridge": src, "what": f"diplomat-tool {'accepts' if cls == 'ok' else 'rejects'} this method although its return type " + why}, True)
    # write position: DiplomatWrite is the writer only as the last parameter; anywhere else it is not an FFI type
    fl_c = flags["c"]
    cfl_c = f"(mkFlags {cbool(fl_c['option'])} {cbool(fl_c['callbacks'])} {cbool(fl_c['static_slices'])} false)"
    wl = []
    for ps in (["W"], ["P", "W"], ["P", "P", "W"], ["W", "P"], ["P", "W", "P"], ["W", "W"], ["W", "P", "W"], ["P", "W", "P", "W"]):
        for recv in ("&self, ", ""):
            args = ", ".join(f"a{i}: {'&mut DiplomatWrite' if k == 'W' else 'u8'}" for i, k in enumerate(ps))
            src = ("#[diplomat::bridge]\nmod ffi {\n    use diplomat_runtime::DiplomatWrite;\n    #[diplomat::opaque]\n    pub struct Op(pub u8);\n"
                   f"    impl Op {{ pub fn f({recv}{args}) {{}} }}\n}}\n")
            wl.append((ps, recv, src))
    for k, (ps, recv, src) in enumerate(wl):
        path = os.path.join(d9, f"w{k}.rs"); open(path, "w").write(src)
        q = e2e.run_tool("c", path, os.path.join(d9, "out"))
        cls = e2e.classify_tool(q)
        if cls in ("ok", "lowering-error"):
            goals.append(f"Bool.eqb (accept_params {cfl_c} {clist(['TWrite' if x == 'W' else 'TPrim' for x in ps])}) {cbool(cls == 'ok')}")
            meta.append((None, "c", False, cls, src))
            want_ok = "W" not in ps[:-1]
            if (cls == "ok") != want_ok and len(ctx.violations) < 3:
                viol += 1
                ctx.violation("direct:write-position", {"bridge": src, "what": f"diplomat-tool {'accepts' if cls == 'ok' else 'rejects'} a method whose parameters are "
                              f"{ps} (W = &mut DiplomatWrite): the writer is {'only allowed' if cls == 'ok' else 'allowed'} as the last parameter"}, True)
            elif cls == "lowering-error" and "Lowering error in Op::f" not in q.stderr and len(ctx.violations) < 3:
                viol += 1
                ctx.violation("direct:error-context", {"bridge": src, "what": "the lowering error does not carry Op::f as its context", "stderr": q.stderr[-500:]}, True)
    # trait methods: their parameters obey the callback-parameter rules (backends with trait support; lifetimes elided, as traits take no generics)
    tr_jobs = []
    for ti, t in enumerate(gate_run.types(depth2=False)):
        if t[0] == "res":
            continue
        r = gate_run.rust_ty(t).replace("&'a mut ", "&mut ").replace("&'a ", "&")
        if "'a" in r:
            continue
        src = gate_run.PRELUDE + f"    pub trait Tr {{ fn m(&self, x: {r}); }}\n    impl Op {{ pub fn f(&self, t: impl Tr) {{}} }}\n}}\n"
        path = os.path.join(d9, f"t{ti}.rs"); open(path, "w").write(src)
        for b in [b for b in BACKENDS if flags[b].get("traits")]:
            for u in (False, True):
                tr_jobs.append((t, r, src, path, b, u))
    for (t, r, src, path, b, u) in tr_jobs:
        q = e2e.run_tool(b, path, os.path.join(d9, f"out_{b}"), config=gate_run.CFG + (["unsafe_references_in_callbacks=true"] if u else []))
        cls = e2e.classify_tool(q)
        if cls not in ("ok", "lowering-error", "backend-error"):
            continue
        fl = flags[b]
        cfl = f"(mkFlags {cbool(fl['option'])} {cbool(fl['callbacks'])} {cbool(fl['static_slices'])} {cbool(u)})"
        goals.append(f"Bool.eqb (cb_param_ok {cfl} {gate_run.coq_ty(t)}) {cbool(cls != 'lowering-error')}")
        meta.append((None, b, u, cls, src))
    # self parameters: which receivers each kind of type may have
    decls = {"NOpaque": ("    #[diplomat::opaque]\n    pub struct T(pub u8);\n", "T"), "NStruct": ("    pub struct T { pub a: u8 }\n", "T"),
             "NZst": ("    pub struct T {}\n", "T"), "NOutStruct": ("    #[diplomat::opaque]\n    pub struct O(pub u8);\n    #[diplomat::out]\n    pub struct T { pub o: Box<O> }\n", "T"),
             "NEnum": ("    pub enum T { A, B }\n", "T")}
    k = 0
    for kind, (decl, tn) in decls.items():
        for recv, selfk in (("self", "SelfVal"), ("&self", "SelfRef"), ("&mut self", "SelfRef")):
            src = "#[diplomat::bridge]\nmod ffi {\n" + decl + f"    impl {tn} {{ pub fn f({recv}) -> u8 {{ 0 }} }}\n}}\n"
            path = os.path.join(d9, f"s{k}.rs"); open(path, "w").write(src); k += 1
            q = e2e.run_tool("c", path, os.path.join(d9, "out"))
            cls = e2e.classify_tool(q)
            if cls == "panic":
                continue                                   # C15's business (methods on zero-sized structs are unimplemented!())
            if cls in ("ok", "lowering-error"):
                goals.append(f"Bool.eqb (accept_self {kind} {selfk}) {cbool(cls == 'ok')}")
                meta.append((None, "c", False, cls, src))
                want_ok = {"NOpaque": selfk == "SelfRef", "NStruct": selfk == "SelfVal", "NEnum": selfk == "SelfVal", "NZst": False, "NOutStruct": False}[kind]
                if (cls == "ok") != want_ok and len(ctx.violations) < 3:
                    viol += 1
                    ctx.violation("direct:self-receiver", {"bridge": src, "what": f"diplomat-tool {'accepts' if cls == 'ok' else 'rejects'} `{recv}` on a {kind[1:].lower()} type; "
                                  "opaques are passed by pointer (so only behind a reference), structs and enums by value (so never behind one)"}, True)
    # signatures over two lifetimes: bounds implied by `&'a T<'b>` (also under Option / Result, in fields) need not be written, bounds a
    # type definition requires of its parameters must be, an elided lifetime cannot appear in a return type (model: Lifetimes/Model.v, C04)
    LT_DEFS = ("    #[diplomat::opaque]\n    pub struct Op(pub u8);\n    #[diplomat::opaque]\n    pub struct One<'x>(pub &'x u8);\n"
               "    pub struct Two<'x, 'y: 'x> { pub a: &'x Op, pub b: &'y Op }\n")
    C_DS = "[mkDef 0 [] []; mkDef 1 [] []; mkDef 2 [(1, [0])] [TOpaque false false (Some (Lt 0)) 0 []; TOpaque false false (Some (Lt 1)) 0 []]"
    ref = lambda opt: f"TOpaque false {cbool(opt)} (Some (Lt 0)) 1 [Lt 1]"
    LT_SHAPES = [
        ("impl Op { pub fn f<'a, 'b>(x: Option<&'a One<'b>>) -> u8 { 0 } }", f"agree_validate {C_DS}] (mkSig 2 [] [{ref(True)}] [])", True),
        ("impl Op { pub fn f<'a, 'b>(x: &'a One<'b>) -> Option<&'a One<'b>> { Some(x) } }", f"agree_validate {C_DS}] (mkSig 2 [] [{ref(False)}] [{ref(True)}])", True),
        ("impl Op { pub fn f<'a, 'b>(x: &'a One<'b>) -> Result<Option<&'a One<'b>>, u8> { Ok(Some(x)) } }", f"agree_validate {C_DS}] (mkSig 2 [] [{ref(False)}] [{ref(True)}])", True),
        ("impl Op { pub fn f<'a, 'b>(x: &'a One<'b>) -> &'a One<'b> { x } }", f"agree_validate {C_DS}] (mkSig 2 [] [{ref(False)}] [{ref(False)}])", True),
        ("impl Op { pub fn f<'a, 'b>(x: Option<&'a One<'b>>, y: &'b Op) -> Option<&'a Op> { None } }",
         f"agree_validate {C_DS}] (mkSig 2 [] [{ref(True)}; TOpaque false false (Some (Lt 1)) 0 []] [TOpaque false true (Some (Lt 0)) 0 []])", True),
        ("pub struct Sf<'a, 'b> { pub f: Option<&'a One<'b>>, pub g: &'b Op }",
         f"agree_validate_def ({C_DS}; mkDef 2 [] [{ref(True)}; TOpaque false false (Some (Lt 1)) 0 []]]) 3", True),
        ("impl Op { pub fn f<'a, 'b>(t: Two<'a, 'b>) -> u8 { 0 } }", f"agree_validate {C_DS}] (mkSig 2 [] [TStruct false 2 [Lt 0; Lt 1]] [])", False),
        ("impl Op { pub fn f<'a, 'b: 'a>(t: Two<'a, 'b>) -> u8 { 0 } }", f"agree_validate {C_DS}] (mkSig 2 [(1, [0])] [TStruct false 2 [Lt 0; Lt 1]] [])", True),
        ("impl Op { pub fn f<'a, 'b>(t: Two<'a, 'b>) -> u8 where 'b: 'a { 0 } }", f"agree_validate {C_DS}] (mkSig 2 [(1, [0])] [TStruct false 2 [Lt 0; Lt 1]] [])", True),
        ("impl Op { pub fn f(&self) -> &Op { self } }", f"agree_validate {C_DS}] (mkSig 0 [] [TOpaque false false (Some (Lt 0)) 0 []] [TOpaque false false (Some (Lt 0)) 0 []])", False),
        ("impl Op { pub fn f(&self) -> Option<&Op> { None } }", f"agree_validate {C_DS}] (mkSig 0 [] [TOpaque false false (Some (Lt 0)) 0 []] [TOpaque false true (Some (Lt 0)) 0 []])", False),
        ("impl Op { pub fn f<'a>(&'a self) -> Result<(), &'a Op> { Err(self) } }", f"agree_validate {C_DS}] (mkSig 1 [] [TOpaque false false (Some (Lt 0)) 0 []] [TOpaque false false (Some (Lt 0)) 0 []])", True),
        ("impl Op { pub fn f(&self) -> Result<(), &Op> { Err(self) } }", f"agree_validate {C_DS}] (mkSig 0 [] [TOpaque false false (Some (Lt 0)) 0 []] [TOpaque false false (Some (Lt 0)) 0 []])", False),
        ("impl Op { pub fn f<'a, 'b>(&'a self) -> Result<(), Two<'a, 'b>> { todo!() } }", f"agree_validate {C_DS}] (mkSig 2 [] [TOpaque false false (Some (Lt 0)) 0 []] [TStruct false 2 [Lt 0; Lt 1]])", False),
    ]
    lgoals, lmeta = [], []
    for k, (item, goal, want_ok) in enumerate(LT_SHAPES):
        src = "#[diplomat::bridge]\nmod ffi {\n" + LT_DEFS + "    " + item + "\n}\n"
        path = os.path.join(d9, f"l{k}.rs"); open(path, "w").write(src)
        q = e2e.run_tool("c", path, os.path.join(d9, "out"))
        cls = e2e.classify_tool(q)
        if cls not in ("ok", "lowering-error"):
            continue
        lgoals.append(f"{goal} {cbool(cls == 'ok')}"); lmeta.append(src)
        if (cls == "ok") != want_ok and len(ctx.violations) < 3:
            viol += 1
            ctx.violation("direct:lifetime-shape", {"bridge": src, "stderr": q.stderr[-400:], "what": f"diplomat-tool {'accepts' if cls == 'ok' else 'rejects'} this item; " +
                          ("it is valid: every bound it needs is implied by a `&'a T<'b>` it contains or is declared" if want_ok else
                           "it must be rejected: a bound the type requires is not declared / the return type has an elided lifetime")}, True)
    lfails = run_shards(PROP, "From Coq Require Import List Bool.\nImport ListNotations.\nFrom DV Require Import Lifetimes.Model Lifetimes.Check.", lgoals) if lgoals else []
    if lfails and not ctx.violations:
        ctx.violation("gate:lifetime-shapes", {"bridge": lmeta[lfails[0]], "what": "Lifetimes/Model.v validate disagrees with the tool on this item: " + lgoals[lfails[0]][:300]}, False)
    fails = run_shards(PROP, HEADER, goals, per_shard=400) if goals else []
    seen = set()
    for f in fails:
        if meta[f][0] is None:
            continue
        i, b, u, cls = meta[f]
        pos, t = cs[i]
        key = f"gate:{pos}:{t[0]}"
        if key in seen or len(seen) >= 3:
            continue
        seen.add(key)
        ctx.violation(key, {"case": {"pos": pos, "ty": t, "rust": gate_run.rust_ty(t)}, "backend": b, "unsafe_references_in_callbacks": u,
                            "what": f"diplomat-tool {b} {'accepts' if cls != 'lowering-error' else 'rejects'} `{gate_run.rust_ty(t)}` in position {pos}, "
                                    "the documented rules (Gate/Spec.v, equivalent to Gate/Model.v) say the opposite",
                            "bridge": gate_run.bridge(pos, t)}, True)
    other = [f for f in fails if meta[f][0] is None]
    if other and not ctx.violations:
        f = other[0]
        ctx.violation("gate:fixed-shapes", {"bridge": meta[f][4], "backend": meta[f][1], "unsafe_references_in_callbacks": meta[f][2], "what":
                      f"diplomat-tool {meta[f][1]} answers `{meta[f][3]}` on this bridge; Gate/Model.v (return-lifetime rules, write position, receivers, "
                      f"trait method parameters) says otherwise: {goals[f][:300]}"}, True)
    return batch_evidence(
        ctx, PROP, phase, goals + lgoals, fails + [len(goals) + f for f in lfails], len(goals) + len(lgoals), len({(c[0], json.dumps(c[1])) for c in cs}),
        "exhaustive enumeration of the AST type grammar to depth 2 (4 primitives, Ordering, unit, the five kinds of named types, borrowed / 'static / owned "
        "/ Diplomat-spelled str and primitive slices, string-list slices; under &, Box, Option, DiplomatOption, twice; Result over 12x8 arm combinations, "
        "nested Results) x 6 positions (parameter, return, struct field, out-struct field, callback parameter, callback return): every valid shape must be "
        "accepted and every single-fault shape rejected, for each of the seven backends' support profiles (option / callbacks / static_slices from the "
        "regenerated tables) and both settings of unsafe_references_in_callbacks; one tiny bridge per case through the real CLI; the error context is "
        "checked on rejections. One Coq goal per (case, backend, setting). distinct_nontrivial = distinct (position, type) pairs",
        "Modelled, not verified: lower_type, lower_out_type, lower_return_type, lower_callback_param, the struct / out-struct field checks and "
        "is_ffi_safe, transcribed into Gate/Model.v; Gate/Spec.v states the rules declaratively and the two are proved equivalent. Lifetime rules (R9) "
        "are C04's, traits are not enumerated, receivers (self / &self / &mut self) are enumerated for each kind of type; write positions are enumerated for lists up to length 4",
        [{"pos": cs[0][0], "rust": gate_run.rust_ty(cs[0][1])}, {"pos": cs[len(cs) // 2][0], "rust": gate_run.rust_ty(cs[len(cs) // 2][1])},
         {"pos": cs[-1][0], "rust": gate_run.rust_ty(cs[-1][1])}],
        ["the macro's own field check (gen_bridge panics on non-FFI-safe fields) is exercised by C09/C01's crate builds"],
        {"cases": len(cs), "tool_runs": len(res) + len(res_u)})


def tuple_ify(x):
    return tuple(tuple_ify(y) if isinstance(y, list) else y for y in x)
