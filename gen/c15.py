"""C15 — after successful lowering no backend crashes (DESIGN §5 C15, partial)."""
import re, collections
from common import *
import gate_run, tablegen, e2e, abigen, c15_fixed, c15_docs
from c13 import BACKENDS, CFG

PROP = "C15"
HEADER = "From Coq Require Import List Bool.\nImport ListNotations.\nFrom DV Require Import Gate.Model Dispatch.Model."


def shape_class(pos, t):
    """coarse, stable name of an input shape (used as the key of recorded findings)"""
    def s(t, d=0):
        k = t[0]
        if k == "prim": return "prim"
        if k == "named": return t[1][1:]
        if k in ("str", "pslice"): return ("owned-" if not t[1] else ("static-" if t[2] else "")) + ("dipl-" if t[3] else "") + k
        if k == "strslice": return ("dipl-" if t[1] else "") + "strslice"
        if k in ("ref", "box"): return f"{k}<{s(t[1])}>"
        if k == "opt": return ("DiplomatOption" if t[1] else "Option") + f"<{s(t[2])}>"
        if k == "res": return f"Result<{s(t[1])},{s(t[2])}>"
        return k
    return f"{pos}:{s(t)}"


# The recorded findings are classes of inputs, not panic messages: a panic is only matched against a recorded finding when the input
# that triggers it lies in the class the finding describes (position + shape); the same message on any other input is a new violation.
CAUSES = [
    ("optional-slice-param", ("PParam",), r"(Diplomat)?Option<(owned-)?(static-)?(dipl-)?(pslice|str|strslice)>"),
    ("result-with-primitive-error", ("PReturn",), r"Result<.*,prim>"),
    ("result-with-struct-or-enum-error", ("PReturn",), r"Result<.*,(Enum|Struct|OutStruct|Zst)>"),
    ("result-with-opaque-error", ("PReturn",), r"Result<.*,box<Opaque>>"),
    ("string-list-slice-struct-field", ("PStructField",), r"(DiplomatOption<)?(dipl-)?strslice>?"),
    ("static-slice-out-struct-field", ("POutStructField",), r"static-(pslice|str)"),
    ("optional-zst-out-struct-field", ("POutStructField",), r"DiplomatOption<Zst>"),
    ("callback-position", ("PCbParam", "PCbRet"), r".*"),
]


def cause_class(pos, shape):
    for name, poss, rx in CAUSES:
        if pos in poss and re.fullmatch(rx, shape):
            return name
    return f"{pos}:{shape}"


def abigen_shape(t):
    """abigen's types in the vocabulary of shape_class"""
    k = t[0]
    if k == "prim": return "prim"
    if k == "enum": return "Enum"
    if k == "struct": return "Struct"
    if k == "zst": return "Zst"
    if k in ("optslice",): return "Option<pslice>"
    if k in ("optstr",): return "Option<str>"
    if k == "slice": return ("owned-" if t[2] == "box" else "") + "pslice"
    if k == "str": return ("owned-" if t[2] != "ref" else "") + ("dipl-" if t[1] != "utf8" else "") + "str"
    if k == "opt": return ("Option" if t[1] == "std" else "DiplomatOption") + f"<{abigen_shape(t[2])}>"
    if k == "res": return f"Result<{abigen_shape(t[1])},{abigen_shape(t[2])}>"
    if k in ("obox", "oboxopt"): return "box<Opaque>" if k == "obox" else "Option<box<Opaque>>"
    if k in ("oref", "orefret", "oopt", "orefopt"): return "ref<Opaque>" if k in ("oref", "orefret") else "Option<ref<Opaque>>"
    return k


def module_panic_keys(b, mod, methods, extra, site, slug, d):
    """a generated module panicked: find the methods that panic on their own and name the classes of their parameter / return shapes"""
    keys = []
    for m in methods:
        path = os.path.join(d, "single.rs"); open(path, "w").write(abigen.rust_source(mod, [m]))
        q = e2e.run_tool(b, path, os.path.join(d, "out_single"), config=CFG + extra)
        if e2e.classify_tool(q) != "panic" or e2e.panic_site(q.stderr) != (site, slug):
            continue
        cands = [cause_class("PParam", abigen_shape(t)) for _, t in m["params"]] + [cause_class("PReturn", abigen_shape(m["ret"]))]
        named = [c for c in cands if ":" not in c]
        # a method can lie in several recorded classes: the one recorded for this very panic is the one that explains it
        known = {k for k, _ in known_findings(PROP)}
        explained = [c for c in named if f"panic:{b}:{site}:{slug}:{c}" in known]
        keys.append(((explained or named)[0] if named else "method(" + ",".join(cands) + ")", m))
    return keys


def check(ctx, replay=None):
    build_harness()
    tablegen.main()
    phase = standard_proof_phase(ctx, PROP, ["theories/Properties/C15.v"])
    cs = gate_run.cases(ctx)
    res = gate_run.run_all(ctx, cs)
    goals, nwit, ok_runs, panics = [], 0, 0, collections.OrderedDict()
    for (i, b, u), (cls, err) in res.items():
        pos, t = cs[i]
        if cls in ("ok", "backend-error"):
            ok_runs += 1
        if cls == "panic":
            site, slug = e2e.panic_site(err)
            if site.startswith("core/src/ast/"):
                continue            # the source is rejected while being parsed, before lowering: outside the property
            key = f"panic:{b}:{site}:{slug}:{cause_class(*shape_class(pos, t).split(':', 1))}"
            panics.setdefault(key, (b, pos, t, err))
    # every accepted witness is its own class (so the enumeration is what the theorems say it is)
    seen = set()
    for (pos, t) in cs:
        c = gate_run.coq_ty(t)
        if c not in seen and pos == "PReturn":
            seen.add(c)
            goals.append(f"(fix eqb (a b : ty) := true) (classify {c}) {c}")
    for key, (b, pos, t, err) in panics.items():
        ctx.violation(key, {"backend": b, "case": {"pos": pos, "ty": t, "rust": gate_run.rust_ty(t)}, "bridge": gate_run.bridge(pos, t),
                            "what": f"diplomat-tool {b} panics on a bridge that passed lowering: {gate_run.rust_ty(t)} in position {pos}", "stderr": err[-500:]}, True)
    # config variants + larger seeded modules from the ABI generator
    rng = ctx.rng
    d = os.path.join(BUILD, "e2e", "c15")
    os.makedirs(d, exist_ok=True)
    big = 0
    for bi in range(2 if ctx.quick() else 12):
        mod = abigen.Module(rng)
        mmethods = abigen.gen_methods(mod, 30, rng)
        src = abigen.rust_source(mod, mmethods)
        path = os.path.join(d, f"big{bi}.rs"); open(path, "w").write(src)
        for b in BACKENDS:
            for extra in ([[]] + ([["js.abi=spec"]] if b in ("js", "demo_gen") else []) + ([["kotlin.use_finalizers_not_cleaners=true"]] if b == "kotlin" else [])):
                q = e2e.run_tool(b, path, os.path.join(d, "out"), config=CFG + extra)
                big += 1
                if e2e.classify_tool(q) == "panic":
                    site, slug = e2e.panic_site(q.stderr)
                    if not (site.startswith("core/src/ast/") and e2e.panic_before_lowering(b, path, os.path.join(d, "out"), config=CFG + extra)):
                        singles = module_panic_keys(b, mod, mmethods, extra, site, slug, d)
                        for cause, m in singles:
                            ctx.violation(f"panic:{b}:{site}:{slug}:{cause}", {"backend": b, "config": extra, "what": "panic on a generated method that passed lowering",
                                                                           "stderr": q.stderr[-600:], "lib_rs": abigen.rust_source(mod, [m])}, True)
                        if not singles:
                            ctx.violation(f"panic:{b}:{site}:{slug}:generated-module", {"backend": b, "config": extra, "what": "panic on a generated module that passed lowering "
                                          "(no single method of it reproduces the panic)", "stderr": q.stderr[-600:], "lib_rs": src[:3000]}, True)
    # fixed bridges: documentation links of every kind / display / depth, special-method attributes on every kind of type
    fixed = 0
    for name, src in c15_fixed.bridges():
        path = os.path.join(d, f"{name}.rs"); open(path, "w").write(src)
        for b in BACKENDS:
            if name in c15_fixed.ONLY and b not in c15_fixed.ONLY[name]:
                continue
            variants = [[]] + ([["js.abi=spec"]] if b in ("js", "demo_gen") else []) + ([["kotlin.use_finalizers_not_cleaners=true"]] if b == "kotlin" else [])
            for extra in variants:
                for ua in (c15_fixed.URL_ARGS if name.startswith("docs") else [[]]):
                    q = e2e.run_tool(b, path, os.path.join(d, "out"), config=CFG + extra, extra_args=ua)
                    fixed += 1
                    if e2e.classify_tool(q) == "panic":
                        site, slug = e2e.panic_site(q.stderr)
                        if site.startswith("core/src/ast/") and e2e.panic_before_lowering(b, path, os.path.join(d, "out"), config=CFG + extra, extra_args=ua):
                            continue
                        ctx.violation(f"panic:{b}:{site}:{slug}:bridge-{name}", {"backend": b, "config": extra, "args": ua, "bridge": name,
                                                                 "what": f"panic on the fixed `{name}` bridge, which passed lowering", "stderr": q.stderr[-600:],
                                                                 "lib_rs": src[:4000]}, True)
    big += fixed
    ndocs, dgoals, fails, dkinds = c15_docs.run(ctx)
    import c15_ctor
    cruns, cgoals, cfails, cstats = c15_ctor.run(ctx)
    big += cruns
    fails = list(fails) + [len(dgoals) + f for f in cfails]
    dgoals = list(dgoals) + cgoals
    return batch_evidence(
        ctx, PROP, phase, dgoals, fails, len(res) + big, len({(c[0], json.dumps(c[1])) for c in cs}),
        "one witness bridge per (position, type) of the AST type grammar to depth 2 (see C05) for each of the 7 backends through the real CLI, plus "
        "generated grammar-wide modules under the config variants (js.abi legacy/spec, kotlin finalizers, lib_name), plus fixed bridges with a "
        "rust_link of each of the 22 kinds x display style x module depth (also shorter-than-needed paths) under three docs-URL settings and every "
        "special-method attribute (constructors, accessors, stringifier, comparison, iterator/iterable, indexer, 8 arithmetic operators) on opaque, "
        "struct, out-struct and enum types, all gated with `auto`, and generated constructor-dependency graphs (constructors needing their own or each other's type) through "
        "demo_gen, whose error / no-error outcome is compared with Dispatch/Ctor.v; observed: exit class "
        "ok | lowering/back-end diagnostics | panic. Every panic after lowering is a violation keyed by (backend, panic site, shape class). "
        "evaluations = tool runs; distinct_nontrivial = distinct witnesses",
        "Modelled, not verified: the documentation renderer (Docs/Model.v = Docs::get_doc_lines, to_markdown, gen_for_rust_link; HashMap lookup as "
        "first-match association over distinct keys, str::trim as ASCII white space), tied by agree_md goals on generated doc lines, links of every kind, "
        "path lengths 1..6 and base-URL settings; the gate (Gate/Model.v) and the depth bound of what it accepts (Dispatch/Model.v), which is what makes the finite "
        "witness enumeration complete up to shape class. NOT modelled: the >60 unreachable!/panic! sites of the backends themselves and arithmetic / "
        "indexing panics inside formatting code: those are only reachable by the runs (partial)",
        [{"pos": cs[0][0], "rust": gate_run.rust_ty(cs[0][1])}, {"pos": cs[-1][0], "rust": gate_run.rust_ty(cs[-1][1])}],
        ["sources that panic while being parsed into the AST (before lowering; decided for core/src/ast sites by the backtrace containing ast::File::from) are outside the property",
         "uniformity inside a shape class (a backend treating two members of one class differently) is assumed, not proved"],
        {"witnesses": len(cs), "tool_runs": len(res) + big, "fixed_bridge_runs": fixed, "docs_renderer_cases": ndocs, "docs_link_kinds": dkinds, "runs_past_lowering": ok_runs, "recorded_panic_classes": len(panics), "demo_constructor_graphs": cstats})
