"""C12 — DiplomatWrite is exact and never overruns (DESIGN §5 C12)."""
import itertools, json, os
from common import *
import e2e

POOL = ["", "a", "ab", "xyz", "hello", "0123456789", "é", "ß", "€", "한", "😀", "a€b", "𝄞x", "\u0000", "\x7f",
        "ééé", "日本語", "q" * 17, "w" * 33]

BRIDGE = r'''
#[diplomat::bridge]
mod ffi {
    use core::fmt::Write;
    use diplomat_runtime::{DiplomatStr, DiplomatWrite};
    #[diplomat::opaque]
    pub struct W;
    impl W {
        pub fn chunks(text: &DiplomatStr, cuts: &[u32], w: &mut DiplomatWrite) {
            let text = core::str::from_utf8(text).unwrap();
            let mut prev = 0usize;
            for &c in cuts {
                let c = c as usize;
                let _ = w.write_str(&text[prev..c]);
                prev = c;
            }
            let _ = w.write_str(&text[prev..]);
        }
        // the same through the optional / fallible write-out shapes, for both outcomes: the writer must be flushed either way
        pub fn chunks_opt(text: &DiplomatStr, cuts: &[u32], present: bool, w: &mut DiplomatWrite) -> Option<()> {
            Self::chunks(text, cuts, w);
            if present { Some(()) } else { None }
        }
        pub fn chunks_res(text: &DiplomatStr, cuts: &[u32], ok: bool, w: &mut DiplomatWrite) -> Result<(), u8> {
            Self::chunks(text, cuts, w);
            if ok { Ok(()) } else { Err(7) }
        }
    }
}
'''


def rand_chunk(rng):
    r = rng.random()
    if r < 0.6:
        return rng.choice(POOL)
    if r < 0.9:
        return "".join(rng.choice("abcdefghijklmnopqrstuvwxyz ") for _ in range(rng.randint(0, 12)))
    return "".join(rng.choice(POOL) for _ in range(rng.randint(1, 4)))


def b(s):
    return list(s.encode("utf-8"))


def cgout(g):
    return "GFail" if g is None else f"(GOk {cnat(g[0])} {cN(g[1])})"


def hexs(bs):
    return "".join(f"\\x{x:02x}" for x in bs)


class C12(Spec):
    prop = "C12"
    cone = ["theories/Properties/C12.v"]
    header = "From Coq Require Import List NArith Bool.\nImport ListNotations.\nFrom DV Require Import Write.Model."
    area = "write"
    list_fields = ("chunks", "grows")
    modelled = ("Modelled, not verified: runtime/src/write.rs and the WriteFromString part of tool/templates/cpp/runtime.hpp.jinja, "
                "transcribed by hand into coq/theories/Write/Model.v; the allocator behind Vec::reserve (its returned capacity is an "
                "oracle input); memcpy; libstdc++'s std::string::resize")
    rule = ("cases = corpus + all grow-outcome patterns {fail, ok(+0), ok(+3)}^k (k<=6 quick / 7 thorough) on a writer where every write "
            "must grow + seeded random histories (caller-supplied / fixed-size / Rust-owned writers, UTF-8 chunk pool incl. empty and "
            "multi-byte), each run on the real runtime through a #[repr(C)] mirror with canary zones; plus end-to-end histories through "
            "a bridge compiled with the real macro and called via the generated C++ class (std::string result, -std=c++17) and the C "
            "header (diplomat_simple_write, diplomat_buffer_write_*). non-trivial = at least one grow() call happened (caller, owned, "
            "C++) or the fixed buffer overflowed; distinct = distinct (kind, capacity, chunks, grow events)")
    assumptions = ("usize overflow of len + chunk length is out of scope (no such history is generated)",
                   "grow() callbacks honour their contract when they return true (new buffer >= requested, old contents kept)")

    def gen_cases(self, ctx):
        rng, cases = ctx.rng, []
        alphabet = [None, [0, 17], [3, 200]]
        maxk = 6 if ctx.quick() else 7
        for k in range(0, maxk + 1):
            for pat in itertools.product(alphabet, repeat=k):
                cases.append({"kind": "caller", "cap": 1, "fill": 1, "chunks": [b("é")] * (k + 1), "grows": list(pat)})
        n_rand = 1200 if ctx.quick() else 30000
        for _ in range(n_rand):
            kind = rng.choices(["caller", "simple", "owned"], [6, 2, 2])[0]
            nch = rng.choice([0, 1, 2, 3, 4, 5, 6, 8, 12])
            chunks = [b(rand_chunk(rng)) for _ in range(nch)]
            if kind == "caller":
                cap = rng.choice([1, 1, 2, 3, 4, 7, 8, 15, 16, 31, 64, rng.randint(1, 64)])
                ng = rng.randint(0, nch + 1)
                grows = [None if rng.random() < 0.3 else [rng.choice([0, 0, 1, 5, 40]), rng.randint(0, 255)] for _ in range(ng)]
                via = rng.choice(["str", "str", "char", "fmt"])
                if via == "char":       # one write per character (multi-byte characters cross the capacity in one piece)
                    chunks = [b(c) for ch in chunks for c in bytes(ch).decode("utf-8")] or chunks
                    grows = grows + [None if rng.random() < 0.3 else [rng.choice([0, 1, 5]), rng.randint(0, 255)] for _ in range(len(chunks))]
                cases.append({"kind": kind, "cap": cap, "fill": rng.randint(0, 255), "chunks": chunks, "grows": grows, "via": via})
            elif kind == "simple":
                cases.append({"kind": kind, "bufsize": rng.choice([1, 2, 3, 5, 8, 16, 33, rng.randint(1, 64)]),
                              "fill": rng.randint(1, 255), "chunks": chunks})
            else:
                cases.append({"kind": kind, "cap": rng.choice([1, 2, 4, 8, 32, rng.randint(1, 64)]), "chunks": chunks})
        return cases

    def direct_check(self, case, out):
        chunks = [bytes(c) for c in case["chunks"]]
        if case["kind"] == "caller":
            if not out["canary"]:
                return "a byte beyond the capacity was written (canary zone damaged)"
            landed, failed_at, cap = b"", None, case["cap"]
            for i, (ch, o) in enumerate(zip(chunks, out["obs"])):
                if not o["canary"]:
                    return f"write #{i} touched bytes beyond capacity"
                if failed_at is None:
                    need = len(landed) + len(ch)
                    want_grow = need > cap
                    if bool(o["grows"]) != want_grow:
                        return f"write #{i}: grow called={bool(o['grows'])} but needed>cap is {want_grow}"
                    if o["grows"]:
                        if len(o["grows"]) != 1 or o["grows"][0][0] != need:
                            return f"write #{i}: grow requested {o['grows']} instead of [{need}]"
                        if not o["grows"][0][1]:
                            failed_at = i
                    if failed_at is None:
                        landed += ch
                        cap = o["cap"]
                elif o["grows"]:
                    return f"write #{i}: grow called again after a failed growth"
                if o["failed"] != (failed_at is not None):
                    return f"write #{i}: flag={o['failed']} but a growth has{' ' if failed_at is not None else ' not '}failed"
                if o["len"] != len(landed) or bytes(o["mem"][:o["len"]]) != landed:
                    return f"write #{i}: buffer holds {bytes(o['mem'][:o['len']])!r}, expected {landed!r}"
                if o["len"] > o["cap"]:
                    return f"write #{i}: len {o['len']} > cap {o['cap']}"
            return None
        if case["kind"] == "simple":
            size = case["bufsize"]
            if not out["canary"]:
                return "flush or write stored outside the caller's buffer"
            landed, failed = b"", False
            for ch in chunks:
                if not failed and len(landed) + len(ch) <= size - 1:
                    landed += ch
                else:
                    failed = True
            if out["len"] != len(landed) or bytes(out["mem"][:len(landed)]) != landed:
                return f"fixed buffer holds {bytes(out['mem'][:out['len']])!r}, expected {landed!r}"
            if out["len"] > size - 1 or out["mem"][out["len"]] != 0:
                return "no NUL terminator at buf[len] inside the buffer"
            if any(x != case["fill"] for x in out["mem"][out["len"] + 1:]):
                return "bytes after the terminator were touched"
            if out["failed"] != failed:
                return f"flag={out['failed']}, expected {failed}"
            if out["mem"] != out["mem2"]:
                return "flush is not idempotent"
            return None
        landed = b""
        for i, (ch, o) in enumerate(zip(chunks, out["obs"])):
            landed += ch
            if o["failed"] or o["get_bytes"] is None:
                return f"write #{i}: Rust-owned writer reported failure"
            if o["get_len"] != len(landed) or bytes(o["get_bytes"]) != landed:
                return f"write #{i}: holds {bytes(o['get_bytes'])!r}, expected {landed!r}"
            if o["len"] > o["cap"]:
                return f"write #{i}: len > cap"
        return None

    def goal_of(self, case, out):
        chunks = clist([cbytes(c) for c in case["chunks"]])
        if case["kind"] == "caller":
            obs = clist([f"mkObs {cnat(o['len'])} {cnat(o['cap'])} {cbool(o['failed'])} {cbytes(o['mem'])}" for o in out["obs"]])
            k = f"(mkCase {cnat(case['cap'])} {cN(case['fill'])} {chunks} {clist([cgout(g) for g in case['grows']])})"
            return f"agree_caller {k} {obs}"
        if case["kind"] == "simple":
            return (f"agree_simple {cnat(case['bufsize'])} {cN(case['fill'])} {chunks} {cbytes(out['mem'])} "
                    f"{cnat(out['len'])} {cbool(out['failed'])}")
        gs, cap, ln = [], case["cap"], 0
        for ch, o in zip(case["chunks"], out["obs"]):
            need = ln + len(ch)
            if need > cap:
                gs.append(f"(GOk {cnat(max(o['cap'] - need, 0))} 0%N)" if o["cap"] >= need else "GFail")
            cap, ln = o["cap"], o["len"]
        obs = clist([f"({cnat(o['get_len'])}, {cnat(o['cap'])}, {copt(cbytes(o['get_bytes'])) if o['get_bytes'] is not None else 'None'})"
                     for o in out["obs"]])
        return f"agree_owned {cnat(case['cap'])} {chunks} {clist(gs)} {obs}"

    def nontrivial_key(self, case, out):
        if case["kind"] == "caller":
            ev = tuple(tuple(map(tuple, o["grows"])) for o in out["obs"])
            if not any(ev):
                return None
            return ("caller", case["cap"], tuple(map(tuple, case["chunks"])), ev)
        if case["kind"] == "simple":
            return ("simple", case["bufsize"], tuple(map(tuple, case["chunks"]))) if out["failed"] else None
        caps = tuple(o["cap"] for o in out["obs"])
        return ("owned", case["cap"], tuple(map(tuple, case["chunks"]))) if any(c != case["cap"] for c in caps) else None

    def sample(self, case, out):
        return {"case": case, "observed_final": (out["obs"][-1] if out.get("obs") else out)}

    # ---- end to end: generated C++ class and C header over a bridge built with the real macro
    def extra(self, ctx, cases, outs):
        rng = ctx.rng
        e2e.build_tool()
        d, lib, p = e2e.bridge_crate("c12w", BRIDGE)
        if lib is None:
            ctx.violation("e2e:bridge-build", {"broken": "the write-out bridge no longer compiles with the real macro", "log": p.stderr[-2000:]}, False)
            return {"obligations": 1, "discharged": 0}
        src = os.path.join(d, "src", "lib.rs")
        for backend in ("cpp", "c"):
            q = e2e.run_tool(backend, src, os.path.join(d, "out_" + backend))
            if q.returncode != 0:
                ctx.violation("e2e:tool-" + backend, {"broken": f"diplomat-tool {backend} failed on the write-out bridge", "log": q.stderr[-2000:]}, False)
                return {"obligations": 1, "discharged": 0}
        n = 60 if ctx.quick() else 400
        hist = []
        for _ in range(n):
            chunks = [rand_chunk(rng) for _ in range(rng.choice([1, 2, 3, 4, 6, 9]))]
            if rng.random() < 0.3:
                chunks = [rng.choice(["x" * rng.randint(10, 40), "€" * rng.randint(5, 20)])] + chunks
            hist.append([b(c) for c in chunks])
        hist += [[b("hello, "), b("Bob"), b("!")], [b("a" * 20), b("b"), b("c" * 3), b("d")], [b("")], [b(""), b("x")]]
        # C++ driver
        body = []
        for i, chunks in enumerate(hist):
            text = [x for c in chunks for x in c]
            cuts, acc = [], 0
            for c in chunks[:-1]:
                acc += len(c); cuts.append(acc)
            body.append(f'  {{ static const char t[] = "{hexs(text)}"; static const uint32_t c[] = {{{", ".join(map(str, cuts)) or "0"}}};\n'
                        f'    std::string r = W::chunks(std::string_view(t, {len(text)}), diplomat::span<const uint32_t>(c, {len(cuts)}));\n'
                        f'    printf("{i}:"); for (unsigned char ch : r) printf("%02x", ch); printf("\\n"); }}')
        cpp = '#include "W.hpp"\n#include <cstdio>\n#include <string>\nint main() {\n' + "\n".join(body) + "\n  return 0;\n}\n"
        cpp_path = os.path.join(d, "drv.cpp")
        open(cpp_path, "w").write(cpp)
        # C driver: fixed-size writer and Rust-owned writer through the generated header
        cbody = []
        sizes = [rng.choice([1, 2, 4, 8, 16, 40, 128]) for _ in hist]
        for i, chunks in enumerate(hist):
            text = [x for c in chunks for x in c]
            cuts, acc = [], 0
            for c in chunks[:-1]:
                acc += len(c); cuts.append(acc)
            sz = sizes[i]
            cbody.append(f'  {{ static const char t[] = "{hexs(text)}"; static const uint32_t c[] = {{{", ".join(map(str, cuts)) or "0"}}};\n'
                         f'    unsigned char buf[{sz} + 8]; memset(buf, 0xEE, sizeof buf);\n'
                         f'    DiplomatWrite w = diplomat_simple_write((char*)buf, {sz});\n'
                         f'    W_chunks((DiplomatStringView){{t, {len(text)}}}, (DiplomatU32View){{c, {len(cuts)}}}, &w);\n'
                         f'    printf("s{i}:%d:%zu:", (int)w.grow_failed, w.len); for (int k = 0; k < {sz} + 8; k++) printf("%02x", buf[k]); printf("\\n");\n'
                         f'    DiplomatWrite* o = diplomat_buffer_write_create({rng.choice([1, 2, 8, 64])});\n'
                         f'    W_chunks((DiplomatStringView){{t, {len(text)}}}, (DiplomatU32View){{c, {len(cuts)}}}, o);\n'
                         f'    printf("o{i}:"); for (size_t k = 0; k < diplomat_buffer_write_len(o); k++) printf("%02x", (unsigned char)diplomat_buffer_write_get_bytes(o)[k]); printf("\\n");\n'
                         f'    diplomat_buffer_write_destroy(o); }}')
            for vi, (fn, flag) in enumerate((("W_chunks_opt", "true"), ("W_chunks_opt", "false"), ("W_chunks_res", "true"), ("W_chunks_res", "false"))):
                if (i + vi) % 3 == 0:
                    cbody.append(f'  {{ static const char t[] = "{hexs(text)}"; static const uint32_t c[] = {{{", ".join(map(str, cuts)) or "0"}}};\n'
                                 f'    unsigned char buf[{sz} + 8]; memset(buf, 0xEE, sizeof buf);\n'
                                 f'    DiplomatWrite w = diplomat_simple_write((char*)buf, {sz});\n'
                                 f'    {fn}((DiplomatStringView){{t, {len(text)}}}, (DiplomatU32View){{c, {len(cuts)}}}, {flag}, &w);\n'
                                 f'    printf("f{i}_{vi}:%d:%zu:", (int)w.grow_failed, w.len); for (int k = 0; k < {sz} + 8; k++) printf("%02x", buf[k]); printf("\\n"); }}')
        csrc = '#include "W.h"\n#include <stdio.h>\n#include <string.h>\nint main(void) {\n' + "\n".join(cbody) + "\n  return 0;\n}\n"
        c_path = os.path.join(d, "drv.c")
        open(c_path, "w").write(csrc)
        viol = 0
        stds = ["c++17"] if ctx.quick() else ["c++17", "c++20"]
        goals, total = [], 0
        for std in stds:
            c, r = e2e.cc_run(cpp_path, [os.path.join(d, "out_cpp")], lib, os.path.join(d, "drv_cpp"), std=std, cxx=True)
            if r is None or r.returncode != 0:
                ctx.violation("e2e:cpp-driver", {"broken": "C++ driver for the write-out bridge failed to build/run", "log": (c.stderr if r is None else r.stderr)[-2000:]}, False)
                return {"obligations": 1, "discharged": 0}
            got = dict(l.split(":", 1) for l in r.stdout.split("\n") if ":" in l)
            for i, chunks in enumerate(hist):
                total += 1
                text = bytes(x for c in chunks for x in c)
                res = bytes.fromhex(got.get(str(i), "ff"))
                if res != text and len(ctx.violations) < 2:
                    viol += 1
                    ctx.violation("e2e:cpp-string", {"case": {"kind": "cpp", "chunks": chunks, "std": std},
                                                    "what": f"C++ method returned {res!r}, Rust wrote {text!r}"}, True)
                goals.append(f"agree_cpp {clist([cbytes(c) for c in chunks])} {cbytes(list(res))}")
        c, r = e2e.cc_run(c_path, [os.path.join(d, "out_c")], lib, os.path.join(d, "drv_c"), std="c11")
        if r is None or r.returncode != 0:
            ctx.violation("e2e:c-driver", {"broken": "C driver for the write-out bridge failed to build/run", "log": (c.stderr if r is None else r.stderr)[-2000:]}, False)
            return {"obligations": 1, "discharged": 0}
        got = dict(l.split(":", 1) for l in r.stdout.split("\n") if ":" in l)
        for i, chunks in enumerate(hist):
            total += 2
            text = bytes(x for c in chunks for x in c)
            sz = sizes[i]
            fl, ln, hx = got[f"s{i}"].split(":")
            mem = list(bytes.fromhex(hx))
            if mem[sz:] != [0xEE] * 8 and len(ctx.violations) < 2:
                viol += 1
                ctx.violation("e2e:c-simple-overrun", {"case": {"kind": "c-simple", "chunks": chunks, "bufsize": sz}, "what": "bytes past the caller's buffer were written"}, True)
            goals.append(f"agree_simple {cnat(sz)} 238%N {clist([cbytes(c) for c in chunks])} {cbytes(mem[:sz])} {cnat(int(ln))} {cbool(fl == '1')}")
            for vi, what in enumerate(("an Option<()> method returning Some(())", "an Option<()> method returning None", "a Result<(), u8> method returning Ok(())",
                                       "a Result<(), u8> method returning Err")):
                if (i + vi) % 3 == 0:
                    total += 1
                    fl2, ln2, hx2 = got[f"f{i}_{vi}"].split(":")
                    mem2 = list(bytes.fromhex(hx2))
                    if fl2 != "1" and int(ln2) < sz and mem2[int(ln2)] != 0 and len(ctx.violations) < 2:
                        viol += 1
                        ctx.violation("e2e:c-flush", {"case": {"kind": "c-simple-fallible", "chunks": chunks, "bufsize": sz, "variant": what},
                                                      "what": f"after {what} wrote {int(ln2)} bytes into a {sz}-byte buffer the string is not NUL-terminated (the writer was not flushed)"}, True)
                    goals.append(f"agree_simple {cnat(sz)} 238%N {clist([cbytes(c) for c in chunks])} {cbytes(mem2[:sz])} {cnat(int(ln2))} {cbool(fl2 == '1')}")
            ob = bytes.fromhex(got[f"o{i}"])
            if ob != text and len(ctx.violations) < 2:
                viol += 1
                ctx.violation("e2e:c-owned", {"case": {"kind": "c-owned", "chunks": chunks}, "what": f"Rust-owned writer holds {ob!r}, expected {text!r}"}, True)
            goals.append(f"agree_cpp {clist([cbytes(c) for c in chunks])} {cbytes(list(ob))}")
        fails = run_shards(self.prop + "", self.header, goals)
        if fails and not ctx.violations:
            ctx.violation("e2e:corr", {"broken": "end-to-end correspondence goal: " + goals[fails[0]][:300]}, False)
        return {"obligations": len(goals), "discharged": len(goals) - len(fails), "e2e_histories": len(hist),
                "e2e_executions": total, "cpp_standards": stds}


def check(ctx, replay=None):
    return run_property(C12(), ctx, replay)
