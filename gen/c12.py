"""C12 — DiplomatWrite is exact and never overruns (DESIGN §5 C12)."""
import itertools, json, os
from common import *

PROP = "C12"
CONE = ["theories/Properties/C12.v"]
HEADER = "From Coq Require Import List NArith Bool.\nImport ListNotations.\nFrom DV Require Import Write.Model."

POOL = ["", "a", "ab", "xyz", "hello", "0123456789", "é", "ß", "€", "한", "😀", "a€b", "𝄞x", "\u0000", "\x7f",
        "ééé", "日本語", "q" * 17, "w" * 33]


def rand_chunk(rng):
    r = rng.random()
    if r < 0.6:
        return rng.choice(POOL)
    if r < 0.9:
        return "".join(rng.choice("abcdefghijklmnopqrstuvwxyz ") for _ in range(rng.randint(0, 12)))
    return "".join(rng.choice(POOL) for _ in range(rng.randint(1, 4)))


def b(s):
    return list(s.encode("utf-8"))


def gen_cases(ctx):
    rng = ctx.rng
    cases = []
    # exhaustive grow patterns up to length 6 (every write grows: cap 1, 2-byte chunks, extra 0)
    alphabet = [None, [0, 17], [3, 200]]
    maxk = 6 if ctx.quick() else 7
    for k in range(0, maxk + 1):
        for pat in itertools.product(alphabet, repeat=k):
            cases.append({"kind": "caller", "cap": 1, "fill": 1, "chunks": [b("é")] * (k + 1), "grows": list(pat),
                          "src": "exhaustive"})
    n_rand = 1200 if ctx.quick() else 30000
    for _ in range(n_rand):
        kind = rng.choices(["caller", "simple", "owned"], [6, 2, 2])[0]
        nch = rng.choice([0, 1, 2, 3, 4, 5, 6, 8, 12])
        chunks = [b(rand_chunk(rng)) for _ in range(nch)]
        if kind == "caller":
            cap = rng.choice([1, 1, 2, 3, 4, 7, 8, 15, 16, 31, 64, rng.randint(1, 64)])
            ng = rng.randint(0, nch + 1)
            grows = [None if rng.random() < 0.3 else [rng.choice([0, 0, 1, 5, 40]), rng.randint(0, 255)] for _ in range(ng)]
            cases.append({"kind": kind, "cap": cap, "fill": rng.randint(0, 255), "chunks": chunks, "grows": grows, "src": "random"})
        elif kind == "simple":
            cases.append({"kind": kind, "bufsize": rng.choice([1, 2, 3, 5, 8, 16, 33, rng.randint(1, 64)]),
                          "fill": rng.randint(1, 255), "chunks": chunks, "src": "random"})
        else:
            cases.append({"kind": kind, "cap": rng.choice([1, 2, 4, 8, 32, rng.randint(1, 64)]), "chunks": chunks, "src": "random"})
    return cases


def direct_check(case, out):
    """The property's text, checked directly on what the implementation did. Returns None or a message."""
    chunks = [bytes(c) for c in case["chunks"]]
    if case["kind"] == "caller":
        if not out["canary"]:
            return "a byte beyond the capacity was written (canary zone damaged)"
        landed, failed_at, cap = b"", None, case["cap"]
        for i, (ch, o) in enumerate(zip(chunks, out["obs"])):
            if not o["canary"]:
                return f"write #{i} touched bytes beyond capacity"
            if failed_at is None:
                need = len(landed) + len(ch)
                want_grow = need > cap
                if bool(o["grows"]) != want_grow:
                    return f"write #{i}: grow called={bool(o['grows'])} but needed>cap is {want_grow}"
                if o["grows"]:
                    if len(o["grows"]) != 1 or o["grows"][0][0] != need:
                        return f"write #{i}: grow requested {o['grows']} instead of [{need}]"
                    if not o["grows"][0][1]:
                        failed_at = i
                if failed_at is None:
                    landed += ch
                    cap = o["cap"]
            else:
                if o["grows"]:
                    return f"write #{i}: grow called again after a failed growth"
            if o["failed"] != (failed_at is not None):
                return f"write #{i}: flag={o['failed']} but a growth has{' ' if failed_at is not None else ' not '}failed"
            if o["len"] != len(landed) or bytes(o["mem"][:o["len"]]) != landed:
                return f"write #{i}: buffer holds {bytes(o['mem'][:o['len']])!r}, expected {landed!r}"
            if o["len"] > o["cap"]:
                return f"write #{i}: len {o['len']} > cap {o['cap']}"
        return None
    if case["kind"] == "simple":
        size = case["bufsize"]
        if not out["canary"]:
            return "flush or write stored outside the caller's buffer"
        landed, failed = b"", False
        for ch in chunks:
            if not failed and len(landed) + len(ch) <= size - 1:
                landed += ch
            else:
                failed = True
        if out["len"] != len(landed) or bytes(out["mem"][:len(landed)]) != landed:
            return f"fixed buffer holds {bytes(out['mem'][:out['len']])!r}, expected {landed!r}"
        if out["len"] > size - 1 or out["mem"][out["len"]] != 0:
            return "no NUL terminator at buf[len] inside the buffer"
        if any(x != case["fill"] for x in out["mem"][out["len"] + 1:]):
            return "bytes after the terminator were touched"
        if out["failed"] != failed:
            return f"flag={out['failed']}, expected {failed}"
        if out["mem"] != out["mem2"]:
            return "flush is not idempotent"
        return None
    if case["kind"] == "owned":
        landed = b""
        for i, (ch, o) in enumerate(zip(chunks, out["obs"])):
            landed += ch
            if o["failed"] or o["get_bytes"] is None:
                return f"write #{i}: Rust-owned writer reported failure"
            if o["get_len"] != len(landed) or bytes(o["get_bytes"]) != landed:
                return f"write #{i}: holds {bytes(o['get_bytes'])!r}, expected {landed!r}"
            if o["len"] > o["cap"]:
                return f"write #{i}: len > cap"
        return None


def cgout(g):
    return "GFail" if g is None else f"(GOk {cnat(g[0])} {cN(g[1])})"


def goal_of(case, out):
    chunks = clist([cbytes(c) for c in case["chunks"]])
    if case["kind"] == "caller":
        obs = clist([f"mkObs {cnat(o['len'])} {cnat(o['cap'])} {cbool(o['failed'])} {cbytes(o['mem'])}" for o in out["obs"]])
        k = f"(mkCase {cnat(case['cap'])} {cN(case['fill'])} {chunks} {clist([cgout(g) for g in case['grows']])})"
        return f"agree_caller {k} {obs}"
    if case["kind"] == "simple":
        return (f"agree_simple {cnat(case['bufsize'])} {cN(case['fill'])} {chunks} {cbytes(out['mem'])} "
                f"{cnat(out['len'])} {cbool(out['failed'])}")
    # owned: the capacity the allocator handed back is the oracle's outcome (extra = newcap - requested)
    gs, cap, ln = [], case["cap"], 0
    for ch, o in zip(case["chunks"], out["obs"]):
        need = ln + len(ch)
        if need > cap:
            gs.append(f"(GOk {cnat(max(o['cap'] - need, 0))} 0%N)" if o["cap"] >= need else "GFail")
        cap, ln = o["cap"], o["len"]
    obs = clist([f"({cnat(o['get_len'])}, {cnat(o['cap'])}, {copt(cbytes(o['get_bytes'])) if o['get_bytes'] is not None else 'None'})"
                 for o in out["obs"]])
    return f"agree_owned {cnat(case['cap'])} {chunks} {clist(gs)} {obs}"


def nontrivial_key(case, out):
    """non-trivial = at least one growth happened or failed (caller/owned) or the buffer overflowed (simple)"""
    if case["kind"] == "caller":
        ev = tuple(tuple(map(tuple, o["grows"])) for o in out["obs"])
        if not any(ev):
            return None
        return ("caller", case["cap"], tuple(map(tuple, case["chunks"])), ev)
    if case["kind"] == "simple":
        return ("simple", case["bufsize"], tuple(map(tuple, case["chunks"]))) if out["failed"] else None
    caps = tuple(o["cap"] for o in out["obs"])
    return ("owned", case["cap"], tuple(map(tuple, case["chunks"]))) if any(c != case["cap"] for c in caps) else None


def shrink(case, still_fails):
    """greedy: drop chunks / grow outcomes, shorten chunks"""
    cur = case
    changed = True
    budget = 60
    while changed and budget > 0:
        changed = False
        for field in ("chunks", "grows"):
            if field not in cur:
                continue
            i = 0
            while i < len(cur[field]) and budget > 0:
                cand = dict(cur); cand[field] = cur[field][:i] + cur[field][i + 1:]
                budget -= 1
                if still_fails(cand):
                    cur, changed = cand, True
                else:
                    i += 1
    return cur


def evaluate(ctx, cases):
    """oracle + direct property check + correspondence for a list of cases.
    Returns (outs, direct_failures[(idx,msg)], corr_failures[idx])"""
    outs, p = oracle("write", cases)
    if outs is None:
        # the batch crashed: find the crashing case
        outs = []
        crashed = []
        for i, (o, pp) in enumerate(oracle_each("write", cases)):
            outs.append(o)
            if o is None:
                crashed.append((i, f"implementation crashed: rc={pp.returncode} {pp.stderr.strip()[-300:]}"))
        return outs, crashed, []
    direct = []
    for i, (c, o) in enumerate(zip(cases, outs)):
        m = direct_check(c, o)
        if m:
            direct.append((i, m))
    goals = [goal_of(c, o) for c, o in zip(cases, outs)]
    # find all failing goals: rerun shards without the first failure until clean (bounded)
    corr, live = [], list(range(len(cases)))
    for _ in range(4):
        fails = run_shards(PROP, HEADER, [goals[i] for i in live])
        if not fails:
            break
        bad = [live[f] for f in fails]
        corr += bad
        live = [i for i in live if i not in bad]
    return outs, direct, corr


def check(ctx, replay=None):
    build_harness()
    phase = standard_proof_phase(ctx, PROP, CONE)
    names, ass = phase if phase else ([], {})
    corpus = []
    cdir = os.path.join(VERIF, "corpus", PROP)
    if os.path.isdir(cdir):
        for f in sorted(os.listdir(cdir)):
            corpus += [json.loads(l) for l in open(os.path.join(cdir, f)) if l.strip()]
    if replay:
        cases = [replay["replay"]["case"]] if "case" in replay.get("replay", {}) else corpus
    else:
        cases = corpus + gen_cases(ctx)
    outs, direct, corr = evaluate(ctx, cases)

    def fails_direct(c):
        o, _ = oracle("write", [c])
        return o is None or direct_check(c, o[0]) is not None

    def fails_corr(c):
        o, _ = oracle("write", [c])
        return o is not None and not goal_holds(PROP, HEADER, goal_of(c, o[0]))

    for i, msg in direct[:3]:
        small = shrink(cases[i], fails_direct)
        o, _ = oracle("write", [small])
        m2 = (direct_check(small, o[0]) if o else msg) or msg
        ctx.violation("direct:" + small["kind"], {"case": small, "what": m2, "observed": o[0] if o else None}, True)
    if not direct:
        for i in corr[:3]:
            small = shrink(cases[i], fails_corr)
            o, _ = oracle("write", [small])
            ctx.violation("corr:" + small["kind"],
                          {"case": small, "observed": o[0] if o else None,
                           "broken": "correspondence goal " + goal_of(small, o[0])[:60] + "... (Write/Model.v no longer "
                           "describes runtime/src/write.rs); the property's direct check found no failing input"},
                          False)

    keys = set()
    kinds = {}
    for c, o in zip(cases, outs):
        if o is None:
            continue
        k = nontrivial_key(c, o)
        if k:
            keys.add(k)
        kinds[c["kind"]] = kinds.get(c["kind"], 0) + 1
    nobl = len(names) + len(cases)
    ndis = (len(names) if phase else 0) + len(cases) - len(corr)
    cov = {
        "obligations": nobl, "discharged": ndis,
        "checker_cmd": "make -C coq theories/Properties/C12.vo (coqc, full .vo) + coqc on generated cases_C12_*.v (vm_compute; reflexivity)",
        "trusted_base": TRUSTED_BASE_COMMON + [
            "Modelled, not verified: runtime/src/write.rs transcribed by hand into coq/theories/Write/Model.v; "
            "the allocator behind Vec::reserve (its returned capacity is an oracle input); memcpy",
            "Print Assumptions: " + "; ".join(f"{n}: {'closed' if not a else ','.join(a)}" for n, a in ass.items()),
        ],
        "theorems": names,
        "evaluations": len(cases), "distinct_nontrivial": len(keys),
        "rule": "cases = corpus + all grow-outcome patterns {fail, ok(+0), ok(+3)}^k (k<=6 quick / 7 thorough) on a writer where "
                "every write must grow + seeded random histories (caller-supplied / fixed-size / Rust-owned writers, UTF-8 chunk pool "
                "incl. empty and multi-byte). Each case is run on the real runtime through a #[repr(C)] mirror with canary zones; "
                "non-trivial = at least one grow() call happened (caller, owned) or the fixed buffer overflowed; distinct = distinct "
                "(kind, capacity, chunks, grow events)",
        "traces_validated_against_impl": len(cases) - len(corr),
        "kinds": kinds,
        "exhaustive": False,
        "samples": [{"case": {k: v for k, v in c.items()}, "observed_final": (o["obs"][-1] if o and o.get("obs") else o)}
                    for c, o in list(zip(cases, outs))[300:301] + list(zip(cases, outs))[-2:]],
    }
    return ctx.finish(cov, [
        "usize overflow of len + chunk length is out of scope (no such history is generated)",
        "grow() callbacks honour their contract when they return true (new buffer >= requested, old contents kept)",
        "the C++ WriteFromString template is tied through the C02/C01 end-to-end checks, here only its model is proved",
    ])
