"""C17 — configuration precedence (DESIGN §5 C17)."""
import itertools
import shutil
from common import *

LANGS = ["kotlin", "demo_gen", "nanobind", "js"]
TARGETS = ["c", "cpp", "js", "dart", "kotlin", "nanobind", "demo_gen"]
SHARED = [("lib_name", "s"), ("unsafe_references_in_callbacks", "b")]
LANGKEYS = {"kotlin": [("domain", "s"), ("use_finalizers_not_cleaners", "b")], "js": [("abi", "abi")],
            "demo_gen": [("explicit_generation", "b"), ("hide_default_renderer", "b"), ("module_name", "s"), ("relative_js_path", "s")],
            "nanobind": []}


def kebab(s):
    return s.replace("_", "-")


def cval(v):
    if isinstance(v, bool):
        return f"(VB {cbool(v)})"
    if isinstance(v, int):
        return f"(VI {cZ(v)})"
    return f"(VS {cstr(v)})"


def cwrite(w):
    sc = "None" if w[0] is None else f"(Some {cstr(w[0])})"
    return f"({sc}, {cstr(w[1])}, {cval(w[2])})"


class C17(Spec):
    prop = "C17"
    cone = ["theories/Properties/C17.v"]
    header = ("From Coq Require Import List Bool String ZArith.\nImport ListNotations.\nLocal Open Scope string_scope.\n"
              "Local Open Scope list_scope.\nFrom DV Require Import Config.Model.")
    area = "config"
    list_fields = ("file", "cli", "attr")
    modelled = ("Modelled, not verified: tool/src/config.rs (Config::set, get_overridden, read_file, read_cli_settings, "
                "toml_value_from_str through its effect on values) and the set() functions of KotlinConfig/JsConfig/DemoConfig, "
                "transcribed into Config/Model.v; keys are split at their first '.' by the generator; TOML parsing itself (toml crate) "
                "and heck::AsSnakeCase on lower-case kebab keys are trusted")
    rule = ("all assignments of distinct values to the three sources (absent / shared / language-scoped, file keys in kebab or snake case) "
            "for lib_name and unsafe_references_in_callbacks x every target, plus seeded mixes with kotlin.domain, "
            "kotlin.use_finalizers_not_cleaners, js.abi, demo_gen.*; driven through Config::{read_file, read_cli_settings, set, "
            "get_overridden} like main.rs/gen() do, effective config read back through its Serialize impl; a few cases also end to end "
            "through the CLI (extra). non-trivial = at least two sources write the same setting; distinct by full case")
    assumptions = ("the nanobind backend is addressed by the target name `nanobind` (the alias `py-nanobind` does not match the "
                   "`nanobind.` key prefix; recorded in DESIGN.md, outside the property as stated)",)

    def gen_cases(self, ctx):
        rng, cases = ctx.rng, []
        # exhaustive: per shared key, each source writes nothing / shared / scoped-to-some-language
        for name, ty in SHARED:
            vals = {"file": "vf" if ty == "s" else True, "cli": "vc" if ty == "s" else False, "attr": "va" if ty == "s" else True}
            slots = [None, "shared", "kotlin", "js", "nanobind"]
            for f, c, a in itertools.product(slots, repeat=3):
                if ctx.quick() and sum(x is not None for x in (f, c, a)) == 3 and rng.random() < 0.6:
                    continue
                case = {"file": [], "cli": [], "attr": []}
                for src, slot in (("file", f), ("cli", c), ("attr", a)):
                    if slot is None:
                        continue
                    v = vals[src]
                    if ty == "b" and src == "cli":
                        v = rng.random() < 0.5
                    nm = kebab(name) if (src == "file" and rng.random() < 0.5) else name
                    case[src].append([None if slot == "shared" else slot, nm, v])
                for t in (["kotlin", "js", "c"] if ctx.quick() else TARGETS):
                    cases.append(dict(case, target=t))
        n = 800 if ctx.quick() else 20000
        for _ in range(n):
            case = {"file": [], "cli": [], "attr": [], "target": rng.choice(TARGETS)}
            for src in ("file", "cli", "attr"):
                used = set()
                for _ in range(rng.choice([0, 1, 1, 2, 3])):
                    scope = rng.choice([None, None] + LANGS)
                    pool = SHARED + (LANGKEYS[scope] if scope else [])
                    name, ty = rng.choice(pool)
                    if (scope, name) in used:
                        continue       # a TOML file cannot repeat a key; keep the other sources alike
                    used.add((scope, name))
                    if ty == "s":
                        v = rng.choice(["alpha", "beta", "x.y", "lib-" + src, "Q" + str(rng.randint(0, 9))])
                    elif ty == "b":
                        v = rng.random() < 0.5
                    else:
                        v = rng.choice(["spec", "legacy", "other"])
                    nm = kebab(name) if (src == "file" and rng.random() < 0.5) else name
                    sc = scope.replace("_", "-") if (scope and src == "file" and rng.random() < 0.3) else scope
                    case[src].append([sc, nm, v])
            cases.append(case)
        return cases

    def norm(self, case):
        f = [[(w[0].replace("-", "_") if w[0] else None), w[1].replace("-", "_"), w[2]] for w in case["file"]]
        return f + case["cli"] + case["attr"]

    def direct_check(self, case, out):
        # the property's text: last writer in file < cli < attr order, language-scoped beats shared for that language
        ws, t = self.norm(case), case["target"]
        cfg = out["config"]
        if cfg is None:
            return f"the tool panicked on a well-typed configuration: file={case['file']} cli={case['cli']} attr={case['attr']}"
        for name, _ in SHARED:
            scoped = [w[2] for w in ws if w[0] == t and w[1] == name]
            shared = [w[2] for w in ws if w[0] is None and w[1] == name]
            want = scoped[-1] if scoped else (shared[-1] if shared else None)
            if cfg.get(name) != want:
                return f"effective {name} for {t} is {cfg.get(name)!r}, documented precedence gives {want!r}"
        for lang, field in (("kotlin", "kotlin"), ("demo_gen", "demo_gen")):
            for name, ty in LANGKEYS[lang]:
                vs = [w[2] for w in ws if w[0] == lang and w[1] == name]
                want = vs[-1] if vs else None
                if cfg[field].get(name) != want:
                    return f"effective {lang}.{name} is {cfg[field].get(name)!r}, expected {want!r}"
        vs = [w[2] for w in ws if w[0] == "js" and w[1] == "abi"]
        want = "spec" if (vs and vs[-1] == "spec") else "Legacy"
        if cfg["js"]["abi"] != want:
            return f"effective js.abi is {cfg['js']['abi']}, expected {want}"
        return None

    def goal_of(self, case, out):
        cfg = out["config"]
        f = clist([cwrite(w) for w in case["file"]])
        c = clist([cwrite(w) for w in case["cli"]])
        a = clist([cwrite(w) for w in case["attr"]])
        if cfg is None:
            o = "None"
        else:
            so = lambda x: "None" if x is None else f"(Some {cstr(x)})"
            bo = lambda x: "None" if x is None else f"(Some {cbool(x)})"
            k, d = cfg["kotlin"], cfg["demo_gen"]
            o = (f"(Some (mkObs {so(cfg.get('lib_name'))} {bo(cfg.get('unsafe_references_in_callbacks'))} {so(k.get('domain'))} "
                 f"{bo(k.get('use_finalizers_not_cleaners'))} {cbool(cfg['js']['abi'] == 'spec')} "
                 f"({bo(d.get('explicit_generation'))}, {bo(d.get('hide_default_renderer'))}, {so(d.get('module_name'))}, {so(d.get('relative_js_path'))})))")
        return f"agree_cfg {f} {c} {a} {cstr(case['target'])} {o}"

    def nontrivial_key(self, case, out):
        ws = self.norm(case)
        names = [(w[1]) for w in ws]
        if len(names) != len(set(names)) or len(set((w[0], w[1]) for w in ws)) != len(ws):
            return json.dumps(case, sort_keys=True)
        return None

    def key_of(self, case):
        return "config"

    # ---- end to end through the real CLI: config.toml + --config + #[diplomat::config] in the source
    def extra(self, ctx, cases, outs):
        import e2e, re
        e2e.build_tool()
        rng = ctx.rng
        d = os.path.join(BUILD, "e2e", "c17")
        os.makedirs(d, exist_ok=True)
        n = 14 if ctx.quick() else 120
        goals, viol, ran = [], 0, 0
        def lit(v):
            return json.dumps(v)
        for i in range(n):
            target = rng.choice(["kotlin", "nanobind", "c", "nanobind-cb", "nanobind-cb"])
            cbmode = target == "nanobind-cb"
            if cbmode:
                target = "nanobind"
            case = {"file": [], "cli": [], "attr": [], "target": target}
            names = {"kotlin": [(None, "lib_name"), ("kotlin", "lib_name"), ("kotlin", "domain"), ("js", "lib_name")],
                     "nanobind": [(None, "lib_name"), ("nanobind", "lib_name"), ("kotlin", "lib_name")],
                     "c": [(None, "unsafe_references_in_callbacks"), ("kotlin", "unsafe_references_in_callbacks")]}[target]
            if cbmode:
                names = [(None, "unsafe_references_in_callbacks"), ("nanobind", "unsafe_references_in_callbacks"), ("kotlin", "unsafe_references_in_callbacks")]
            for src in ("file", "cli", "attr"):
                for (sc, nm) in names:
                    if rng.random() < 0.45:
                        v = (rng.random() < 0.5) if nm.startswith("unsafe") else f"{src[0]}{'s' if sc else 'g'}{rng.randint(0, 9)}" + (".org" if nm == "domain" else "")
                        case[src].append([sc, kebab(nm) if src == "file" and rng.random() < 0.5 else nm, v])
            # required settings must exist somewhere
            if target == "kotlin":
                if not any(w[1].replace("-", "_") == "domain" for s_ in ("file", "cli", "attr") for w in case[s_]):
                    case["file"].append(["kotlin", "domain", "base.org"])
            if target in ("kotlin", "nanobind") and not any(w[0] is None and w[1].replace("-", "_") == "lib_name" for s_ in ("file", "cli", "attr") for w in case[s_]):
                case["file"].append([None, "lib-name", "baselib"])
            attrs = "".join(f"#[diplomat::config({(w[0] + '.') if w[0] else ''}{w[1]} = {lit(w[2])})]\n" for w in case["attr"])
            body = ("pub fn f(&self, cb: impl Fn(&O) -> i32) -> i32 { 0 }" if target == "c" else
                    "pub fn f(&self, cb: impl Fn(&mut O) -> i32) -> i32 { 0 }" if cbmode else "pub fn f(&self) -> i32 { 0 }")
            src = attrs + "#[diplomat::bridge]\nmod ffi {\n    #[diplomat::opaque]\n    pub struct O;\n    impl O {\n        " + body + "\n    }\n}\n"
            entry = os.path.join(d, f"lib_{i}.rs")
            open(entry, "w").write(src)
            toml = "".join(f"{w[1]} = {lit(w[2])}\n" for w in case["file"] if w[0] is None)
            for sc in sorted(set(w[0] for w in case["file"] if w[0])):
                toml += f"[{sc}]\n" + "".join(f"{w[1]} = {lit(w[2])}\n" for w in case["file"] if w[0] == sc)
            cf = os.path.join(d, f"config_{i}.toml")
            open(cf, "w").write(toml)
            cli = [f"{(w[0] + '.') if w[0] else ''}{w[1]}={w[2] if isinstance(w[2], str) else lit(w[2])}" for w in case["cli"]]
            out = os.path.join(d, f"out_{i}")
            p = e2e.run_tool(target, entry, out, config=cli, config_file=cf)
            ran += 1
            ws = self.norm(case)
            def eff(name):
                scoped = [w[2] for w in ws if w[0] == target and w[1] == name]
                shared = [w[2] for w in ws if w[0] is None and w[1] == name]
                return scoped[-1] if scoped else (shared[-1] if shared else None)
            what = None
            if target == "c" or cbmode:
                want_ok = eff("unsafe_references_in_callbacks") is True
                got_ok = p.returncode == 0
                if "panicked" in p.stderr:
                    what = "tool panicked: " + p.stderr[:200]
                elif want_ok != got_ok:
                    what = f"references in callbacks were {'accepted' if got_ok else 'rejected'} although the effective unsafe_references_in_callbacks is {eff('unsafe_references_in_callbacks')}"
                obs = ("lib", None, want_ok if what is None else got_ok)
            elif p.returncode != 0:
                what = "tool failed: " + p.stderr[:300]
                obs = None
            elif target == "kotlin":
                dom = [w[2] for w in ws if w[0] == "kotlin" and w[1] == "domain"][-1]
                pk = None
                for root, _, files in os.walk(out):
                    if "Lib.kt" in files:
                        txt = open(os.path.join(root, "Lib.kt")).read()
                        pk = (re.search(r"^package (\S+);", txt, re.M).group(1), re.search(r'Native.load\("([^"]*)"', txt).group(1))
                want = (f"{dom}.{eff('lib_name')}", eff("lib_name"))
                if pk != want:
                    what = f"kotlin package/library {pk}, documented precedence gives {want}"
                obs = pk
            else:
                txt = "".join(open(os.path.join(out, f)).read() for f in os.listdir(out) if f.endswith(".cpp"))
                m = re.search(r"NB_MODULE\((\w+),", txt)
                if not m or m.group(1) != eff("lib_name"):
                    what = f"nanobind module name {m.group(1) if m else None}, documented precedence gives {eff('lib_name')}"
                obs = m.group(1) if m else None
            if what and len(ctx.violations) < 2:
                viol += 1
                ctx.violation("e2e:" + target, {"case": case, "what": what, "lib_rs": src, "config_toml": toml, "cli": cli}, True)
            # model agreement on the effective shared values
            f = clist([cwrite(w) for w in case["file"]]); c = clist([cwrite(w) for w in case["cli"]]); a = clist([cwrite(w) for w in case["attr"]])
            if target == "c" or cbmode:
                goals.append(f"match observe {f} {c} {a} {cstr(target)} with Some o => Bool.eqb (match o_unsafe o with Some true => true | _ => false end) {cbool(p.returncode == 0)} | None => false end")
            elif obs:
                name = obs[1] if target == "kotlin" else obs
                goals.append(f"match observe {f} {c} {a} {cstr(target)} with Some o => opt_eqb String.eqb (o_lib o) (Some {cstr(name)}) | None => false end")
            shutil.rmtree(out, ignore_errors=True)
        # ---- placement invariance: the same effective value gives the same output tree whichever source carried it, and a
        # higher-precedence source wins over a lower one, for settings that change what a backend emits
        import hashlib
        def tree(path):
            t = {}
            for root, _, files in os.walk(path):
                for fn in files:
                    fp = os.path.join(root, fn)
                    t[os.path.relpath(fp, path)] = hashlib.sha1(open(fp, "rb").read()).hexdigest()
            return t
        demo_src = ("#[diplomat::bridge]\nmod ffi {\n    pub struct Pair { pub a: u8, pub b: u32 }\n    #[diplomat::opaque]\n    pub struct O(pub i32);\n    impl O {\n"
                    "        pub fn take(&self, p: Pair) -> u32 { p.a as u32 + p.b }\n"
                    "        #[diplomat::attr(auto, constructor)]\n        pub fn new(v: i32) -> Box<O> { Box::new(O(v)) }\n"
                    "        #[diplomat::demo(default_constructor)]\n        pub fn get(&self, w: &mut diplomat_runtime::DiplomatWrite) { use core::fmt::Write; let _ = write!(w, \"{}\", self.0); }\n    }\n}\n")
        settings = [("demo_gen", "demo_gen", "module_name", "mymod", "othermod"), ("demo_gen", "demo_gen", "relative_js_path", "../lib", "../other"),
                    ("js", "js", "abi", "spec", "legacy"), ("demo_gen", "js", "abi", "spec", "legacy"),
                    ("kotlin", "kotlin", "domain", "a.org", "b.org"), ("nanobind", None, "lib_name", "alib", "blib")]
        if ctx.quick():
            settings = settings[:4] + [rng.choice(settings[4:])]
        def run_placed(tag, target, placed):
            # placed: {"file": (scope, key, value) | None, "cli": .., "attr": ..}
            base_file = [(None, "lib_name", "baselib")] + ([("kotlin", "domain", "base.org")] if target == "kotlin" and not any(v and v[1] == "domain" for v in placed.values()) else [])
            pf = placed.get("file")
            fl = [w for w in base_file if not (pf and pf[0] == w[0] and pf[1] == w[1])] + ([pf] if pf else [])
            toml = "".join(f"{k} = {lit(v)}\n" for sc, k, v in fl if sc is None)
            for sc in sorted(set(w[0] for w in fl if w[0])):
                toml += f"[{sc}]\n" + "".join(f"{k} = {lit(v)}\n" for sc2, k, v in fl if sc2 == sc)
            attrs = ""
            if placed.get("attr"):
                sc, k, v = placed["attr"]
                attrs = f"#[diplomat::config({(sc + '.') if sc else ''}{k} = {lit(v)})]\n"
            entry = os.path.join(d, f"pl_{tag}.rs"); open(entry, "w").write(attrs + demo_src)
            cf = os.path.join(d, f"pl_{tag}.toml"); open(cf, "w").write(toml)
            cli = []
            if placed.get("cli"):
                sc, k, v = placed["cli"]
                cli = [f"{(sc + '.') if sc else ''}{k}={v}"]
            out = os.path.join(d, f"pl_out_{tag}")
            p = e2e.run_tool(target, entry, out, config=cli, config_file=cf)
            t = tree(out) if p.returncode == 0 else {"__failed__": p.stderr[-300:]}
            shutil.rmtree(out, ignore_errors=True)
            return t, {"lib_rs": attrs + demo_src, "config_toml": toml, "cli": cli}
        nplace = 0
        # the JS bindings demo_gen writes next to the demo (no module configured) are the JS backend's output under the same settings
        for name, placed in (("cli", {"cli": ("js", "abi", "spec")}), ("file", {"file": ("js", "abi", "spec")}), ("attr", {"attr": ("js", "abi", "spec")}), ("none", {})):
            direct, info = run_placed("njs_" + name, "js", placed)
            nested, _ = run_placed("ndg_" + name, "demo_gen", placed)
            nested_js = {k[len("js/"):]: v for k, v in nested.items() if k.startswith("js/")}
            nplace += 2; ran += 2
            if "__failed__" not in direct and "__failed__" not in nested and nested_js != direct and len(ctx.violations) < 3:
                diff = sorted(set(nested_js) ^ set(direct))[:6] + sorted(k for k in set(nested_js) & set(direct) if nested_js[k] != direct[k])[:6]
                ctx.violation("e2e:demo-gen-nested-js", dict(info, what=f"with js.abi=spec given through [{name}], the js/ tree written by `diplomat-tool demo_gen` differs from what "
                                                            f"`diplomat-tool js` writes for the same sources and settings (differing files: {diff})"), True)
        for target, sc, key, v1, v2 in settings:
            ref, _ = run_placed("ref", target, {"cli": (sc, key, v1)})
            combos = [("file", {"file": (sc, key, v1)}), ("attr", {"attr": (sc, key, v1)}),
                      ("file<cli", {"file": (sc, key, v2), "cli": (sc, key, v1)}), ("cli<attr", {"cli": (sc, key, v2), "attr": (sc, key, v1)}),
                      ("file<attr", {"file": (sc, key, v2), "attr": (sc, key, v1)}), ("file<cli<attr", {"file": (sc, key, v2), "cli": (sc, key, v2), "attr": (sc, key, v1)})]
            for name, placed in combos:
                got, info = run_placed(name.replace("<", "_"), target, placed)
                nplace += 1; ran += 1
                if got != ref and len(ctx.violations) < 3:
                    viol += 1
                    diff = sorted(set(got) ^ set(ref))[:6] + sorted(k for k in set(got) & set(ref) if got[k] != ref[k])[:6]
                    ctx.violation(f"e2e:placement:{target}:{key}", dict(info, target=target, what=
                        f"{(sc + '.') if sc else ''}{key} = {v1!r} given as [{name}] produces a different {target} output than the same value given with --config alone "
                        f"(differing files: {diff})"), True)
        fails = run_shards(self.prop, self.header, goals) if goals else []
        if fails and not ctx.violations:
            ctx.violation("e2e:corr", {"broken": "end-to-end correspondence goal: " + goals[fails[0]][:400]}, False)
        return {"obligations": len(goals), "discharged": len(goals) - len(fails), "e2e_cli_runs": ran, "placement_runs": nplace}


def check(ctx, replay=None):
    return run_property(C17(), ctx, replay)
