#!/usr/bin/env python3
"""confirm_seed.py <src_dir> <seed_id>: confirm an independently written property-breaking change in a scratch
worktree (suite passes with it; demo fails with it and passes without), then store it under /verif/seeded/<seed_id>/."""
import json, os, shutil, subprocess, sys, time
src, sid = sys.argv[1], sys.argv[2]
wt = f"/tmp/confirm_wt_{sid}"
env = dict(os.environ, CARGO_NET_OFFLINE="true", CARGO_TARGET_DIR=f"/tmp/confirm_target")
def sh(cmd, **kw):
    return subprocess.run(cmd, shell=True, stdout=subprocess.PIPE, stderr=subprocess.STDOUT, text=True, env=env, **kw)
sh(f"git -C /repo worktree remove --force {wt}")
assert sh(f"git -C /repo worktree add -q --detach {wt} HEAD").returncode == 0
res = {}
try:
    r = sh(f"bash {src}/run.sh {wt}", timeout=1800); res["demo_clean_rc"] = r.returncode
    a = sh(f"git -C {wt} apply {src}/patch.diff"); assert a.returncode == 0, a.stdout
    t = sh(f"cd {wt} && cargo test --workspace --no-fail-fast --offline 2>&1 | grep -E '^test result|FAILED|failed' ", timeout=3000)
    res["suite_with_change"] = t.stdout.strip().splitlines()
    res["suite_ok"] = all("0 failed" in l for l in res["suite_with_change"] if l.startswith("test result")) and "FAILED" not in t.stdout
    r = sh(f"bash {src}/run.sh {wt}", timeout=1800); res["demo_changed_rc"] = r.returncode; res["demo_changed_tail"] = r.stdout[-400:]
finally:
    sh(f"git -C /repo worktree remove --force {wt}")
ok = res.get("suite_ok") and res.get("demo_clean_rc") == 0 and res.get("demo_changed_rc", 0) != 0
res["confirmed"] = bool(ok)
print(json.dumps(res, indent=1))
if ok:
    dst = f"/verif/seeded/{sid}"
    shutil.rmtree(dst, ignore_errors=True)
    shutil.copytree(src, dst, ignore=shutil.ignore_patterns("target", "Cargo.lock", "PROMPT.md"))
    meta = json.load(open(f"{dst}/meta.json"))
    meta["confirmed_by_main"] = {"when": time.strftime("%Y-%m-%d %H:%M"), "ran": [
        "bash run.sh <clean worktree> -> rc 0", "git apply patch.diff; cargo test --workspace --no-fail-fast --offline -> all pass",
        "bash run.sh <patched worktree> -> rc %d" % res["demo_changed_rc"]], "suite": res["suite_with_change"]}
    json.dump(meta, open(f"{dst}/meta.json", "w"), indent=1)
sys.exit(0 if ok else 1)
