"""Shared by C05 and C15: exhaustive enumeration of (position, type) over the AST type grammar, one tiny bridge each,
run through the real CLI for every backend."""
import itertools, re, shutil
from concurrent.futures import ThreadPoolExecutor
from common import *
import e2e, tablegen
from c13 import BACKENDS, CFG

NAMED = {"NStruct": "St", "NOutStruct": "OutSt", "NZst": "Zs", "NOpaque": "Op", "NEnum": "En"}


def rust_ty(t, lt="'a"):
    k = t[0]
    if k == "prim": return t[1] if len(t) > 1 else "u8"
    if k == "ordering": return "core::cmp::Ordering"
    if k == "named": return NAMED[t[1]]
    if k == "ref": return f"&{lt} {rust_ty(t[1], lt)}"
    if k == "box": return f"Box<{rust_ty(t[1], lt)}>"
    if k == "opt": return ("DiplomatOption<%s>" if t[1] else "Option<%s>") % rust_ty(t[2], lt)
    if k == "res": return f"Result<{rust_ty(t[1], lt)}, {rust_ty(t[2], lt)}>"
    if k == "write": return "&mut DiplomatWrite"
    if k == "unit": return "()"
    if k == "str":
        has_lt, st, d = t[1:]
        l = "'static" if st else lt
        if d: return f"DiplomatStrSlice<{l}>" if has_lt else "DiplomatOwnedStrSlice"
        return f"&{l} str" if has_lt else "Box<str>"
    if k == "pslice":
        has_lt, st, d = t[1:]
        l = "'static" if st else lt
        if d: return f"DiplomatSlice<{l}, u16>" if has_lt else "DiplomatOwnedSlice<u16>"
        return f"&{l} [u16]" if has_lt else "Box<[u16]>"
    if k == "strslice":
        return f"DiplomatSlice<{lt}, DiplomatStrSlice>" if t[1] else f"&{lt} [DiplomatStrSlice]"
    if k == "fn":
        r = "" if t[2][0] == "unit" else " -> " + rust_ty(t[2], lt)
        return f"impl Fn({', '.join(rust_ty(p, lt) for p in t[1])}){r}"
    raise ValueError(t)


def coq_ty(t):
    k = t[0]
    if k == "prim": return "TPrim"
    if k == "ordering": return "TOrdering"
    if k == "named": return f"(TNamed {t[1]})"
    if k == "ref": return f"(TRef {coq_ty(t[1])})"
    if k == "box": return f"(TBox {coq_ty(t[1])})"
    if k == "opt": return f"(TOption {cbool(t[1])} {coq_ty(t[2])})"
    if k == "res": return f"(TResult {coq_ty(t[1])} {coq_ty(t[2])})"
    if k == "write": return "TWrite"
    if k == "unit": return "TUnit"
    if k == "str": return f"(TStr {cbool(t[1])} {cbool(t[2])} {cbool(t[3])})"
    if k == "pslice": return f"(TPrimSlice {cbool(t[1])} {cbool(t[2])} {cbool(t[3])})"
    if k == "strslice": return f"(TStrSlice {cbool(t[1])})"
    if k == "fn": return f"(TFunction {clist([coq_ty(p) for p in t[1]])} {coq_ty(t[2])})"
    raise ValueError(t)


def leaves():
    L = [("prim", "u8"), ("prim", "f64"), ("prim", "bool"), ("prim", "DiplomatChar"), ("ordering",), ("unit",)]
    L += [("named", n) for n in NAMED]
    L += [("str", True, False, False), ("str", True, True, False), ("str", False, False, False), ("str", True, False, True), ("str", False, False, True)]
    L += [("pslice", True, False, False), ("pslice", True, True, False), ("pslice", False, False, False), ("pslice", True, False, True), ("pslice", False, False, True)]
    L += [("strslice", False), ("strslice", True)]
    return L


def types(depth2=True):
    L = leaves()
    un = lambda ts: [("ref", t) for t in ts] + [("box", t) for t in ts] + [("opt", False, t) for t in ts] + [("opt", True, t) for t in ts]
    d1 = un(L)
    out = L + d1
    if depth2:
        core = [t for t in d1 if t[0] in ("ref", "box") and t[-1][0] == "named"] + [("opt", False, ("named", "NStruct")), ("opt", True, ("prim", "u8"))]
        out += un(core)
    # Result is only meaningful at the top; a few nested ones to be rejected
    arms = [("unit",), ("prim", "u8"), ("named", "NStruct"), ("named", "NZst"), ("named", "NOpaque"), ("box", ("named", "NOpaque")), ("named", "NEnum"),
            ("named", "NOutStruct"), ("str", True, False, False), ("pslice", False, False, False), ("opt", False, ("prim", "u8")), ("ref", ("named", "NOpaque"))]
    out += [("res", a, b) for a in arms for b in arms[:8]]
    out += [("opt", False, ("res", ("prim", "u8"), ("unit",))), ("box", ("res", ("prim", "u8"), ("unit",)))]
    return out


PRELUDE = """#[diplomat::bridge]
mod ffi {
    #[allow(unused_imports)]
    use diplomat_runtime::{DiplomatWrite, DiplomatChar, DiplomatOption, DiplomatStrSlice, DiplomatOwnedStrSlice, DiplomatSlice, DiplomatOwnedSlice};
    pub struct St { pub a: u8 }
    #[diplomat::out]
    pub struct OutSt { pub a: u8 }
    pub struct Zs {}
    #[diplomat::opaque]
    pub struct Op(pub u8);
    pub enum En { A, B }
"""


def bridge(pos, t):
    ty = rust_ty(t)
    if pos == "PParam":
        body = f"    impl Op {{ pub fn f<'a>(&'a self, x: {ty}) {{}} }}\n"
    elif pos == "PReturn":
        body = f"    impl Op {{ pub fn f<'a>(&'a self) -> {ty} {{ todo!() }} }}\n"
    elif pos == "PStructField":
        body = f"    pub struct Holder<'a> {{ pub pad: u8, pub x: {ty} }}\n"
    elif pos == "POutStructField":
        body = f"    #[diplomat::out]\n    pub struct Holder<'a> {{ pub pad: u8, pub x: {ty} }}\n"
    elif pos == "PCbParam":
        body = f"    impl Op {{ pub fn f<'a>(&'a self, cb: impl Fn({ty})) {{}} }}\n"
    elif pos == "PCbRet":
        body = f"    impl Op {{ pub fn f<'a>(&'a self, cb: impl Fn(u8) -> {ty}) {{}} }}\n"
    else:
        raise ValueError(pos)
    return PRELUDE + body + "}\n"


POSITIONS = ["PParam", "PReturn", "PStructField", "POutStructField", "PCbParam", "PCbRet"]


def cases(ctx):
    ts = types(depth2=True)
    out = []
    for pos in POSITIONS:
        for t in ts:
            if pos in ("PCbParam", "PCbRet") and t[0] in ("res",) and ctx.quick():
                continue
            out.append((pos, t))
    return out


def run_all(ctx, cases_, unsafe_refs=(False,), backends=BACKENDS):
    """returns {(case index, backend, unsafe): (class, stderr tail)}"""
    e2e.build_tool()
    d = os.path.join(BUILD, "e2e", "gate")
    shutil.rmtree(d, ignore_errors=True)
    os.makedirs(d, exist_ok=True)
    jobs = []
    for i, (pos, t) in enumerate(cases_):
        src = os.path.join(d, f"g{i}.rs")
        open(src, "w").write(bridge(pos, t))
        for b in backends:
            for u in unsafe_refs:
                jobs.append((i, b, u, src))

    def one(j):
        i, b, u, src = j
        out = os.path.join(d, f"o_{i}_{b}_{int(u)}")
        q = e2e.run_tool(b, src, out, config=CFG + ([f"unsafe_references_in_callbacks=true"] if u else []))
        shutil.rmtree(out, ignore_errors=True)
        return (i, b, u), (e2e.classify_tool(q), q.stderr[-700:])
    with ThreadPoolExecutor(max_workers=NCPU) as ex:
        res = dict(ex.map(one, jobs))
    return res


def backend_flags():
    fields, _ = tablegen.support_fields()
    return {b: tablegen.attr_support(p, fields) for b, p in tablegen.BACKENDS}
