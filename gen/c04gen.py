"""C04 generator: type definitions and method signatures over named / anonymous / 'static lifetimes; their Rust source,
their Coq terms (Lifetimes/Model.v), a transliteration of the model (used to steer the generator towards accepted
signatures) and an independent reading of Rust's outlives rules (declared + implied bounds, reflexive-transitive closure).

Lifetimes: 'static -> "static"; an int below the number of named lifetimes of the enclosing item is a named lifetime,
any other int is an anonymous one.
Types: ("prim",) | ("opaque", opt, borrow|None, tid, args, mut) | ("slice", opt, borrow, flavour) | ("struct", opt, tid, args)."""
import copy, itertools

LT_NAMES = "abcd" + "efg"
DEF_LT = {"H1": ["h"], "H2": ["h", "k"], "S1": ["x"], "S2": ["x", "y"], "S3": ["u", "v", "w"], "Op": []}
ORDER = ["Op", "H1", "H2", "S1", "S2", "S3"]
TID = {n: i for i, n in enumerate(ORDER)}


# ------------------------------------------------------------------ transliteration of Lifetimes/Model.v
def longer(g, i):
    return g[i] if 0 <= i < len(g) else []


def all_longer(g, r):
    fuel, stack, vis = 1 + sum(len(x) for x in g), [r], []
    while fuel > 0 and stack:
        fuel -= 1
        x = stack.pop(0)
        if x in vis:
            continue
        stack = list(reversed(longer(g, x))) + stack
        vis.insert(0, x)
    return vis


def add_edge(g, short, long):
    if 0 <= short < len(g):
        g[short] = g[short] + [long]


def build(n, ops):
    g = [[] for _ in range(n)]
    for o in ops:
        if o[0] == "decl":
            for s in o[2]:
                add_edge(g, s, o[1])
        else:
            ex = all_longer(g, o[1])
            for p in [p for p in o[2] if p not in ex]:
                add_edge(g, o[1], p)
    return g


def named(n, l):
    return l if isinstance(l, int) and l < n else None


def spelled_self(t, selfty):
    """selfty = (owner, k) when the method spells its impl type as `Self`: which parameter / return types that affects"""
    return bool(selfty) and t[0] == "opaque" and t[3] == selfty[0] and list(t[4]) == list(range(selfty[1]))


def is_self_spelled(t, selfty):
    """the AST records no implied bound for this reference: the type is written `Self`, or (7th component, set by elide_pass) the
    borrow is elided in the source although it denotes a named lifetime"""
    return spelled_self(t, selfty) or (t[0] == "opaque" and len(t) > 6 and bool(t[6]))


def ty_ops(n, t, selfty=None):
    if is_self_spelled(t, selfty):
        return []                     # extend_implicit_lifetime_bounds only looks at TypeName::Named
    if t[0] == "opaque" and t[2] is not None:
        b = named(n, t[2])
        if b is not None:
            return [("impl", b, [a for a in t[4] if named(n, a) is not None])]
    return []


def ops_of(n, decl, tys, selfty=None, first_is_self=False):
    return [("decl", l, ss) for l, ss in decl] + [o for i, t in enumerate(tys) for o in ty_ops(n, t, None if (first_is_self and i == 0) else selfty)]


def ty_lts(t):
    if t[0] == "opaque": return list(t[4]) + ([t[2]] if t[2] is not None else [])
    if t[0] == "slice": return [t[2]] if t[2] is not None else []
    if t[0] == "struct": return list(t[3])
    return []


def nonstatic(ls):
    return [l for l in ls if l != "static"]


def ty_use(t):
    if t[0] == "opaque": return t[3], t[4]
    if t[0] == "struct": return t[2], t[3]
    return None


class Defs:
    """ordered type definitions: name -> dict(n, decl, fields=[(fname, ty)], kind)"""
    def __init__(self):
        self.d = {}

    def env(self, name):
        d = self.d[name]
        return build(d["n"], ops_of(d["n"], d["decl"], [t for _, t in d["fields"]]))

    def validate_ty(self, env, t):
        """list of missing (short, long) direct edges (empty = accepted)"""
        u = ty_use(t)
        if u is None:
            return []
        tid, args = u
        d = self.d[tid]; denv = self.env(tid); miss = []
        links = ([(t[2], None)] if t[0] == "opaque" and t[2] is not None else []) + list(zip(args, range(d["n"])))
        for use_lt, def_lt in links:
            if use_lt == "static" or not (use_lt < len(env)):
                continue
            def_longer = longer(denv, def_lt) if def_lt is not None else list(range(d["n"]))
            for dl in def_longer:
                cu = args[dl] if dl < len(args) else "static"
                if cu == "static" or cu == use_lt or cu in longer(env, use_lt):
                    continue
                miss.append((use_lt, cu))
        return miss

    def validate_def(self, name):
        env = self.env(name)
        return [m for _, t in self.d[name]["fields"] for m in self.validate_ty(env, t)]


def m_env(m):
    # the receiver is always recorded by name (SelfParam::to_typename), whatever the other types are spelled like
    return build(m["n"], ops_of(m["n"], m["decl"], m["params"] + m["ret"], self_spelling(m), bool(m.get("self"))))


def ret_lts(m):
    return nonstatic([l for t in m["ret"] for l in ty_lts(t)])


def validate_method(D, m):
    if any(not (r < m["n"]) for r in ret_lts(m)):
        return False, []
    env = m_env(m)
    miss = [x for t in m["params"] + m["ret"] for x in D.validate_ty(env, t)]
    return not miss, miss


def visit_param(ls, p, t):
    if t[0] == "struct":
        return [("struct", p, i, t[1]) for i, l in enumerate(t[3]) if l != "static" and l in ls]
    if t[0] in ("opaque", "slice"):
        if any(l in ls for l in nonstatic(ty_lts(t))):
            if t[0] == "opaque": return [("opaque", p)]
            return [("panic", p)] if t[1] else [("slice", p)]
    return []


def model_map(m):
    env = m_env(m); out = []
    for r in sorted(set(ret_lts(m))):
        ls = all_longer(env, r)
        out.append((r, sorted(set(ls)), [e for p, t in enumerate(m["params"]) for e in visit_param(ls, p, t)]))
    return out


# ------------------------------------------------------------------ independent reading of Rust's rules
def wf_pairs(D, name):
    """(short, long) outlives requirements of a definition: its declared bounds, `&'a T<'b>` fields, and what its field
    types require of their own parameters, substituted (rustc: explicit + inferred outlives predicates)"""
    d = D.d[name]; out = set()
    for l, ss in d["decl"]:
        out |= {(s, l) for s in ss}
    for _, t in d["fields"]:
        out |= use_pairs(D, t)
    return out


def use_pairs(D, t):
    out = set()
    if t[0] == "opaque" and t[2] is not None:
        out |= {(t[2], a) for a in t[4]}
    u = ty_use(t)
    if u:
        tid, args = u
        for x, y in wf_pairs(D, tid):
            out.add((args[x], args[y]))
    return out


def rust_outlives(D, m, with_static=False):
    """closure over all lifetimes of the signature.  C04 never has 'static as a key and a path through 'static is outside
    its statement; with_static=True is rustc's full relation ('static outlives everything), used to delimit exactly that"""
    pairs = set()
    for l, ss in m["decl"]:
        pairs |= {(s, l) for s in ss}
    for t in m["params"] + m["ret"]:
        pairs |= use_pairs(D, t)
    nodes = set(range(m["n"])) | {x for p in pairs for x in p if x != "static"}
    if with_static:
        nodes.add("static")
        pairs |= {(x, "static") for x in nodes}
    else:
        pairs = {(a, b) for a, b in pairs if a != "static" and b != "static"}
    reach = {a: {a} for a in nodes}
    changed = True
    while changed:
        changed = False
        for a, b in pairs:
            for s in nodes:
                if a in reach[s] and not reach[b] <= reach[s]:
                    reach[s] |= reach[b]; changed = True
    return reach


def spec_map(D, m):
    reach = rust_outlives(D, m); out = []
    for r in sorted(set(ret_lts(m))):
        ls = reach.get(r, {r}); edges = []
        for p, t in enumerate(m["params"]):
            if t[0] == "struct":
                edges += [("struct", p, i, t[1]) for i, l in enumerate(t[3]) if l != "static" and l in ls]
            elif t[0] in ("opaque", "slice") and any(l in ls for l in nonstatic(ty_lts(t))):
                edges.append((t[0], p))
        out.append((r, edges))
    return out


# ------------------------------------------------------------------ random definitions and signatures
def gen_defs(rng, same_slot=False, needs_bound=None):
    D = Defs()
    D.d["Op"] = dict(kind="opaque", n=0, decl=[], fields=[])
    D.d["H1"] = dict(kind="opaque", n=1, decl=[], fields=[])
    D.d["H2"] = dict(kind="opaque", n=2, decl=rng.choice([[], [], [(1, [0])], [(0, [1])]]), fields=[])
    D.d["S1"] = dict(kind="struct", n=1, decl=[], fields=[("a", ("opaque", False, 0, "Op", [], False))] +
                     ([("s", ("slice", False, 0, "str"))] if rng.random() < 0.5 else []))
    f2 = [("a", ("opaque", False, 0, "Op", [], False)), ("b", ("opaque", rng.random() < 0.5, 1, "Op", [], False))]
    if rng.random() < 0.35: f2.append(("h", ("opaque", False, 0, "H1", [1], False)))          # implies 'y: 'x
    if rng.random() < 0.4 or same_slot: f2.append(("t", ("slice", False, 1, rng.choice(["str", "u8"]))))
    D.d["S2"] = dict(kind="struct", n=2, decl=rng.choice([[], [], [(1, [0])], [(0, [1])]]), fields=f2)
    if needs_bound is not None and not D.d["S2"]["decl"] and not any(fn == "h" for fn, _ in f2):
        D.d["S2"]["decl"] = [rng.choice([(1, [0]), (0, [1])])]   # the inner struct requires something of its parameters
    sig = rng.choice([[0, 1], [1, 0], [0, 2], [2, 2], [1, 2], [0, 1]])
    if same_slot:                                              # one outer lifetime plugged into both inner parameters
        sig = [rng.randrange(3)] * 2
    if needs_bound is not None:
        sig = rng.choice([[0, 1], [1, 0], [0, 2], [1, 2], [2, 0]])
    f3 = [("inner", ("struct", rng.random() < (0.6 if same_slot else 0.2), "S2", sig)), ("o", ("opaque", rng.random() < 0.3, 2, "Op", [], False))]
    if rng.random() < 0.4: f3.append(("g", ("opaque", False, 0, "H2", [rng.randrange(3), rng.randrange(3)], False)))
    if rng.random() < 0.3: f3.append(("one", ("struct", False, "S1", [rng.randrange(3)])))
    used = {l for _, t in f3 for l in ty_lts(t)}
    f3 += [(f"z{i}", ("opaque", False, i, "Op", [], False)) for i in range(3) if i not in used]   # rustc: every parameter is used
    D.d["S3"] = dict(kind="struct", n=3, decl=[], fields=f3)
    if rng.random() < 0.25:
        D.d["S3"]["decl"].append((rng.randrange(3), [rng.randrange(3)]))
        D.d["S3"]["decl"] = [(l, [s for s in ss if s != l]) for l, ss in D.d["S3"]["decl"]]
    if (rng.random() < 0.85) if needs_bound is None else needs_bound == "restated":
        fix_def(D, "S3")                                       # restate what the fields need (otherwise: rejected definition)
    for name in ORDER:                                         # source order: one bound list per parameter
        merged = {}
        for l, ss in D.d[name]["decl"]:
            merged.setdefault(l, []).extend(s for s in ss if s != l)
        D.d[name]["decl"] = [(l, merged[l]) for l in sorted(merged) if merged[l]]
    return D


def fix_def(D, name):
    for _ in range(6):
        miss = D.validate_def(name)
        if not miss:
            return
        for short, lng in miss:
            D.d[name]["decl"].append((lng, [short]))


def rand_lt(rng, n, anon, allow_static=True, p_named=0.8):
    r = rng.random()
    if n and r < p_named: return rng.randrange(n)
    if allow_static and r > 0.96: return "static"
    return next(anon)


def rand_param(rng, D, n, anon):
    k = rng.random()
    if k < 0.1: return ("prim",)
    if k < 0.5:
        tid = rng.choice(["Op", "Op", "H1", "H2"])
        return ("opaque", rng.random() < 0.25, rand_lt(rng, n, anon, p_named=0.65), tid, [rand_lt(rng, n, anon) for _ in range(D.d[tid]["n"])], rng.random() < 0.15)
    if k < 0.7:
        return ("slice", rng.random() < 0.06, rand_lt(rng, n, anon, p_named=0.7), rng.choice(["str", "u8", "dstr"]))
    tid = rng.choice(["S1", "S2", "S2", "S3"])
    return ("struct", rng.random() < 0.25, tid, [rand_lt(rng, n, anon) for _ in range(D.d[tid]["n"])])


def rand_ret_ty(rng, D, n):
    def nl(): return rng.randrange(n) if n and rng.random() < 0.97 else "static"
    k = rng.random()
    if n == 0 or k < 0.08: return ("prim",)
    if k < 0.5:
        tid = rng.choice(["Op", "Op", "H1", "H2"])
        return ("opaque", False, nl(), tid, [nl() for _ in range(D.d[tid]["n"])], False)
    if k < 0.62:
        tid = rng.choice(["H1", "H2"])
        return ("opaque", False, None, tid, [nl() for _ in range(D.d[tid]["n"])], False)          # Box<H<'a>>
    if k < 0.7: return ("slice", False, nl(), rng.choice(["str", "u8", "u8"]))
    tid = rng.choice(["S1", "S2", "S3"])
    return ("struct", False, tid, [nl() for _ in range(D.d[tid]["n"])])


def gen_method(rng, D, name, max_lts=4):
    owner = rng.choice(["Op", "Op", "Op", "H1", "H2", "S1", "S2"])
    k_impl = D.d[owner]["n"]
    n = k_impl + rng.randrange(0, max(1, max_lts - k_impl + 1))
    anon = itertools.count(n)
    m = dict(name=name, owner=owner, k_impl=k_impl, n=n, wrap="plain")
    # declared bounds, in source order: impl params, impl where, method params, method where
    places = {"impl_param": {}, "impl_where": [], "meth_param": {}, "meth_where": []}
    for l in range(n):
        for s in range(n):
            if l != s and rng.random() < 0.13:
                both_impl = l < k_impl and s < k_impl
                # a bound between two lifetimes of the impl may also be written on the method (`fn f(..) where 'b: 'a`), whether or
                # not the method declares lifetimes of its own
                on_method = both_impl and rng.random() < 0.3
                if on_method:
                    places["meth_where"].append((l, [s]))
                elif rng.random() < 0.6 and (both_impl or (l >= k_impl)):
                    places["impl_param" if both_impl else "meth_param"].setdefault(l, []).append(s)
                else:
                    places["impl_where" if both_impl else "meth_where"].append((l, [s]))
    m["places"] = places
    # self
    sk = rng.random()
    if D.d[owner]["kind"] == "opaque":
        if sk < 0.75:
            b = rand_lt(rng, n, anon, allow_static=False, p_named=0.5)
            m["self"] = ("opaque", False, b, owner, list(range(k_impl)), rng.random() < 0.2)
        else:
            m["self"] = None
    else:
        m["self"] = ("struct", False, owner, list(range(k_impl))) if sk < 0.7 else None
    ps = [rand_param(rng, D, n, anon) for _ in range(rng.randrange(0, 5))]
    m["pnames"] = (["this"] if m["self"] else []) + [f"p{i}" for i in range(len(ps))]
    m["params"] = ([m["self"]] if m["self"] else []) + ps
    r = rng.random()
    if r < 0.62: m["ret"] = [rand_ret_ty(rng, D, n)]
    elif r < 0.8: m["ret"], m["wrap"] = [rand_ret_ty(rng, D, n)], "option"
    elif r < 0.9: m["ret"], m["wrap"] = [rand_ret_ty(rng, D, n)], "result_unit"
    else: m["ret"], m["wrap"] = [rand_ret_ty(rng, D, n), rand_ret_ty(rng, D, n)], "result2"
    # `&self` with an elided return lifetime: rejected ("Found elided lifetime in return type")
    if m["self"] and m["self"][0] == "opaque" and isinstance(m["self"][2], int) and m["self"][2] >= n and rng.random() < 0.04:
        m["ret"], m["wrap"] = [("opaque", False, m["self"][2], "Op", [], False)], "plain"
        m["elided_ret"] = True
    m["ret"] = [t for t in m["ret"]]
    # spell occurrences of the impl's own type as `Self` (a distinct AST node that the lowering has to treat like the written-out type)
    m["self_spell"] = rng.random() < 0.35
    flat_decl(m)
    if rng.random() < 0.88:
        fix_method(D, m)
    elide_pass(rng, m)
    return m


def fixed_methods(D):
    """shapes every bridge carries: a borrowed primitive slice (zero-copy in nanobind) and a borrowed string, from a parameter"""
    out = []
    for name, flavour in (("fx0", "u8"), ("fx1", "str")):
        m = dict(name=name, owner="Op", k_impl=0, n=1, wrap="plain", places={"impl_param": {}, "impl_where": [], "meth_param": {}, "meth_where": []},
                 self=None, pnames=["p0", "p1"], params=[("opaque", False, 0, "Op", [], False), ("prim",)], ret=[("slice", False, 0, flavour)])
        m["self"] = None
        flat_decl(m)
        out.append(m)
    # the impl's own type spelled `Self` behind a reference with a lifetime of the method: the bound `'h: 'a` that `&'a H1<'h>` implies
    # must be restated like for the written-out type (sf0: not restated -> rejected; sf1: restated -> edges from `other` and from `x`)
    for name, restated, owner in (("sf0", False, "H1"), ("sf1", True, "H1"), ("sf2", False, "S1"), ("sf3", True, "S1")):
        k = D.d[owner]["n"]; a = k
        selfp = ("opaque", False, k + 1, owner, list(range(k)), False) if D.d[owner]["kind"] == "opaque" else None
        if D.d[owner]["kind"] == "opaque":
            ps = [("opaque", False, a, owner, list(range(k)), False), ("opaque", False, 0, "Op", [], False)]
        else:   # structs cannot sit behind references: Self by value next to a reference with the struct's lifetime
            ps = [("struct", False, owner, list(range(k))), ("opaque", False, a, "Op", [], False), ("opaque", False, 0, "Op", [], False)]
        m = dict(name=name, owner=owner, k_impl=k, n=k + 1, wrap="plain",
                 places={"impl_param": {}, "impl_where": [], "meth_param": {}, "meth_where": ([(0, [a])] if restated else [])},
                 self=selfp, pnames=(["this"] if selfp else []) + [f"p{i}" for i in range(len(ps))], params=([selfp] if selfp else []) + ps,
                 ret=[("opaque", False, a, "Op", [], False)], self_spell=True)
        flat_decl(m)
        out.append(m)
    # a constructor whose result borrows from its second and third argument (nanobind: the object under construction is the nurse)
    m = dict(name="build", owner="H1", k_impl=1, n=1, wrap="plain", places={"impl_param": {}, "impl_where": [], "meth_param": {}, "meth_where": []},
             self=None, pnames=["p0", "p1", "p2"], params=[("prim",), ("opaque", False, 0, "Op", [], False), ("opaque", False, 0, "Op", [], False)],
             ret=[("opaque", False, None, "H1", [0], False)], attr="constructor")
    flat_decl(m)
    out.append(m)
    # a bound between the impl's lifetimes written only in the where clause of a method without generics of its own
    m = dict(name="wh0", owner="H2", k_impl=2, n=2, wrap="plain", places={"impl_param": {}, "impl_where": [], "meth_param": {}, "meth_where": [(1, [0])]},
             self=None, pnames=["p0", "p1"], params=[("opaque", False, 0, "Op", [], False), ("opaque", False, 1, "Op", [], False)],
             ret=[("opaque", False, None, "H1", [0], False)])
    flat_decl(m)
    out.append(m)
    # elided return lifetimes (elision.rs): `&self` wins over another reference; the only reference among the parameters; the
    # lifetimes of a by-value `self` / of `Self` do not count; a hidden path lifetime (`&Op` from `x: H1`) counts as one position
    import random as _r
    none = {"impl_param": {}, "impl_where": [], "meth_param": {}, "meth_where": []}
    op = lambda l: ("opaque", False, l, "Op", [], False)
    el = [dict(name="el0", owner="Op", k_impl=0, n=2, self=op(0), params=[op(0), op(1)], ret=[op(0)]),
          dict(name="el1", owner="Op", k_impl=0, n=1, self=None, params=[op(0), ("prim",)], ret=[op(0)]),
          dict(name="el2", owner="S1", k_impl=1, n=2, self=("struct", False, "S1", [0]), params=[("struct", False, "S1", [0]), op(1)], ret=[op(1)]),
          dict(name="el3", owner="H1", k_impl=1, n=2, self=None, params=[("opaque", False, 1, "H1", [0], False), ("prim",)], ret=[op(1)], self_spell=True),
          dict(name="el4", owner="Op", k_impl=0, n=1, self=None, params=[("struct", False, "S1", [0])], ret=[("struct", False, "S1", [0])]),
          dict(name="el5", owner="Op", k_impl=0, n=2, self=op(1), params=[op(1), ("slice", False, 0, "u8")], ret=[("slice", False, 1, "str")], wrap="option")]
    for m in el:
        m.setdefault("wrap", "plain"); m["places"] = copy.deepcopy(none)
        m["pnames"] = (["this"] if m["self"] else []) + [f"p{i}" for i in range(len(m["params"]) - (1 if m["self"] else 0))]
        flat_decl(m)
        elide_pass(_r.Random(0), m, p_elide=1.0, p_omit=0.0)
        out.append(m)
    return out


def flat_decl(m):
    p = m["places"]; k = m["k_impl"]
    m["decl"] = ([(l, p["impl_param"][l]) for l in range(k) if l in p["impl_param"]] + list(p["impl_where"]) +
                 [(l, p["meth_param"][l]) for l in range(k, m["n"]) if l in p["meth_param"]] + list(p["meth_where"]))


def fix_method(D, m):
    for _ in range(8):
        ok, miss = validate_method(D, m)
        if ok or not miss:
            return
        for short, lng in miss:
            if not (lng < m["n"] and short < m["n"]):
                continue                                      # needs a bound on an anonymous lifetime: stays rejected
            both_impl = lng < m["k_impl"] and short < m["k_impl"]
            m["places"]["impl_where" if (both_impl and (lng + short) % 2 == 0) else "meth_where"].append((lng, [short]))
        flat_decl(m)


# ------------------------------------------------------------------ rendering: Rust
def r_lt(l, names, n):
    if l == "_anon": return "'_"
    if l == "static": return "'static"
    return f"'{names[l]}" if l < n else "'_"


def r_generic(tid, args, names, n):
    return tid + (f"<{', '.join(r_lt(a, names, n) for a in args)}>" if args else "")


def r_ty(t, names, n, field=False, elide=None, selfty=None, elided=(), omit=False):
    """selfty = (owner, k): spell the impl's own type `Owner<'impl params..>` as `Self` (ast TypeName::SelfType);
    elided: position keys ('b' / argument index) written as elided although they denote a named lifetime (elide_pass);
    omit: drop the generic list altogether"""
    k = t[0]
    if k == "prim": return "u8"
    hide = lambda args: ["_anon" if j in elided else a for j, a in enumerate(args)]
    if k == "struct":
        s = "Self" if (selfty and t[2] == selfty[0] and list(t[3]) == list(range(selfty[1]))) else (t[2] if omit else r_generic(t[2], hide(t[3]), names, n))
        return (f"DiplomatOption<{s}>" if field else f"Option<{s}>") if t[1] else s
    if k == "opaque":
        inner = "Self" if (selfty and t[3] == selfty[0] and list(t[4]) == list(range(selfty[1]))) else (t[3] if omit else r_generic(t[3], hide(t[4]), names, n))
        if t[2] is None: s = f"Box<{inner}>"
        else:
            lt = "'_" if "b" in elided else r_lt(t[2], names, n)
            lt = "" if (lt == "'_" and (elide or "b" in elided)) else lt + " "
            s = f"&{lt}{'mut ' if t[5] else ''}{inner}"
        return f"Option<{s}>" if t[1] else s
    if k == "slice":
        lt = r_lt(t[2], names, n)
        if field:
            s = {"str": f"DiplomatStrSlice<{lt}>", "u8": f"DiplomatSlice<{lt}, u8>", "dstr": f"DiplomatStrSlice<{lt}>"}[t[3]]
        else:
            if "b" in elided: lt = "'_"
            lt = "" if (lt == "'_" and (elide or "b" in elided)) else lt + " "
            s = "&" + lt + {"str": "str", "u8": "[u8]", "dstr": "DiplomatStr"}[t[3]]
        return f"Option<{s}>" if t[1] else s
    raise ValueError(t)


def r_def(D, name, plain=False):
    d = D.d[name]; names = DEF_LT[name]
    bounds = {}
    for l, ss in d["decl"]:
        bounds.setdefault(l, []).extend(ss)
    gen = ", ".join(f"'{names[i]}" + (": " + " + ".join(f"'{names[s]}" for s in bounds[i]) if bounds.get(i) else "") for i in range(d["n"]))
    gen = f"<{gen}>" if gen else ""
    if d["kind"] == "opaque":
        body = "(" + ", ".join(["u8"] + [f"&'{x} u8" for x in names]) + ");"
        return ("" if plain else "    #[diplomat::opaque]\n") + f"    pub struct {name}{gen}{body}"
    fs = ", ".join(f"pub {fn}: {r_ty(t, names, d['n'], field=not plain)}" for fn, t in d["fields"])
    return f"    pub struct {name}{gen} {{ {fs} }}"


def method_names(m):
    k = m["k_impl"]
    return DEF_LT[m["owner"]] + [c for c in LT_NAMES if c not in DEF_LT[m["owner"]]][: m["n"] - k]


def r_bounds(l, ss, names):
    return f"'{names[l]}: " + " + ".join(f"'{names[s]}" for s in ss)


def self_spelling(m):
    return (m["owner"], m["k_impl"]) if m.get("self_spell") else None


def r_ret(m, names):
    re = m.get("ret_elide") or [()] * len(m["ret"])
    ts = [r_ty(t, names, m["n"], elide=m.get("elided_ret"), selfty=self_spelling(m), elided=re[i]) for i, t in enumerate(m["ret"])]
    return {"plain": ts[0], "option": f"Option<{ts[0]}>", "result_unit": f"Result<{ts[0]}, ()>",
            "result2": f"Result<{ts[0]}, {ts[-1]}>"}[m["wrap"]]


def r_method(m, rng_elide=False, with_attr=False):
    names = method_names(m); p = m["places"]; k = m["k_impl"]; n = m["n"]
    gens = [f"'{names[l]}" + (": " + " + ".join(f"'{names[s]}" for s in p["meth_param"][l]) if l in p["meth_param"] else "") for l in range(k, n)]
    gen = f"<{', '.join(gens)}>" if gens else ""
    args = []
    if m["self"]:
        s = m["self"]
        if s[0] == "struct": args.append("self")
        else:
            lt = r_lt(s[2], names, n)
            args.append("&" + ("" if lt == "'_" else lt + " ") + ("mut " if s[5] else "") + "self")
    off = 1 if m["self"] else 0
    for i, (pn, t) in enumerate(zip(m["pnames"][off:], m["params"][off:])):
        args.append(f"{pn}: {r_ty(t, names, n, elide=(int(pn[1:]) % 2 == 0), selfty=self_spelling(m), omit=(i + off) in m.get('omit_gen', ()))}")
    where = (" where " + ", ".join(r_bounds(l, ss, names) for l, ss in p["meth_where"])) if p["meth_where"] else ""
    rt = r_ret(m, names)
    attr = f"        #[diplomat::attr(auto, {m['attr']})]\n" if (with_attr and m.get("attr")) else ""
    return attr + f"        pub fn {m['name']}{gen}({', '.join(args)}) -> {rt}{where} {{ todo!() }}"


def r_impl_header(m):
    names = method_names(m); p = m["places"]; k = m["k_impl"]
    if k == 0:
        return f"impl {m['owner']}"
    gens = [f"'{names[l]}" + (": " + " + ".join(f"'{names[s]}" for s in p["impl_param"][l]) if l in p["impl_param"] else "") for l in range(k)]
    where = (" where " + ", ".join(r_bounds(l, ss, names) for l, ss in p["impl_where"])) if p["impl_where"] else ""
    return f"impl<{', '.join(gens)}> {m['owner']}<{', '.join(chr(39) + names[l] for l in range(k))}>{where}"


def rust_source(D, methods, skip_defs=()):
    out = ["#[diplomat::bridge]", "mod ffi {", "    #[allow(unused_imports)]",
           "    use diplomat_runtime::{DiplomatStr, DiplomatStrSlice, DiplomatSlice, DiplomatOption};"]
    for name in ORDER:
        if name not in skip_defs:
            out.append(r_def(D, name))
    for m in methods:
        out.append(f"    {r_impl_header(m)} {{")
        out.append(r_method(m))
        out.append("    }")
    out.append("}")
    return "\n".join(out) + "\n"


# ------------------------------------------------------------------ rendering: Coq
def c_lt(l):
    return "Static" if l == "static" else f"(Lt {l})"


def c_list(xs):
    return "[" + "; ".join(xs) + "]"


def c_bool(b):
    return "true" if b else "false"


def c_ty(t, selfty=None):
    k = t[0]
    if k == "prim": return "TPrim"
    if k == "opaque":
        b = "None" if t[2] is None else f"(Some {c_lt(t[2])})"
        return f"(TOpaque {c_bool(is_self_spelled(t, selfty))} {c_bool(t[1])} {b} {TID[t[3]]} {c_list([c_lt(a) for a in t[4]])})"
    if k == "slice":
        b = "None" if t[2] is None else f"(Some {c_lt(t[2])})"
        return f"(TSlice {c_bool(t[1])} {b})"
    return f"(TStruct {c_bool(t[1])} {TID[t[2]]} {c_list([c_lt(a) for a in t[3]])})"


def c_decl(decl):
    return c_list([f"({l}, {c_list([str(s) for s in ss])})" for l, ss in decl])


def c_defs(D):
    return c_list([f"(mkDef {D.d[n]['n']} {c_decl(D.d[n]['decl'])} {c_list([c_ty(t) for _, t in D.d[n]['fields']])})" for n in ORDER])


def c_sig(m):
    sp = self_spelling(m)
    ps = [c_ty(t, None if (m.get("self") and i == 0) else sp) for i, t in enumerate(m["params"])]      # the receiver is recorded by name
    return f"(mkSig {m['n']} {c_decl(m['decl'])} {c_list(ps)} {c_list([c_ty(t, sp) for t in m['ret']])})"


def c_edge(e):
    if e[0] == "opaque": return f"(EOpaque {e[1]})"
    if e[0] == "slice": return f"(ESlice {e[1]})"
    if e[0] == "panic": return f"(EPanic {e[1]})"
    return f"(EStruct {e[1]} {e[2]} {c_bool(e[3])})"


def c_map(mp):
    return c_list([f"({r}, ({c_list([str(x) for x in ls])}, {c_list([c_edge(e) for e in es])}))" for r, ls, es in mp])


# ------------------------------------------------------------------ the same signature as plain Rust, for rustc
def plain_check_fns(D, m, tag):
    """one fn per ordered pair (r, x) of named lifetimes: compiles iff rustc can prove 'x: 'r from the declared bounds and
    the well-formedness of the parameter / return types"""
    names = method_names(m); n = m["n"]
    bounds = {}
    for l, ss in m["decl"]:
        bounds.setdefault(l, []).extend(ss)
    gens = ", ".join(f"'{names[l]}" + (": " + " + ".join(f"'{names[s]}" for s in bounds[l]) if bounds.get(l) else "") for l in range(n))
    args = [f"_a{i}: {r_ty(t, names, n)}" for i, t in enumerate(m["params"] + m["ret"]) if t[0] != "prim"]
    out = []
    for r in range(n):
        for x in range(n):
            if r != x:
                out.append(((tag, r, x), f"pub fn chk_{tag}_{r}_{x}<{gens}>({', '.join(args + [f'v: &{chr(39)}{names[x]} u8'])}) -> &'{names[r]} u8 {{ v }}"))
    return out


def plain_defs(D):
    return "\n".join(r_def(D, n, plain=True) for n in ORDER)


# ------------------------------------------------------------------ written lifetimes: what elision.rs is handed (Lifetimes/Elision.v)
def struct_self_spelled(t, selfty):
    return bool(selfty) and t[0] == "struct" and t[2] == selfty[0] and list(t[3]) == list(range(selfty[1]))


def ty_positions(t, selfty):
    """the lifetime positions of a written type that count for output elision (Rust's rule: the lifetimes of `Self` do not)"""
    k = t[0]
    if k == "opaque":
        return ([("b", t[2])] if t[2] is not None else []) + ([] if spelled_self(t, selfty) else [(j, a) for j, a in enumerate(t[4])])
    if k == "slice":
        return [("b", t[2])]
    if k == "struct":
        return [] if struct_self_spelled(t, selfty) else [(j, a) for j, a in enumerate(t[3])]
    return []


def rust_elision_target(m):
    """Rust's elision rule, read off the signature (not off any state machine): `&self` decides; otherwise the parameters must
    contain exactly one lifetime position.  Returns the lifetime (index / 'static') or None."""
    s = m.get("self")
    if s and s[0] == "opaque" and s[2] is not None:
        return s[2]
    sp = self_spelling(m)
    pos = [l for t in m["params"][1 if s else 0:] for _, l in ty_positions(t, sp)]
    return pos[0] if len(pos) == 1 else None


def elide_pass(rng, m, p_elide=0.5, p_omit=0.3):
    """choose a different *spelling* of the same signature: return-type lifetimes equal to Rust's elision target are left out
    (`-> &Op` for `-> &'a Op`), and generic lists consisting of anonymous lifetimes only are dropped (`x: &H1` for `&H1<'_>`)"""
    n = m["n"]; sp = self_spelling(m)
    tgt = rust_elision_target(m)
    m["ret_elide"] = [set() for _ in m["ret"]]
    if tgt is not None and (tgt == "static" or tgt < n) and not m.get("elided_ret"):
        for i, t in enumerate(m["ret"]):
            for key, l in ty_positions(t, sp):
                # arguments under a borrow that stays written (`&'a T<'_>`) are left alone: the AST would record the implied bound
                # for the written arguments only, which Model.ty's single flag cannot express (Elision.mark)
                if key != "b" and t[0] == "opaque" and t[2] is not None and "b" not in m["ret_elide"][i]:
                    continue
                if l == tgt and rng.random() < p_elide:
                    m["ret_elide"][i].add(key)
            if "b" in m["ret_elide"][i] and t[0] == "opaque":
                m["ret"][i] = tuple(t[:6]) + (True,)          # an elided borrow: no implied bound in the AST's LifetimeEnv
    m["omit_gen"] = set()
    for i, t in enumerate(m["params"]):
        if m.get("self") and i == 0:
            continue
        args = t[4] if t[0] == "opaque" else t[3] if t[0] == "struct" else None
        if args and all(a != "static" and a >= n for a in args) and rng.random() < p_omit:
            m["omit_gen"].add(i)
    return m


def c_alt(l, n):
    return "AStatic" if l == "static" else (f"(ANamed {l})" if l < n else "AAnon")


def c_sty(t, n, selfty, elided=(), omit=False):
    k = t[0]
    if k == "prim": return "SPrim"
    el = lambda key, l: "AAnon" if key in elided else c_alt(l, n)
    if k == "opaque":
        b = "None" if t[2] is None else f"(Some {el('b', t[2])})"
        args = [] if omit else [el(j, a) for j, a in enumerate(t[4])]
        return f"(SOpaque {c_bool(spelled_self(t, selfty))} {c_bool(t[1])} {b} {TID[t[3]]} {c_list(args)} {len(DEF_LT[t[3]])})"
    if k == "slice":
        b = "None" if t[2] is None else f"(Some {el('b', t[2])})"
        return f"(SSlice {c_bool(t[1])} {b})"
    args = [] if omit else [el(j, a) for j, a in enumerate(t[3])]
    return f"(SStruct {c_bool(struct_self_spelled(t, selfty))} {c_bool(t[1])} {TID[t[2]]} {c_list(args)} {len(DEF_LT[t[2]])})"


def c_ssig(m):
    n = m["n"]; sp = self_spelling(m); s = m.get("self")
    if not s: cs = "SelfNone"
    elif s[0] == "opaque": cs = f"(SelfRef {c_alt(s[2], n)} {TID[s[3]]} {c_list([c_alt(a, n) for a in s[4]])})"
    else: cs = f"(SelfVal {TID[s[2]]} {c_list([c_alt(a, n) for a in s[3]])})"
    off = 1 if s else 0
    ps = [c_sty(t, n, sp, omit=(i + off) in m.get("omit_gen", ())) for i, t in enumerate(m["params"][off:])]
    rs = [c_sty(t, n, sp, elided=(m.get("ret_elide") or [()] * len(m["ret"]))[i]) for i, t in enumerate(m["ret"])]
    if m.get("elided_ret"):
        rs = [c_sty(t, n, sp) for t in m["ret"]]
    return f"(mkSSig {n} {c_decl(m['decl'])} {cs} {c_list(ps)} {c_list(rs)})"


def c_lowered(m, rec):
    """the oracle's `lowered` record (names as fmt_lifetime prints them) as the Coq term agree_lowered compares with"""
    names = method_names(m); n = m["n"]
    def one(x):
        if x == "static": return "Static"
        if x.startswith("anon_"): return f"(Lt {n + int(x[5:])})"
        return f"(Lt {names.index(x)})"
    f = lambda ls: c_list([c_list([one(x) for x in l]) for l in ls])
    return f"(Some ({f(rec['params'])}, {f(rec['ret'])}, {rec['num']}))"


def plain_elision_probe(D, m):
    """plain Rust: the method with its elided spelling, whose body hands back a value of the *explicit* return type;
    rustc accepts it iff the elided lifetimes denote the lifetime rust_elision_target names"""
    names = method_names(m)
    el = r_method(m)
    explicit = dict(m); explicit["ret_elide"] = None
    rt = r_ret(explicit, names)
    return f"    {r_impl_header(m)} {{\n" + el.replace("{ todo!() }", "{ let r: " + rt + " = todo!(); r }") + "\n    }"
