"""C02: shapes outside the shared generator's grammar, through the generated C++ API of the fixed bridge of c01_extra:
borrowed strings / spans inside std::optional and diplomat::result, every write-out return shape, methods on structs and
enums (receiver by value), enum class constants and conversions."""
from common import *
import e2e, c01_extra

DRIVER = r'''
#include <cstdio>
#include <cstdint>
#include <string>
#include "Store.hpp"
#include "Pt.hpp"
#include "Lv.hpp"
#include "Mx.hpp"
static void pv32(diplomat::span<const uint32_t> v) { printf("["); for (size_t i = 0; i < v.size(); i++) printf("%s%u", i ? "," : "", v.data()[i]); printf("]"); }
static void pv16(diplomat::span<const uint16_t> v) { printf("["); for (size_t i = 0; i < v.size(); i++) printf("%s%u", i ? "," : "", (unsigned)v.data()[i]); printf("]"); }
static void ps(std::string_view v) { printf("\"%.*s\"", (int)v.size(), v.data()); }
int main() {
  for (uint32_t n = 0; n < 6; n++) {
    auto s = Store::new_(n);
    printf("n%u os=", n); { auto r = s->os(); if (r.has_value()) ps(*r); else printf("N"); }
    printf(" ods="); { auto r = s->ods(); if (r.has_value()) ps(*r); else printf("N"); }
    printf(" osl="); { auto r = s->osl(); if (r.has_value()) pv32(*r); else printf("N"); }
    printf(" osl16="); { auto r = s->osl16(1); if (r.has_value()) pv16(*r); else printf("N"); }
    printf(" rsl="); { auto r = s->rsl(); if (r.is_ok()) pv32(std::move(r).ok().value()); else printf("E%u", (unsigned)std::move(r).err().value()); }
    printf(" sl="); pv32(s->sl());
    printf(" ou="); { auto r = s->ou(); if (r.has_value()) printf("%u", *r); else printf("N"); }
    { auto r = s->wopt(9); printf(" wopt=%d:%s", (int)r.has_value(), r.has_value() ? r->c_str() : ""); }
    { auto r = s->wres(8); if (r.is_ok()) printf(" wres=1:%s", std::move(r).ok().value().c_str()); else printf(" wres=0:E%u", (unsigned)std::move(r).err().value()); }
    printf(" wplain=%s", s->wplain(7).c_str());
    { auto r = Store::wstatic((uint8_t)n, 4660); printf(" wstatic=%d:%s", (int)r.has_value(), r.has_value() ? r->c_str() : ""); }
    { diplomat::span<const uint32_t> none; printf(" ounit=%d count=%u", (int)s->ounit().has_value(), s->count(none) + s->count({}) - s->count(none)); }
    printf("\n");
  }
  { Pt p{ -7, 2.5, 9 }; Pt q = p.shift(10, Lv::Mid); printf("pt sum=%.3f shift=%d,%.3f,%u\n", p.sum(), (int)q.x, q.y, (unsigned)q.z); }
  printf("lv consts=%d,%d,%d,%d codes=%d,%d,%d,%d next=%d,%d,%d,%d\n", (int)Lv::High, (int)Lv::Mid, (int)Lv::Low, (int)Lv::Top,
         Lv(Lv::High).code(), Lv(Lv::Mid).code(), Lv(Lv::Low).code(), Lv(Lv::Top).code(),
         (int)Lv::Value(Lv(Lv::High).next()), (int)Lv::Value(Lv(Lv::Mid).next()), (int)Lv::Value(Lv(Lv::Low).next()), (int)Lv::Value(Lv(Lv::Top).next()));
  printf("mx consts=%d,%d,%d,%d codes=%d,%d,%d,%d", (int)Mx::A, (int)Mx::B, (int)Mx::C, (int)Mx::D, Mx(Mx::A).code(), Mx(Mx::B).code(), Mx(Mx::C).code(), Mx(Mx::D).code());
  { auto r = Lv(Lv::Mid).pick(Mx::C); printf(" pick=%d:%d", (int)r.has_value(), r.has_value() ? (int)Mx::Value(*r) : -1); }
  { auto r = Lv(Lv::Low).pick(Mx::D); printf(" pick0=%d\n", (int)r.has_value()); }
  return 0;
}
'''


def run(ctx, stds=("c++17",)):
    d, lib, p = e2e.bridge_crate("c01x", c01_extra.BRIDGE)
    if lib is None:
        ctx.violation("e2e:extra-macro-build", {"broken": "the extra-shapes bridge does not compile with the real macro", "log": p.stderr[-2000:]}, True)
        return 0
    q = e2e.run_tool("cpp", os.path.join(d, "src/lib.rs"), os.path.join(d, "out_cpp"))
    if q.returncode != 0:
        ctx.violation("e2e:extra-tool-cpp", {"broken": "diplomat-tool cpp failed on the extra-shapes bridge", "log": q.stderr[-2000:], "lib_rs": c01_extra.BRIDGE}, True)
        return 0
    open(os.path.join(d, "drvx.cpp"), "w").write(DRIVER)
    n = 0
    for std in stds:
        c, r = e2e.cc_run(os.path.join(d, "drvx.cpp"), [os.path.join(d, "out_cpp")], lib, os.path.join(d, "drvxpp"), std=std, cxx=True, extra=["-fsanitize=address"])
        if r is None:
            ctx.violation("direct:extra-cpp-compile", {"std": std, "what": "a C++ caller written against the documented API shapes does not compile against the generated headers",
                                                       "log": c.stderr[-2500:], "lib_rs": c01_extra.BRIDGE}, True)
            return n
        got = [l for l in r.stdout.split("\n") if l.strip()]
        want = c01_extra.expected(writeable_struct=False)
        for g, w in zip(got + ["<missing>"] * (len(want) - len(got)), want):
            n += 11
            if g != w:
                ctx.violation("direct:extra-cpp-values", {"std": std, "what": f"C++ received `{g}`, Rust returned `{w}`", "stderr": r.stderr[-800:], "lib_rs": c01_extra.BRIDGE}, True)
                return n
        if r.returncode != 0:
            ctx.violation("direct:extra-cpp-run", {"std": std, "what": f"driver exit code {r.returncode}: {r.stderr[-1200:]}", "lib_rs": c01_extra.BRIDGE}, True)
    return n


# ---- recorded findings of the unchanged tree, exercised on every run (audit of 2026-09-30)
STRS_BRIDGE = """#[diplomat::bridge]
pub mod ffi {
    use diplomat_runtime::DiplomatStrSlice;
    #[diplomat::opaque]
    pub struct Strs;
    impl Strs {
        pub fn count(v: &[DiplomatStrSlice]) -> usize { v.len() }
        pub fn first_len(v: &[DiplomatStrSlice]) -> usize { v[0].len() }
        pub fn first_addr(v: &[DiplomatStrSlice]) -> usize { v[0].as_ptr() as usize }
    }
}
"""
STRS_DRIVER = r'''
#include "Strs.hpp"
#include <array>
#include <cstdio>
#include <string_view>
int main() {
  static const char a[] = "ab"; static const char b[] = "cde";
  std::array<std::string_view, 2> arr{std::string_view(a, 2), std::string_view(b, 3)};
  diplomat::span<const std::string_view> sp(arr.data(), arr.size());
  printf("%zu %zu %d\n", Strs::count(sp), Strs::first_len(sp), (int)(Strs::first_addr(sp) == (size_t)(const void*)a));
  return 0;
}
'''


def run_string_lists(ctx, stds=("c++17",)):
    """a list of strings (`&[DiplomatStrSlice]`, C++ `span<const std::string_view>`): each element must arrive as (pointer, length)"""
    d, lib, p = e2e.bridge_crate("c02strs", STRS_BRIDGE)
    if lib is None:
        raise MachineryError("C02: the string-list bridge does not build: " + p.stderr[-800:])
    q = e2e.run_tool("cpp", os.path.join(d, "src/lib.rs"), os.path.join(d, "out_cpp"))
    if q.returncode != 0:
        ctx.violation("e2e:strs-tool-cpp", {"broken": "diplomat-tool cpp failed on the string-list bridge", "log": q.stderr[-1500:], "lib_rs": STRS_BRIDGE}, True)
        return 0
    open(os.path.join(d, "drvs.cpp"), "w").write(STRS_DRIVER)
    n = 0
    for std in stds:
        c, r = e2e.cc_run(os.path.join(d, "drvs.cpp"), [os.path.join(d, "out_cpp")], lib, os.path.join(d, "drvs"), std=std, cxx=True)
        n += 1
        if r is None:
            ctx.violation("direct:strs-cpp-compile", {"std": std, "what": "a C++ caller passing a span of string_views does not compile against the generated header", "log": c.stderr[-1500:]}, True)
            continue
        if r.stdout.strip() != "2 2 1":
            ctx.violation("cpp-string-list-layout", {"std": std, "what": f"Strs::count / first_len / first_addr-matches of {{\"ab\", \"cde\"}} arrived as `{r.stdout.strip()}` (exit {r.returncode}); "
                          "expected `2 2 1`: the wrapper reinterpret_casts std::string_view elements to DiplomatStringView", "lib_rs": STRS_BRIDGE}, True)
    return n
