#!/usr/bin/env python3
"""Prints the prompt given to an independent sub-agent that seeds a property-breaking change."""
import json, sys
pid = sys.argv[1]
n = sys.argv[2] if len(sys.argv) > 2 else "2"
focus = sys.argv[3] if len(sys.argv) > 3 else ""
for l in open('/verif/properties.jsonl'):
    p = json.loads(l)
    if p['id'] == pid:
        break
print(f"""You are helping test a verification effort for the open-source project rust-diplomat/diplomat (a Rust proc-macro + code generator that emits C, C++, JS, Dart, Kotlin and Python FFI bindings). You have your own scratch git worktree of the repository at /tmp/wt_{pid} (work ONLY there; never touch /repo or /verif, and do not read anything under /verif). The sandbox has no network; build with `cargo ... --offline`. The repository's test suite is run with: `cd /tmp/wt_{pid} && cargo test --workspace --no-fail-fast --offline` (69 tests, all pass on the unchanged tree). gcc/g++/clang/node are available; Dart, Kotlin, wasm32 targets and Python headers are not.

Here is a semantic property the project is supposed to satisfy:

TITLE: {p['title']}
STATEMENT: {p['statement']}
QUANTIFIED OVER: {p['quantifier']['text']}
RELEVANT FILES: {', '.join(p['anchors']['files'])}
MECHANISMS INVOLVED: {'; '.join(m['name'] + ' (' + m['where'] + ')' for m in p['anchors'].get('mechanism', []))}
{('For this round, place your changes in (or around the code reached from) these of the relevant files: ' + focus) if focus else ''}

Your task: produce {n} DIFFERENT realistic changes (bugs a maintainer could plausibly introduce during a refactor or optimisation) to the repository's source, each of which BREAKS this property while the workspace still compiles and the existing test suite still passes unedited. Prefer changes that need something specific to manifest — an unusual input, a particular multi-step sequence of operations, a particular combination of types/attributes/configuration, or two cooperating sites that each look fine alone — NOT changes that any ordinary use would expose at once. Each change should be small (a few lines), touch only non-test source files of the repository (Rust sources or templates under core/, macro/, runtime/, tool/), and be independent of the others (each is a separate patch against the unchanged tree).

For each change i = 1..{n}, write into /tmp/seed_out_{pid}/m<i>/ :
  - patch.diff  : output of `git diff` in the worktree for this change alone (must apply with `git apply` on the unchanged tree)
  - a demonstration: a small self-contained test or program plus a `run.sh <repo-root>` script that takes the path of a checkout as argument, exits 0 on the UNCHANGED tree and exits non-zero on the tree WITH the change (e.g. a tiny cargo crate with path dependencies on the given checkout using an empty [workspace] table and a copy of the checkout's Cargo.lock, or an invocation of `cargo run -p diplomat-tool` on a small bridge file followed by a grep/compile of the output). It must work offline.
  - meta.json : {{"property": "{pid}", "summary": "...what the change does...", "needs_to_manifest": "...the specific input/sequence/combination needed...", "files_touched": [...], "commands_run": [...]}}
After writing each patch, revert the worktree (`git checkout -- .`) before starting the next. Verify yourself for every change: (a) the workspace builds and `cargo test --workspace --no-fail-fast --offline` passes with the change applied, (b) run.sh fails with the change and passes without it. Put cargo build output of demonstrations under /tmp/seed_out_{pid}/target (not in the worktree) and delete that target directory when you are done. Finish with a short report listing each change and how you verified it.""")
