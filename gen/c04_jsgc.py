"""C04, the statement itself for the JS backend: "the collector can never free something the returned value still borrows
from".  The generated JS of accepted bridges is EXECUTED in node (--expose-gc) against a mock wasm module: every input is
created inside a helper frame, the method is called, all references except the returned value are dropped, the collector
runs, and no input the return value may borrow from (per the independent reading of Rust's rules) may have been destroyed
(opaque destructor called) or freed (slice allocation released) while the returned value is still reachable.  A missing
edge in any layer (method edge arrays, constructors, struct accessors, append arrays, runtime arenas) shows up here."""
import json, os, shutil
from common import *
import e2e
import c04gen as G
import c04_backends as B

MOCK = r'''
const memory = new WebAssembly.Memory({ initial: 32 });
new Uint32Array(memory.buffer).fill(8);       // any pointer / length / flag read from a "returned" value is small and non-zero
let bump = 1 << 20;
globalThis.__allocs = []; globalThis.__freed = []; globalThis.__destroyed = []; globalThis.__nextptr = 5000000;
const base = {
  memory,
  diplomat_alloc(size, align) { bump = Math.ceil(bump / Math.max(align, 1)) * Math.max(align, 1); const p = bump; bump += Math.max(size, 1) + 16; globalThis.__allocs.push([p, size]); return p; },
  diplomat_free(p, size, align) { globalThis.__freed.push(p); },
};
export default new Proxy(base, { get(t, name) {
  if (name in t) return t[name];
  const n = String(name);
  if (n.endsWith("_destroy")) return (ptr) => { globalThis.__destroyed.push(ptr); };
  return (...args) => { globalThis.__nextptr += 64; return globalThis.__nextptr; };
} });
'''


class Inputs:
    """JS expressions building the arguments of one call; remembers which pointer / allocation size identifies which input"""
    def __init__(self, D):
        self.D, self.ptr, self.size = D, 1000, 40
        self.opaques, self.slices = {}, {}      # path -> ptr ; path -> byte size

    def opaque(self, path, tid):
        self.ptr += 8
        self.opaques[path] = self.ptr
        n = self.D.d[tid]["n"]
        return f"new {tid}(rt.internalConstructor, {self.ptr}, []{', []' * n})"

    def slice(self, path, flavour):
        self.size += 3
        self.slices[path] = self.size
        if flavour == "u8":
            return "[" + ", ".join(str((i * 7) % 250) for i in range(self.size)) + "]"
        return json.dumps("x" * self.size)

    def value(self, path, t):
        k = t[0]
        if k == "prim": return "7"
        if k == "opaque": return self.opaque(path, t[3])
        if k == "slice": return self.slice(path, t[3])
        fs = ", ".join(f"{fn}: {self.value(path + '.' + fn, ft)}" for fn, ft in self.D.d[t[2]]["fields"])
        return f"{t[2]}.fromFields({{{fs}}})"


def carried(D, t):
    """method lifetimes whose edge arrays end up inside the JS value returned for type t: JS copies strings and primitive
    slices out of wasm memory, so only opaque handles (directly, or as fields of a returned struct) retain anything"""
    if t[0] == "opaque":
        return {l for l in G.ty_lts(t) if l != "static"}
    if t[0] == "struct":
        out = set()
        for _, ft in D.d[t[2]]["fields"]:
            for l in carried(D, ft):
                if l != "static" and l < len(t[3]) and t[3][l] != "static":
                    out.add(t[3][l])
        return out
    return set()


def kept_inputs(D, m):
    """paths of the opaque inputs and slice inputs the returned JS value may borrow from"""
    keep_o, keep_s = set(), set()
    live = set()
    for t in m["ret"]:
        live |= carried(D, t)
    def slot_members(tid, slot, prefix):
        for fn, t in D.d[tid]["fields"]:
            if t[0] == "opaque" and slot in G.ty_lts(t): keep_o.add(prefix + "." + fn)
            if t[0] == "slice" and t[2] == slot: keep_s.add(prefix + "." + fn)
            if t[0] == "struct":
                for j, a in enumerate(t[3]):
                    if a == slot: slot_members(t[2], j, prefix + "." + fn)
    for r, edges in G.spec_map(D, m):
        if r not in live:
            continue
        for e in edges:
            pn = m["pnames"][e[1]]
            if e[0] == "opaque": keep_o.add(pn)
            elif e[0] == "slice": keep_s.add(pn)
            elif e[0] == "struct": slot_members(m["params"][e[1]][2], e[2], pn)
    return keep_o, keep_s


def usable(m):
    if not B.backend_ok(m): return False
    if all(t[0] == "prim" for t in m["ret"]): return False
    # a borrowed (not owned) returned opaque / struct / string is what carries the edges; everything else too
    return True


def run(ctx, bridges, violate):
    import collections
    stats = collections.Counter()
    root = os.path.join(BUILD, "e2e", "c04gc")
    shutil.rmtree(root, ignore_errors=True)
    for bi, (D, ms) in enumerate(bridges):
        ms = [m for m in ms if usable(m)]
        d = os.path.join(root, f"b{bi}")
        out, disabled = B.generate(D, ms, "js", d)
        if out is None:
            stats["gc_skipped_bridges"] += 1
            continue
        open(os.path.join(out, "diplomat-wasm.mjs"), "w").write(MOCK)
        tests, meta = [], []
        for m in ms:
            if f"{m['owner']}::{m['name']}" in disabled or m["owner"] in disabled:
                continue
            inp = Inputs(D)
            args = []
            selfexpr = None
            for p, t in enumerate(m["params"]):
                pn = m["pnames"][p]
                if t[0] == "struct" and t[1] and False:
                    pass
                v = inp.value(pn, t)
                if pn == "this": selfexpr = v
                else: args.append(v)
            call = (f"({selfexpr}).{m['name']}({', '.join(args)})" if selfexpr else f"{m['owner']}.{m['name']}({', '.join(args)})")
            keep_o, keep_s = kept_inputs(D, m)
            meta.append({"m": m, "opaques": inp.opaques, "slices": inp.slices, "keep_o": sorted(keep_o), "keep_s": sorted(keep_s)})
            tests.append(f"""  {{
    const rec = {{i: {len(meta) - 1}}};
    globalThis.__allocs.length = 0; globalThis.__freed.length = 0; globalThis.__destroyed.length = 0;
    let res;
    try {{ res = (() => {call})(); }} catch (e) {{ rec.error = String(e); }}
    rec.allocs = globalThis.__allocs.slice();
    await collect();
    rec.destroyed = globalThis.__destroyed.slice(); rec.freed = globalThis.__freed.slice();
    rec.has_result = res !== undefined && res !== null;
    globalThis.__keepalive = res;
    res = null; globalThis.__keepalive = null;
    await collect();
    rec.destroyed_after = globalThis.__destroyed.slice(); rec.freed_after = globalThis.__freed.slice();
    out.push(rec);
  }}""")
        imports = "\n".join(f'import {{ {n} }} from "./{n}.mjs";' for n in G.ORDER if n not in disabled and os.path.exists(os.path.join(out, n + ".mjs")))
        drv = f"""import * as rt from "./diplomat-runtime.mjs";
{imports}
const out = [];
globalThis.__uncaught = [];
process.on("uncaughtException", (e) => {{ globalThis.__uncaught.push(String(e)); }});
async function collect() {{ for (let i = 0; i < 4; i++) {{ globalThis.gc(); await new Promise(r => setTimeout(r, 0)); }} }}
async function main() {{
{chr(10).join(tests)}
  console.log(JSON.stringify({{recs: out, uncaught: globalThis.__uncaught.slice(0, 5), n_uncaught: globalThis.__uncaught.length}}));
}}
await main();
"""
        open(os.path.join(out, "gc_drv.mjs"), "w").write(drv)
        r = sh(["node", "--expose-gc", "gc_drv.mjs"], cwd=out, timeout=600)
        if r.returncode != 0:
            stats["gc_node_failures"] += 1
            if "SyntaxError" in r.stderr:
                violate("direct:jsgc:syntax", {"what": "node rejects the generated JS: " + r.stderr[-600:], "lib_rs": open(os.path.join(d, "lib.rs")).read()[:3000]})
            continue
        res = json.loads(r.stdout.strip().split("\n")[-1])
        stats["gc_finalizer_exceptions"] += res["n_uncaught"]
        for rec in res["recs"]:
            mt = meta[rec["i"]]; m = mt["m"]
            stats["gc_calls"] += 1
            if "error" in rec:
                stats["gc_threw"] += 1
                if "is not defined" in rec["error"]: stats["gc_threw_reference_error"] += 1
                continue
            if not rec["has_result"]:
                stats["gc_no_result"] += 1
                continue
            sig = G.r_impl_header(m) + " { " + G.r_method(m).strip() + " }"
            lost = [p for p in mt["keep_o"] if mt["opaques"].get(p) in rec["destroyed"]]
            size2ptr = {}
            for ptr, size in rec["allocs"]:
                size2ptr.setdefault(size, ptr)
            freed = [p for p in mt["keep_s"] if size2ptr.get(mt["slices"].get(p)) in rec["freed"] and mt["slices"].get(p) in size2ptr]
            stats["gc_kept_inputs_checked"] += len(mt["keep_o"]) + len(mt["keep_s"])
            if lost or freed:
                violate("direct:jsgc:collected", {"method": f"{m['owner']}::{m['name']}", "signature": sig, "what":
                        f"after dropping every reference except the returned value and running the collector, {lost + freed} had been "
                        f"{'destroyed' if lost else 'freed'}, although the returned value may borrow from {'them' if len(lost + freed) > 1 else 'it'}",
                        "lib_rs": G.rust_source(D, [m])})
            # sanity of the harness: once the result is dropped too, owned inputs do get collected
            if mt["keep_o"]:
                stats["gc_released_after"] += sum(1 for p in mt["keep_o"] if mt["opaques"].get(p) in rec["destroyed_after"])
                stats["gc_release_expected"] += len(mt["keep_o"])
    return {"js_gc": dict(stats)}
