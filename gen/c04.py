"""C04 — borrow edges keep alive everything a returned value may borrow from (DESIGN §5 C04)."""
from common import *
import copy
import e2e, tablegen
import c04gen as G

PROP = "C04"
HEADER = "From Coq Require Import List Bool Arith.\nImport ListNotations.\nFrom DV Require Import Lifetimes.Model Lifetimes.Check Lifetimes.Struct Lifetimes.SpecExec Lifetimes.Elision."
KNOWN_MSG = ("should explicitly include this lifetime bound", "Found elided lifetime in return type")


def uses_def(m, name):
    return m["owner"] == name or any(G.ty_use(t) and G.ty_use(t)[0] == name for t in m["params"] + m["ret"])


def minimal_source(D, m):
    return G.rust_source(D, [m])


def obs_map(D, m, rec):
    """oracle record -> [(r, sorted longer, edges)] over indices"""
    names = G.method_names(m)
    idx = {n: i for i, n in enumerate(names)}
    out = []
    for e in rec["map"]:
        edges = []
        for ed in e["edges"]:
            p = m["pnames"].index(ed[0])
            if ed[1] == "struct":
                t = m["params"][p]
                edges.append(("struct", p, G.DEF_LT[t[2]].index(ed[2]), bool(ed[3])))
            else:
                edges.append((ed[1], p))
        out.append((idx[e["lt"]], sorted(idx[x] for x in e["longer"]), edges))
    return out


def show_edges(m, edges):
    out = []
    for e in edges:
        if e[0] == "struct":
            t = m["params"][e[1]]
            out.append(f"{m['pnames'][e[1]]}.'{G.DEF_LT[t[2]][e[2]]}")
        else:
            out.append(f"{m['pnames'][e[1]]}")
    return out


def rustc_crosscheck(ctx, bridges, goals):
    """Is the reading of Rust's rules in c04gen.rust_outlives what rustc itself accepts?  One plain-Rust crate per bridge."""
    d = os.path.join(BUILD, "c04_rustc"); os.makedirs(d, exist_ok=True)
    checked = disagreements = static_bridged = 0
    first = None
    for bi, (D, methods) in enumerate(bridges):
        fns = []
        for m in methods:
            fns += G.plain_check_fns(D, m, m["name"])
        if not fns:
            continue
        lines = ["#![allow(warnings)]"] + G.plain_defs(D).split("\n")
        base = len(lines)
        lines += [f for _, f in fns]
        src = "\n".join(lines).replace("DiplomatStr", "str") + "\n"
        path = os.path.join(d, f"b{bi}.rs")
        open(path, "w").write(src)
        p = sh(["rustc", "--edition", "2021", "--crate-type", "lib", "--emit", "metadata", "--error-format", "short", "-o",
                os.path.join(d, f"b{bi}.rmeta"), path], timeout=300)
        bad_lines = {int(x) for x in re.findall(r"b%d\.rs:(\d+):\d+: error" % bi, p.stderr)}
        if any(l <= base for l in bad_lines):
            raise MachineryError("C04 rustc cross-check: the plain-Rust rendering of the definitions does not compile\n" + p.stderr[:1500])
        goals.append(f"forallb (udepth_le {G.c_defs(D)} 3) (seq 0 {len(G.ORDER)})")      # the hypothesis of C04_spec_executable for fuel 4
        reach = {m["name"]: G.rust_outlives(D, m) for m in methods}
        full = {m["name"]: G.rust_outlives(D, m, with_static=True) for m in methods}
        for i, ((tag, r, x), _f) in enumerate(fns):
            rustc_ok = (base + i + 1) not in bad_lines
            spec_ok = x in reach[tag].get(r, {r})
            full_ok = x in full[tag].get(r, {r})
            checked += 1
            if full_ok and not spec_ok:
                static_bridged += 1          # 'x: 'static: 'r -- outside C04's statement (DESIGN C04)
            else:
                # the Coq specification itself (Spec.outlives through its executable form) against rustc's verdict
                mm = next(m for m in methods if m["name"] == tag)
                goals.append(f"agree_rustc 4 {G.c_defs(D)} {G.c_sig(mm)} {r} {x} {cbool(rustc_ok)}")
            if rustc_ok != full_ok:
                disagreements += 1
                first = first or {"fn": _f, "rustc_accepts": rustc_ok, "spec_says_outlives": full_ok, "defs": G.plain_defs(D)}
    if disagreements:
        raise MachineryError("C04: c04gen.rust_outlives disagrees with rustc on %d of %d (r, x) pairs; first: %s" % (disagreements, checked, json.dumps(first, indent=1)))
    return checked, static_bridged


def rustc_elision_check(ctx, bridges):
    """Is rust_elision_target (the reading of Rust's elision rule the generator uses to choose which return lifetimes may be left
    out) what rustc does?  Every accepted method with an elided spelling is compiled as plain Rust with a body that produces the
    explicitly spelled return type."""
    d = os.path.join(BUILD, "c04_rustc"); os.makedirs(d, exist_ok=True)
    n = 0
    for bi, (D, methods) in enumerate(bridges):
        probes = [G.plain_elision_probe(D, m) for m in methods if any(m.get("ret_elide") or []) or m.get("omit_gen")]
        if not probes:
            continue
        n += len(probes)
        src = ("#![allow(warnings)]\n" + G.plain_defs(D) + "\n" + "\n".join(probes) + "\n").replace("DiplomatStr", "str")
        path = os.path.join(d, f"e{bi}.rs")
        open(path, "w").write(src)
        p = sh(["rustc", "--edition", "2021", "--crate-type", "lib", "--emit", "metadata", "--error-format", "short", "-o",
                os.path.join(d, f"e{bi}.rmeta"), path], timeout=300)
        if p.returncode != 0:
            raise MachineryError("C04: rustc does not read the elided spelling of a generated method the way c04gen.rust_elision_target does\n" + p.stderr[:1500] + "\n" + src[-1500:])
    return n


def check(ctx, replay=None):
    build_harness()
    tablegen.main()
    phase = standard_proof_phase(ctx, PROP, ["theories/Properties/C04.v"])
    e2e.build_tool()
    rng = ctx.rng
    nb, per = (10, 14) if ctx.quick() else (300, 16)
    bridges, panicky = [], []
    for bi in range(nb):
        D = G.gen_defs(rng, same_slot=(bi % 3 == 0), needs_bound={1: "restated", 2: "omitted"}.get(bi % 3))
        ms = []
        for i in range(per):
            m = G.gen_method(rng, D, f"m{i}", max_lts=4 if rng.random() < 0.9 else 6)
            if any(e[0] == "panic" for _, _, es in G.model_map(m) for e in es):
                panicky.append((D, m))
            else:
                ms.append(m)
        bridges.append((D, ms + G.fixed_methods(D)))
    goals, viol, samples = [], 0, []
    stats = {"methods": 0, "accepted": 0, "rejected": 0, "rejected_defs": 0, "skipped_bridges": 0, "keys": 0, "edges": 0, "struct_edges": 0,
             "optional_struct_edges": 0, "elided_return_positions": 0, "omitted_generic_lists": 0, "anonymous_lifetimes": 0, "multi_lifetime_keys": 0, "transitive_keys": 0, "panicky": len(panicky), "crashing_methods": 0, "unusable_bridges": 0}
    nontriv = set()

    def violate(key, obj, found=True):
        nonlocal viol
        if len(ctx.violations) < 3 or key.startswith("option-slice"):
            viol += 1
            ctx.violation(key, obj, found)

    # ---- pass 1: which items does the real validation reject?
    outs, p = oracle("borrow", [{"src": G.rust_source(D, ms)} for D, ms in bridges])
    if outs is None:
        raise MachineryError("oracle borrow failed: " + p.stderr[-2000:])
    second, kept = [], []
    for (D, ms), o in zip(bridges, outs):
        stats["methods"] += len(ms)
        rej_m, rej_d = set(), set()
        if "panic" in o or "parse_error" in o:
            # find the methods that make the analysis crash, report them, and go on with the others
            singles, _p = oracle("borrow", [{"src": G.rust_source(D, [m])} for m in ms])
            crashing = [m for m, so in zip(ms, singles or []) if "panic" in so or "parse_error" in so]
            for m, so in zip(ms, singles or []):
                if "panic" in so or "parse_error" in so:
                    violate("direct:analysis-crash", {"method": m["name"], "what": "lowering / the borrow analysis crashes on this signature instead of reporting edges: " +
                            str(so.get("panic", so.get("parse_error")))[:400], "lib_rs": G.rust_source(D, [m])})
            stats["crashing_methods"] += len(crashing)
            ms = [m for m in ms if m not in crashing]
            o2, _p = oracle("borrow", [{"src": G.rust_source(D, ms)}])
            o = o2[0] if o2 else {"panic": "oracle failed"}
            if not crashing or "panic" in o or "parse_error" in o:
                violate("direct:analysis-crash", {"what": "the borrow analysis crashed: " + str(o)[:600], "lib_rs": G.rust_source(D, ms)})
                stats["skipped_bridges"] += 1
                kept.append(None); continue
        unknown = False
        for msg in o.get("rejected", []):
            ctxname, _, text = msg.partition(": ")
            if not any(k in text for k in KNOWN_MSG):
                unknown = True
            elif "::" in ctxname: rej_m.add(ctxname.split("::")[1])
            else: rej_d.add(ctxname)
        if unknown:
            stats["skipped_bridges"] += 1; stats["unusable_bridges"] += 1
            kept.append(None); continue
        cd = G.c_defs(D)
        for name in G.ORDER:
            goals.append(f"agree_validate_def {cd} {G.TID[name]} {cbool(name not in rej_d)}")
        for m in ms:
            goals.append(f"agree_validate {cd} {G.c_sig(m)} {cbool(m['name'] not in rej_m)}")
        stats["rejected"] += len(rej_m); stats["rejected_defs"] += len(rej_d)
        ms2 = [m for m in ms if m["name"] not in rej_m and not any(uses_def(m, d) for d in rej_d)]
        # a rejected definition is replaced by its repaired form so that the others still lower
        if rej_d:
            D2 = G.Defs(); D2.d = copy.deepcopy(D.d)
            for d in rej_d:
                G.fix_def(D2, d)
        else:
            D2 = D
        kept.append((D, D2, ms2))
        second.append({"src": G.rust_source(D2, ms2)})
    # ---- pass 2: the borrow maps of everything that was accepted
    outs2, p = oracle("borrow", second) if second else ([], None)
    if outs2 is None:
        raise MachineryError("oracle borrow failed: " + p.stderr[-2000:])
    it = iter(outs2)
    accepted_bridges = []
    for k in kept:
        if k is None:
            continue
        D, D2, ms2 = k
        o = next(it)
        if "methods" not in o:
            if "panic" in o:
                violate("direct:analysis-crash", {"what": "the borrow analysis crashed: " + str(o)[:600], "lib_rs": G.rust_source(D2, ms2)})
            stats["skipped_bridges"] += 1
            continue
        recs = {r["method"]: r for r in o["methods"]}
        accepted_bridges.append((D2, ms2))
        for m in ms2:
            stats["accepted"] += 1
            rec = recs.get(m["name"])
            if rec is None:
                violate("direct:no-map", {"what": "no borrow map for " + m["name"], "lib_rs": minimal_source(D2, m)}); continue
            obs = obs_map(D2, m, rec)
            goals.append(f"agree_map {G.c_sig(m)} {G.c_map(obs)}")
            # what elision.rs made of the written lifetimes (Lifetimes/Elision.v): every lifetime of self, parameters and output
            goals.append(f"agree_lowered {G.c_ssig(m)} {G.c_lowered(m, rec['lowered'])}")
            stats["elided_return_positions"] += sum(len(x) for x in (m.get("ret_elide") or []))
            stats["omitted_generic_lists"] += len(m.get("omit_gen", ()))
            stats["anonymous_lifetimes"] += rec["lowered"]["num"] - m["n"]
            spec = G.spec_map(D2, m)
            reach_env = G.m_env(m)
            if [r for r, _, _ in obs] != [r for r, _ in spec]:
                violate("direct:keys", {"what": f"borrow_map keys {[r for r, _, _ in obs]} but the return type uses {[r for r, _ in spec]}", "lib_rs": minimal_source(D2, m)})
                continue
            names = G.method_names(m)
            for (r, ls, es), (_, want) in zip(obs, spec):
                stats["keys"] += 1; stats["edges"] += len(es)
                stats["struct_edges"] += sum(1 for e in es if e[0] == "struct")
                stats["optional_struct_edges"] += sum(1 for e in es if e[0] == "struct" and e[3])
                if len(ls) > 1: stats["multi_lifetime_keys"] += 1
                if any(x not in G.longer(reach_env, r) and x != r for x in ls): stats["transitive_keys"] += 1
                missing = [e for e in want if e not in es]
                extra = [e for e in es if e not in want]
                if missing:
                    violate("direct:missing-edge", {"method": m["name"], "lifetime": "'" + names[r], "what": "the analysis does not report " +
                            ", ".join(show_edges(m, missing)) + f" for '{names[r]}, although Rust's rules force a lifetime they mention to outlive it",
                            "reported": show_edges(m, es), "required": show_edges(m, want), "lib_rs": minimal_source(D2, m)})
                elif extra:
                    violate("direct:extra-edge", {"method": m["name"], "lifetime": "'" + names[r], "what": "the analysis reports " +
                            ", ".join(show_edges(m, extra)) + f" for '{names[r]}, which no outlives rule relates to it",
                            "reported": show_edges(m, es), "required": show_edges(m, want), "lib_rs": minimal_source(D2, m)})
                if es:
                    nontriv.add(json.dumps([m["decl"], m["params"], m["ret"], r]))
            if len(samples) < 3 and obs and obs[0][2]:
                samples.append({"signature": G.r_method(m).strip(), "impl": G.r_impl_header(m), "borrow_map": {"'" + names[r]: show_edges(m, es) for r, _, es in obs}})
    # ---- optional slices that the return value borrows from: the analysis must report a slice edge
    if panicky:
        pouts, p = oracle("borrow", [{"src": G.rust_source(D, [m])} for D, m in panicky])
        if pouts is None:
            raise MachineryError("oracle borrow failed: " + p.stderr[-2000:])
        for (D, m), o in zip(panicky, pouts):
            if "panic" in o:
                violate("option-slice-borrowed", {"what": "a borrowed Option<&[T]> / Option<&str> parameter makes the borrow analysis panic: " + o["panic"], "lib_rs": G.rust_source(D, [m])})
            elif "methods" in o and o["methods"]:
                obs = obs_map(D, m, o["methods"][0])
                for (r, ls, es), (_, want) in zip(obs, G.spec_map(D, m)):
                    if [e for e in want if e not in es]:
                        violate("direct:missing-edge", {"method": m["name"], "what": "optional slice parameter not reported", "lib_rs": G.rust_source(D, [m])})
    if stats["unusable_bridges"] * 5 > nb:
        raise MachineryError(f"C04: {stats['unusable_bridges']} of {nb} generated bridges were not usable (unexpected lowering errors)")
    # ---- the reading of Rust's rules against rustc itself
    stats["rustc_pairs_checked"], stats["rustc_pairs_static_bridged"] = rustc_crosscheck(ctx, [(D, ms) for D, ms in accepted_bridges][: (3 if ctx.quick() else 100)], goals)
    stats["rustc_elision_probes"] = rustc_elision_check(ctx, accepted_bridges[: (6 if ctx.quick() else 100)])
    # ---- what the managed backends attach
    import c04_backends
    bstats = c04_backends.run(ctx, accepted_bridges[: (3 if ctx.quick() else 60)], violate, goals)
    stats.update(bstats)
    import c04_jsgc
    stats.update(c04_jsgc.run(ctx, accepted_bridges[: (4 if ctx.quick() else 40)], violate))
    fails = run_shards(PROP, HEADER, goals) if goals else []
    if fails and not ctx.violations:
        ctx.violation("corr:borrow-model", {"broken": "correspondence goal " + goals[fails[0]][:900] + " : Lifetimes/Model.v no longer reproduces the "
                      "implementation's validation / borrow_map, or Lifetimes/Elision.v its lowering of written lifetimes, on this input (theorems: C04_borrow_edges_exact, C04_all_longer_is_closure, C04_elided_return_edges)"}, False)
    return batch_evidence(
        ctx, PROP, phase, goals, fails, stats["methods"], len(nontriv),
        "%d generated bridges (%d methods: up to 4 (sometimes 6) named lifetimes, random declared bounds in impl/method generics and where clauses, "
        "anonymous and 'static lifetimes, &'a T<'b>, Option<&..>, Option<Struct>, nested borrowing structs with randomised definitions) lowered by the "
        "real TypeContext::from_syn; per method the real borrowing_param_visitor(..).borrow_map() is compared (a) with the set required by an "
        "independent reading of Rust's outlives rules (direct check, failing signature = replay) and (b) literally, including the all_longer set "
        "and edge order, with Lifetimes/Model.v evaluated in Coq; acceptance/rejection of every method and definition is compared with the model's "
        "validate; the reading of Rust's rules is itself compared with rustc on (r, x) pairs (does `v: &'x u8` coerce to `&'r u8` under this "
        "signature?); js/dart/kotlin/nanobind output is parsed for the edges attached to the returned object; the generated JS is executed in "
        "node --expose-gc against a mock wasm module: after dropping everything but the returned value and collecting, no input it may borrow "
        "from has been destroyed or freed" % (nb, stats["methods"]),
        "modelled, not verified: LifetimeEnv construction, the DFS, validate_ty_in_env and visit_param (Lifetimes/Model.v); bounds rustc infers from an "
        "opaque's private fields and paths through 'static are outside the statement; the AST-level longer_than is modelled by the same closure "
        "function as the HIR iterator; backend emission is checked on generated code, not modelled",
        samples, ["struct definitions are non-recursive; lifetimes are compared by position"], {"distribution": stats})


