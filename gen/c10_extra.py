"""C10: Option / Result whose arms carry no bytes — unit, and structs without fields — through C and through C++ (where an empty
anonymous union would occupy a byte): the record is the one-byte discriminant alone, and Ok/Some arrives as Ok/Some."""
from common import *
import e2e

BRIDGE = r'''
#[diplomat::bridge]
mod ffi {
    pub struct Zs {}
    pub struct Zt {}
    #[diplomat::opaque]
    pub struct Gate(pub u32);
    impl Gate {
        pub fn new(n: u32) -> Box<Gate> { Box::new(Gate(n)) }
        pub fn r_unit_zs(&self) -> Result<(), Zs> { if self.0 % 2 == 1 { Ok(()) } else { Err(Zs {}) } }
        pub fn r_zs_unit(&self) -> Result<Zs, ()> { if self.0 % 2 == 1 { Ok(Zs {}) } else { Err(()) } }
        pub fn r_zs_zt(&self) -> Result<Zs, Zt> { if self.0 % 2 == 1 { Ok(Zs {}) } else { Err(Zt {}) } }
        pub fn o_zs(&self) -> Option<Zs> { if self.0 % 2 == 1 { Some(Zs {}) } else { None } }
        pub fn r_unit_unit(&self) -> Result<(), ()> { if self.0 % 2 == 1 { Ok(()) } else { Err(()) } }
        pub fn r_u8_zs(&self) -> Result<u8, Zs> { if self.0 % 2 == 1 { Ok(self.0 as u8) } else { Err(Zs {}) } }
        pub fn r_zs_u16(&self) -> Result<Zs, u16> { if self.0 % 2 == 1 { Ok(Zs {}) } else { Err(self.0 as u16 + 300) } }
        pub fn plain(&self, k: u8) -> u8 { k.wrapping_add(self.0 as u8) }
    }
}
'''

C_DRIVER = r'''
#include <stdio.h>
#include <stdint.h>
#include <stddef.h>
#include "Gate.h"
#include "Zs.h"
#include "Zt.h"
int main(void) {
#define REC(n) printf("rec " #n " %zu %zu %zu\n", sizeof(Gate_##n##_result), (size_t)_Alignof(Gate_##n##_result), offsetof(Gate_##n##_result, is_ok));
  REC(r_unit_zs) REC(r_zs_unit) REC(r_zs_zt) REC(o_zs) REC(r_unit_unit) REC(r_u8_zs) REC(r_zs_u16)
  for (uint32_t n = 0; n < 4; n++) {
    Gate* g = Gate_new(n);
    Gate_r_u8_zs_result a = Gate_r_u8_zs(g); Gate_r_zs_u16_result b = Gate_r_zs_u16(g);
    printf("n%u %d %d %d %d %d", n, (int)Gate_r_unit_zs(g).is_ok, (int)Gate_r_zs_unit(g).is_ok, (int)Gate_r_zs_zt(g).is_ok, (int)Gate_o_zs(g).is_ok, (int)Gate_r_unit_unit(g).is_ok);
    if (a.is_ok) printf(" ok%u", (unsigned)a.ok); else printf(" err");
    if (b.is_ok) printf(" ok"); else printf(" err%u", (unsigned)b.err);
    printf(" t%u\n", (unsigned)Gate_plain(g, 40));
    Gate_destroy(g);
  }
  return 0;
}
'''

CPP_DRIVER = r'''
#include <cstdio>
#include <cstdint>
#include <cstddef>
#include "Gate.hpp"
#include "Zs.hpp"
#include "Zt.hpp"
int main() {
  namespace capi = diplomat::capi;
#define REC(n) printf("rec " #n " %zu %zu %zu\n", sizeof(capi::Gate_##n##_result), (size_t)alignof(capi::Gate_##n##_result), offsetof(capi::Gate_##n##_result, is_ok));
  REC(r_unit_zs) REC(r_zs_unit) REC(r_zs_zt) REC(o_zs) REC(r_unit_unit) REC(r_u8_zs) REC(r_zs_u16)
  for (uint32_t n = 0; n < 4; n++) {
    auto g = Gate::new_(n);
    auto a = g->r_u8_zs(); auto b = g->r_zs_u16();
    printf("n%u %d %d %d %d %d", n, (int)g->r_unit_zs().is_ok(), (int)g->r_zs_unit().is_ok(), (int)g->r_zs_zt().is_ok(), (int)g->o_zs().has_value(), (int)g->r_unit_unit().is_ok());
    if (a.is_ok()) printf(" ok%u", (unsigned)std::move(a).ok().value()); else printf(" err");
    if (b.is_ok()) printf(" ok"); else printf(" err%u", (unsigned)std::move(b).err().value());
    printf(" t%u\n", (unsigned)g->plain(40));
  }
  return 0;
}
'''


# record name -> (Gallina rty of Abi/Model.v, size, align, offset of is_ok) as rustc lays out the DiplomatResult the macro returns
RECORDS = [("r_unit_zs", "RRes ArmUnit ArmZst", 1, 1, 0), ("r_zs_unit", "RRes ArmZst ArmUnit", 1, 1, 0), ("r_zs_zt", "RRes ArmZst ArmZst", 1, 1, 0),
           ("o_zs", "RRes ArmZst ArmUnit", 1, 1, 0), ("r_unit_unit", "RRes ArmUnit ArmUnit", 1, 1, 0),
           ("r_u8_zs", "RRes (ArmV (VPrim PU8)) ArmZst", 2, 1, 1), ("r_zs_u16", "RRes ArmZst (ArmV (VPrim PU16))", 4, 2, 2)]


def expected():
    out = [f"rec {n} {sz} {al} {off}" for n, _, sz, al, off in RECORDS]
    for n in range(4):
        odd = n % 2
        out.append(f"n{n} {odd} {odd} {odd} {odd} {odd} " + (f"ok{n}" if odd else "err") + " " + ("ok" if odd else f"err{n + 300}") + f" t{40 + n}")
    return out


def layout_goal(rty, size, align, off):
    """the model's record for this return type (Abi/Model.v ffi_ret_abi) has the observed size, alignment and flag offset"""
    return (f"(let a := ffi_ret_abi (fun _ => ARec []) ({rty}) in let '(s, al) := size_align a in N.eqb s {size} && N.eqb al {align} && "
            f"match a with ARec fs => N.eqb (last (offsets fs) 99%N) {off} | _ => false end)")


def run(ctx, langs=("c", "cpp"), stds=("c++17",), goals=None):
    """returns the number of comparisons made; with goals: appends one Coq layout goal per observed record"""
    d, lib, p = e2e.bridge_crate("c10x", BRIDGE)
    if lib is None:
        ctx.violation("e2e:unit-arms-macro-build", {"broken": "the unit-arms bridge does not compile with the real macro", "log": p.stderr[-2000:], "lib_rs": BRIDGE}, True)
        return 0
    n = 0
    for lang in langs:
        out = os.path.join(d, "out_" + lang)
        q = e2e.run_tool(lang, os.path.join(d, "src/lib.rs"), out)
        if q.returncode != 0:
            ctx.violation(f"e2e:unit-arms-tool-{lang}", {"broken": f"diplomat-tool {lang} failed on the unit-arms bridge", "log": q.stderr[-2000:], "lib_rs": BRIDGE}, True)
            continue
        src = os.path.join(d, "drv." + ("c" if lang == "c" else "cpp"))
        open(src, "w").write(C_DRIVER if lang == "c" else CPP_DRIVER)
        for std in (("c11",) if lang == "c" else stds):
            c, r = e2e.cc_run(src, [out], lib, os.path.join(d, "drv_" + lang), std=std, cxx=(lang == "cpp"), extra=["-fsanitize=address"])
            if r is None:
                ctx.violation(f"direct:unit-arms-{lang}-compile", {"std": std, "what": "a caller written against the documented result records does not compile",
                                                                 "log": c.stderr[-2500:], "lib_rs": BRIDGE}, True)
                break
            got = [l for l in r.stdout.split("\n") if l.strip()]
            want = expected()
            if goals is not None:
                rt = {n: t for n, t, *_ in RECORDS}
                for l in got:
                    f = l.split()
                    if f[0] == "rec" and len(f) == 5 and f[1] in rt:
                        goals.append(layout_goal(rt[f[1]], f[2], f[3], f[4]))
            for g, w in zip(got + ["<missing>"] * (len(want) - len(got)), want):
                n += 8
                if g != w:
                    ctx.violation(f"direct:unit-arms-{lang}", {"std": std, "what": f"{lang} observed `{g}`, Rust returned `{w}` (sizes/offsets: the record of a result whose arms "
                                                               "carry no bytes is the discriminant alone, as rustc lays out DiplomatResult<(), ()>)", "stderr": r.stderr[-800:], "lib_rs": BRIDGE}, True)
                    break
    return n


# ---- a std Option nested in the arm of a returned Result / Option
NESTED = r'''
#[diplomat::bridge]
mod ffi {
    #[diplomat::opaque]
    pub struct Op(pub u8);
    impl Op {
        pub fn %s() -> %s { %s }
    }
}
'''
NESTED_DRIVER = r'''
#include <stdio.h>
#include "Op.h"
int main(void) { Op_%s_result r = Op_%s(); printf("%%d %%d %%u\n", (int)r.is_ok, (int)r.%s.is_ok, (unsigned)r.%s.ok); return 0; }
'''


def run_nested_options(ctx):
    """`Result<Option<u8>, ()>`, `Option<Option<u8>>`, `Result<u8, Option<u8>>` returning 42 in the innermost arm: every level must cross as
    {payload, is_ok}; the tool may also refuse the shape.  Returns the number of probes."""
    n = 0
    for name, ret, body, arm in (("res_opt", "Result<Option<u8>, ()>", "Ok(Some(42))", "ok"), ("opt_opt", "Option<Option<u8>>", "Some(Some(42))", "ok"),
                                 ("res_err_opt", "Result<u8, Option<u8>>", "Err(Some(42))", "err")):
        src = NESTED % (name, ret, body)
        d, lib, p = e2e.bridge_crate("c10n_" + name, src)
        q = e2e.run_tool("c", os.path.join(d, "src/lib.rs"), os.path.join(d, "out_c"))
        n += 1
        if q.returncode != 0:
            continue                      # refused at lowering
        if lib is None:
            ctx.violation("direct:nested-option", {"what": f"`-> {ret}` is accepted by the tool but the macro expansion does not compile", "rustc": p.stderr[-500:], "lib_rs": src}, True)
            continue
        open(os.path.join(d, "drv.c"), "w").write(NESTED_DRIVER % (name, name, arm, arm))
        c, r = e2e.cc_run(os.path.join(d, "drv.c"), [os.path.join(d, "out_c")], lib, os.path.join(d, "drv"))
        want = "1 1 42" if arm == "ok" else "0 1 42"
        if r is None or r.stdout.strip() != want:
            ctx.violation("nested-std-option-in-return", {"what": f"`fn {name}() -> {ret} {{ {body} }}` read through the generated C declarations gives (is_ok, inner is_ok, inner value) = "
                          f"`{r.stdout.strip() if r else 'does not compile'}`, expected `{want}`: the inner std Option crosses with Rust's own layout, not as {{payload, is_ok}}",
                          "lib_rs": src, "log": (c.stderr[-400:] if r is None else "")}, True)
    return n
