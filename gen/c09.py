"""C09 — whatever the tool accepts builds (DESIGN §5 C09, partial)."""
import re, shutil, random
from concurrent.futures import ThreadPoolExecutor
from common import *
import abigen, e2e, tablegen

PROP = "C09"
HEADER = "From Coq Require Import List Arith Bool String.\nImport ListNotations.\nFrom DV Require Import Headers.Model Headers.Cpp Headers.Guard gen.Tables Escape.Model.\nLocal Open Scope string_scope."

SPECIAL = r'''
#[diplomat::bridge]
mod ffi {
    use diplomat_runtime::{DiplomatWrite, DiplomatStr16};
    // cyclic references between opaques, structs holding opaques, methods mentioning each other's types
    #[diplomat::opaque]
    pub struct Alpha(pub u8);
    #[diplomat::opaque]
    pub struct Beta(pub u8);
    // type names that differ only in case (header guards, file names and forward declarations must keep them apart)
    #[diplomat::opaque]
    pub struct Rgb(pub u8);
    #[diplomat::opaque]
    #[allow(clippy::upper_case_acronyms)]
    pub struct RGB(pub u8);
    pub struct BothCases<'a> { pub lower: &'a Rgb, pub upper: &'a RGB }
    impl Rgb {
        pub fn widen(&self) -> Box<RGB> { Box::new(RGB(self.0)) }
        pub fn both<'a>(&'a self, other: &'a RGB) -> BothCases<'a> { BothCases { lower: self, upper: other } }
    }
    impl RGB {
        pub fn narrow(&self) -> Box<Rgb> { Box::new(Rgb(self.0)) }
    }
    pub struct Pair { pub a: i32, pub inner: Leaf }
    pub struct Leaf { pub x: u8, pub y: f64 }
    #[diplomat::out]
    pub struct Out { pub alpha: Box<Alpha>, pub beta: Option<Box<Beta>>, pub pair: Pair }
    pub enum Color { Red, Green = 5 }
    impl Alpha {
        pub fn make_beta(&self) -> Box<Beta> { Box::new(Beta(self.0)) }
        pub fn with_beta(&self, b: &Beta, c: Color, p: Pair) -> Out { Out { alpha: Box::new(Alpha(b.0)), beta: None, pair: p } }
        // keyword-named parameters
        pub fn keywords(&self, int: i32, class: u8, new: u16, default: bool, namespace: i8, function: u64, typedef: i16, char: u8, long: i8) -> i32 { int }
        // keyword-named parameters of every kind of type (each kind goes through its own conversion code)
        pub fn keywords2(&self, class: &str, new: &[u8], default: Option<u8>, namespace: &Beta, typedef: Pair, union: Color, template: Option<&Alpha>,
                         register: &DiplomatStr16, switch: Option<Leaf>, delete: &mut [u16], operator: Box<str>) -> i32 { 0 }
        pub fn keywords3(auto: &str, export: &str, private: Option<&str>, volatile: Option<&[u8]>, explicit: Box<[i32]>) -> u8 { 0 }
        pub fn leaf(l: Leaf) -> Pair { Pair { a: 1, inner: l } }
        // the usual way to dodge a Rust keyword: keyword + underscore, underscore + keyword (case conversion may strip the underscore)
        pub fn keywords4(&self, in_: u8, for_: i8, static_: u16, enum_: u32, _new: u8, class_: &str, _default: Option<u8>, typeof_: &Beta, _delete: Leaf) -> u8 { in_ }
    }
    // keyword-named parameters the result borrows from: managed backends mention them again in their lifetime-edge lists
    #[diplomat::opaque]
    pub struct View<'a>(pub &'a Alpha);
    pub struct Borrowing<'a> { pub alpha: &'a Alpha }
    impl<'a> View<'a> {
        pub fn keywords5(default: &'a Alpha, new: &'a [u8], class: &'a str, typeof_: Borrowing<'a>, delete: Option<&'a Alpha>, var: &'a Beta,
                         function: &'a DiplomatStr16, int: u8) -> Box<View<'a>> { Box::new(View(default)) }
        pub fn keywords6(&'a self, default: &'a Alpha, in_: &'a Beta, switch: Borrowing<'a>) -> Borrowing<'a> { Borrowing { alpha: default } }
        pub fn keywords7(&'a self, export: &'a Alpha, let_: &'a Alpha) -> Option<&'a Alpha> { Some(export) }
    }
    // cfg-gated methods (with and without a writer, on and off): the wrapper the macro emits must be gated exactly like the method
    impl Beta {
        #[cfg(feature = "absent_feature")]
        pub fn gated_write(&self, w: &mut DiplomatWrite) { let _ = core::fmt::Write::write_str(w, "x"); }
        #[cfg(feature = "absent_feature")]
        pub fn gated_plain(&self, x: u8) -> u8 { x }
        #[cfg(feature = "absent_feature")]
        pub fn gated_result(&self, w: &mut DiplomatWrite) -> Result<(), Color> { Ok(()) }
        #[cfg(not(feature = "absent_feature"))]
        pub fn ungated_write(&self, w: &mut DiplomatWrite) { let _ = core::fmt::Write::write_str(w, "y"); }
    }
    impl Beta {
        pub fn make_alpha(&self) -> Box<Alpha> { Box::new(Alpha(self.0)) }
        pub fn describe(&self, a: Option<&Alpha>, w: &mut DiplomatWrite) -> Result<(), Color> { Ok(()) }
        pub fn new() -> Box<Beta> { Box::new(Beta(0)) }
        pub fn color(&self, c: Option<Color>, s: &DiplomatStr16) -> Result<Color, Leaf> { Ok(Color::Red) }
    }
    impl Pair { pub fn sum(self) -> f64 { self.inner.y } pub fn other(self, a: &Alpha) -> Leaf { self.inner } }
    impl Color { pub fn next(self) -> Color { self } }
    // namespaces and renames (rendered by the backends that support them)
    #[diplomat::opaque]
    #[diplomat::attr(supports = namespacing, namespace = "outer::inner")]
    pub struct Spaced(pub u8);
    #[diplomat::attr(supports = namespacing, namespace = "outer")]
    pub struct SpacedStruct { pub v: u8, pub c: Color }
    #[diplomat::opaque]
    #[diplomat::attr(supports = namespacing, namespace = "outer::inner")]
    pub struct SpacedPeer(pub u8);
    #[diplomat::attr(supports = namespacing, namespace = "outer::inner")]
    pub struct PeerStruct { pub q: u8, pub s: SpacedStruct }
    #[diplomat::opaque]
    #[diplomat::attr(supports = namespacing, namespace = "outer::inner::deep")]
    pub struct Deep(pub u8);
    impl SpacedPeer {
        pub fn peer(&self, sp: &Spaced, d: &Deep, ps: PeerStruct) -> PeerStruct { ps }
    }
    impl Deep {
        pub fn up(&self, sp: &Spaced, peer: &SpacedPeer, s: SpacedStruct, ps: PeerStruct) -> Box<SpacedPeer> { Box::new(SpacedPeer(0)) }
    }
    // two types with the same name in different namespaces, both used by a third (include guards, forward declarations)
    #[diplomat::opaque]
    #[diplomat::attr(supports = namespacing, namespace = "geo::metric")]
    #[diplomat::attr(supports = namespacing, rename = "Unit")]
    pub struct MetricUnit(pub u8);
    #[diplomat::opaque]
    #[diplomat::attr(supports = namespacing, namespace = "geo::imperial")]
    #[diplomat::attr(supports = namespacing, rename = "Unit")]
    pub struct ImperialUnit(pub u8);
    #[diplomat::attr(supports = namespacing, namespace = "geo::metric")]
    #[diplomat::attr(supports = namespacing, rename = "Span")]
    pub struct MetricSpan { pub lo: u8, pub hi: u8 }
    #[diplomat::attr(supports = namespacing, namespace = "geo::imperial")]
    #[diplomat::attr(supports = namespacing, rename = "Span")]
    pub struct ImperialSpan { pub lo: u16, pub inner: MetricSpan }
    #[diplomat::opaque]
    pub struct Converter(pub u8);
    impl Converter {
        pub fn conv(&self, m: &MetricUnit, i: &ImperialUnit, a: MetricSpan, b: ImperialSpan) -> ImperialSpan { b }
        pub fn metric(&self) -> Box<MetricUnit> { Box::new(MetricUnit(1)) }
        pub fn imperial(&self) -> Box<ImperialUnit> { Box::new(ImperialUnit(2)) }
    }
    impl MetricUnit { pub fn other(&self, i: &ImperialUnit) -> MetricSpan { MetricSpan { lo: 0, hi: i.0 } } }
    #[diplomat::opaque]
    #[diplomat::attr(*, rename = "Renamed{0}")]
    pub struct Plain(pub u8);
    impl Spaced {
        pub fn get(&self, s: SpacedStruct, p: &Plain) -> SpacedStruct { s }
        pub fn same_ns(&self, peer: &SpacedPeer, ps: PeerStruct, d: &Deep) -> Box<SpacedPeer> { Box::new(SpacedPeer(1)) }
        pub fn plain(&self) -> Box<Plain> { Box::new(Plain(1)) }
    }
    impl Plain {
        #[diplomat::attr(*, rename = "renamed_method")]
        pub fn m(&self, sp: &Spaced) -> u8 { 0 }
    }
}
'''

COLLIDE = r'''
#[diplomat::bridge]
mod ffi {
    #[diplomat::opaque]
    pub struct K(pub u8);
    impl K { pub fn f(&self, int: i32, int_: i32) -> i32 { int + int_ } }
}
'''


THIS = r'''
#[diplomat::bridge]
mod ffi {
    #[diplomat::opaque]
    pub struct K(pub u8);
    impl K { pub fn f(&self, this: i32) -> i32 { this } }
}
'''


def includes_of(path):
    return re.findall(r'^\s*#include "([^"]+)"', open(path).read(), re.M)


RUST_KEYWORDS = set("""as break const continue crate else enum extern false fn for if impl in let loop match mod move mut pub ref return self Self
static struct super trait true type unsafe use where while async await dyn abstract become box do final macro override priv typeof unsized virtual
yield try gen union""".split()) - {"union"}


def keyword_tables_from_coq():
    """the tables as Tie A wrote them into gen/Tables.v (so the bridge below is derived from what the code says now)"""
    txt = open(os.path.join(COQ, "theories", "gen", "Tables.v")).read()
    out = {}
    for name in ("c_keywords", "cpp_extra_keywords", "js_reserved", "py_keywords"):
        m = re.search(r"Definition " + name + r" : list string := \[(.*?)\]\.", txt, re.S)
        out[name] = re.findall(r'"([^"]*)"', m.group(1))
    return out


def keyword_bridge(ctx, d, goals, violate):
    """every word of the C / C++ / JS / Python keyword tables that can be written as a Rust parameter name, the same word with a trailing
    underscore, and a few ordinary names, as parameters of generated methods: the names the C, C++ and JS backends emit are compared with
    Escape/Model.v (Coq goals), and the generated files must compile / parse (a keyword missing from a table shows up here)."""
    T = keyword_tables_from_coq()
    words = sorted({w for ws in T.values() for w in ws})
    usable = [w for w in words if re.fullmatch(r"[A-Za-z_][A-Za-z0-9_]*", w) and w not in RUST_KEYWORDS and w != "_"]
    names = []
    for w in usable:
        names.append(w)
    names += [w + "_" for w in usable[::5]] + ["plain", "value", "x", "integer", "classy", "news", "in_", "for_", "static_"]
    seen, uniq = set(), []
    for n in names:
        if n not in seen:
            seen.add(n); uniq.append(n)
    per = 6
    methods = [uniq[i:i + per] for i in range(0, len(uniq), per)]
    src = ["#[diplomat::bridge]", "mod ffi {", "    #[diplomat::opaque]", "    pub struct Kw(pub u8);", "    impl Kw {"]
    for i, ps in enumerate(methods):
        src.append(f"        pub fn m{i}(&self, " + ", ".join(f"{n}: i32" for n in ps) + ") -> i32 { 0 }")
    src += ["    }"]
    # struct fields named after the same words: the C struct (alone, and embedded in the C++ header) has to escape them like parameters
    src += ["    pub struct KwFields {"] + [f"        pub {n}: u8," for n in usable] + ["    }", "    impl KwFields { pub fn same(self) -> KwFields { self } }"]
    # methods *renamed* to keywords (a rename target is a string, so every word of the tables can be tried): the backend must escape the
    # name it ends up with, i.e. after the rename has been applied
    cppw = sorted(set(T["c_keywords"]) | set(T["cpp_extra_keywords"]))
    jsw = [w for w in T["js_reserved"] if re.fullmatch(r"[a-z]+", w)]
    renamed = []
    src += ["    #[diplomat::opaque]", "    pub struct Rn(pub u8);", "    impl Rn {"]
    for i, w in enumerate(cppw):
        j = jsw[i % len(jsw)]
        renamed.append((w, j))
        src += [f'        #[diplomat::attr(cpp, rename = "{w}")]', f'        #[diplomat::attr(js, rename = "{j}")]', f"        pub fn r{i}(&self) -> i32 {{ {i} }}"]
    src += ["    }", "}"]
    path = os.path.join(d, "keywords_all.rs")
    open(path, "w").write("\n".join(src) + "\n")
    stats = {"names": len(uniq), "methods": len(methods), "compared": 0}
    def params_of(text, pat):
        m = re.search(pat, text, re.S)
        return None if not m else [x.strip().split()[-1].lstrip("*&") for x in m.group(1).split(",") if x.strip()]
    for backend, table, file, std in (("c", "c_keywords", "Kw.h", "c11"), ("cpp", "cpp_keywords", "Kw.d.hpp", "c++20"), ("js", "js_reserved", "Kw.mjs", None)):
        out = os.path.join(d, "out_kw_" + backend)
        q = e2e.run_tool(backend, path, out)
        if q.returncode != 0:
            violate(f"direct:keywords:{backend}", {"what": f"diplomat-tool {backend} fails on a bridge whose parameters are named after keywords", "stderr": q.stderr[-800:],
                                                   "lib_rs": open(path).read()[:3000]})
            continue
        text = open(os.path.join(out, file)).read()
        for i, ps in enumerate(methods):
            if backend == "c":
                got = params_of(text, rf"Kw_m{i}\(([^)]*)\)")
                got = got[1:] if got else got                   # the receiver
            elif backend == "cpp":
                got = params_of(text, rf"\bm{i}\(([^)]*)\)")
            else:
                got = params_of(text, rf"\n\s*m{i}\(([^)]*)\)\s*\{{")
            if got is None or len(got) != len(ps):
                violate(f"direct:keywords:{backend}", {"what": f"method m{i} of the keyword bridge not found (or with a different arity) in {file}", "params": ps, "found": got})
                continue
            for n, g in zip(ps, got):
                if backend == "js" and not re.fullmatch(r"[a-z]+", n):
                    continue                                    # heck's case conversion is not modelled: only its fixed points are compared
                goals.append(f'agree_ident {table} "{n}" "{g}"')
                stats["compared"] += 1
        if backend in ("cpp", "js"):
            rfile = "Rn.d.hpp" if backend == "cpp" else "Rn.mjs"
            rtext = open(os.path.join(out, rfile)).read()
            got = re.findall(r"inline int32_t (\w+)\(\) const;", rtext) if backend == "cpp" else re.findall(r"\n\s+(\w+)\(\)\s*\{", rtext)
            if len(got) != len(renamed):
                violate(f"direct:keywords:{backend}", {"what": f"{rfile}: {len(got)} methods found for {len(renamed)} methods renamed to keywords", "found": got[:20]})
            else:
                for (w, j), g in zip(renamed, got):
                    goals.append(f'agree_ident {table} "{w if backend == "cpp" else j}" "{g}"')
                    stats["compared"] += 1
            r2 = sh(["node", "--check", os.path.join(out, rfile)], timeout=120) if backend == "js" else e2e.syntax_only(os.path.join(out, "Rn.hpp"), [out], std, cxx=True)
            if r2.returncode != 0:
                violate(f"direct:keywords:{backend}", {"what": f"{rfile} of a bridge whose methods are renamed to keywords does not compile / parse",
                                                       "compiler": (r2.stderr or r2.stdout)[-1200:]})
        if backend in ("c", "cpp"):
            r3 = e2e.syntax_only(os.path.join(out, "KwFields.hpp" if backend == "cpp" else "KwFields.h"), [out], std, cxx=(backend == "cpp"))
            if r3.returncode != 0:
                violate(f"direct:keywords:{backend}", {"what": f"the header of a struct whose fields are named after the words of the keyword tables does not compile as {std}",
                                                       "compiler": (r3.stderr or r3.stdout)[-900:], "fields": usable[:12]})
        if backend == "js":
            r = sh(["node", "--check", os.path.join(out, file)], timeout=120)
        else:
            r = e2e.syntax_only(os.path.join(out, "Kw.hpp" if backend == "cpp" else file), [out], std, cxx=(backend == "cpp"))
        if r.returncode != 0:
            violate(f"direct:keywords:{backend}", {"what": f"{file} of a bridge whose parameters are named after the words of the keyword tables does not compile / parse",
                                                   "compiler": (r.stderr or r.stdout)[-1200:], "lib_rs": open(path).read()[:3000]})
    return stats


LOCALS = """#[diplomat::bridge]
mod ffi {
    use diplomat_runtime::DiplomatWrite;
    #[diplomat::opaque]
    pub struct Acc(pub i32);
    impl Acc {
        pub fn add(&self, result: i32) -> i32 { self.0 + result }
        pub fn describe(&self, output: u8, out: &mut DiplomatWrite) { let _ = (output, out); }
        pub fn describe_if(&self, write: bool, out: &mut DiplomatWrite) { let _ = (write, out); }
    }
}
"""
TRAIT_ATTRS = """#[diplomat::bridge]
mod ffi {
    #[diplomat::attr(not(supports = "traits"), disable)]
    pub trait Visitor {
        #[diplomat::attr(kotlin, rename = "visitNode")]
        fn visit(&self, x: i32) -> i32;
    }
    #[diplomat::attr(not(supports = "traits"), disable)]
    #[diplomat::opaque]
    pub struct Walker(pub i32);
    impl Walker {
        pub fn walk(&self, v: impl Visitor) -> i32 { v.visit(self.0) }
    }
}
"""
GUARD = """#[diplomat::bridge]
mod ffi {
    #[diplomat::attr(auto, namespace = "geo")]
    pub struct Point { pub x: i32 }
    #[allow(non_camel_case_types)]
    pub struct geo_Point { pub y: f64 }
    pub struct Both { pub a: Point, pub b: geo_Point }
    impl Both { pub fn sum(self) -> f64 { self.a.x as f64 + self.b.y } }
}
"""


def check(ctx, replay=None):
    build_harness()
    phase = standard_proof_phase(ctx, PROP, ["theories/Properties/C09.v"])
    e2e.build_tool()
    rng = ctx.rng
    d = os.path.join(BUILD, "e2e", "c09")
    os.makedirs(d, exist_ok=True)
    corpus = []        # (name, entry path, builds-with-macro check)
    mod = abigen.Module(rng)
    methods = abigen.gen_methods(mod, 30 if ctx.quick() else 60, rng) + abigen.paired_spelling_methods(mod, rng)
    gsrc = abigen.rust_source(mod, methods)
    corpus.append(("generated", gsrc, None))
    corpus.append(("special", SPECIAL, None))
    corpus.append(("feature_tests", None, os.path.join(REPO, "feature_tests/src/lib.rs")))
    corpus.append(("example", None, os.path.join(REPO, "example/src/lib.rs")))
    if not ctx.quick():
        for i in range(6):
            m2 = abigen.Module(rng)
            corpus.append((f"generated{i}", abigen.rust_source(m2, abigen.gen_methods(m2, 40, rng)), None))
    viol, nfiles, compiles, goals, samples, skipped = 0, 0, 0, [], [], []
    def violate(key, obj, found=True):
        nonlocal viol
        if len(ctx.violations) < 4:
            viol += 1
            ctx.violation(key, obj, found)
    # 1. the macro expansion type-checks under rustc
    for name, src, entry in corpus:
        if src is not None:
            dd, lib, p = e2e.bridge_crate("c09_" + name[:9].replace("generated", "g"), src, crate_types=("rlib",))
            compiles += 1
            if p.returncode != 0:
                violate(f"direct:rustc:{name}", {"what": "the proc-macro expansion of a bridge the tool accepts does not type-check", "rustc": p.stderr[-2000:], "lib_rs": src[:4000]})
    p = sh(["cargo", "check", "--offline", "-q", "--manifest-path", os.path.join(REPO, "Cargo.toml"), "-p", "diplomat-feature-tests", "-p", "diplomat-example",
            "--target-dir", e2e.TOOL_TARGET], timeout=1200, env=dict(ENV, RUSTFLAGS="-Awarnings"))
    compiles += 2
    if p.returncode != 0:
        violate("direct:rustc:repo-bridges", {"what": "feature_tests / example no longer compile with the macro", "rustc": p.stderr[-2000:]})
    # 2. every generated header alone, all headers in random order, every JS module
    jobs = []
    for name, src, entry in corpus:
        if src is not None:
            entry = os.path.join(d, f"{name}.rs")
            open(entry, "w").write(src)
        for backend in ("c", "cpp", "js"):
            out = os.path.join(d, f"out_{name}_{backend}")
            cf = os.path.join(os.path.dirname(os.path.dirname(entry)), "config.toml") if src is None else None
            q = e2e.run_tool(backend, entry, out, config_file=cf)
            if q.returncode != 0:
                # a bridge the tool does not accept (diagnostics) or crashes on (C15's business) is outside this property
                skipped.append(f"{backend}:{name}:{e2e.classify_tool(q)}")
                if src is None:
                    violate(f"direct:tool:{backend}:{name}", {"what": f"diplomat-tool {backend} no longer accepts the repository's own {name} bridge: {q.stderr[-800:]}"})
                continue
            files = []
            for root, _, fs in os.walk(out):
                for f in fs:
                    files.append(os.path.join(root, f))
            nfiles += len(files)
            if backend in ("c", "cpp"):
                ext = ".h" if backend == "c" else ".hpp"
                hdrs = sorted(f for f in files if f.endswith(ext))
                for h in hdrs:
                    for inc in includes_of(h):
                        cand = [os.path.join(os.path.dirname(h), inc), os.path.join(out, inc)]
                        if not any(os.path.exists(c) for c in cand):
                            violate(f"direct:include:{backend}", {"what": f"{os.path.relpath(h, out)} includes \"{inc}\" which was not generated", "corpus": name})
                stds = (["c11"] if backend == "c" else (["c++17", "c++20"]))
                for std in stds:
                    for h in hdrs:
                        jobs.append((name, backend, std, h, out))
                    # all headers in a seeded random order
                    for k in range(1 if ctx.quick() else 4):
                        order = hdrs[:]
                        random.Random(ctx.seed + k).shuffle(order)
                        allp = os.path.join(out, f"__all_{std.replace('+', 'p')}_{k}{'.c' if backend == 'c' else '.cpp'}")
                        open(allp, "w").write("".join(f'#include "{os.path.relpath(h, out)}"\n' for h in order))
                        jobs.append((name, backend, std, allp, out))
            else:
                for f in sorted(f for f in files if f.endswith(".mjs")):
                    jobs.append((name, "js", "node", f, out))
                    for imp in re.findall(r'from\s+"(\./[^"]+)"', open(f).read()):
                        if not os.path.exists(os.path.join(os.path.dirname(f), imp)) and "diplomat.config" not in imp:
                            violate("direct:import:js", {"what": f"{os.path.relpath(f, out)} imports {imp} which was not generated", "corpus": name})

    def run_job(j):
        name, backend, std, path, out = j
        if backend == "js":
            r = sh(["node", "--check", path], timeout=120)
        else:
            r = e2e.syntax_only(path, [out], std, cxx=(backend == "cpp"))
        return j, r
    with ThreadPoolExecutor(max_workers=NCPU) as ex:
        results = list(ex.map(run_job, jobs))
    for (name, backend, std, path, out), r in results:
        compiles += 1
        if r.returncode != 0:
            violate(f"direct:{backend}:{std}", {"corpus": name, "file": os.path.relpath(path, out), "what":
                    f"{os.path.relpath(path, out)} of the {name} bridge does not compile on its own as {std}" if "__all_" not in path else
                    f"the {name} headers do not compile when included in the order {includes_of(path)[:8]}...", "compiler": (r.stderr or r.stdout)[-1500:]})
    # 3. the C headers' include structure vs the model (generated bridge)
    outc = os.path.join(d, "out_generated_c")
    if os.path.isdir(outc):
        types = sorted(f[:-4] for f in os.listdir(outc) if f.endswith(".d.h"))
        idx = {t: i for i, t in enumerate(types)}
        env, env_cpp, obs = [], [], []
        for t in types:
            di = [x[:-4] for x in includes_of(os.path.join(outc, t + ".d.h")) if x.endswith(".d.h")]
            hi = [x[:-4] for x in includes_of(os.path.join(outc, t + ".h")) if x.endswith(".d.h")]
            # expected from the bridge description: fields of structs; types mentioned by Op's methods
            if t in mod.structs:
                fl = sorted({ft[1] for _, ft in mod.structs[t] if ft[0] in ("enum", "struct")} | {ft[2][1] for _, ft in mod.structs[t] if ft[0] == "opt" and ft[2][0] in ("enum", "struct")})
            else:
                fl = []
            sig = []
            if t == "Op":
                def names(ty):
                    if ty[0] in ("enum", "struct"): return [ty[1]]
                    if ty[0] == "zst": return []        # zero-sized: never mentioned by the C header
                    if ty[0] == "opt": return names(ty[2])
                    if ty[0] == "res": return names(ty[1]) + names(ty[2])
                    return []
                sig = sorted({n for m in methods for _, pt in m["params"] for n in names(pt)} | {n for m in methods for n in names(m["ret"])})
            env.append(f"mkT {clist([str(idx[x]) for x in fl])} {clist([str(idx[x]) for x in sig if x != t])}")
            sig_cpp = sig
            if t == "Op":      # the C++ API does mention zero-sized structs (the C header has nothing to declare for them)
                def names2(ty):
                    if ty[0] in ("enum", "struct"): return [ty[1]]
                    if ty[0] == "zst": return ["Zs"]
                    if ty[0] == "opt": return names2(ty[2])
                    if ty[0] == "res": return names2(ty[1]) + names2(ty[2])
                    return []
                sig_cpp = sorted({n for m in methods for _, pt in m["params"] for n in names2(pt)} | {n for m in methods for n in names2(m["ret"])})
            env_cpp.append(f"mkT {clist([str(idx[x]) for x in fl])} {clist([str(idx[x]) for x in sig_cpp if x != t and x in idx])}")
            obs.append((clist([str(idx[x]) for x in di if x in idx]), clist([str(idx[x]) for x in hi if x in idx])))
        cenv = clist(env)
        for i, t in enumerate(types):
            goals.append(f"agree_includes {cenv}%nat {i} {obs[i][0]}%nat {obs[i][1]}%nat")
            goals.append(f"agree_order {cenv}%nat {len(types) + 2} {i}")
        samples.append({"types": types, "includes_of_Op_h": includes_of(os.path.join(outc, "Op.h"))[:10]})
        # 3b. the C++ headers of the same bridge: decl-header includes and forward declarations, impl-header includes, and the
        # complete-before-use check of the include-once expansion (Headers/Cpp.v)
        outcpp = os.path.join(d, "out_generated_cpp")
        if os.path.isdir(outcpp) and all(os.path.exists(os.path.join(outcpp, t + ".d.hpp")) for t in types):
            for i, t in enumerate(types):
                dtxt = open(os.path.join(outcpp, t + ".d.hpp")).read()
                inc_d = [x[:-6] for x in includes_of(os.path.join(outcpp, t + ".d.hpp")) if x.endswith(".d.hpp")]
                fwd_d = [n for n in re.findall(r"^\s*(?:class|struct) (\w+);", dtxt, re.M) if n != t]
                inc_h = [x[:-4] for x in includes_of(os.path.join(outcpp, t + ".hpp")) if x.endswith(".hpp") and not x.endswith(".d.hpp") and "diplomat_runtime" not in x]
                first_h = (includes_of(os.path.join(outcpp, t + ".hpp")) or [""])[0]
                if first_h != t + ".d.hpp":
                    violate("direct:cpp-include-order", {"what": f"{t}.hpp includes {first_h!r} first; its own declaration header {t}.d.hpp has to come before every other include "
                                                         "(that is what makes cyclic references between impl headers work)"})
                unknown = [x for x in inc_d + fwd_d + inc_h if x not in idx]
                if unknown:
                    violate("direct:cpp-include-unknown", {"what": f"{t}.d.hpp / {t}.hpp mention {unknown}, which are not types of the bridge"})
                    continue
                il = lambda xs: clist([str(idx[x]) for x in xs])
                goals.append(f"agree_cpp_files {clist(env_cpp)}%nat {i} {il(inc_d)}%nat {il(fwd_d)}%nat {il(inc_h)}%nat")
                goals.append(f"agree_cpp_order {clist(env_cpp)}%nat {len(types) + 2} {len(types) + 2} {i}")
    # 4. keyword escaping collision (recorded finding when present)
    ce = os.path.join(d, "collide.rs")
    open(ce, "w").write(COLLIDE)
    q = e2e.run_tool("c", ce, os.path.join(d, "out_collide_c"))
    if q.returncode == 0:
        r = e2e.syntax_only(os.path.join(d, "out_collide_c", "K.h"), [os.path.join(d, "out_collide_c")], "c11", cxx=False)
        compiles += 1
        if r.returncode != 0:
            ctx.violation("keyword-escape-collision", {"lib_rs": COLLIDE, "what": "parameters `int` and `int_` of one method are both emitted as `int_`: K.h does not compile",
                                                       "compiler": r.stderr[-600:]}, True)
    # 4b. include-guard collision between a namespace directory and an underscore in a type name (recorded finding when present)
    gpath = os.path.join(d, "guard.rs")
    open(gpath, "w").write(GUARD)
    q = e2e.run_tool("cpp", gpath, os.path.join(d, "out_guard_cpp"))
    if q.returncode == 0:
        for std in ("c++17", "c++20"):
            r = e2e.syntax_only(os.path.join(d, "out_guard_cpp", "Both.hpp"), [os.path.join(d, "out_guard_cpp")], std, cxx=True)
            compiles += 1
            if r.returncode != 0:
                ctx.violation("cpp-include-guard-collision", {"lib_rs": GUARD, "what": "geo/Point.d.hpp and geo_Point.d.hpp share the include guard geo_Point_D_HPP: Both.hpp, which holds "
                                                              "both types by value, does not compile", "compiler": r.stderr[-600:]}, True)
                break
    # 4d. parameters named like the locals the generators introduce themselves (recorded finding when present)
    lpath = os.path.join(d, "locals.rs")
    open(lpath, "w").write(LOCALS)
    bad_locals = []
    for backend, file, std in (("c", "Acc.h", "c11"), ("cpp", "Acc.hpp", "c++17"), ("js", "Acc.mjs", None)):
        o = os.path.join(d, "out_locals_" + backend)
        q = e2e.run_tool(backend, lpath, o)
        if q.returncode != 0:
            continue
        r = sh(["node", "--check", os.path.join(o, file)], timeout=120) if backend == "js" else e2e.syntax_only(os.path.join(o, file), [o], std, cxx=(backend == "cpp"))
        compiles += 1
        if r.returncode != 0:
            bad_locals.append((backend, file, (r.stderr or r.stdout)[-300:]))
    if bad_locals:
        ctx.violation("generated-local-name-collision", {"lib_rs": LOCALS, "what": "parameters named `result`, `output`, `write` collide with names the generated code uses itself: " +
                                                         ", ".join(f"{f} ({b})" for b, f, _ in bad_locals) + " do not compile / parse", "compiler": bad_locals[0][2]}, True)
    # 4e. diplomat attributes on a trait and its methods: the tool reads them, the macro has to strip them (recorded finding when present)
    dd, lib, p = e2e.bridge_crate("c09_trait", TRAIT_ATTRS, crate_types=("rlib",))
    q = e2e.run_tool("c", os.path.join(dd, "src/lib.rs"), os.path.join(d, "out_trait_c"))
    compiles += 1
    if q.returncode == 0 and p.returncode != 0:
        ctx.violation("macro-trait-attrs", {"lib_rs": TRAIT_ATTRS, "what": "a bridge with #[diplomat::attr(..)] on a trait is accepted by diplomat-tool but its macro expansion does not compile "
                                            "(the attribute is left on the trait)", "rustc": p.stderr[-500:]}, True)
    dd, lib, p = e2e.bridge_crate("c09_this", THIS, crate_types=("rlib",))
    q = e2e.run_tool("c", os.path.join(dd, "src/lib.rs"), os.path.join(d, "out_this_c"))
    compiles += 1
    if q.returncode == 0 and p.returncode != 0:
        ctx.violation("macro-param-named-this", {"lib_rs": THIS, "what": "a parameter named `this` is accepted by the tool but the macro expansion binds `this` twice "
                                                 "(its own name for the receiver): rustc E0415", "rustc": p.stderr[-500:]}, True)
    # 4c. the include guards of every C++ header of the namespaced corpora vs Headers/Guard.v
    nguards = 0
    for name in os.listdir(d):
        if not (name.startswith("out_") and name.endswith("_cpp") and os.path.isdir(os.path.join(d, name))) or "kw" in name or "guard" in name:
            continue
        root = os.path.join(d, name)
        for dp, _, fs in os.walk(root):
            for f in sorted(fs):
                if not f.endswith(".hpp") or f == "diplomat_runtime.hpp":
                    continue
                rel = os.path.relpath(os.path.join(dp, f), root)
                m = re.search(r"^#ifndef (\w+)", open(os.path.join(dp, f)).read(), re.M)
                if not m:
                    violate("direct:cpp-guard", {"what": f"{rel} of the {name} corpus has no include guard"}); continue
                decl = rel.endswith(".d.hpp")
                comps = rel[:-6 if decl else -4].split(os.sep)
                g = m.group(1)
                suffix = "_D_HPP" if g.endswith("_D_HPP") else "_HPP"
                cl = lambda st: clist([str(ord(ch)) for ch in st])
                goals.append(f"agree_guard {cl(comps[0])} {clist([cl(c) for c in comps[1:]])} {cbool(decl)} {cl(g[:-len(suffix)])} {cbool(suffix == '_D_HPP')}")
                nguards += 1
    kwstats = keyword_bridge(ctx, d, goals, violate)
    kwstats["include_guards_compared"] = nguards
    fails = run_shards(PROP, HEADER, goals) if goals else []
    if fails and not ctx.violations and goals[fails[0]].startswith("agree_ident"):
        ctx.violation("corr:escape", {"broken": "correspondence goal " + goals[fails[0]][:400] + " : the parameter name a backend emitted is not the one Escape/Model.v "
                                      "derives from the regenerated keyword table (theorem C09_escaped_is_not_a_keyword)"}, False)
    elif fails and not ctx.violations and goals[fails[0]].startswith("agree_guard"):
        ctx.violation("corr:cpp-guard", {"broken": "correspondence goal " + goals[fails[0]][:400] + " : the include guard of a generated C++ header is not the path joined with '_' "
                                         "(Headers/Guard.v, theorem C09_cpp_guard_injective_on_clean_names)"}, False)
    elif fails and not ctx.violations and goals[fails[0]].startswith("agree_cpp"):
        ctx.violation("corr:cpp-includes", {"broken": "correspondence goal " + goals[fails[0]][:400] + " : the includes / forward declarations of the generated C++ headers are not "
                                            "the ones Headers/Cpp.v derives (theorem C09_cpp_complete_before_body)"}, False)
    elif fails and not ctx.violations:
        ctx.violation("corr:includes", {"broken": "correspondence goal " + goals[fails[0]][:400] + " : the include structure of the generated C headers is not the one Headers/Model.v derives"}, False)
    for f in os.listdir(d):
        if f.startswith("out_"):
            shutil.rmtree(os.path.join(d, f), ignore_errors=True)
    return batch_evidence(
        ctx, PROP, phase, goals, fails, compiles, max(nfiles, 2),
        "corpora: a generated bridge over the documented grammar, a hand-written bridge with cyclic type references / namespaces / renames / "
        "keyword-named parameters, the repository's feature_tests and example bridges (thorough: 6 more generated bridges). Checked with the real "
        "toolchains: rustc on the macro expansion, gcc -std=c11 -fsyntax-only on every C header alone and on all headers in seeded random orders, "
        "g++ -std=c++17 and -std=c++20 likewise for every .hpp, node --check on every .mjs, existence of every #include / import target. Coq goals: "
        "the include sets of the generated C headers and the include-once declared-before-use check per header, evaluated on the model. "
        "evaluations = compiler invocations; distinct_nontrivial = generated files examined",
        "Modelled, not verified: include structure of the C headers (Headers/Model.v). The grammars of C/C++/JS/Rust are NOT modelled: whether a file "
        "compiles is decided by gcc/g++/node/rustc (partial); the general declared-before-use theorem for all reference graphs is not proved yet, "
        "the check is evaluated per generated graph",
        samples or [{"note": "no generated output"}], ["partial: see DESIGN §5a"], {"files_examined": nfiles, "compiler_invocations": compiles, "skipped_not_accepted": skipped, "keyword_bridge": kwstats})
