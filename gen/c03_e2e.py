"""C03 end-to-end part: opaque / owned-argument / callback lifecycles through the generated C header, under AddressSanitizer."""
import re
from common import *
import e2e

BRIDGE = r'''
#[diplomat::bridge]
mod ffi {
    #[diplomat::opaque]
    pub struct Tok(pub u32);
    #[diplomat::opaque]
    pub struct Holder { pub id: u32, pub cb: Option<Box<dyn FnMut(i32) -> i32>> }
    impl Tok {
        pub fn new(id: u32) -> Box<Tok> { Box::new(Tok(id)) }
        pub fn id(&self) -> u32 { self.0 }
        pub fn maybe(id: u32, some: bool) -> Option<Box<Tok>> { if some { Some(Box::new(Tok(id))) } else { None } }
        pub fn either(id: u32, ok: bool) -> Result<Box<Tok>, Box<Tok>> { if ok { Ok(Box::new(Tok(id))) } else { Err(Box::new(Tok(id))) } }
        pub fn sum_owned(v: Box<[u8]>) -> u32 { v.iter().map(|x| *x as u32).sum() }
        pub fn len_owned_str(v: Box<str>) -> usize { v.len() }
        pub fn sum_opt_owned(v: Option<Box<[u16]>>) -> u32 { v.map(|v| v.iter().map(|x| *x as u32).sum()).unwrap_or(7) }
        pub fn peek(&self, other: Option<&Tok>) -> u32 { self.0 + other.map(|t| t.0).unwrap_or(0) }
        pub fn spell(&self, n: u8, w: &mut diplomat_runtime::DiplomatWrite) { use core::fmt::Write; for i in 0..n { let _ = w.write_char((b'a' + (self.0 as u8 + i) % 26) as char); } }
        pub fn spell_str(&self, n: u8, w: &mut diplomat_runtime::DiplomatWrite) { use core::fmt::Write; let s: String = (0..n).map(|i| (b'a' + (self.0 as u8 + i) % 26) as char).collect(); let _ = w.write_str(&s); }
    }
    impl Holder {
        pub fn new(id: u32) -> Box<Holder> { Box::new(Holder { id, cb: None }) }
        pub fn call_now(f: impl Fn(i32) -> i32) -> i32 { f(20) + 1 }
        pub fn store_mut(&mut self, f: impl FnMut(i32) -> i32 + 'static) { self.cb = Some(Box::new(f)); }
        pub fn store_fn(&mut self, f: impl Fn(i32) -> i32 + 'static) { self.cb = Some(Box::new(f)); }
        pub fn call(&mut self, x: i32) -> i32 { match self.cb.as_mut() { Some(f) => f(x), None => -1 } }
        pub fn clear(&mut self) { self.cb = None; }
    }
}
#[diplomat::bridge]
mod ffi_iter {
    #[diplomat::opaque]
    pub struct Bytes(pub Vec<u8>, pub u32);
    #[diplomat::opaque]
    pub struct BytesIter<'a>(pub core::slice::Iter<'a, u8>, pub u32);
    impl Bytes {
        pub fn new(id: u32, n: u8) -> Box<Bytes> { Box::new(Bytes((0..n).collect(), id)) }
        #[diplomat::attr(auto, iterable)]
        pub fn iter<'a>(&'a self) -> Box<BytesIter<'a>> { Box::new(BytesIter(self.0.iter(), self.1 + 1000)) }
    }
    impl<'a> BytesIter<'a> {
        #[diplomat::attr(auto, iterator)]
        pub fn next(&mut self) -> Option<u8> { self.0.next().copied() }
    }
}
impl Drop for ffi_iter::Bytes { fn drop(&mut self) { unsafe { verif_event(3, self.1) } } }
impl<'a> Drop for ffi_iter::BytesIter<'a> { fn drop(&mut self) { unsafe { verif_event(3, self.1) } } }
extern "C" { fn verif_event(kind: u32, id: u32); }
impl Drop for ffi::Tok { fn drop(&mut self) { unsafe { verif_event(1, self.0) } } }
impl Drop for ffi::Holder { fn drop(&mut self) { self.cb = None; unsafe { verif_event(2, self.id) } } }
'''

C_PRE = r'''
#include <stdio.h>
#include <stdint.h>
#include <stdlib.h>
#include <string.h>
#include "Tok.h"
#include "Holder.h"
void* diplomat_alloc(size_t size, size_t align);
void diplomat_free(void* ptr, size_t size, size_t align);
void verif_event(uint32_t kind, uint32_t id) { printf(" %s%u", kind == 1 ? "drop" : kind == 2 ? "hdrop" : "idrop", id); }
typedef struct Cb { uint32_t id; int alive; int calls; } Cb;
static Cb cbs[4096];
static Cb* nullslot;   /* a callback whose data cookie is (void*)0, as with handle tables that start at 0 */
static int32_t run_cb(const void* data, int32_t x) { Cb* c = data ? (Cb*)data : nullslot; if (!c->alive) { printf(" UAF%u", c->id); return -999; } c->calls++; return x + (int32_t)c->id; }
static void drop_cb(const void* data) { Cb* c = data ? (Cb*)data : nullslot; if (!c->alive) printf(" DOUBLE%u", c->id); c->alive = 0; printf(" cbdrop%u", c->id); }
'''


def gen_history(rng, n):
    """returns (C statements per op, model ops, expected event list per op). ids are creation order = model tokens."""
    nxt = [0]
    toks, holders = {}, {}          # name -> id ; holder name -> (id, cb id or None)
    steps = []
    def fresh():
        nxt[0] += 1
        return nxt[0] - 1
    regs = {}                        # id -> register number
    def reg(i):
        regs[i] = len(regs) % 15
        return regs[i]
    for _ in range(n):
        r = rng.random()
        if rng.random() < 0.08 and toks:
            # a Rust-backed growable writeable owned by the foreign side: several pieces (growth while already holding data), read back, destroyed
            i = rng.choice(list(toks)); cap = rng.choice([0, 1, 8, 8, 16]); pieces = [rng.choice([0, 1, 3, 5, 6, 9, 20]) for _ in range(rng.choice([1, 2, 2, 3, 4]))]
            want = "".join("".join(chr(97 + (i + k) % 26) for k in range(n)) for n in pieces)
            calls = " ".join(f"Tok_spell{rng.choice(['', '_str'])}(t{i}, {n}, w);" for n in pieces)
            steps.append((f"{{ DiplomatWrite* w = diplomat_buffer_write_create({cap}); {calls} if (diplomat_buffer_write_len(w) != {len(want)} || "
                          f"memcmp(diplomat_buffer_write_get_bytes(w), \"{want}\", {len(want)}) != 0) printf(\" BADWRITE\"); diplomat_buffer_write_destroy(w); }}", [f"OAsRef {i}"], []))
        elif rng.random() < 0.05:
            # buffers the foreign side allocates through the runtime and releases itself (e.g. an argument it never passed on): every
            # size, including empty ones, goes back to the allocator it came from
            k = rng.choice([0, 0, 1, 7, 64]); a = rng.choice([1, 2, 4, 8]); k -= k % a
            steps.append((f"{{ void* b = diplomat_alloc({k}, {a}); if (!b) printf(\" NULLALLOC\"); memset(b, 3, {k}); diplomat_free(b, {k}, {a}); }}", [], []))
        elif r < 0.18:
            i = fresh(); toks[i] = True
            steps.append((f"Tok* t{i} = Tok_new({i});", [f"OMkBox {i}"], []))
        elif r < 0.26:
            some = rng.random() < 0.6
            if some:
                i = fresh(); toks[i] = True
                steps.append((f"Tok* t{i} = Tok_maybe({i}, true); if (!t{i}) printf(\" NULLSOME\");", [f"OMkBox {i}"], []))
            else:
                steps.append(("{ Tok* t = Tok_maybe(99999, false); if (t) printf(\" NOTNULL\"); }", [], []))
        elif r < 0.34:
            i = fresh(); ok = rng.random() < 0.5; toks[i] = True
            steps.append((f"Tok_either_result r{i} = Tok_either({i}, {'true' if ok else 'false'}); Tok* t{i} = r{i}.is_ok ? r{i}.ok : r{i}.err; "
                          f"if (r{i}.is_ok != {'true' if ok else 'false'}) printf(\" WRONGARM\");", [f"OMkBox {i}"], []))
        elif r < 0.46 and toks:
            i = rng.choice(list(toks)); del toks[i]
            steps.append((f"Tok_destroy(t{i});", [f"ODrop {i}"], [f"drop{i}"]))
        elif r < 0.52 and toks:
            i = rng.choice(list(toks)); j = rng.choice(list(toks))
            steps.append((f"if (Tok_peek(t{i}, {rng.choice(['NULL', 't%d' % j])}) == 4000000000u) printf(\" X\");", [f"OAsRef {i}"], []))
        elif r < 0.58:
            k = rng.choice([0, 1, 5, 33])
            if k == 0:
                steps.append(("Tok_sum_owned((DiplomatU8ViewMut){NULL, 0});", [], []))
            else:
                steps.append((f"{{ uint8_t* b = (uint8_t*)diplomat_alloc({k}, 1); memset(b, 1, {k}); if (Tok_sum_owned((DiplomatU8ViewMut){{b, {k}}}) != {k}) printf(\" BADSUM\"); }}", [], []))
        elif r < 0.62:
            k = rng.choice([0, 3])
            steps.append((("Tok_len_owned_str((DiplomatStringView){NULL, 0});" if k == 0 else
                           "{ char* b = (char*)diplomat_alloc(3, 1); memcpy(b, \"abc\", 3); Tok_len_owned_str((DiplomatStringView){b, 3}); }"), [], []))
        elif r < 0.66:
            some = rng.random() < 0.5
            steps.append((("{ uint16_t* b = (uint16_t*)diplomat_alloc(4, 2); b[0] = 1; b[1] = 2; if (Tok_sum_opt_owned((OptionU16ViewMut){{{b, 2}}, true}) != 3) printf(\" BADSUM\"); }"
                           if some else "{ OptionU16ViewMut o; memset(&o, 0x5A, sizeof o); o.is_ok = false; if (Tok_sum_opt_owned(o) != 7) printf(\" BADNONE\"); }"), [], []))
        elif r < 0.72:
            h = fresh(); holders[h] = None
            steps.append((f"Holder* h{h} = Holder_new({h});", [f"OMkBox {h}"], []))
        elif r < 0.78:
            c = fresh()
            data = f"&cbs[{c}]" if rng.random() < 0.6 else "NULL"
            steps.append((f"cbs[{c}] = (Cb){{{c}, 1, 0}}; nullslot = &cbs[{c}]; if (Holder_call_now((DiplomatCallback_Holder_call_now_f){{{data}, run_cb, drop_cb}}) != {20 + c + 1}) printf(\" BADCB\");",
                          [f"OMkCb {c} true", f"ODrop {c}"], [f"cbdrop{c}"]))
        elif r < 0.88 and holders:
            h = rng.choice(list(holders)); c = fresh(); old = holders[h]
            kind = rng.choice(["mut", "fn"])
            dtor = rng.random() < 0.85
            ops = ([f"ODrop {old[0]}"] if old is not None else []) + [f"OMkCb {c} {'true' if dtor else 'false'}"]
            ev = [f"cbdrop{old[0]}"] if (old is not None and old[1]) else []
            holders[h] = (c, dtor)
            steps.append((f"cbs[{c}] = (Cb){{{c}, 1, 0}}; Holder_store_{kind}(h{h}, (DiplomatCallback_Holder_store_{kind}_f){{&cbs[{c}], run_cb, {'drop_cb' if dtor else 'NULL'}}});", ops, ev))
        elif r < 0.93 and holders:
            h = rng.choice(list(holders)); cb = holders[h]
            want = -1 if cb is None else 5 + cb[0]
            steps.append((f"if (Holder_call(h{h}, 5) != {want}) printf(\" BADCALL\");", [], []))
        elif r < 0.96 and holders:
            h = rng.choice(list(holders)); cb = holders[h]; holders[h] = None
            steps.append((f"Holder_clear(h{h});", [f"ODrop {cb[0]}"] if cb else [], [f"cbdrop{cb[0]}"] if (cb and cb[1]) else []))
        elif holders:
            h = rng.choice(list(holders)); cb = holders.pop(h)
            steps.append((f"Holder_destroy(h{h});", ([f"ODrop {cb[0]}"] if cb else []) + [f"ODrop {h}"],
                          ([f"cbdrop{cb[0]}"] if (cb and cb[1]) else []) + [f"hdrop{h}"]))
    # the foreign side destroys everything it still owns
    for i in list(toks):
        steps.append((f"Tok_destroy(t{i});", [f"ODrop {i}"], [f"drop{i}"]))
    for h, cb in list(holders.items()):
        steps.append((f"Holder_destroy(h{h});", ([f"ODrop {cb[0]}"] if cb else []) + [f"ODrop {h}"],
                      ([f"cbdrop{cb[0]}"] if (cb and cb[1]) else []) + [f"hdrop{h}"]))
    return steps


def run(ctx, spec_prop="C03"):
    """returns (goals, n_histories, n_ops, violations_raised)"""
    rng = ctx.rng
    e2e.build_tool()
    d, lib, p = e2e.bridge_crate("c03e", BRIDGE)
    if lib is None:
        ctx.violation("e2e:bridge-build", {"broken": "the lifecycle bridge does not compile with the real macro", "log": p.stderr[-2000:]}, False)
        return [], 0, 0
    q = e2e.run_tool("c", os.path.join(d, "src/lib.rs"), os.path.join(d, "out_c"))
    if q.returncode != 0:
        ctx.violation("e2e:tool-c", {"broken": "diplomat-tool c failed on the lifecycle bridge", "log": q.stderr[-2000:]}, False)
        return [], 0, 0
    nh = 12 if ctx.quick() else 120
    hists = [gen_history(rng, rng.choice([8, 15, 30])) for _ in range(nh)]
    L = [C_PRE, "int main(void) { setvbuf(stdout, NULL, _IONBF, 0);"]
    for hi, steps in enumerate(hists):
        L.append(f"  {{ printf(\"H {hi}\\n\");")
        for si, (stmt, ops, ev) in enumerate(steps):
            L.append(f'    printf("op {si}:"); {stmt} printf("\\n");')
        L.append("  }")
    L.append("  return 0;\n}")
    src = os.path.join(d, "drv.c")
    open(src, "w").write("\n".join(L))
    # histories live in one block each, so names do not clash
    c, r = e2e.cc_run(src, [os.path.join(d, "out_c")], lib, os.path.join(d, "drv"), extra=["-fsanitize=address", "-fno-omit-frame-pointer", "-g"])
    goals, viol, nops = [], 0, 0
    if r is None:
        ctx.violation("e2e:c-compile", {"broken": "lifecycle driver does not compile against the generated headers", "log": c.stderr[-2000:]}, False)
        return [], 0, 0
    out = r.stdout
    blocks = out.split("H ")[1:]
    asan = "AddressSanitizer" in r.stderr or "LeakSanitizer" in r.stderr
    for hi, steps in enumerate(hists):
        lines = blocks[hi].split("\n")[1:] if hi < len(blocks) else []
        obs = []
        for si, (stmt, ops, ev) in enumerate(steps):
            nops += 1
            line = lines[si] if si < len(lines) else f"op {si}: MISSING"
            got = line.split(":", 1)[1].split() if ":" in line else ["MISSING"]
            obs.append(got)
            if got != ev and len(ctx.violations) < 3:
                viol += 1
                ctx.violation("direct:lifecycle", {"history": [s[0] for s in steps[:si + 1]], "what":
                              f"operation #{si} `{stmt[:120]}` produced events {got}, exactly-once ownership requires {ev}"}, True)
        # model: tokens are creation indices; callbacks without destructor never log
        flat = []
        for g in obs:
            for e in g:
                m = re.fullmatch(r"(?:drop|hdrop|cbdrop)(\d+)", e)
                flat.append(int(m.group(1)) if m else 99999)
        mops = [o for (_, ops, _) in steps for o in ops]
        goals.append("agree_own_flat " + clist(mops) + "%nat " + "[" + ";".join(map(str, flat)) + "]%nat")
    if (asan or r.returncode != 0) and len(ctx.violations) < 3:
        ctx.violation("direct:asan", {"what": "AddressSanitizer/LeakSanitizer report or crash while running lifecycle histories through the C API",
                                      "report": r.stderr[-2500:], "rc": r.returncode}, True)
    return goals, nh, nops


# ------------------------------------------------------------------ callbacks through the generated C++ API
CPP_PRE = r"""
#include <cstdio>
#include <cstdint>
#include <memory>
#include <functional>
#include "Tok.hpp"
#include "Holder.hpp"
#include "Bytes.hpp"
#include "BytesIter.hpp"
extern "C" void verif_event(uint32_t kind, uint32_t id) { printf(" %s%u", kind == 1 ? "drop" : kind == 2 ? "hdrop" : "idrop", id); }
struct Probe { uint32_t id = 0; bool alive = true; ~Probe() { alive = false; printf(" cbdrop%u", id); } };
static std::function<int32_t(int32_t)> mk(uint32_t id) {
  auto p = std::make_shared<Probe>(); p->id = id;
  return [p](int32_t x) { if (!p->alive) { printf(" UAF%u", p->id); return -999; } return x + (int32_t)p->id; };
}
"""


CPP_ACC = r"""
// a callable that carries its own state: every call through Rust must reach the same object
static std::function<int32_t(int32_t)> mkacc(uint32_t id) {
  auto p = std::make_shared<Probe>(); p->id = id;
  return [p, acc = (int32_t)0](int32_t x) mutable { acc += x; return acc + (int32_t)p->id; };
}
"""


def gen_cpp_history(rng, n):
    """[(statement, expected events)]: a Holder keeps at most one callback; storing replaces (and releases) the previous one"""
    steps, holders, nid = [], {}, [100]
    def fresh():
        nid[0] += 1
        return nid[0]
    for _ in range(n):
        r = rng.random()
        live = sorted(holders)
        if r < 0.2 or not live:
            h = fresh(); holders[h] = None
            steps.append((f"auto h{h} = Holder::new_({h});", []))
        elif r < 0.5:
            h = rng.choice(live); c = fresh(); old = holders[h]
            which = rng.choice(["store_fn", "store_mut"])
            acc = which == "store_mut" and rng.random() < 0.6
            holders[h] = [c, 0] if acc else c
            oldid = old[0] if isinstance(old, list) else old
            steps.append((f"h{h}->{which}({'mkacc' if acc else 'mk'}({c}));", [f"cbdrop{oldid}"] if old else []))
        elif r < 0.7:
            h = rng.choice(live); x = rng.randint(-5, 50); c = holders[h]
            if isinstance(c, list):
                c[1] += x
                steps.append((f'printf(" r%d", h{h}->call({x}));', [f"r{c[1] + c[0]}"]))
            else:
                steps.append((f'printf(" r%d", h{h}->call({x}));', [f"r{x + c}" if c else "r-1"]))
        elif r < 0.8:
            c = fresh()
            steps.append((f'printf(" r%d", Holder::call_now(mk({c})));', [f"cbdrop{c}", f"r{20 + c + 1}"]))
        elif r < 0.9:
            h = rng.choice(live); c = holders[h]; holders[h] = None
            c = c[0] if isinstance(c, list) else c
            steps.append((f"h{h}->clear();", [f"cbdrop{c}"] if c else []))
        else:
            h = rng.choice(live); c = holders.pop(h)
            c = c[0] if isinstance(c, list) else c
            steps.append((f"h{h}.reset();", ([f"cbdrop{c}"] if c else []) + [f"hdrop{h}"]))
    # a stateful callable stored by Rust and called repeatedly: the state lives in the one object Rust owns
    h = fresh(); c = fresh()
    steps.append((f"auto h{h} = Holder::new_({h});", []))
    steps.append((f"h{h}->store_mut(mkacc({c}));", []))
    for x, tot in ((5, 5), (5, 10), (1, 11)):
        steps.append((f'printf(" r%d", h{h}->call({x}));', [f"r{tot + c}"]))
    steps.append((f"h{h}.reset();", [f"cbdrop{c}", f"hdrop{h}"]))
    # iterators: range-for, then copies of one iterator; the Rust iterator object is destroyed exactly once per iter() call
    b = fresh(); k = rng.randint(1, 5)
    steps.append((f"auto b{b} = Bytes::new_({b}, {k});", []))
    steps.append((f'{{ int s = 0; for (auto v : *b{b}) s += v; printf(" s%d", s); }}', [f"idrop{b + 1000}", f"s{sum(range(k))}"]))
    steps.append((f'{{ auto it = b{b}->begin(); auto copy = it; auto third = copy; printf(" f%d", (int)*it); }}', ["f0", f"idrop{b + 1000}"]))
    steps.append((f"b{b}.reset();", [f"idrop{b}"]))
    for h in sorted(holders):
        c = holders[h]
        c = c[0] if isinstance(c, list) else c
        steps.append((f"h{h}.reset();", ([f"cbdrop{c}"] if c else []) + [f"hdrop{h}"]))
    return steps


def run_cpp_callbacks(ctx):
    """histories over callbacks handed to Rust through the C++ wrappers (heap copy + destructor), under ASan with
    stack-use-after-return detection; returns (#histories, #ops)"""
    rng = ctx.rng
    d, lib, p = e2e.bridge_crate("c03e", BRIDGE)
    if lib is None:
        return 0, 0
    q = e2e.run_tool("cpp", os.path.join(d, "src/lib.rs"), os.path.join(d, "out_cpp"))
    if q.returncode != 0:
        ctx.violation("e2e:tool-cpp", {"broken": "diplomat-tool cpp failed on the lifecycle bridge", "log": q.stderr[-2000:]}, False)
        return 0, 0
    nh = 8 if ctx.quick() else 80
    hists = [gen_cpp_history(rng, rng.choice([6, 12, 25])) for _ in range(nh)]
    L = [CPP_PRE, CPP_ACC, "int main() { setvbuf(stdout, NULL, _IONBF, 0);"]
    for hi, steps in enumerate(hists):
        L.append(f"  {{ printf(\"H {hi}\\n\");")
        for si, (stmt, ev) in enumerate(steps):
            L.append(f'    printf("op {si}:"); {stmt} printf("\\n");')
        L.append("  }")
    L.append("  return 0;\n}")
    src = os.path.join(d, "drv_cb.cpp")
    open(src, "w").write("\n".join(L))
    exe = os.path.join(d, "drv_cb")
    c = sh(["g++", "-std=c++17", "-O0", "-w", "-g", "-fsanitize=address", "-fno-omit-frame-pointer", f"-I{os.path.join(d, 'out_cpp')}", src, lib] + e2e.LINK + ["-o", exe], timeout=600)
    if c.returncode != 0:
        ctx.violation("e2e:cpp-compile", {"broken": "callback lifecycle driver does not compile against the generated C++ headers", "log": c.stderr[-2000:]}, False)
        return 0, 0
    r = sh([exe], timeout=300, env=dict(ENV, ASAN_OPTIONS="detect_stack_use_after_return=1:detect_leaks=1"))
    blocks = r.stdout.split("H ")[1:]
    viol, nops = 0, 0
    for hi, steps in enumerate(hists):
        lines = blocks[hi].split("\n")[1:] if hi < len(blocks) else []
        for si, (stmt, ev) in enumerate(steps):
            nops += 1
            line = lines[si] if si < len(lines) else f"op {si}: MISSING"
            got = line.split(":", 1)[1].split() if ":" in line else ["MISSING"]
            if got != ev and len(ctx.violations) < 2:
                viol += 1
                ctx.violation("direct:cpp-callback-lifecycle", {"history": [s[0] for s in steps[:si + 1]], "what":
                              f"operation #{si} `{stmt}` produced events {got}; a callback handed to Rust is released exactly once, when Rust drops it: {ev}"}, True)
    if ("AddressSanitizer" in r.stderr or "LeakSanitizer" in r.stderr or r.returncode != 0) and len(ctx.violations) < 2:
        ctx.violation("direct:asan-cpp", {"what": "AddressSanitizer/LeakSanitizer report or crash while running callback histories through the C++ API",
                                          "report": r.stderr[-2500:], "rc": r.returncode}, True)
    return nh, nops


# ---- recorded finding of the unchanged tree (audit of 2026-09-30): owned slice parameters through the C++ API
OWNED_BRIDGE = """#[diplomat::bridge]
pub mod ffi {
    #[diplomat::opaque]
    pub struct Owned;
    impl Owned {
        pub fn sum(v: Box<[f64]>) -> f64 { v.iter().sum() }
        pub fn sum_borrowed(v: &[f64]) -> f64 { v.iter().sum() }
    }
}
"""
OWNED_DRIVER = r'''
#include "Owned.hpp"
#include <cstdio>
#include <vector>
int main() {
  std::vector<double> v{1.5, 2.5, 4.0};
  printf("borrowed %.1f\n", Owned::sum_borrowed(diplomat::span<const double>(v.data(), v.size())));
  printf("owned %.1f\n", Owned::sum(diplomat::span<double>(v.data(), v.size())));
  printf("after %.1f\n", v[0] + v[1] + v[2]);     /* the caller's vector is still the caller's */
  return 0;
}
'''


def run_cpp_owned_slices(ctx):
    """`Box<[f64]>` parameter: the C++ API takes a span over the caller's buffer; Rust must not free that buffer"""
    d, lib, p = e2e.bridge_crate("c03owned", OWNED_BRIDGE)
    if lib is None:
        raise MachineryError("C03: the owned-slice bridge does not build: " + p.stderr[-800:])
    q = e2e.run_tool("cpp", os.path.join(d, "src/lib.rs"), os.path.join(d, "out_cpp"))
    if q.returncode != 0:
        return 0          # refused / reported by the backend: nothing to call
    open(os.path.join(d, "drvo.cpp"), "w").write(OWNED_DRIVER)
    c, r = e2e.cc_run(os.path.join(d, "drvo.cpp"), [os.path.join(d, "out_cpp")], lib, os.path.join(d, "drvo"), std="c++17", cxx=True, extra=["-fsanitize=address"])
    if r is None:
        return 0          # the API shape is different (e.g. takes ownership explicitly): not this finding
    if r.returncode != 0 or "after 8.0" not in r.stdout:
        ctx.violation("cpp-owned-slice-param", {"what": "Owned::sum(span over a std::vector) -> Rust builds a Box<[f64]> from the caller's pointer and frees it: " +
                      (next((l.strip() for l in (r.stderr or "").split("\n") if "AddressSanitizer" in l), "driver exit %d" % r.returncode)[:200] if r.returncode != 0 else r.stdout.strip()), "lib_rs": OWNED_BRIDGE}, True)
    return 1
