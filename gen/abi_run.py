"""Shared runner for the end-to-end ABI group: generates a bridge, builds it with the real macro, runs diplomat-tool c,
compiles and runs the C driver, and returns everything the property modules need."""
import re, os
from common import *
import e2e, abigen, tablegen

PCOQ = {"u8": "PU8", "i8": "PI8", "u16": "PU16", "i16": "PI16", "u32": "PU32", "i32": "PI32", "u64": "PU64", "i64": "PI64",
        "usize": "PUsize", "isize": "PIsize", "f32": "PF32", "f64": "PF64", "bool": "PBool", "char": "PChar", "byte": "PByte"}


def coq_vty(t):
    if t[0] == "prim": return f"(VPrim {PCOQ[t[1]]})"
    if t[0] == "enum": return f"(VEnum {cstr(t[1])})"
    return f"(VStruct {cstr(t[1])})"


def coq_pty(t):
    k = t[0]
    if k in ("prim", "enum", "struct"): return f"(PV {coq_vty(t)})"
    if k == "oref": return f"(PORef {cbool(t[1])})"
    if k == "oopt": return "POOpt"
    if k == "slice": return f"(PSlice {PCOQ[t[1]]} {cbool(t[2] != 'ref')})"
    if k == "str": return f"(PStr {cbool(t[1] == 'd16')})"
    if k == "opt": return f"(POpt {cbool(t[1] == 'dipl')} {coq_vty(t[2])})"
    if k == "optslice": return f"(POptSlice {PCOQ[t[1]]})"
    if k == "optstr": return "POptStr"
    raise ValueError(t)


def coq_arm(t):
    if t[0] == "unit": return "ArmUnit"
    if t[0] == "obox": return "ArmBox"
    if t[0] == "zst": return "ArmZst"
    return f"(ArmV {coq_vty(t)})"


def coq_rty(t):
    k = t[0]
    if k == "unit": return "RUnit"
    if k == "optunit": return "(RRes ArmUnit ArmUnit)"      # Option<()> crosses as {is_ok}, like Result<(), ()>
    if k in ("prim", "enum", "struct"): return f"(RV {coq_vty(t)})"
    return {"obox": "RBox", "oboxopt": "ROptBox", "orefret": "RRef", "orefopt": "ROptRef", "ordering": "ROrd"}.get(k) or \
        (f"(ROpt {cbool(t[1] == 'dipl')} {coq_vty(t[2])})" if k == "opt" else f"(RRes {coq_arm(t[1])} {coq_arm(t[2])})")


def coq_field_abi(mod, t):
    k = t[0]
    if k == "prim": return f"(rust_prim_abi {PCOQ[t[1]]})"
    if k == "enum": return "(AI 4 true)"
    if k == "struct": return "(ARec " + clist([coq_field_abi(mod, ft) for _, ft in mod.structs[t[1]]]) + ")"
    if k == "opt": return f"(result_abi {coq_field_abi(mod, t[2])} AUnit)"
    raise ValueError(t)


def parse_header(path):
    """prototypes {name: (ret, [param types])} and result typedefs {name: [(member, type)]} of a generated C header"""
    txt = open(path).read()
    protos, results = {}, {}
    for m in re.finditer(r"^typedef struct (\w+_result) \{(?:union \{(.*?)\};)?\s*bool is_ok;\} \1;$", txt, re.M):
        members = []
        for part in (m.group(2) or "").split(";"):
            part = part.strip()
            if part:
                ty, name = part.rsplit(" ", 1)
                members.append((name, ty.strip()))
        results[m.group(1)] = members
    for m in re.finditer(r"^(?!typedef)([\w \*]+?[\s\*])(\w+)\((.*)\);$", txt, re.M):
        ret, name, ps = m.group(1).strip(), m.group(2), m.group(3).strip()
        params = []
        if ps and ps != "void":
            for p in ps.split(", "):
                ty, _ = p.rsplit(" ", 1)
                params.append(ty.strip())
        protos[name] = (ret, params)
    return protos, results


def run(ctx, name, n_methods, per_method=3, paired=True, seed_offset=0):
    """returns dict(mod, methods, calls, records, layouts, protos, results, dir, lib, errors)"""
    rng = ctx.rng
    mod = abigen.Module(rng)
    methods = abigen.gen_methods(mod, n_methods, rng) + (abigen.paired_spelling_methods(mod, rng) if paired else [])
    src = abigen.rust_source(mod, methods)
    res = {"mod": mod, "methods": methods, "src": src, "errors": []}
    d, lib, p = e2e.bridge_crate(name, src)
    res["dir"], res["lib"] = d, lib
    if lib is None:
        res["errors"].append(("macro-build", p.stderr[-2500:]))
        return res
    q = e2e.run_tool("c", os.path.join(d, "src/lib.rs"), os.path.join(d, "out_c"))
    if q.returncode != 0:
        res["errors"].append(("tool-c", q.stderr[-2500:]))
        return res
    calls = abigen.scenarios(mod, methods, rng, per_method)
    res["calls"] = calls
    open(os.path.join(d, "drv.c"), "w").write(abigen.c_driver(mod, methods, calls))
    c, r = e2e.cc_run(os.path.join(d, "drv.c"), [os.path.join(d, "out_c")], lib, os.path.join(d, "drv"))
    if r is None:
        res["errors"].append(("c-compile", c.stderr[-2500:]))
        return res
    if r.returncode != 0:
        res["errors"].append(("c-run", f"rc={r.returncode} {r.stderr[-1500:]} last output: {r.stdout[-600:]}"))
    recs = re.findall(r"call (\d+) ret=([^\n]*?)(?: wr=([^\n]*))?\nlog (.*?)\|\n", r.stdout, re.S)
    res["records"] = {int(ci): (ret, wr, log) for ci, ret, wr, log in recs}
    lay = {}
    for line in r.stdout.split("\n"):
        if line.startswith("layout "):
            _, s, side, *nums = line.split()
            lay[(s, side)] = [int(x) for x in nums]
    res["layouts"] = lay
    res["protos"], res["results"] = parse_header(os.path.join(d, "out_c", "Op.h"))
    return res
