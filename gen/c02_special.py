"""C02: the C++ the backend synthesises around special methods — binary operators and the compound assignments derived from them
(value types), operators on opaque types, the six relational operators derived from a comparison, the indexer — carries the
operands to Rust in the written order and returns what Rust computed.  All Rust bodies are non-commutative on purpose."""
import re
from common import *
import e2e

BRIDGE = r'''
#[diplomat::bridge]
mod ffi {
    pub struct V2 { pub x: i32, pub y: i32 }
    impl V2 {
        #[diplomat::attr(auto, add)]
        pub fn plus(self, o: V2) -> V2 { V2 { x: self.x + 2 * o.x, y: self.y + o.y } }
        #[diplomat::attr(auto, sub)]
        pub fn minus(self, o: V2) -> V2 { V2 { x: self.x - o.x, y: self.y - o.y } }
        #[diplomat::attr(auto, mul)]
        pub fn times(self, o: V2) -> V2 { V2 { x: self.x * o.x, y: self.y * o.y + self.x } }
        #[diplomat::attr(auto, div)]
        pub fn over(self, o: V2) -> V2 { V2 { x: self.x / o.x.max(1), y: self.y / o.y.max(1) } }
        #[diplomat::attr(auto, comparison)]
        pub fn order(self, o: V2) -> core::cmp::Ordering { (self.x, self.y).cmp(&(o.x, o.y)) }
    }
    #[diplomat::opaque]
    pub struct Seq(pub Vec<i32>);
    impl Seq {
        #[diplomat::attr(auto, constructor)]
        pub fn new(a: i32, n: u8) -> Box<Seq> { Box::new(Seq((0..n as i32).map(|i| a + i).collect())) }
        #[diplomat::attr(auto, add)]
        pub fn concat(&self, o: &Seq) -> Box<Seq> { Box::new(Seq([self.0.clone(), o.0.clone()].concat())) }
        #[diplomat::attr(auto, sub)]
        pub fn without(&self, o: &Seq) -> Box<Seq> { Box::new(Seq(self.0.iter().copied().filter(|v| !o.0.contains(v)).collect())) }
        #[diplomat::attr(auto, add_assign)]
        pub fn append(&mut self, o: &Seq) { self.0.extend_from_slice(&o.0) }
        #[diplomat::attr(auto, sub_assign)]
        pub fn remove(&mut self, o: &Seq) { let d = o.0.clone(); self.0.retain(|v| !d.contains(v)) }
        #[diplomat::attr(auto, comparison)]
        pub fn order(&self, o: &Seq) -> core::cmp::Ordering { self.0.cmp(&o.0) }
        #[diplomat::attr(auto, indexer)]
        pub fn at(&self, i: usize) -> Option<i32> { self.0.get(i).copied() }
        pub fn sum(&self) -> i64 { self.0.iter().enumerate().map(|(i, v)| (i as i64 + 1) * *v as i64).sum() }
        pub fn len(&self) -> usize { self.0.len() }
    }
}
'''

DRIVER = r'''
#include <cstdio>
#include <cstdint>
#include "V2.hpp"
#include "Seq.hpp"
static void pv(const char* t, V2 v) { printf(" %s=%d,%d", t, v.x, v.y); }
static void rel(const char* t, bool a, bool b, bool c, bool d, bool e, bool f) { printf(" %s=%d%d%d%d%d%d", t, a, b, c, d, e, f); }
int main() {
  V2 vs[4] = { {20, 36}, {3, 4}, {-5, 7}, {3, 9} };
  for (int i = 0; i < 4; i++) for (int j = 0; j < 4; j++) {
    V2 a = vs[i], b = vs[j];
    printf("v%d%d", i, j);
    pv("add", a + b); pv("sub", a - b); pv("mul", a * b); pv("div", a / b);
    { V2 c = a; c += b; pv("add=", c); } { V2 c = a; c -= b; pv("sub=", c); } { V2 c = a; c *= b; pv("mul=", c); } { V2 c = a; c /= b; pv("div=", c); }
    { V2 c = a; (c -= b) -= b; pv("sub==", c); } { V2 c = a; (c += b) *= b; pv("addmul=", c); }
    rel("rel", a == b, a != b, a <= b, a >= b, a < b, a > b);
    printf(" cmp=%d\n", (int)a.order(b));
  }
  int starts[3] = { 1, 3, 2 }; uint8_t lens[3] = { 3, 2, 0 };
  for (int i = 0; i < 3; i++) for (int j = 0; j < 3; j++) {
    auto a = Seq::new_(starts[i], lens[i]); auto b = Seq::new_(starts[j], lens[j]);
    printf("s%d%d add=%lld sub=%lld", i, j, (long long)(*a + *b)->sum(), (long long)(*a - *b)->sum());
    { auto c = Seq::new_(starts[i], lens[i]); *c += *b; printf(" add==%lld", (long long)c->sum()); *c -= *a; printf(" then-sub==%lld", (long long)c->sum()); }
    rel("rel", *a == *b, *a != *b, *a <= *b, *a >= *b, *a < *b, *a > *b);
    for (size_t k = 0; k < 4; k++) { auto e = (*a)[k]; if (e.has_value()) printf(" [%zu]=%d", k, *e); else printf(" [%zu]=N", k); }
    printf(" cmp=%d\n", (int)a->order(*b));
  }
  return 0;
}
'''


def expected():
    out = []
    vs = [(20, 36), (3, 4), (-5, 7), (3, 9)]
    tdiv = lambda a, b: int(a / b) if b else 0          # Rust integer division truncates toward zero
    plus = lambda a, b: (a[0] + 2 * b[0], a[1] + b[1])
    minus = lambda a, b: (a[0] - b[0], a[1] - b[1])
    times = lambda a, b: (a[0] * b[0], a[1] * b[1] + a[0])
    over = lambda a, b: (tdiv(a[0], max(b[0], 1)), tdiv(a[1], max(b[1], 1)))
    relf = lambda a, b: "".join(str(int(x)) for x in (a == b, a != b, a <= b, a >= b, a < b, a > b))
    f = lambda t, v: f" {t}={v[0]},{v[1]}"
    for i, a in enumerate(vs):
        for j, b in enumerate(vs):
            out.append(f"v{i}{j}" + f("add", plus(a, b)) + f("sub", minus(a, b)) + f("mul", times(a, b)) + f("div", over(a, b))
                       + f("add=", plus(a, b)) + f("sub=", minus(a, b)) + f("mul=", times(a, b)) + f("div=", over(a, b))
                       + f("sub==", minus(minus(a, b), b)) + f("addmul=", times(plus(a, b), b)) + " rel=" + relf(a, b) + f" cmp={(a > b) - (a < b)}")
    seqs = [[1, 2, 3], [3, 4], []]
    sm = lambda l: sum((i + 1) * v for i, v in enumerate(l))
    for i, a in enumerate(seqs):
        for j, b in enumerate(seqs):
            cat = a + b
            out.append(f"s{i}{j} add={sm(cat)} sub={sm([v for v in a if v not in b])} add=={sm(cat)} then-sub=={sm([v for v in cat if v not in a])} rel={relf(a, b)}"
                       + "".join(f" [{k}]={a[k] if k < len(a) else 'N'}" for k in range(4)) + f" cmp={(a > b) - (a < b)}")
    return out


VS = [(20, 36), (3, 4), (-5, 7), (3, 9)]
COQ_OPS = {"plus": "(fun a b : Z * Z => (fst a + 2 * fst b, snd a + snd b))", "minus": "(fun a b : Z * Z => (fst a - fst b, snd a - snd b))",
           "times": "(fun a b : Z * Z => (fst a * fst b, snd a * snd b + fst a))"}


def coq_goals(lines):
    """Cpp/Ops.v against the driver's observations: relational operators vs the comparison's value; compound assignments and their chains
    vs the binary Rust methods applied left to right"""
    out = []
    pz = lambda p: f"({p[0]}, {p[1]})"
    for l in lines:
        f = {}
        for x in l.split()[1:]:
            m = re.fullmatch(r"([a-z\-]+=*?)=(-?[\w,\-]+)", x)
            if m: f[m.group(1)] = m.group(2)
        if "cmp" in f and "rel" in f:
            out.append(f"agree_rels ({f['cmp']}) {clist([cbool(ch == '1') for ch in f['rel']])}")
        if l.startswith("v") and "sub==" in f:
            i, j = int(l[1]), int(l[2]); a, b = VS[i], VS[j]
            ox, oy = f["sub=="].split(","); ax, ay = f["addmul="].split(",")
            out.append(f"(let r := compound_chain _ {COQ_OPS['minus']} {pz(a)} [{pz(b)}; {pz(b)}] in Z.eqb (fst r) ({ox}) && Z.eqb (snd r) ({oy}))")
            out.append(f"(let r := compound _ {COQ_OPS['times']} (compound _ {COQ_OPS['plus']} {pz(a)} {pz(b)}) {pz(b)} in Z.eqb (fst r) ({ax}) && Z.eqb (snd r) ({ay}))")
            for k, opn in (("sub=", "minus"), ("add=", "plus"), ("mul=", "times")):
                cx, cy = f[k].split(",")
                out.append(f"(let r := compound _ {COQ_OPS[opn]} {pz(a)} {pz(b)} in Z.eqb (fst r) ({cx}) && Z.eqb (snd r) ({cy}))")
    return out


def run(ctx, stds=("c++17",), goals=None):
    d, lib, p = e2e.bridge_crate("c02s", BRIDGE)
    if lib is None:
        ctx.violation("e2e:special-macro-build", {"broken": "the special-methods bridge does not compile with the real macro", "log": p.stderr[-2000:], "lib_rs": BRIDGE}, True)
        return 0
    q = e2e.run_tool("cpp", os.path.join(d, "src/lib.rs"), os.path.join(d, "out_cpp"))
    if q.returncode != 0:
        ctx.violation("e2e:special-tool-cpp", {"broken": "diplomat-tool cpp failed on the special-methods bridge", "log": q.stderr[-2000:], "lib_rs": BRIDGE}, True)
        return 0
    open(os.path.join(d, "drvs.cpp"), "w").write(DRIVER)
    n = 0
    for std in stds:
        c, r = e2e.cc_run(os.path.join(d, "drvs.cpp"), [os.path.join(d, "out_cpp")], lib, os.path.join(d, "drvs"), std=std, cxx=True, extra=["-fsanitize=address"])
        if r is None:
            ctx.violation("direct:special-cpp-compile", {"std": std, "what": "a C++ caller using the documented operators does not compile against the generated headers",
                                                         "log": c.stderr[-2500:], "lib_rs": BRIDGE}, True)
            return n
        got = [l for l in r.stdout.split("\n") if l.strip()]
        want = expected()
        if goals is not None and std == stds[0]:
            goals += coq_goals(got)
        for g, w in zip(got + ["<missing>"] * (len(want) - len(got)), want):
            n += 12
            if g != w:
                ctx.violation("direct:special-cpp-values", {"std": std, "what": f"C++ computed `{g}`, Rust's methods give `{w}`", "stderr": r.stderr[-800:], "lib_rs": BRIDGE}, True)
                return n
        if r.returncode != 0:
            ctx.violation("direct:special-cpp-run", {"std": std, "what": f"driver exit code {r.returncode}: {r.stderr[-1200:]}", "lib_rs": BRIDGE}, True)
    return n
