"""Shared machinery for ./check: builds, Coq runs, audits, evidence, violation protocol."""
import fcntl, hashlib, json, os, random, re, shutil, subprocess, sys, time
from concurrent.futures import ThreadPoolExecutor

VERIF = os.path.dirname(os.path.dirname(os.path.abspath(__file__)))
REPO = os.environ.get("VERIF_REPO", "/repo")
BUILD = os.path.join(VERIF, ".build")
COQ = os.path.join(VERIF, "coq")
HARNESS = os.path.join(VERIF, "harness")
ORACLE = os.path.join(BUILD, "target", "debug", "oracle")
GUARD = "rust_diplomat_diplomat_verif"
NCPU = os.cpu_count() or 4

ENV = dict(os.environ, CARGO_NET_OFFLINE="true", CARGO_TERM_COLOR="never")

AXIOM_ALLOW = {
    # standard-library axioms only; named in DESIGN.md section 6
    "functional_extensionality_dep",
    "FunctionalExtensionality.functional_extensionality_dep",
    "Eqdep.Eq_rect_eq.eq_rect_eq",
    "Coq.Logic.Eqdep.Eq_rect_eq.eq_rect_eq",
}

FORBIDDEN = re.compile(
    r"\b(Admitted|admit|Axiom|Axioms|Parameter|Parameters|Conjecture|Conjectures|Hypothesis|Hypotheses|Variable|Variables)\b"
    r"|Admit Obligations|Unset Guard|Unset Positivity|Unset Universe|bypass_check|type-in-type|impredicative-set"
)


class MachineryError(Exception):
    pass


def log(*a):
    print(*a, file=sys.stderr, flush=True)


class lock:
    def __init__(self, name):
        os.makedirs(BUILD, exist_ok=True)
        self.path = os.path.join(BUILD, name + ".lock")

    def __enter__(self):
        self.f = open(self.path, "w")
        fcntl.flock(self.f, fcntl.LOCK_EX)

    def __exit__(self, *a):
        fcntl.flock(self.f, fcntl.LOCK_UN)
        self.f.close()


def sh(cmd, cwd=None, timeout=1800, env=None, check=False, input=None):
    p = subprocess.run(cmd, cwd=cwd, timeout=timeout, env=env or ENV, input=input,
                       stdout=subprocess.PIPE, stderr=subprocess.PIPE, text=True, shell=isinstance(cmd, str))
    if check and p.returncode != 0:
        raise MachineryError(f"command failed: {cmd}\n{p.stdout[-3000:]}\n{p.stderr[-3000:]}")
    return p


# ------------------------------------------------------------------ builds

def build_harness():
    """cargo build of the oracle against /repo's current working tree (path deps), hooks on."""
    with lock("cargo"):
        shutil.copyfile(os.path.join(REPO, "Cargo.lock"), os.path.join(HARNESS, "Cargo.lock"))
        t = time.time()
        # the target directory follows this checkout (harness/.cargo/config.toml names /verif for plain `cargo` use)
        p = sh(["cargo", "build", "--offline", "-q"], cwd=HARNESS, timeout=1500, env=dict(ENV, CARGO_TARGET_DIR=os.path.join(BUILD, "target")))
        if p.returncode != 0:
            raise MachineryError("harness build failed (does /repo still compile with "
                                 f"--cfg {GUARD}?)\n" + p.stderr[-4000:])
        log(f"[harness] built in {time.time()-t:.1f}s")
    return ORACLE


def coq_files():
    out = []
    for root, _, files in os.walk(os.path.join(COQ, "theories")):
        for f in files:
            if f.endswith(".v"):
                out.append(os.path.relpath(os.path.join(root, f), COQ))
    return sorted(out)


def build_coq(targets=None, timeout=1500):
    """Full .vo build (never -vos) of the given targets (paths relative to coq/, .v) and their cone.
    Returns (ok, log)."""
    with lock("coq"):
        files = coq_files()
        proj = ["-Q theories DV",
                "-arg -w -arg -deprecated-hint-rewrite-without-locality,-deprecated-instance-without-locality,"
                "-deprecated-syntactic-definition,-notation-overridden,-deprecated-hint-without-locality"] + files
        projtxt = "\n".join(proj) + "\n"
        pp = os.path.join(COQ, "_CoqProject")
        if not os.path.exists(pp) or open(pp).read() != projtxt or not os.path.exists(os.path.join(COQ, "Makefile")):
            open(pp, "w").write(projtxt)
            sh(["coq_makefile", "-f", "_CoqProject", "-o", "Makefile"], cwd=COQ, check=True)
        tg = [t[:-2] + ".vo" for t in targets] if targets else []
        t = time.time()
        p = sh(["timeout", str(timeout), "make", f"-j{NCPU}"] + tg, cwd=COQ, timeout=timeout + 30)
        log(f"[coq] make {' '.join(tg) or 'all'}: rc={p.returncode} in {time.time()-t:.1f}s")
        return p.returncode == 0, p.stdout + p.stderr


def audit_sources():
    """No Admitted/Axiom/... anywhere in the development (comments stripped)."""
    bad = []
    for f in coq_files():
        txt = open(os.path.join(COQ, f)).read()
        txt = strip_coq_comments(txt)
        for i, line in enumerate(txt.split("\n"), 1):
            m = FORBIDDEN.search(line)
            if m:
                # Variables/Hypotheses are allowed inside a Section only
                if m.group(1) in ("Variable", "Variables", "Hypothesis", "Hypotheses") and in_section(txt, i):
                    continue
                bad.append(f"{f}:{i}: {line.strip()}")
    return bad


def strip_coq_comments(txt):
    out, depth, i = [], 0, 0
    while i < len(txt):
        if txt.startswith("(*", i):
            depth += 1; i += 2
        elif txt.startswith("*)", i) and depth > 0:
            depth -= 1; i += 2
        else:
            if depth == 0:
                out.append(txt[i])
            elif txt[i] == "\n":
                out.append("\n")
            i += 1
    return "".join(out)


def in_section(txt, lineno):
    depth = 0
    for line in txt.split("\n")[:lineno]:
        if re.match(r"\s*Section\s+\w+", line):
            depth += 1
        elif re.match(r"\s*End\s+\w+", line) and depth > 0:
            depth -= 1
    return depth > 0


def property_theorems(prop):
    """Names of the theorems stated in Properties/<prop>.v."""
    p = os.path.join(COQ, "theories", "Properties", prop + ".v")
    txt = strip_coq_comments(open(p).read())
    names = re.findall(r"^\s*(?:Theorem|Lemma|Corollary)\s+(\w+)", txt, re.M)
    # every proof in a Properties file must be closed by `exact <lemma>.`
    proofs = re.findall(r"Proof\.(.*?)Qed\.", txt, re.S)
    for pr in proofs:
        if not re.fullmatch(r"\s*exact\s+[\w.@]+\s*\.\s*", pr):
            raise MachineryError(f"Properties/{prop}.v: proof not closed by a single `exact`: {pr.strip()[:80]}")
    if len(proofs) != len(names):
        raise MachineryError(f"Properties/{prop}.v: {len(names)} statements but {len(proofs)} Qed-closed proofs")
    return names


def casedir(prop):
    d = os.path.join(COQ, "cases", prop)
    os.makedirs(d, exist_ok=True)
    return d


def coqc_file(path, timeout=600):
    rel = os.path.relpath(path, COQ)
    return sh(["timeout", str(timeout), "coqc", "-noglob", "-Q", "theories", "DV",
               "-w", "-deprecated-syntactic-definition,-notation-overridden", rel], cwd=COQ, timeout=timeout + 30)


def print_assumptions(prop, names):
    """Re-check, on this run, what every property theorem depends on. Returns {name: [axioms]}."""
    d = casedir(prop)
    path = os.path.join(d, f"assumptions_{prop}.v")
    lines = [f"From DV Require Import Properties.{prop}."]
    for n in names:
        lines.append(f'Goal True. idtac "@@BEGIN {n}". Abort.')
        lines.append(f"Print Assumptions {n}.")
    lines.append('Goal True. idtac "@@END". Abort.')
    open(path, "w").write("\n".join(lines) + "\n")
    p = coqc_file(path)
    if p.returncode != 0:
        raise MachineryError("Print Assumptions run failed:\n" + p.stdout + p.stderr)
    res, cur = {}, None
    for line in p.stdout.split("\n"):
        if line.startswith("@@BEGIN "):
            cur = line.split()[1]; res[cur] = []
        elif line.startswith("@@END"):
            cur = None
        elif cur and line.strip() and not line.startswith("Closed under") and not line.startswith("Axioms:"):
            m = re.match(r"^(\S+)\s*:", line)
            if m:
                res[cur].append(m.group(1))
    for f in os.listdir(d):
        if f.startswith("assumptions_") or f.startswith(".assumptions_"):
            os.remove(os.path.join(d, f))
    return res


# ------------------------------------------------------------------ Coq term printers

def cN(n):
    return f"{n}%N"

def cnat(n):
    assert 0 <= n < 20000, n
    return f"{n}%nat"

def cZ(n):
    return f"({n})%Z"

def cbool(b):
    return "true" if b else "false"

def clist(items):
    return "[" + "; ".join(items) + "]"

def cbytes(bs):
    return "[" + ";".join(str(b) for b in bs) + "]%N"

def copt(x):
    return "None" if x is None else f"(Some {x})"

def cstr(s):
    """Coq string literal for an ASCII python string."""
    assert all(32 <= ord(ch) < 127 for ch in s), s
    return '"' + s.replace('"', '""') + '"'


# ------------------------------------------------------------------ correspondence shards

def run_shards(prop, header, goals, per_shard=250, timeout=900):
    """goals: list of Gallina boolean expressions that must vm_compute to true.
    Each becomes `Goal <e> = true. Proof. vm_compute. reflexivity. Qed.` on its own line, so a
    failure is located by line number.  Returns sorted list of failing goal indices (first per shard)."""
    d = casedir(prop)
    shards = [goals[i:i + per_shard] for i in range(0, len(goals), per_shard)]
    hdr_lines = header.rstrip("\n").split("\n")

    def one(k):
        path = os.path.join(d, f"cases_{prop}_{k}.v")
        with open(path, "w") as f:
            f.write("\n".join(hdr_lines) + "\n")
            for g in shards[k]:
                assert "\n" not in g
                f.write(f"Goal ({g}) = true. Proof. vm_compute. reflexivity. Qed.\n")
        p = coqc_file(path, timeout=timeout)
        fail = None
        if p.returncode != 0:
            m = re.search(r"line (\d+), characters", p.stderr + p.stdout)
            if not m:
                raise MachineryError(f"coqc on {path} failed without a location:\n{p.stderr[-2000:]}")
            ln = int(m.group(1))
            idx = ln - len(hdr_lines) - 1
            if idx < 0:
                raise MachineryError(f"coqc failed in the header of {path}:\n{p.stderr[-2000:]}")
            fail = k * per_shard + idx
        for ext in (".v", ".vo", ".vok", ".vos", ".glob"):
            q = path[:-2] + ext
            if os.path.exists(q) and (fail is None or ext != ".v"):
                os.remove(q)
        aux = os.path.join(d, "." + os.path.basename(path)[:-2] + ".aux")
        if os.path.exists(aux):
            os.remove(aux)
        return fail

    t = time.time()
    with ThreadPoolExecutor(max_workers=NCPU) as ex:
        res = list(ex.map(one, range(len(shards))))
    log(f"[coq] {len(goals)} correspondence goals in {len(shards)} shards: {time.time()-t:.1f}s")
    return sorted(r for r in res if r is not None)


def goal_holds(prop, header, goal):
    return run_shards(prop, header, [goal], per_shard=1) == []


# ------------------------------------------------------------------ oracle

def oracle(area, cases, timeout=600):
    """Run the oracle binary on a list of JSON-able cases; returns list of parsed outputs."""
    d = os.path.join(BUILD, "oracle_in")
    os.makedirs(d, exist_ok=True)
    path = os.path.join(d, f"{area}_{os.getpid()}_{random.getrandbits(32)}.jsonl")
    with open(path, "w") as f:
        for c in cases:
            f.write(json.dumps(c) + "\n")
    try:
        p = sh([ORACLE, area, path], timeout=timeout)
    finally:
        os.remove(path)
    if p.returncode != 0:
        return None, p
    outs = [json.loads(l) for l in p.stdout.split("\n") if l.strip()]
    if len(outs) != len(cases):
        raise MachineryError(f"oracle {area}: {len(cases)} cases, {len(outs)} outputs\n{p.stderr[-2000:]}")
    return outs, p


def oracle_each(area, cases, timeout=60):
    """Run cases one per process (used when a batch crashed, to find the crashing case)."""
    res = []
    for c in cases:
        o, p = oracle(area, [c], timeout=timeout)
        res.append((o[0] if o else None, p))
    return res


# ------------------------------------------------------------------ findings / violations / evidence

def known_findings(prop):
    path = os.path.join(VERIF, "known_findings.txt")
    out = []
    if os.path.exists(path):
        for line in open(path):
            m = re.match(r"finding:\s+property=(\S+)\s+key=(\S+)\s+(.*)", line.strip())
            if m and m.group(1) == prop:
                out.append((m.group(2), m.group(3)))
    return out


class Ctx:
    def __init__(self, prop, tier, seed):
        self.prop, self.tier, self.seed = prop, tier, seed
        self.rng = random.Random(seed)
        self.t0 = time.time()
        rd = os.path.join(VERIF, "replays")
        if os.path.isdir(rd):
            for f in os.listdir(rd):
                if f.startswith(prop + "-"):
                    os.remove(os.path.join(rd, f))
        self.violations = []       # (key, replay_obj, found_input)
        self.known_hits = []
        self.cov = {}
        self.assumptions = []

    def quick(self):
        return self.tier == "quick"

    def violation(self, key, replay, found_input=True):
        """key: stable identifier of the failing input/call site (matched against known findings)."""
        for k, what in known_findings(self.prop):
            if k == key:
                if key not in [h[0] for h in self.known_hits]:
                    self.known_hits.append((k, what))
                return
        self.violations.append((key, replay, found_input))

    def finish(self, evidence_cov, assumptions):
        wall = time.time() - self.t0
        for k, what in self.known_hits:
            print(f"KNOWN-FINDING: property={self.prop} {what}")
        ev = {
            "property_id": self.prop, "tier": self.tier, "seed": self.seed, "level": "proof",
            "coverage": evidence_cov, "assumptions": assumptions, "wall_s": round(wall, 2),
            "violations": len(self.violations),
        }
        os.makedirs(os.path.join(VERIF, "evidence"), exist_ok=True)
        with open(os.path.join(VERIF, "evidence", self.prop + ".json"), "w") as f:
            json.dump(ev, f, indent=1, sort_keys=True)
            f.write("\n")
        if not self.violations:
            log(f"[{self.prop}] OK in {wall:.1f}s")
            return 0
        os.makedirs(os.path.join(VERIF, "replays"), exist_ok=True)
        for i, (key, replay, found) in enumerate(self.violations[:5]):
            path = os.path.join(VERIF, "replays", f"{self.prop}-{self.seed}-{i}.json")
            with open(path, "w") as f:
                json.dump({"property": self.prop, "key": key, "seed": self.seed, "tier": self.tier,
                           "failing_input_found": found, "replay": replay,
                           "replay_cmd": f"./check {self.prop} --replay {path}"}, f, indent=1)
                f.write("\n")
            print(f"VIOLATION property={self.prop} replay={path}" + ("" if found else " no-failing-input-found"))
        return 1


TRUSTED_BASE_COMMON = [
    "Coq 8.16.1 kernel and its vm_compute machine (no native_compute)",
    "gen/common.py + the property's generator/parsers (python) that print cases and observations as Gallina terms",
    "harness/oracle (Rust) that drives the real implementation and prints canonical observations",
    "rustc/cargo as executors of /repo's current working tree",
]


def standard_proof_phase(ctx, prop, cone_targets):
    """Steps 2-3 of the flow: build the cone, audit, Print Assumptions.
    Returns (names, assumptions dict) or records a no-input violation and returns None."""
    ok, blog = build_coq(cone_targets)
    if not ok:
        m = re.search(r'File "([^"]+)", line (\d+)', blog)
        where = f"{m.group(1)}:{m.group(2)}" if m else "unknown"
        ctx.violation("coq-build:" + where,
                      {"broken": "Coq build of the property's cone", "where": where, "log_tail": blog[-3000:]},
                      found_input=False)
        return None
    bad = audit_sources()
    if bad:
        raise MachineryError("forbidden declarations in the Coq development:\n" + "\n".join(bad))
    names = property_theorems(prop)
    ass = print_assumptions(prop, names)
    for n in names:
        if n not in ass:
            raise MachineryError(f"no Print Assumptions result for {n}")
        extra = [a for a in ass[n] if a not in AXIOM_ALLOW and a.split(".")[-1] not in AXIOM_ALLOW]
        if extra:
            raise MachineryError(f"{n} depends on axioms outside the allowlist: {extra}")
    if ctx.tier == "thorough":
        # the independent checker re-checks the compiled property file and everything it depends on
        p = sh(["coqchk", "-o", "-silent", "-Q", "theories", "DV", f"DV.Properties.{prop}"], cwd=COQ, timeout=3000)
        m = re.search(r"\* Axioms:(.*?)\n\s*\n\* Constants", p.stdout + p.stderr, re.S)
        if p.returncode != 0 or not m:
            ctx.violation("coqchk", {"broken": "coqchk rejects the compiled development of " + prop, "log_tail": (p.stdout + p.stderr)[-2000:]}, found_input=False)
            return None
        axioms = [a.strip() for a in m.group(1).split("\n") if a.strip() and a.strip() != "<none>"]
        extra = [a for a in axioms if a not in AXIOM_ALLOW and a.split(".")[-1] not in AXIOM_ALLOW]
        if extra:
            raise MachineryError(f"coqchk: {prop} depends on axioms outside the allowlist: {extra}")
        ass = dict(ass); ass["coqchk -o (independent re-check of the .vo files)"] = axioms
    return names, ass


# ------------------------------------------------------------------ generic property runner

def generic_shrink(case, still_fails, list_fields, budget=40):
    cur, changed = case, True
    while changed and budget > 0:
        changed = False
        for field in list_fields:
            if not isinstance(cur.get(field), list):
                continue
            i = 0
            while i < len(cur[field]) and budget > 0:
                cand = dict(cur); cand[field] = cur[field][:i] + cur[field][i + 1:]
                budget -= 1
                if still_fails(cand):
                    cur, changed = cand, True
                else:
                    i += 1
    return cur


class Spec:
    """What a property module provides to run_property()."""
    prop = None            # "C12"
    cone = None            # [".../Properties/C12.v"]
    header = None          # Coq header of case shards
    area = None            # oracle area
    list_fields = ()       # case fields the shrinker may shorten
    per_shard = 250
    checker_cmd = None
    modelled = None        # "Modelled, not verified: ..."
    rule = None
    assumptions = ()

    def gen_cases(self, ctx): raise NotImplementedError
    def direct_check(self, case, out): return None      # property text on the implementation's output
    def goal_of(self, case, out): raise NotImplementedError   # Gallina boolean that must compute to true
    def nontrivial_key(self, case, out): return json.dumps(case, sort_keys=True)
    def key_of(self, case): return case.get("kind", "case")   # stable key for known findings
    def run_oracle(self, cases): return oracle(self.area, cases)
    def extra(self, ctx, cases, outs): return {}             # more coverage keys / extra violations
    def sample(self, case, out): return {"case": case, "observed": out}


def run_property(spec, ctx, replay=None):
    build_harness()
    phase = standard_proof_phase(ctx, spec.prop, spec.cone)
    names, ass = phase if phase else ([], {})
    corpus = []
    cdir = os.path.join(VERIF, "corpus", spec.prop)
    if os.path.isdir(cdir):
        for f in sorted(os.listdir(cdir)):
            if f.endswith(".jsonl"):
                corpus += [json.loads(l) for l in open(os.path.join(cdir, f)) if l.strip()]
    if replay and "case" in replay.get("replay", {}):
        cases = [replay["replay"]["case"]]
    else:
        cases = corpus + spec.gen_cases(ctx)

    outs, p = spec.run_oracle(cases)
    direct, corr = [], []
    if outs is None:
        outs = []
        for i, c in enumerate(cases):
            o, pp = spec.run_oracle([c])
            outs.append(o[0] if o else None)
            if o is None:
                direct.append((i, f"implementation crashed: rc={pp.returncode} {pp.stderr.strip()[-400:]}"))
                if len(direct) >= 3:
                    outs += [None] * (len(cases) - len(outs))
                    break
    live = [i for i, o in enumerate(outs) if o is not None]
    for i in live:
        m = spec.direct_check(cases[i], outs[i])
        if m:
            direct.append((i, m))
    goals = {i: spec.goal_of(cases[i], outs[i]) for i in live}
    remaining = list(live)
    for _ in range(4):
        fails = run_shards(spec.prop, spec.header, [goals[i] for i in remaining], per_shard=spec.per_shard)
        if not fails:
            break
        bad = [remaining[f] for f in fails]
        corr += bad
        remaining = [i for i in remaining if i not in bad]

    def fails_direct(c, crash_mode=False):
        o, _ = spec.run_oracle([c])
        if o is None:
            return crash_mode          # a candidate that merely crashes the oracle is ill-formed, not a smaller witness
        return (not crash_mode) and spec.direct_check(c, o[0]) is not None

    def fails_corr(c):
        o, _ = spec.run_oracle([c])
        return o is not None and not goal_holds(spec.prop, spec.header, spec.goal_of(c, o[0]))

    seen = set()
    for i, msg in direct:
        k = spec.key_of(cases[i])
        if k in seen or len(seen) >= 3:
            continue
        seen.add(k)
        crash = msg.startswith("implementation crashed")
        small = generic_shrink(cases[i], lambda c: fails_direct(c, crash), spec.list_fields)
        o, _ = spec.run_oracle([small])
        m2 = (spec.direct_check(small, o[0]) if o else msg) or msg
        ctx.violation("direct:" + k, {"case": small, "what": m2, "observed": o[0] if o else None}, True)
    if not direct:
        for i in corr:
            k = spec.key_of(cases[i])
            if k in seen or len(seen) >= 3:
                continue
            seen.add(k)
            small = generic_shrink(cases[i], fails_corr, spec.list_fields)
            o, _ = spec.run_oracle([small])
            ctx.violation("corr:" + k,
                          {"case": small, "observed": o[0] if o else None,
                           "broken": f"correspondence goal `{spec.goal_of(small, o[0])[:80]}...` of {spec.header.splitlines()[-1]}: "
                                     "the model no longer reproduces what the implementation does; the property's direct check "
                                     "found no failing input"}, False)
    keys, kinds = set(), {}
    for i in live:
        k = spec.nontrivial_key(cases[i], outs[i])
        if k is not None:
            keys.add(k if isinstance(k, (str, tuple)) else json.dumps(k, sort_keys=True))
        kk = cases[i].get("kind", "case")
        kinds[kk] = kinds.get(kk, 0) + 1
    extra = spec.extra(ctx, cases, outs) or {}
    nth = len(names)
    cov = {
        "obligations": nth + len(cases) + extra.get("obligations", 0),
        "discharged": (nth if phase else 0) + len(cases) - len(corr) - (len(cases) - len(live)) + extra.get("discharged", 0),
        "checker_cmd": spec.checker_cmd or f"make -C coq theories/Properties/{spec.prop}.vo (coqc, full .vo build) + coqc on generated "
                       f"coq/cases/{spec.prop}/cases_*.v (each goal closed by vm_compute; reflexivity)",
        "trusted_base": TRUSTED_BASE_COMMON + [spec.modelled,
            "Print Assumptions: " + "; ".join(f"{n}: {'closed under the global context' if not a else ','.join(a)}" for n, a in ass.items())],
        "theorems": names,
        "evaluations": len(cases), "distinct_nontrivial": len(keys), "rule": spec.rule,
        "traces_validated_against_impl": len(live) - len(corr),
        "kinds": kinds, "exhaustive": False,
        "samples": [spec.sample(cases[i], outs[i]) for i in (live[:1] + live[len(live) // 2:len(live) // 2 + 1] + live[-1:])],
    }
    for k, v in extra.items():
        if k not in ("obligations", "discharged"):
            cov[k] = v
    return ctx.finish(cov, list(spec.assumptions))


def batch_evidence(ctx, prop, phase, goals, fails, evaluations, distinct_nontrivial, rule, modelled, samples, assumptions, extra=None):
    """Evidence + exit for properties whose correspondence is one end-to-end batch rather than per-case oracle calls."""
    names, ass = phase if phase else ([], {})
    cov = {
        "obligations": len(names) + len(goals),
        "discharged": (len(names) if phase else 0) + len(goals) - len(fails),
        "checker_cmd": f"make -C coq theories/Properties/{prop}.vo (coqc, full .vo build) + coqc on generated coq/cases/{prop}/cases_*.v "
                       "(each goal closed by vm_compute; reflexivity)",
        "trusted_base": TRUSTED_BASE_COMMON + [modelled,
            "Print Assumptions: " + "; ".join(f"{n}: {'closed under the global context' if not a else ','.join(a)}" for n, a in ass.items())],
        "theorems": names,
        "evaluations": evaluations, "distinct_nontrivial": distinct_nontrivial, "rule": rule,
        "traces_validated_against_impl": len(goals) - len(fails),
        "exhaustive": False, "samples": samples,
    }
    cov.update(extra or {})
    return ctx.finish(cov, list(assumptions))
