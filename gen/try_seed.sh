#!/bin/bash
# try_seed.sh <seed_id> <prop> [<prop>...] : apply a seeded change to /repo, run the checks, undo it.
sid=$1; shift
cd /verif
git -C /repo apply /verif/seeded/$sid/patch.diff || exit 3
for p in "$@"; do
  ./check $p --tier quick > /tmp/try_${sid}_$p.log 2>&1; echo "$sid $p rc=$? $(grep -c VIOLATION /tmp/try_${sid}_$p.log) violation lines: $(grep VIOLATION /tmp/try_${sid}_$p.log | head -1)"
done
git -C /repo checkout -- .
git -C /repo status --short | head
