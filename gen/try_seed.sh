#!/bin/bash
# try_seed.sh <seed_id> <prop> [<prop>...] : apply a seeded change to /repo, run the checks, undo it.
# Evidence files are saved and restored: evidence must only ever describe runs on the unchanged tree.
sid=$1; shift
cd /verif
git -C /repo apply /verif/seeded/$sid/patch.diff || exit 3
for p in "$@"; do
  cp evidence/$p.json /tmp/evidence_$p.bak 2>/dev/null
  ./check $p --tier quick > /tmp/try_${sid}_$p.log 2>&1; echo "$sid $p rc=$? $(grep -c VIOLATION /tmp/try_${sid}_$p.log) violation lines: $(grep VIOLATION /tmp/try_${sid}_$p.log | head -1)"
  cp /tmp/evidence_$p.bak evidence/$p.json 2>/dev/null
done
git -C /repo checkout -- .
git -C /repo status --short | head
