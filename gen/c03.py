"""C03 — destroyed exactly once (DESIGN §5 C03). Runtime part: histories over the real owners."""
from common import *

KINDS = ("res", "opt", "box", "owned", "cb")


class C03(Spec):
    prop = "C03"
    cone = ["theories/Properties/C03.v"]
    header = "From Coq Require Import List Arith Bool.\nImport ListNotations.\nFrom DV Require Import Own.Model."
    area = "own"
    list_fields = ("ops",)
    modelled = ("Modelled, not verified: ownership behaviour of runtime/src/result.rs, slices.rs (owned slices), callback.rs transcribed "
                "into Own/Model.v as token moves/drops; real allocator state, out-of-bounds arithmetic and leaks inside foreign code are "
                "NOT modelled (partial: exhibited only by running the implementation)")
    rule = ("seeded well-typed histories (length <= 12 quick / 40 thorough) over 6 registers of create(Result Ok/Err, Option Some/None, "
            "Box<[T]>, NULL owned slice, callback with/without destructor) / From / Into / Clone / as_ref / drop, all live registers dropped "
            "at the end; run on the real runtime types with a drop-logging payload; per-operation drop logs compared in Coq. "
            "non-trivial = history contains a conversion or clone of a payload-carrying value; distinct by op list")
    assumptions = ("foreign code honours the API contract (each owner destroyed once by the foreign side; modelled as linear register use)",
                   "memory safety beyond drop counting (UAF/OOB in real memory) is not proved; partial")

    def gen_cases(self, ctx):
        rng, cases = ctx.rng, []
        n = 2000 if ctx.quick() else 60000
        maxlen = 12 if ctx.quick() else 40
        # the D1 witness and friends first
        cases.append({"ops": [["mk", 0, True], ["from", 0], ["into", 0], ["drop", 0]]})
        cases.append({"ops": [["some", 0], ["from", 0], ["into", 0], ["from", 0], ["into", 0], ["drop", 0]]})
        cases.append({"ops": [["mk", 0, False], ["from", 0], ["clone", 0, 1], ["into", 1], ["drop", 0], ["drop", 1]]})
        for _ in range(n):
            regs, ops = {}, []
            for _ in range(rng.randint(1, maxlen)):
                free = [r for r in range(6) if r not in regs]
                choices = []
                if free:
                    choices += ["create"] * 3
                if regs:
                    choices += ["act"] * 5 + ["drop"] * 2
                c = rng.choice(choices)
                if c == "create":
                    r = rng.choice(free)
                    k = rng.choice(["mk", "mk", "some", "none", "mkunit", "mkunit", "mkbox", "nullowned", "mkcb"])
                    if k == "mk":
                        ops.append(["mk", r, rng.random() < 0.5]); regs[r] = ("std", True)
                    elif k == "some":
                        ops.append(["some", r]); regs[r] = ("std", True)
                    elif k == "mkunit":
                        ok = rng.random() < 0.4
                        ops.append(["mkunit", r, ok]); regs[r] = ("std", not ok)
                    elif k == "none":
                        ops.append(["none", r]); regs[r] = ("std", False)
                    elif k == "mkbox":
                        ops.append(["mkbox", r]); regs[r] = ("box", True)
                    elif k == "nullowned":
                        ops.append(["nullowned", r]); regs[r] = ("owned", False)
                    else:
                        ops.append(["mkcb", r, rng.random() < 0.6]); regs[r] = ("cb", True)
                elif c == "drop":
                    r = rng.choice(list(regs)); ops.append(["drop", r]); del regs[r]
                else:
                    r = rng.choice(list(regs)); kind, pay = regs[r]
                    if kind == "std":
                        ops.append(["from", r]); regs[r] = ("dip", pay)
                    elif kind == "dip":
                        a = rng.choice(["into", "into", "clone", "asref"])
                        free = [x for x in range(6) if x not in regs]
                        if a == "clone" and free:
                            r2 = rng.choice(free); ops.append(["clone", r, r2]); regs[r2] = ("dip", pay)
                        elif a == "asref":
                            ops.append(["asref", r])
                        else:
                            ops.append(["into", r]); regs[r] = ("std", pay)
                    elif kind == "box":
                        ops.append(["box2owned", r]); regs[r] = ("owned", pay)
                    elif kind == "owned":
                        ops.append(rng.choice([["owned2box", r], ["asref", r]]))
                        if ops[-1][0] == "owned2box":
                            regs[r] = ("box", pay)
                    else:
                        ops.append(["asref", r])
            for r in sorted(regs):
                ops.append(["drop", r])
            cases.append({"ops": ops})
        return cases

    def direct_check(self, case, out):
        flat = [t for l in out["logs"] for t in l] + out["tail"]
        if out["tail"]:
            return f"tokens {out['tail']} dropped only at process end although every owner was dropped explicitly"
        for tid, kind in out["created"]:
            n = flat.count(tid)
            if kind == "callback-nodtor":
                if n != 0:
                    return f"callback without destructor released {n} times"
            elif n != 1:
                return f"{kind} token {tid} dropped {n} times (must be exactly once); history {case['ops']}"
        return None

    def goal_of(self, case, out):
        m = {"mk": lambda o: f"OMk {o[1]} {cbool(o[2])}", "some": lambda o: f"OMk {o[1]} true", "none": lambda o: f"OMkNone {o[1]}",
             "mkunit": lambda o: f"OMkUnitOk {o[1]}" if o[2] else f"OMk {o[1]} false",
             "from": lambda o: f"OFrom {o[1]}", "into": lambda o: f"OInto {o[1]}", "clone": lambda o: f"OClone {o[1]} {o[2]}",
             "asref": lambda o: f"OAsRef {o[1]}", "mkbox": lambda o: f"OMkBox {o[1]}", "box2owned": lambda o: f"OBoxToOwned {o[1]}",
             "owned2box": lambda o: f"OOwnedToBox {o[1]}", "nullowned": lambda o: f"OMkNullOwned {o[1]}",
             "mkcb": lambda o: f"OMkCb {o[1]} {cbool(o[2])}", "drop": lambda o: f"ODrop {o[1]}"}
        ops = clist([m[o[0]](o) for o in case["ops"]])
        obs = clist(["[" + ";".join(str(t) for t in l) + "]" for l in out["logs"]])
        return f"agree_own {ops}%nat {obs}%nat"

    def nontrivial_key(self, case, out):
        names = [o[0] for o in case["ops"]]
        if any(n in names for n in ("into", "clone", "owned2box")) and out["created"]:
            return json.dumps(case["ops"])
        return None

    def key_of(self, case):
        names = [o[0] for o in case["ops"]]
        return "into" if "into" in names else "history"

    def extra(self, ctx, cases, outs):
        import c03_e2e
        goals, nh, nops = c03_e2e.run(ctx)
        cnh, cnops = c03_e2e.run_cpp_callbacks(ctx)
        c03_e2e.run_cpp_owned_slices(ctx)
        fails = run_shards(self.prop, self.header, goals) if goals else []
        if fails and not ctx.violations:
            ctx.violation("e2e:corr", {"broken": "end-to-end lifecycle history does not match Own/Model.v: " + goals[fails[0]][:400]}, False)
        return {"obligations": len(goals), "discharged": len(goals) - len(fails), "e2e_histories": nh, "e2e_operations": nops,
                "cpp_callback_histories": cnh, "cpp_callback_operations": cnops,
                "e2e_sanitizer": "gcc -fsanitize=address (incl. LeakSanitizer) over the macro-built staticlib"}


def check(ctx, replay=None):
    return run_property(C03(), ctx, replay)
