"""End-to-end plumbing: the real diplomat-tool binary, bridge crates built with the real proc macro,
gcc/g++/node drivers.  Everything lives under /verif/.build."""
import hashlib, os, shutil, subprocess
from common import *

TOOL_TARGET = os.path.join(BUILD, "tool_target")
TOOL = os.path.join(TOOL_TARGET, "debug", "diplomat-tool")
E2E = os.path.join(BUILD, "e2e")
E2E_TARGET = os.path.join(BUILD, "e2e_target")


def build_tool():
    """cargo build of /repo's diplomat-tool binary from the current working tree (guard off: it is the shipped tool)."""
    with lock("cargo_tool"):
        p = sh(["cargo", "build", "--offline", "-q", "--manifest-path", os.path.join(REPO, "Cargo.toml"),
                "-p", "diplomat-tool", "--target-dir", TOOL_TARGET], timeout=1500)
        if p.returncode != 0:
            raise MachineryError("diplomat-tool build failed\n" + p.stderr[-3000:])
    return TOOL


def run_tool(backend, entry, outdir, config=(), config_file=None, cwd=None, timeout=120, extra_args=(), backtrace=False):
    """Runs the real CLI in a child process. Returns CompletedProcess (rc, stdout, stderr)."""
    shutil.rmtree(outdir, ignore_errors=True)
    os.makedirs(outdir, exist_ok=True)
    cmd = [TOOL, backend, outdir, "--entry", entry, "--silent"]
    cmd += ["--config-file", config_file or os.path.join(outdir, "__no_config__.toml")]
    for c in config:
        cmd += ["--config", c]
    cmd += list(extra_args)
    env = dict(ENV, RUST_BACKTRACE="1" if backtrace else "0", NO_COLOR="1")
    try:
        return sh(cmd, cwd=cwd or outdir, timeout=timeout, env=env)
    except subprocess.TimeoutExpired as e:
        # the tool did not terminate: reported like a crash (the output so far is kept)
        err = e.stderr.decode("utf-8", "replace") if isinstance(e.stderr, bytes) else (e.stderr or "")
        return subprocess.CompletedProcess(cmd, -9, "", err + f"\nfatal runtime error: no termination within {timeout} s, killed")


def panic_before_lowering(backend, entry, outdir, **kw):
    """re-runs a panicking invocation with a backtrace: True when the panic happened while the source was still being
    parsed into the AST (ast::File::from), i.e. before lowering started"""
    q = run_tool(backend, entry, outdir, backtrace=True, **kw)
    return "diplomat_core::ast::modules::File as core::convert::From" in q.stderr


def classify_tool(p):
    """ok | lowering-error | backend-error | panic | other"""
    if p.returncode == 0:
        return "ok"
    if "panicked at" in p.stderr:
        return "panic"
    if p.returncode < 0 or "fatal runtime error" in p.stderr or "has overflowed its stack" in p.stderr:
        return "panic"          # killed by a signal: stack overflow, abort, or our own kill after a hang
    if "Lowering error in" in p.stderr:
        return "lowering-error"
    if "Found errors whilst generating" in p.stderr:
        return "backend-error"
    return "other"


def panic_site(stderr):
    """(file, slug): where and why the tool panicked, stable under unrelated edits (no line numbers, no type names)"""
    import re
    m = re.search(r"panicked at ([^\s:]+):(\d+):\d+:\n([^\n]*)", stderr)
    if not m:
        if "has overflowed its stack" in stderr: return "runtime", "stack-overflow"
        if "no termination within" in stderr: return "runtime", "no-termination"
        return "?", "?"
    msg = re.sub(r'"[^"]*"|`[^`]*`|\'[^\']*\'|\d+', "", m.group(3))
    slug = re.sub(r"[^A-Za-z]+", "-", msg).strip("-")[:48]
    return m.group(1), slug


CARGO_TOML = """[package]
name = "{name}"
version = "0.0.0"
edition = "2021"
publish = false

[lib]
crate-type = [{crate_types}]
path = "src/lib.rs"

[dependencies]
diplomat = {{ path = "{repo}/macro" }}
diplomat-runtime = {{ path = "{repo}/runtime" }}

[workspace]

[profile.dev]
debug = false
opt-level = 0
"""


def bridge_crate(name, lib_rs, crate_types=("staticlib",)):
    """Writes (only if changed) and builds a bridge crate with the real proc macro. Returns (dir, staticlib path or None, CompletedProcess)."""
    d = os.path.join(E2E, name)
    os.makedirs(os.path.join(d, "src"), exist_ok=True)
    def put(path, txt):
        if not os.path.exists(path) or open(path).read() != txt:
            open(path, "w").write(txt)
    put(os.path.join(d, "Cargo.toml"), CARGO_TOML.format(name=name, repo=REPO, crate_types=", ".join(f'"{c}"' for c in crate_types)))
    put(os.path.join(d, "src", "lib.rs"), lib_rs)
    shutil.copyfile(os.path.join(REPO, "Cargo.lock"), os.path.join(d, "Cargo.lock"))
    with lock("cargo_e2e"):
        p = sh(["cargo", "build", "--offline", "-q", "--target-dir", E2E_TARGET], cwd=d, timeout=1500,
               env=dict(ENV, RUSTFLAGS="-Awarnings"))
    lib = os.path.join(E2E_TARGET, "debug", f"lib{name}.a")
    return d, (lib if p.returncode == 0 and os.path.exists(lib) else None), p


LINK = ["-lpthread", "-ldl", "-lm"]


def cc_run(src_path, include_dirs, lib, exe, std="c11", extra=(), timeout=120, cxx=False):
    comp = ["g++", f"-std={std}"] if cxx else ["gcc", f"-std={std}"]
    cmd = comp + ["-O0", "-w"] + [f"-I{i}" for i in include_dirs] + [src_path] + ([lib] if lib else []) + LINK + list(extra) + ["-o", exe]
    c = sh(cmd, timeout=timeout)
    if c.returncode != 0:
        return c, None
    r = sh([exe], timeout=timeout)
    return c, r


def syntax_only(path, include_dirs, std, cxx, timeout=120):
    comp = ["g++", f"-std={std}", "-x", "c++"] if cxx else ["gcc", f"-std={std}", "-x", "c"]
    return sh(comp + ["-fsyntax-only", "-w"] + [f"-I{i}" for i in include_dirs] + [path], timeout=timeout)


def nm_symbols(lib):
    p = sh(["nm", "-g", "--defined-only", lib], timeout=120)
    syms = set()
    for line in p.stdout.split("\n"):
        parts = line.split()
        if len(parts) == 3 and parts[1] in ("T", "t", "W"):
            syms.add(parts[2])
    return syms
