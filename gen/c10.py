"""C10 — one wire encoding for Option and Result (DESIGN §5 C10)."""
from common import *
import abigen, abi_run, tablegen, c01

PROP = "C10"


def check(ctx, replay=None):
    build_harness()
    tablegen.main()
    phase = standard_proof_phase(ctx, PROP, ["theories/Properties/C10.v"])
    import e2e
    e2e.build_tool()
    goals, meta, nb = [], [], (1 if ctx.quick() else 10)
    ncalls, nontriv, sample, viol = 0, set(), [], 0
    for bi in range(nb):
        # the bridge is biased to optional / fallible shapes; all paired-spelling methods are included
        res = abi_run.run(ctx, f"c10b{bi % 2}", 30 if ctx.quick() else 50, per_method=4, paired=True)
        viol += c01.analyse(ctx, res, goals, meta, want_pairs=True)
        mod = res["mod"]
        for ci, call in enumerate(res.get("calls", [])):
            ncalls += 1
            m = call["m"]
            if m["ret"][0] in ("opt", "res", "oboxopt", "orefopt") or any(t[0] in ("opt", "oopt", "optslice", "optstr") for _, t in m["params"]):
                nontriv.add(m["name"] + json.dumps(call["args"]) + str(call["sel"]) + str(bi))
        # paired spellings behave identically: same arguments, same selector -> same observations
        if "records" in res:
            by = {}
            for ci, call in enumerate(res["calls"]):
                if "pair" in call["m"]:
                    by.setdefault((call["m"]["pair"], call["m"]["name"].split("_")[1]), []).append((call, res["records"].get(ci)))
            sample += [{"method": c["m"]["name"], "args": c["args"], "observed": r} for (c, r) in list(by.values())[0][:2]] if by and bi == 0 else []
    # optional borrowed slices / strings in return position, optional write-outs: {payload, is_ok} records returned by value
    import c01_extra
    ncalls += c01_extra.run(ctx, crate="c10x")
    import c10_extra
    ncalls += c10_extra.run_nested_options(ctx)
    ncalls += c10_extra.run(ctx, ("c", "cpp"), ("c++17",) if ctx.quick() else ("c++17", "c++20"), goals=goals)
    meta += [("unit-arms-layout", "record of a result whose arms carry no bytes (c10_extra)")] * (len(goals) - len(meta))
    fails = run_shards(PROP, c01.HEADER, goals) if goals else []
    if fails and not ctx.violations:
        for f in fails[:3]:
            ctx.violation(f"corr:{meta[f][0]}", {"item": meta[f][1], "broken": "correspondence goal " + goals[f][:500]}, False)
    return batch_evidence(
        ctx, PROP, phase, goals, fails, ncalls + len(goals), len(nontriv),
        "%d generated bridge(s); besides random methods, for every payload kind (9 primitives, every enum, every struct) a pair of methods that "
        "differ only in the spelling std Option / DiplomatOption, in parameter and return position; every Option/Result return with both arms, unit "
        "arms, stale payload bytes in None arguments; observed through the compiled C driver: {payload, is_ok} of every result, NULL-ness of pointer "
        "options, identical declarations for the two spellings, identical behaviour; plus a fixed bridge whose Option / Result arms carry no bytes (unit, "
        "field-less structs) observed through C and C++ drivers (record size 1, is_ok at offset 0, both outcomes). Coq goals: prototypes, result typedefs (union members present / "
        "absent), struct layouts; and the fixed extra-shapes bridge (Option<&str> / Option<&[T]> / Option<()> write-out returns, both outcomes) through a C caller written against the documented records. non-trivial = call involving an optional or fallible type" % nb,
        "Modelled, not verified: see C01 (Abi/Model.v); DiplomatResult/DiplomatOption runtime conversions are covered by C03's model; the C compiler's "
        "union layout is trusted (SysV ABI)",
        sample or [{"note": "no paired calls"}], ["struct-field position of DiplomatOption is exercised through the generated structs' layouts"],
        {"bridges": nb, "calls_executed": ncalls})
