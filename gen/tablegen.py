#!/usr/bin/env python3
"""Tie A: translate the table-shaped parts of /repo's current source into coq/theories/gen/Tables.v.
Accepts only the syntactic shapes that occur there; anything else is a translator failure."""
import os, re, sys
sys.path.insert(0, os.path.dirname(os.path.abspath(__file__)))
from common import REPO, COQ, MachineryError

BACKENDS = [("c", "c/mod.rs"), ("cpp", "cpp/mod.rs"), ("js", "js/mod.rs"), ("dart", "dart/mod.rs"),
            ("kotlin", "kotlin/mod.rs"), ("nanobind", "nanobind/mod.rs"), ("demo_gen", "demo_gen/mod.rs")]


def fn_body(txt, name):
    m = re.search(r"fn\s+" + name + r"\s*(?:<[^>(]*>)?\s*\([^)]*\)\s*(->\s*[^{;]+)?\{", txt)
    if not m:
        raise MachineryError(f"tablegen: fn {name} not found")
    i, depth = m.end(), 1
    while depth:
        depth += {"{": 1, "}": -1}.get(txt[i], 0)
        i += 1
    return txt[m.end():i - 1]


def support_fields():
    txt = open(os.path.join(REPO, "core/src/hir/attrs.rs")).read()
    m = re.search(r"pub struct BackendAttrSupport \{(.*?)\n\}", txt, re.S)
    fields = re.findall(r"pub (\w+): bool,", m.group(1))
    if not re.search(r"#\[derive\([^)]*Default[^)]*\)\]\s*pub struct BackendAttrSupport", txt):
        raise MachineryError("tablegen: BackendAttrSupport no longer derives Default (all-false start assumed)")
    # names accepted by `supports = ...` (is_name_value) and by check_string
    nv = re.findall(r'"(\w+)" => (\w+),', fn_body(txt, "is_name_value"))
    for a, b in nv:
        if a != b:
            raise MachineryError(f"tablegen: supports = {a} reads field {b}")   # a changed mapping is reported, not hidden
    return fields, [a for a, _ in nv]


def attr_support(path, fields):
    txt = open(os.path.join(REPO, "tool/src", path)).read()
    body = fn_body(txt, "attr_support")
    stmts = [s.strip() for s in re.sub(r"//[^\n]*", "", body).split(";") if s.strip()]
    base = re.fullmatch(r"let mut a = (\w+)::attr_support\(\)", stmts[0])
    if stmts[-1] != "a" or not (stmts[0] == "let mut a = BackendAttrSupport::default()" or base):
        raise MachineryError(f"tablegen: unexpected shape of attr_support() in {path}: {stmts[0]!r} .. {stmts[-1]!r}")
    vals = dict(attr_support(base.group(1) + "/mod.rs", fields)) if base else {f: False for f in fields}
    for s in stmts[1:-1]:
        m = re.fullmatch(r"a\.(\w+)\s*=\s*(true|false)", s)
        if not m or m.group(1) not in vals:
            raise MachineryError(f"tablegen: unrecognised statement in attr_support() of {path}: {s!r}")
        vals[m.group(1)] = m.group(2) == "true"
    return vals


def other_names():
    """gen(): demo_gen also answers to the name js"""
    txt = open(os.path.join(REPO, "tool/src/lib.rs")).read()
    out = {}
    for lang, names in re.findall(r'"(\w+)" => \{[^}]*?other_backend_names = vec!\[([^\]]*)\]', txt, re.S):
        out[lang] = re.findall(r'"(\w+)"', names)
    return out


PRIM_PATS = [("Bool", "Bool"), ("Char", "Char"), ("Byte", "Byte"),
             ("I8", "Int(IntType::I8)"), ("U8", "Int(IntType::U8)"), ("I16", "Int(IntType::I16)"), ("U16", "Int(IntType::U16)"),
             ("I32", "Int(IntType::I32)"), ("U32", "Int(IntType::U32)"), ("I64", "Int(IntType::I64)"), ("U64", "Int(IntType::U64)"),
             ("Isize", "IntSize(IntSizeType::Isize)"), ("Usize", "IntSize(IntSizeType::Usize)"),
             ("F32", "Float(FloatType::F32)"), ("F64", "Float(FloatType::F64)")]


def prim_match_table(path, fn, after=None, fallback=None):
    """a `match prim { PrimitiveType::X | PrimitiveType::Y => "lit", ... }` function -> {prim: literal}"""
    body = fn_body(open(os.path.join(REPO, path)).read(), fn)
    if after:
        if after not in body:
            raise MachineryError(f"tablegen: {fn}: marker {after!r} not found")
        body = body.split(after, 1)[1]
    arms = re.findall(r"((?:PrimitiveType::[\w:()]+\s*\|?\s*)+)=>\s*\"([^\"]*)\"", body)
    out = {}
    for pats, lit in arms:
        for pat in re.findall(r"PrimitiveType::([\w:()]+)", pats):
            for name, rust in PRIM_PATS:
                if rust == pat:
                    if name in out:
                        raise MachineryError(f"tablegen: {fn}: {name} matched twice")
                    out[name] = lit
    if fallback:
        if not re.search(r"prim\s*=>\s*self\." + fallback[0] + r"\(prim\)", body):
            raise MachineryError(f"tablegen: {fn}: expected a fallback arm to {fallback[0]}")
        for n, v in fallback[1].items():
            out.setdefault(n, v)
    missing = [n for n, _ in PRIM_PATS if n not in out]
    if missing:
        raise MachineryError(f"tablegen: {fn} in {path}: no string arm for {missing}")
    return out


def capi_rows():
    txt = open(os.path.join(REPO, "tool/templates/c/capi.h.jinja")).read()
    rows = re.findall(r"^MAKE_SLICES_AND_OPTIONS\((\w+), ([\w ]+)\)\s*$", txt, re.M)
    if len(rows) < 10:
        raise MachineryError("tablegen: MAKE_SLICES_AND_OPTIONS rows not found in capi.h.jinja")
    return rows


def doc_tables():
    """core/src/ast/docs.rs: the DocType variants, the names the rust_link parser accepts, and the three per-kind tables of
    DocsUrlGenerator::gen_for_rust_link (segments that name the item, page prefix, member anchor)"""
    txt = open(os.path.join(REPO, "core/src/ast/docs.rs")).read()
    m = re.search(r"pub enum DocType \{(.*?)\n\}", txt, re.S)
    if not m:
        raise MachineryError("tablegen: enum DocType not found in core/src/ast/docs.rs")
    variants = re.findall(r"^\s*(\w+),", m.group(1), re.M)
    names = re.findall(r'"(\w+)" => DocType::(\w+),', txt)
    if [b for _, b in names] != variants or any(a != b for a, b in names):
        raise MachineryError(f"tablegen: the rust_link parser's names {names} are not the DocType variants {variants} one to one")
    body = fn_body(txt, "gen_for_rust_link")
    def arms(block, val_rx):
        out = {}
        for pats, val in re.findall(r"([\w\s|]+)=>\s*(\{[^{}]*\}|[^,\n]+)", block):
            val = val.strip().strip("{}").strip()
            if not re.fullmatch(val_rx, val):
                raise MachineryError(f"tablegen: gen_for_rust_link: unexpected arm value {val!r}")
            for v in re.findall(r"\w+", pats):
                if v in out:
                    raise MachineryError(f"tablegen: gen_for_rust_link: {v} matched twice")
                out[v] = val
        return out
    m1 = re.search(r"\.len\(\)\s*\.saturating_sub\(match rust_link\.typ \{(.*?)\}\);", body, re.S)
    if not m1:
        raise MachineryError("tablegen: gen_for_rust_link: `path.elements.len().saturating_sub(match rust_link.typ {..})` not found "
                             "(Docs/Model.v models the module depth as a saturating subtraction)")
    need = arms(m1.group(1), r"\d+")
    m2 = re.search(r"r\.push_str\(match rust_link\.typ \{(.*?)\}\);", body, re.S)
    if not m2:
        raise MachineryError("tablegen: gen_for_rust_link: the page-prefix match was not found")
    prefix = arms(m2.group(1), r'"[^"]*"|unreachable!\(\)')
    m3 = re.search(r"let anchor = match rust_link\.typ \{(.*?)\};", body, re.S)
    if not m3:
        raise MachineryError("tablegen: gen_for_rust_link: `let anchor = match rust_link.typ {..}` not found")
    anchor = arms(m3.group(1), r'"[^"]*"|return r')
    for tab, what in ((need, "module depth"), (prefix, "page prefix"), (anchor, "anchor")):
        missing = [v for v in variants if v not in tab]
        if missing:
            raise MachineryError(f"tablegen: gen_for_rust_link: no {what} arm for {missing}")
    for frag in ('if elements.peek().is_none()', 'r.push_str("index.html")', 'r.push_str(".html")', 'if let Some(member) = elements.next()',
                 'if rust_link.typ == EnumVariantField', 'r.push_str(".field.")', 'r.push_str("/latest/")', '"https://docs.rs/"'):
        if frag not in body:
            raise MachineryError(f"tablegen: gen_for_rust_link no longer contains `{frag}` (the control skeleton Docs/Model.v transcribes)")
    return variants, need, prefix, anchor


def str_array(txt, start_pat, what):
    """the string literals of the array literal that follows start_pat (`[ "a", "b", .. ]`); comments are skipped.
    Anything but string literals, commas and comments inside the brackets is a translator failure."""
    m = re.search(start_pat, txt)
    if not m:
        raise MachineryError(f"tablegen: {what} not found")
    i = txt.index("[", m.end() - 1) if txt[m.end() - 1] != "[" else m.end() - 1
    j = txt.index("]", i)
    body = re.sub(r"//[^\n]*", "", txt[i + 1:j])
    items = re.findall(r'"([^"\\]*)"', body)
    if re.sub(r'"[^"\\]*"', "", body).replace(",", "").strip():
        raise MachineryError(f"tablegen: {what} is no longer a plain list of string literals: {body[:200]!r}")
    if not items:
        raise MachineryError(f"tablegen: {what} is empty")
    return items


def keyword_tables():
    """the identifier-escaping tables of the C / C++ / JS / nanobind formatters, and the control skeleton around them"""
    c = open(os.path.join(REPO, "tool/src/c/formatter.rs")).read()
    body = fn_body(c, "fmt_identifier")
    ckw = str_array(body, r"static C_KEYWORDS[^=]*=\s*LazyLock::new\(\|\| \[", "C_KEYWORDS")
    cpp_extra = str_array(body, r"v\.extend\(\s*\[", "the CPP_KEYWORDS extension")
    skel = re.sub(r"\s+", " ", body)
    for need in ("let mut v = C_KEYWORDS.clone();", "if self.is_for_cpp { &CPP_KEYWORDS } else { &C_KEYWORDS }",
                 'if lang_keywords.contains(name.as_ref()) { format!("{name}_").into() } else { name }'):
        if need not in skel:
            raise MachineryError(f"tablegen: c/formatter.rs fmt_identifier no longer contains `{need}` (Headers/Escape.v transcribes it)")
    cppf = open(os.path.join(REPO, "tool/src/cpp/formatter.rs")).read()
    if "self.c.fmt_identifier(name)" not in fn_body(cppf, "fmt_identifier"):
        raise MachineryError("tablegen: cpp/formatter.rs fmt_identifier no longer delegates to the C formatter")
    js = open(os.path.join(REPO, "tool/src/js/formatter.rs")).read()
    jskw = str_array(js, r"const RESERVED: &\[&str\] = &\[", "js RESERVED")
    jsty = str_array(js, r"const RESERVED_TYPES: &\[&str\] = &\[", "js RESERVED_TYPES")
    for fn in ("fmt_method_name", "fmt_method_field_name", "fmt_method_param_name"):
        b = re.sub(r"\s+", " ", fn_body(js, fn))
        if 'if RESERVED.contains(&&*name) { format!("{name}_")' not in b:
            raise MachineryError(f"tablegen: js/formatter.rs {fn} no longer escapes through RESERVED")
    nb = open(os.path.join(REPO, "tool/src/nanobind/formatter.rs")).read()
    nbody = fn_body(nb, "fmt_identifier")
    pykw = str_array(nbody, r"LazyLock::new\(\|\| \{\s*\[", "PY_KEYWORDS")
    if 'if PY_KEYWORDS.contains(name.as_ref()) { format!("{name}_").into() } else { name }' not in re.sub(r"\s+", " ", nbody):
        raise MachineryError("tablegen: nanobind/formatter.rs fmt_identifier changed shape")
    return ckw, cpp_extra, jskw, jsty, pykw


def elision_tables():
    """core/src/hir/elision.rs: the arms of ElisionSource::visit_lifetime and of the Anonymous case of
    ReturnLifetimeLowerer::lower_lifetime, as Gallina matches over an abstract lifetime type"""
    txt = open(os.path.join(REPO, "core/src/hir/elision.rs")).read()
    m = re.search(r"enum ElisionSource \{(.*?)\n\}", txt, re.S)
    if not m:
        raise MachineryError("tablegen: enum ElisionSource not found")
    variants = re.findall(r"^\s*(\w+)(\(MaybeStatic<Lifetime>\))?,", re.sub(r"///[^\n]*", "", m.group(1)), re.M)
    if [v for v, _ in variants] != ["NoBorrows", "SelfParam", "OneParam", "MultipleBorrows"] or [bool(a) for _, a in variants] != [False, True, True, False]:
        raise MachineryError(f"tablegen: ElisionSource has variants {variants}; Lifetimes/Elision.v is written for NoBorrows | SelfParam(l) | OneParam(l) | MultipleBorrows")
    body = re.sub(r"//[^\n]*", "", fn_body(txt, "visit_lifetime"))
    mm = re.search(r"match self \{(.*)\}\s*;?\s*$", body.strip(), re.S)
    if not mm:
        raise MachineryError("tablegen: visit_lifetime is no longer a single `match self`")
    arms = re.findall(r"ElisionSource::(\w+)(\(_\))?\s*=>\s*(\*self = ElisionSource::(\w+)(\(lifetime\))?|\{\s*\})\s*,?", mm.group(1))
    rest = re.sub(r"ElisionSource::(\w+)(\(_\))?\s*=>\s*(\*self = ElisionSource::(\w+)(\(lifetime\))?|\{\s*\})\s*,?", "", mm.group(1)).strip()
    if rest or len(arms) != 4:
        raise MachineryError(f"tablegen: unrecognised arm in visit_lifetime: {rest[:200]!r}")
    coqv = {"NoBorrows": "NoBorrows", "SelfParam": "SelfParam", "OneParam": "OneParam", "MultipleBorrows": "Multiple"}
    visit = {}
    for src, _a, rhs, dst, carries in arms:
        if rhs.startswith("{"):
            visit[src] = None                          # unchanged
        else:
            if (dst in ("SelfParam", "OneParam")) != bool(carries):
                raise MachineryError(f"tablegen: visit_lifetime arm {src} => {rhs}: payload mismatch")
            visit[src] = (coqv[dst], bool(carries))
    if set(visit) != set(coqv):
        raise MachineryError(f"tablegen: visit_lifetime does not cover every variant: {sorted(visit)}")
    # ReturnLifetimeLowerer::lower_lifetime, Anonymous arm
    i = txt.index("impl<'ast> LifetimeLowerer for ReturnLifetimeLowerer<'ast>")
    rbody = re.sub(r"//[^\n]*", "", fn_body(txt[i:], "lower_lifetime"))
    am = re.search(r"ast::Lifetime::Anonymous => match self\.elision_source \{(.*?)\n\s*\},", rbody, re.S)
    if not am:
        raise MachineryError("tablegen: the Anonymous arm of ReturnLifetimeLowerer::lower_lifetime changed shape")
    ret = {}
    for pats, rhs in re.findall(r"((?:ElisionSource::\w+(?:\(lifetime\))?\s*\|?\s*)+)=>\s*(lifetime|\{\s*panic!\([^)]*\)\s*\})\s*,?", am.group(1)):
        for v in re.findall(r"ElisionSource::(\w+)", pats):
            ret[v] = rhs == "lifetime"
    if set(ret) != set(coqv) or any(ret[v] and v not in ("SelfParam", "OneParam") for v in ret):
        raise MachineryError(f"tablegen: unrecognised Anonymous arm of ReturnLifetimeLowerer::lower_lifetime: {ret}")
    lines = ["", "(* core/src/hir/elision.rs: enum ElisionSource, ElisionSource::visit_lifetime, and the Anonymous arm of",
             "   ReturnLifetimeLowerer::lower_lifetime (None = panic!), over an abstract type of lifetimes *)",
             "Inductive esrc_of (L : Type) := NoBorrows | SelfParam (l : L) | OneParam (l : L) | Multiple.",
             "Arguments NoBorrows {L}. Arguments SelfParam {L} l. Arguments OneParam {L} l. Arguments Multiple {L}.",
             "Definition visit_of {L : Type} (e : esrc_of L) (l : L) : esrc_of L :=", "  match e with"]
    for v in ("NoBorrows", "SelfParam", "OneParam", "MultipleBorrows"):
        pat = coqv[v] + (" s" if v in ("SelfParam", "OneParam") else "")
        r = visit[v]
        rhs = pat if r is None else (r[0] + (" l" if r[1] else ""))
        lines.append(f"  | {pat} => {rhs}")
    lines += ["  end.", "Definition ret_anon_of {L : Type} (e : esrc_of L) : option L :=", "  match e with"]
    for v in ("NoBorrows", "SelfParam", "OneParam", "MultipleBorrows"):
        pat = coqv[v] + (" s" if v in ("SelfParam", "OneParam") else "")
        lines.append(f"  | {pat} => " + ("Some s" if ret[v] else "None"))
    lines.append("  end.")
    return lines


def main():
    fields, nv_names = support_fields()
    others = other_names()
    lines = ["(* GENERATED by gen/tablegen.py from /repo's current source on every run. Do not edit. *)",
             "From Coq Require Import List String Bool.", "Import ListNotations.", "Local Open Scope string_scope.", "",
             "Definition backend_names : list string := [" + "; ".join(f'"{b}"' for b, _ in BACKENDS) + "].", "",
             "(* gen(): additional names a backend answers to *)",
             "Definition other_names (b : string) : list string :=",]
    for b, ns in others.items():
        lines.append(f'  if b =? "{b}" then [' + "; ".join(f'"{n}"' for n in ns) + "] else")
    lines.append("  [].")
    lines += ["", "(* values accepted by `supports = <name>` (is_name_value); anything else is a lowering error *)",
              "Definition supports_names : list string := [" + "; ".join(f'"{n}"' for n in nv_names) + "].", "",
              "(* tool/src/<backend>/mod.rs attr_support() *)",
              "Definition support_table : list (string * list (string * bool)) := ["]
    rows = []
    for b, path in BACKENDS:
        vals = attr_support(path, fields)
        rows.append(f'  ("{b}", [' + "; ".join(f'("{f}", {"true" if v else "false"})' for f, v in vals.items()) + "])")
    lines.append(";\n".join(rows))
    lines.append("].")
    cprim = prim_match_table("tool/src/c/formatter.rs", "fmt_primitive_as_c")
    cder = prim_match_table("tool/src/c/formatter.rs", "fmt_primitive_name_for_derived_type")
    lines += ["", "(* the 15 non-128-bit primitives *)",
              "Inductive prim := " + " | ".join("P" + n for n, _ in PRIM_PATS) + ".", "",
              "(* tool/src/c/formatter.rs fmt_primitive_as_c *)", "Definition c_prim_name (p : prim) : string :=", "  match p with"]
    lines += [f'  | P{n} => "{cprim[n]}"' for n, _ in PRIM_PATS] + ["  end.", "",
              "(* tool/src/c/formatter.rs fmt_primitive_name_for_derived_type *)", "Definition c_derived_name (p : prim) : string :=", "  match p with"]
    lines += [f'  | P{n} => "{cder[n]}"' for n, _ in PRIM_PATS] + ["  end.", "",
              "(* tool/templates/c/capi.h.jinja MAKE_SLICES_AND_OPTIONS(name, c_ty) rows *)",
              "Definition capi_rows : list (string * string) := [" + "; ".join(f'("{a}", "{b}")' for a, b in capi_rows()) + "]."]
    dart = prim_match_table("tool/src/dart/formatter.rs", "fmt_primitive_as_ffi", after="} else {")
    ktffi = prim_match_table("tool/src/kotlin/formatter.rs", "fmt_primitive_as_ffi")
    ktnat = prim_match_table("tool/src/kotlin/formatter.rs", "fmt_primitive_type_native", fallback=("fmt_primitive_as_ffi", ktffi))
    for title, name, tab in (("tool/src/dart/formatter.rs fmt_primitive_as_ffi (cast = false)", "dart_prim_ffi", dart),
                             ("tool/src/kotlin/formatter.rs fmt_primitive_as_ffi (JNA parameter / return types)", "kt_prim_ffi", ktffi),
                             ("tool/src/kotlin/formatter.rs fmt_primitive_type_native (JNA struct fields, results)", "kt_prim_native", ktnat)):
        lines += ["", f"(* {title} *)", f"Definition {name} (p : prim) : string :=", "  match p with"]
        lines += [f'  | P{n} => "{tab[n]}"' for n, _ in PRIM_PATS] + ["  end."]
    variants, need, prefix, anchor = doc_tables()
    opt = lambda v: "None" if not v.startswith('"') else f"Some {v}"
    lines += ["", "(* core/src/ast/docs.rs: enum DocType (= the kinds the rust_link parser accepts, under the same names) *)",
              "Inductive doc_type := " + " | ".join("D" + v for v in variants) + ".",
              "Definition doc_type_names : list (string * doc_type) := [" + "; ".join(f'("{v}", D{v})' for v in variants) + "].", "",
              "(* DocsUrlGenerator::gen_for_rust_link: how many trailing path segments name the item (and its member, and the member's field) *)",
              "Definition doc_need (t : doc_type) : nat :=", "  match t with"] + [f"  | D{v} => {need[v]}" for v in variants] + ["  end.", "",
              "(* ... the page prefix (None: the unreachable!() arm) *)", "Definition doc_page_prefix (t : doc_type) : option string :=", "  match t with"] + \
             [f"  | D{v} => {opt(prefix[v])}" for v in variants] + ["  end.", "",
              "(* ... the member anchor (None: `return r`, the link ends at the item's page) *)", "Definition doc_anchor (t : doc_type) : option string :=", "  match t with"] + \
             [f"  | D{v} => {opt(anchor[v])}" for v in variants] + ["  end."]
    ckw, cpp_extra, jskw, jsty, pykw = keyword_tables()
    sl = lambda xs: "[" + "; ".join(f'"{x}"' for x in xs) + "]"
    lines += ["", "(* tool/src/c/formatter.rs fmt_identifier: C_KEYWORDS, and what CPP_KEYWORDS adds to a clone of it *)",
              f"Definition c_keywords : list string := {sl(ckw)}.",
              f"Definition cpp_extra_keywords : list string := {sl(cpp_extra)}.",
              "(* tool/src/js/formatter.rs RESERVED (methods, fields of methods, parameters) and RESERVED_TYPES *)",
              f"Definition js_reserved : list string := {sl(jskw)}.",
              f"Definition js_reserved_types : list string := {sl(jsty)}.",
              "(* tool/src/nanobind/formatter.rs fmt_identifier: PY_KEYWORDS *)",
              f"Definition py_keywords : list string := {sl(pykw)}."]
    lines += elision_tables()
    out = "\n".join(lines) + "\n"
    path = os.path.join(COQ, "theories", "gen", "Tables.v")
    os.makedirs(os.path.dirname(path), exist_ok=True)
    if not os.path.exists(path) or open(path).read() != out:
        open(path, "w").write(out)
    return path


if __name__ == "__main__":
    print(main())
