"""C13 — backend-conditional attributes (DESIGN §5 C13)."""
import re, shutil, filecmp
from common import *
import e2e, tablegen

PROP = "C13"
HEADER = ("From Coq Require Import List String Bool.\nImport ListNotations.\nLocal Open Scope string_scope.\n"
          "Local Open Scope list_scope.\nFrom DV Require Import gen.Tables Cfg.Model.")
BACKENDS = ["c", "cpp", "js", "dart", "kotlin", "nanobind", "demo_gen"]
RENAMERS = ["cpp", "js", "dart", "nanobind"]
CFG = ["lib_name=somelib", "kotlin.domain=dev.x"]


def rust_f(f):
    k = f[0]
    if k == "not": return f"not({rust_f(f[1])})"
    if k in ("any", "all"): return f"{k}({', '.join(rust_f(x) for x in f[1])})"
    if k == "star": return "*"
    if k == "auto": return "auto"
    if k == "b": return f[1]
    return f"{f[1]} = {f[2]}"


def coq_f(f):
    k = f[0]
    if k == "not": return f"(CNot {coq_f(f[1])})"
    if k in ("any", "all"): return f"(C{k.capitalize()} {clist([coq_f(x) for x in f[1]])})"
    if k == "star": return "CStar"
    if k == "auto": return "CAuto"
    if k == "b": return f"(CBackend {cstr(f[1])})"
    return f"(CNameValue {cstr(f[1])} {cstr(f[2])})"


def denote(f, b, support, others):
    """the documented (propositional) meaning; the spec side of the direct check"""
    k = f[0]
    if k == "not": return not denote(f[1], b, support, others)
    if k == "any": return any(denote(x, b, support, others) for x in f[1])
    if k == "all": return all(denote(x, b, support, others) for x in f[1])
    if k in ("star", "auto"): return True
    if k == "b": return f[1] == b or f[1] in others.get(b, [])
    return f[1] == "supports" and support[b].get(f[2], False)


def type_file(backend, out, name):
    return {"c": f"{name}.h", "cpp": f"{name}.hpp", "js": f"{name}.mjs", "dart": f"{name}.g.dart",
            "kotlin": f"src/main/kotlin/dev/x/somelib/{name}.kt", "nanobind": f"include/{name}.hpp", "demo_gen": f"{name}.mjs"}[backend]


def method_marker(backend, ty, m):
    return {"c": f"{ty}_{m}(", "cpp": f"{ty}_{m}(", "js": f"wasm.{ty}_{m}(", "dart": f"symbol: '{ty}_{m}'",
            "kotlin": f"fun {ty}_{m}(", "nanobind": f"{ty}_{m}(", "demo_gen": f"export function {m}("}[backend]


def bridge(canaries, with_attrs):
    """canaries: list of dict(k, place, f, payload)"""
    main, mods = [], []
    for c in canaries:
        k, pl = c["k"], c["place"]
        a = ""
        if with_attrs:
            pay = "disable" if c["payload"] == "disable" else f'rename = "{c["payload"]}"'
            a = f"#[diplomat::attr({rust_f(c['f'])}, {pay})]\n"
        extra = c.get("more", []) if with_attrs else []
        at = lambda p: (a if pl == p else "") + "".join(f"#[diplomat::attr({rust_f(f2)}, disable)]\n" for (p2, f2) in extra if p2 == p)
        kind = c.get("kind", "opaque")
        if kind == "opaque":
            body = (f"    #[diplomat::opaque]\n    {at('type')}    pub struct T{k};\n"
                    f"    impl T{k} {{\n        #[diplomat::attr(auto, constructor)]\n        pub fn new() -> Box<T{k}> {{ Box::new(T{k}) }}\n    }}\n"
                    f"    {at('impl')}    impl T{k} {{\n        {at('method')}        pub fn orig{k}m(&self, w: &mut DiplomatWrite) {{}}\n    }}\n")
        else:   # enums and structs inherit through their own lowering paths
            decl = f"pub enum T{k} {{ A, B }}" if kind == "enum" else f"pub struct T{k} {{ pub a: u8 }}"
            body = (f"    {at('type')}    {decl}\n"
                    f"    {at('impl')}    impl T{k} {{\n        {at('method')}        pub fn orig{k}m(self, w: &mut DiplomatWrite) {{}}\n    }}\n")
        if pl == "module":
            mods.append(f"#[diplomat::bridge]\n{at('module')}mod ffi_m{k} {{\n    use diplomat_runtime::DiplomatWrite;\n{body}}}\n")
        else:
            main.append(body)
    return "#[diplomat::bridge]\nmod ffi {\n    use diplomat_runtime::DiplomatWrite;\n" + "".join(main) + "}\n" + "".join(mods)


def check(ctx, replay=None):
    build_harness()
    tablegen.main()
    phase = standard_proof_phase(ctx, PROP, ["theories/Properties/C13.v"])
    e2e.build_tool()
    rng = ctx.rng
    fields, nvnames = tablegen.support_fields()
    support = {b: tablegen.attr_support(p, fields) for b, p in tablegen.BACKENDS}
    others = tablegen.other_names()
    atoms = [("b", b) for b in BACKENDS] + [("star",)] + [("nv", "supports", n) for n in nvnames]
    alpha = [("b", "c"), ("b", "js"), ("b", "kotlin"), ("nv", "supports", "namespacing"), ("nv", "supports", "option"), ("nv", "supports", "utf8_strings")]
    places = ["module", "type", "impl", "method"]
    forms = []
    for a in atoms:
        for pl in (places if not ctx.quick() else [rng.choice(places), rng.choice(places)]):
            forms.append((a, pl))
    d2 = [("not", a) for a in alpha] + [(op, [a, b]) for op in ("any", "all") for a in alpha for b in alpha]
    for f in d2:
        forms.append((f, rng.choice(places)))
    def rnd(depth):
        if depth == 0 or rng.random() < 0.25:
            return rng.choice(atoms)
        op = rng.choice(["not", "any", "all"])
        if op == "not":
            return ("not", rnd(depth - 1))
        return (op, [rnd(depth - 1) for _ in range(rng.randint(0, 3))])
    for _ in range(40 if ctx.quick() else 600):
        forms.append((rnd(3), rng.choice(places)))
    canaries = []
    for i, (f, pl) in enumerate(forms):
        canaries.append({"k": i, "place": pl, "f": f, "payload": "disable"})
    # several attributes on one inheritance path: same payload, different (mutually exclusive) conditions
    excl = [b for b in BACKENDS if b not in ("demo_gen",)]
    for _ in range(30 if ctx.quick() else 300):
        b1, b2 = rng.sample(excl, 2)
        pl1, pl2 = rng.choice([("method", "method"), ("impl", "method"), ("type", "type"), ("module", "type"), ("impl", "impl"), ("type", "method"), ("module", "method")])
        f1 = rng.choice([("b", b1), ("all", [("b", b1), ("star",)]), ("any", [("b", b1)])])
        f2 = rng.choice([("b", b2), ("not", ("not", ("b", b2)))])
        canaries.append({"k": len(canaries), "place": pl1, "f": f1, "payload": "disable", "more": [(pl2, f2)]})
    nr = len(canaries)
    for j, (f, pl) in enumerate(rng.sample(forms, min(len(forms), 60 if ctx.quick() else 400))):
        k = nr + j
        canaries.append({"k": k, "place": pl, "f": f, "payload": (f"Ren{k}x" if pl in ("module", "type") else f"ren{k}m")})
    for c in canaries:
        c["kind"] = ("opaque", "enum", "struct")[c["k"] % 3]
    if replay and "canary" in replay.get("replay", {}):
        canaries = [replay["replay"]["canary"]]
    d = os.path.join(BUILD, "e2e", "c13")
    os.makedirs(d, exist_ok=True)
    srcs = {}
    for tag, wa in (("base", False), ("attr", True)):
        srcs[tag] = os.path.join(d, f"lib_{tag}.rs")
        open(srcs[tag], "w").write(bridge(canaries, wa))
    outs = {}
    for tag in ("base", "attr"):
        for b in BACKENDS:
            o = os.path.join(d, f"out_{tag}_{b}")
            q = e2e.run_tool(b, srcs[tag], o, config=CFG)
            if q.returncode != 0:
                ctx.violation(f"tool:{tag}:{b}", {"broken": f"diplomat-tool {b} failed on the {tag} canary bridge (every formula in it is well-formed)",
                                                  "log": q.stderr[-1500:]}, False)
            else:
                outs[(tag, b)] = o
    goals, meta, viol = [], [], 0

    def violate(key, obj):
        nonlocal viol
        if len(ctx.violations) < 4:
            viol += 1
            ctx.violation(key, obj, True)

    for c in canaries:
        k, pl, f = c["k"], c["place"], c["f"]
        cpl = {"module": "OnModule", "type": "OnType", "impl": "OnImpl", "method": "OnMethod"}[pl]
        for b in BACKENDS:
            if ("attr", b) not in outs or ("base", b) not in outs:
                continue
            holds = denote(f, b, support, others)
            more = c.get("more", [])
            path_holds = {p: (holds if p == pl else False) for p in places}
            for (p2, f2) in more:
                path_holds[p2] = path_holds[p2] or denote(f2, b, support, others)
            all_attrs = {p: ([f] if p == pl else []) + [f2 for (p2, f2) in more if p2 == p] for p in places}
            coq_lists = " ".join(clist([f"({coq_f(x)}, PDisable)" for x in all_attrs[p]]) for p in places)
            basef = os.path.join(outs[("base", b)], type_file(b, outs[("base", b)], f"T{k}"))
            if c["payload"] == "disable":
                tf = os.path.join(outs[("attr", b)], type_file(b, outs[("attr", b)], f"T{k}"))
                ty_present = os.path.exists(tf)
                m_present = ty_present and method_marker(b, f"T{k}", f"orig{k}m") in open(tf).read()
                if b == "demo_gen":
                    goals.append(f"agree_item_method {cstr(b)} {coq_lists} (Some {cbool(m_present)})")
                else:
                    goals.append(f"agree_item {cstr(b)} {coq_lists} (Some {cbool(ty_present)}) (Some {cbool(m_present)})")
                meta.append((c, b))
                want_ty = not (path_holds["module"] or path_holds["type"]) if b != "demo_gen" else ty_present
                want_m = not any(path_holds.values())
                holds = any(path_holds.values())
                if ty_present != want_ty or m_present != want_m:
                    violate(f"direct:disable:{pl}", {"canary": c, "backend": b, "attr": f"#[diplomat::attr({rust_f(f)}, disable)] on the {pl}",
                            "what": f"condition is {holds} for {b}; type present={ty_present} (expected {want_ty}), method present={m_present} (expected {want_m})"})
                elif not holds and os.path.exists(tf) and not filecmp.cmp(tf, basef, shallow=False):
                    violate(f"direct:noninterference:{pl}", {"canary": c, "backend": b, "attr": f"#[diplomat::attr({rust_f(f)}, disable)] on the {pl}",
                            "what": f"condition is false for {b} but {os.path.basename(tf)} differs from the output without the attribute"})
            elif b in RENAMERS:
                new = c["payload"]
                if pl in ("module", "type"):
                    orig_there = os.path.exists(os.path.join(outs[("attr", b)], type_file(b, None, f"T{k}")))
                    ren_there = os.path.exists(os.path.join(outs[("attr", b)], type_file(b, None, new)))
                    observed = new if ren_there and not orig_there else (f"T{k}" if orig_there and not ren_there else "?")
                    goals.append(f"agree_rename {cstr(b)} {cpl} {coq_f(f)} {cstr(new)} {cstr('T%d' % k)} {cstr(observed)}")
                    meta.append((c, b))
                    want = new if holds else f"T{k}"
                    # a rename on the module or the type never reaches the methods (for_inheritance ToMethodFromModule drops it)
                    tfm = os.path.join(outs[("attr", b)], type_file(b, None, observed if observed != "?" else f"T{k}"))
                    txtm = open(tfm).read() if os.path.exists(tfm) else ""
                    if txtm and b != "demo_gen":
                        m_old = re.search(r"\borig%dm\b" % k, txtm.replace(f"T{k}_orig{k}m", "")) is not None
                        goals.append(f"String.eqb (rendered_name (method_attrs {cstr(b)} {'[(%s, PRename %s)]' % (coq_f(f), cstr(new)) if pl == 'module' else '[]'} [] []) {cstr('orig%dm' % k)}) "
                                     f"{cstr(('orig%dm' % k) if m_old else '?')}")
                        meta.append((c, b))
                        if not m_old:
                            violate(f"direct:rename-leak:{pl}", {"canary": c, "backend": b, "attr": f"#[diplomat::attr({rust_f(f)}, rename = \"{new}\")] on the {pl}",
                                    "what": f"the method orig{k}m of the {c.get('kind', 'opaque')} type is no longer rendered under its own name: a rename on the {pl} applies to types only"})
                else:
                    tf = os.path.join(outs[("attr", b)], type_file(b, None, f"T{k}"))
                    txt = open(tf).read() if os.path.exists(tf) else ""
                    has_new = re.search(r"\b%s\b" % new, txt) is not None
                    has_old = re.search(r"\borig%dm\b" % k, txt.replace(f"T{k}_orig{k}m", "")) is not None
                    observed = new if has_new and not has_old else (f"orig{k}m" if has_old and not has_new else "?")
                    goals.append(f"agree_rename {cstr(b)} {cpl} {coq_f(f)} {cstr(new)} {cstr('orig%dm' % k)} {cstr(observed)}")
                    meta.append((c, b))
                    want = new if holds else f"orig{k}m"
                    if not holds and os.path.exists(tf) and not filecmp.cmp(tf, basef, shallow=False):
                        violate(f"direct:noninterference:{pl}", {"canary": c, "backend": b, "what": "condition false but the file differs from the output without the attribute"})
                if observed != want:
                    violate(f"direct:rename:{pl}", {"canary": c, "backend": b, "attr": f"#[diplomat::attr({rust_f(f)}, rename = \"{new}\")] on the {pl}",
                            "what": f"condition is {holds} for {b}; rendered name is {observed}, expected {want}"})
    # --- the Rust library still exports everything (the macro ignores diplomat::attr)
    dd, lib, p = e2e.bridge_crate("c13attr", open(srcs["attr"]).read())
    exported_ok = None
    if lib is None:
        found = False
        for pl in places:                       # search for a minimal failing bridge: one canary per placement
            cs = [c for c in canaries if c["place"] == pl][:1]
            if not cs:
                continue
            _, lib1, p1 = e2e.bridge_crate("c13min", bridge(cs, True))
            if lib1 is None:
                found = True
                violate(f"direct:macro-build:{pl}", {"canary": cs[0], "lib_rs": bridge(cs, True),
                        "what": f"a bridge with #[diplomat::attr(...)] on the {pl} is accepted by diplomat-tool but its macro expansion does not compile, "
                                "so the Rust library exports nothing", "rustc": p1.stderr[-800:]})
        if not found:
            ctx.violation("macro:build", {"broken": "the attributed canary bridge does not compile with the real macro", "log": p.stderr[-1500:]}, False)
    else:
        syms = e2e.nm_symbols(lib)
        missing = [f"T{c['k']}_orig{c['k']}m" for c in canaries if f"T{c['k']}_orig{c['k']}m" not in syms] + \
                  [f"T{c['k']}_destroy" for c in canaries if c.get("kind", "opaque") == "opaque" and f"T{c['k']}_destroy" not in syms]
        exported_ok = not missing
        if missing:
            violate("direct:export", {"what": f"the Rust library no longer exports {missing[:5]} although diplomat::attr must not affect it"})
    # --- malformed stream: `auto` where it is not allowed, unknown supports values, auto-gated disable
    # --- several renames on one inheritance path, more than one of them satisfied: the innermost, and among attributes of one item the
    # last, decides (Attrs::from_ast folds the impl block's attributes, then the method's own, over the inherited value)
    dbl = []
    star, bc, bj, bd, bn = ("star",), ("b", "cpp"), ("b", "js"), ("b", "dart"), ("b", "nanobind")
    for impl_a, meth_a in (([(star, "implname")], [(bc, "cppname")]), ([], [(star, "general"), (bj, "forjs")]), ([], [(bj, "forjs"), (star, "general")]),
                           ([(bc, "fromimpl")], [(bj, "frommeth")]), ([(star, "first"), (star, "second")], []), ([(star, "implname")], [(star, "methname")]),
                           ([(bd, "dartimpl"), (star, "anyimpl")], [(bn, "nbmeth")]), ([(("not", bc), "notcpp")], [(("any", [bc, bj]), "cppjs")]),
                           ([], [(bn, "nbfirst"), (bd, "dartsecond"), (star, "last")]), ([(star, "outer")], [(("all", [bc, bj]), "never")])):
        k = len(dbl)
        dbl.append({"k": k, "impl": [(f, f"{n}{k}") for f, n in impl_a], "meth": [(f, f"{n}{k}") for f, n in meth_a]})
    dsrc = "#[diplomat::bridge]\nmod ffi {\n    use diplomat_runtime::DiplomatWrite;\n    #[diplomat::opaque]\n    pub struct Dbl;\n"
    for c in dbl:
        ra = lambda l, ind: "".join(f'{ind}#[diplomat::attr({rust_f(f)}, rename = "{n}")]\n' for f, n in l)
        dsrc += ra(c["impl"], "    ") + "    impl Dbl {\n" + ra(c["meth"], "        ") + f"        pub fn dbl{c['k']}(&self, w: &mut DiplomatWrite) {{}}\n    }}\n"
    dsrc += "}\n"
    dpath = os.path.join(d, "lib_double_rename.rs")
    open(dpath, "w").write(dsrc)
    for b in RENAMERS:
        o = os.path.join(d, f"out_dbl_{b}")
        q = e2e.run_tool(b, dpath, o, config=CFG)
        if q.returncode != 0:
            violate(f"direct:rename:double", {"backend": b, "what": f"diplomat-tool {b} fails on a bridge whose methods carry several rename attributes", "stderr": q.stderr[-600:], "lib_rs": dsrc})
            continue
        tf = os.path.join(o, type_file(b, o, "Dbl"))
        txt = open(tf).read() if os.path.exists(tf) else ""
        for c in dbl:
            k = c["k"]
            cands = [n for _, n in c["impl"] + c["meth"]] + [f"dbl{k}"]
            present = [n for n in cands if re.search(r"\b%s\b" % n, txt.replace(f"Dbl_dbl{k}", ""))]
            observed = present[0] if len(present) == 1 else "?"
            sat = [n for f, n in c["impl"] + c["meth"] if denote(f, b, support, others)]
            want = sat[-1] if sat else f"dbl{k}"
            cl = lambda l: clist([f"({coq_f(f)}, PRename {cstr(n)})" for f, n in l])
            goals.append(f"String.eqb (rendered_name (method_attrs {cstr(b)} [] {cl(c['impl'])} {cl(c['meth'])}) {cstr('dbl%d' % k)}) {cstr(observed)}")
            meta.append(({"double_rename": c}, b))
            if observed != want:
                violate("direct:rename:double", {"backend": b, "impl_attrs": [f'#[diplomat::attr({rust_f(f)}, rename = "{n}")]' for f, n in c["impl"]],
                                                 "method_attrs": [f'#[diplomat::attr({rust_f(f)}, rename = "{n}")]' for f, n in c["meth"]],
                                                 "what": f"method dbl{k} is rendered as {observed} by {b}; the innermost / last rename whose condition holds for {b} is {want}",
                                                 "lib_rs": dsrc})
    bad = [("auto",), ("not", ("auto",)), ("all", [("b", "cpp"), ("auto",)]), ("any", [("b", "js"), ("auto",)]), ("nv", "supports", "bogus_flag"),
           ("any", [("b", "c"), ("nv", "supports", "bogus_flag")]), ("all", [("b", "dart"), ("nv", "supports", "nope")]),
           ("not", ("all", [("b", "kotlin"), ("auto",)])), ("any", [("auto",), ("b", "c")]), ("all", []), ("any", []), ("nv", "foo", "bar")]
    if not ctx.quick():
        bad += [("any", [rnd(2), ("auto",)]) for _ in range(10)] + [("all", [rnd(2), ("nv", "supports", "bogus")]) for _ in range(10)]
    for j, f in enumerate(bad):
        c = {"k": 9000 + j, "place": rng.choice(["type", "method", "impl", "module"]), "f": f, "payload": "disable"}
        src = os.path.join(d, f"bad_{j}.rs")
        open(src, "w").write(bridge([c], True))
        cpl = {"module": "OnModule", "type": "OnType", "impl": "OnImpl", "method": "OnMethod"}[c["place"]]
        for b in BACKENDS:
            o = os.path.join(d, f"out_bad_{b}")
            q = e2e.run_tool(b, src, o, config=CFG)
            cls = e2e.classify_tool(q)
            if cls == "ok":
                tf = os.path.join(o, type_file(b, o, f"T{c['k']}"))
                tp = os.path.exists(tf)
                mp = tp and method_marker(b, f"T{c['k']}", f"orig{c['k']}m") in open(tf).read()
                if b == "demo_gen":
                    goals.append(f"agree_canary_method {cstr(b)} {cpl} ({coq_f(f)}, PDisable) (Some {cbool(mp)})")
                    goals.append(f"match snd (canary \"js\" {cpl} ({coq_f(f)}, PDisable)) with Some _ => true | None => false end"); meta.append((c, b))
                else:
                    goals.append(f"agree_canary {cstr(b)} {cpl} ({coq_f(f)}, PDisable) (Some {cbool(tp)}) (Some {cbool(mp)})")
            elif cls == "lowering-error" and b == "demo_gen":
                # without a configured module the demo_gen run also generates the JS bindings: the condition is evaluated under both
                # support profiles, and an error under either one fails the run (conditions short-circuit, so they can differ)
                goals.append(f"match snd (canary \"demo_gen\" {cpl} ({coq_f(f)}, PDisable)), snd (canary \"js\" {cpl} ({coq_f(f)}, PDisable)) with Some _, Some _ => false | _, _ => true end")
            elif cls == "lowering-error":
                goals.append(f"agree_canary {cstr(b)} {cpl} ({coq_f(f)}, PDisable) (match fst (canary {cstr(b)} {cpl} ({coq_f(f)}, PDisable)) with None => None | x => Some true end) None")
            else:
                violate("direct:crash", {"canary": c, "backend": b, "what": f"diplomat-tool {b}: {cls}: {q.stderr[-300:]}"})
                continue
            meta.append((c, b))
            shutil.rmtree(o, ignore_errors=True)
    fails = run_shards(PROP, HEADER, goals) if goals else []
    if fails and not ctx.violations:
        for f in fails[:3]:
            c, b = meta[f]
            ctx.violation(f"corr:{c.get('payload', 'rename') == 'disable' and 'disable' or 'rename'}:{c.get('place', 'double')}",
                          {"canary": c, "backend": b, "broken": "correspondence goal " + goals[f][:400] +
                           " (Cfg/Model.v + gen/Tables.v no longer describe the implementation); the direct check found no item with a wrong presence"}, False)
    # the historical backend names with a trailing 2 (c2, cpp2, js2, ...) select the same backend: conditions naming the backend
    # must hold under the alias exactly as under the plain name, i.e. the whole canary bridge generates identically
    for b in ["c", "cpp", "js"] + ([] if ctx.quick() else ["dart", "kotlin", "nanobind", "demo_gen"]):
        if ("attr", b) not in outs:
            continue
        o2 = os.path.join(d, f"out_attr_{b}2")
        q = e2e.run_tool(b + "2", srcs["attr"], o2, config=CFG)
        if q.returncode != 0:
            violate(f"direct:alias:{b}", {"backend": b, "what": f"diplomat-tool {b}2 fails where {b} succeeds: {q.stderr[-400:]}"})
        else:
            cmpd = filecmp.dircmp(outs[("attr", b)], o2)
            def differing(c, pre=""):
                out = [pre + x for x in c.diff_files + c.left_only + c.right_only]
                for n, sub in c.subdirs.items():
                    out += differing(sub, pre + n + "/")
                return out
            dd = differing(cmpd)
            if dd:
                violate(f"direct:alias:{b}", {"backend": b, "what": f"`{b}2` and `{b}` are the same backend, but the canary bridge (attributes conditioned on backend names, "
                                              f"supports= flags, not/any/all) generates differently under the alias: {dd[:6]}"})
        shutil.rmtree(o2, ignore_errors=True)
    for tag in ("base", "attr"):
        for b in BACKENDS:
            shutil.rmtree(os.path.join(d, f"out_{tag}_{b}"), ignore_errors=True)
    distinct = len({json.dumps([c["f"], c["place"], c["payload"] == "disable"]) for c in canaries if c["f"][0] not in ("star",)})
    return batch_evidence(
        ctx, PROP, phase, goals, fails, len(goals), distinct,
        "canary items (one opaque type + one method each) carrying #[diplomat::attr(F, disable)] or (F, rename=..) on the bridge module / type / impl "
        "block / method: every atom at depth 1 (7 backend names, *, every supports= flag), all not/any/all formulas of depth 2 over a 6-atom alphabet "
        "whose truth vectors separate the backends, seeded formulas of depth 3; one bridge holds all canaries, the real CLI runs once per backend "
        "with and without the attributes; observed: presence of each type file and method symbol use, rendered names, byte identity with the "
        "attribute-free output where the condition is false, nm of the staticlib built by the real macro; plus a malformed stream (auto misuse, "
        "unknown supports values) in single-canary bridges. One Coq goal per (canary, backend). distinct_nontrivial = distinct (formula, place, kind) "
        "other than `*`",
        "Modelled, not verified: satisfies_cfg, Attrs::from_ast (disable/rename part), for_inheritance and the AST-side impl->method copy, transcribed "
        "into Cfg/Model.v; gen/Tables.v is regenerated from the seven attr_support() functions, is_name_value and gen()'s other_backend_names by "
        "gen/tablegen.py (translator, trusted; cross-checked by the supports= canaries)",
        [{"canary": canaries[0], "rust": f"#[diplomat::attr({rust_f(canaries[0]['f'])}, disable)]"},
         {"canary": canaries[len(canaries) // 2], "rust": rust_f(canaries[len(canaries) // 2]["f"])}, {"canary": canaries[-1]}],
        ["rename is observed in the backends that render renamed names (cpp, js, dart, nanobind)",
         "a module that raises a lowering error (e.g. two applicable disables on one path) is not an accepted module and is outside the property"],
        {"canaries": len(canaries), "exports_checked_with_nm": exported_ok})
