"""C15 — fixed bridges that reach backend code the (position, type) witnesses cannot: documentation links of every kind and
special-method attributes on every kind of type. Every special attribute is gated with `auto`, which the book defines as
"supports = the feature this attribute needs", so each backend only ever sees what it declares support for."""

DOC_KINDS = [("Struct", 1), ("StructField", 2), ("Enum", 1), ("EnumVariant", 2), ("EnumVariantField", 3), ("Trait", 1), ("FnInStruct", 2),
             ("FnInTypedef", 2), ("FnInEnum", 2), ("FnInTrait", 2), ("DefaultFnInTrait", 2), ("Fn", 1), ("Mod", 0), ("Constant", 1),
             ("AssociatedConstantInEnum", 2), ("AssociatedConstantInTrait", 2), ("AssociatedConstantInStruct", 2), ("Macro", 1),
             ("AssociatedTypeInEnum", 2), ("AssociatedTypeInTrait", 2), ("AssociatedTypeInStruct", 2), ("Typedef", 1)]
DISPLAYS = ["", ", normal", ", compact", ", hidden"]
SEGS = ["Item", "member", "field"]


def doc_path(crate, mods, k):
    return "::".join([crate] + ["m%d" % i for i in range(mods)] + SEGS[:k])


def docs_bridge(traits=False):
    """every rust_link kind x display style x module depth 0..2 (depth 0 with the item directly under the crate, and the
    shortest path the kind admits, which has no crate segment left over), on methods, types, fields and variants"""
    ms, n = [], 0
    for kind, k in DOC_KINDS:
        for di, disp in enumerate(DISPLAYS):
            for mods in (0, 1, 2):
                crate = ["foo", "bar", "baz_qux"][(n + mods) % 3]
                ms.append(f"        /// Method {n}: a `{kind}` link, *emphasis*, [text](https://example.com/{n}).\n        ///\n"
                          f"        /// Second paragraph with <angle> & ampersand \"quotes\" and a trailing backslash \\\\\n"
                          f"        #[diplomat::rust_link({doc_path(crate, mods, k)}, {kind}{disp})]\n"
                          f"        pub fn m{n}(&self) -> u8 {{ {n % 200} }}\n")
                n += 1
        # the shortest path this kind admits (no separate crate segment), and two links on one item
        short = "::".join((["foo"] + SEGS)[:max(k, 1)])
        ms.append(f"        #[diplomat::rust_link({short}, {kind})]\n        #[diplomat::rust_link({doc_path('bar', 1, k)}, {kind}, compact)]\n"
                  f"        #[diplomat::rust_link({doc_path('foo', 2, k)}, {kind}, compact)]\n        pub fn s{n}(&self) -> u8 {{ 1 }}\n")
        n += 1
        # paths shorter than the kind needs: parsing and lowering accept them, so rendering them must not crash
        for cut in range(1, k):
            ms.append(f"        /// short\n        #[diplomat::rust_link({'::'.join((['Foo'] + SEGS)[:cut])}, {kind})]\n        pub fn u{n}(&self) -> u8 {{ 2 }}\n")
            n += 1
    return ("#[diplomat::bridge]\nmod ffi {\n    /// A documented opaque with `code`.\n    ///\n    /// # Heading\n    ///\n    /// * bullet\n"
            "    #[diplomat::rust_link(foo::Item, Struct)]\n    #[diplomat::rust_link(foo::Item::member, FnInStruct, hidden)]\n"
            "    #[diplomat::opaque]\n    pub struct Doc(pub u8);\n    impl Doc {\n" + "".join(ms) + "    }\n"
            "    /// A documented struct.\n    #[diplomat::rust_link(foo::m0::Item, Typedef)]\n    pub struct Ds {\n        /// a field\n"
            "        pub a: u8,\n        /// another\n        ///\n        /// with two paragraphs\n        pub b: bool,\n    }\n"
            "    impl Ds {\n        /// by value\n        #[diplomat::rust_link(foo::Item::member, FnInTypedef)]\n        pub fn get(self) -> u8 { self.a }\n    }\n"
            "    /// A documented out struct.\n    #[diplomat::rust_link(foo::Item::member, StructField, compact)]\n    #[diplomat::out]\n"
            "    pub struct Do { pub d: Box<Doc> }\n"
            "    /// A documented enum.\n    #[diplomat::rust_link(foo::Item, Enum)]\n    pub enum De {\n        /// variant\n"
            "        #[diplomat::rust_link(foo::Item::member, EnumVariant)]\n        A,\n"
            "        #[diplomat::rust_link(foo::Item::member::field, EnumVariantField, compact)]\n        B,\n    }\n"
            "    impl De {\n        /// on an enum\n        #[diplomat::rust_link(foo::Item::member, FnInEnum)]\n        pub fn code(self) -> u8 { self as u8 }\n    }\n"
            + ("    /// A documented trait.\n    #[diplomat::rust_link(foo::Item, Trait)]\n    pub trait Dt {\n        /// trait method\n"
               "        #[diplomat::rust_link(foo::Item::member, FnInTrait)]\n        fn f(&self, x: i32) -> i32;\n    }\n"
               "    impl Doc {\n        /// takes a trait and a callback\n        #[diplomat::rust_link(foo::Item::member, DefaultFnInTrait)]\n"
               "        pub fn with(t: impl Dt, f: impl Fn(i32) -> i32) -> i32 { f(t.f(1)) }\n    }\n" if traits else "") + "}\n")


ARITH = ["add", "sub", "mul", "div"]


def special_bridge():
    """every special-method attribute on every kind of type that can carry it (opaque, struct, out struct, enum)"""
    acc_ops = "".join(
        f"        #[diplomat::attr(auto, {op})]\n        pub fn op_{op}(&self, o: &Acc) -> Box<Acc> {{ Box::new(Acc([self.0.clone(), o.0.clone()].concat())) }}\n"
        f"        #[diplomat::attr(auto, {op}_assign)]\n        pub fn op_{op}_assign(&mut self, o: &Acc) {{ self.0.extend_from_slice(&o.0) }}\n" for op in ARITH)
    pt_ops = "".join(
        f"        #[diplomat::attr(auto, {op})]\n        pub fn op_{op}(self, o: Pt) -> Pt {{ Pt {{ x: self.x + o.x, y: self.y + o.y }} }}\n" for op in ARITH)
    return ("""#[diplomat::bridge]
mod ffi {
    use diplomat_runtime::DiplomatWrite;
    use core::fmt::Write;
    #[diplomat::opaque]
    pub struct Acc(pub Vec<u8>);
    #[diplomat::opaque]
    pub struct AccIter<'a>(pub core::slice::Iter<'a, u8>);
    impl Acc {
        #[diplomat::attr(auto, constructor)]
        pub fn new() -> Box<Acc> { Box::new(Acc(vec![])) }
        #[diplomat::attr(auto, named_constructor = "sized")]
        pub fn with_size(n: u8) -> Box<Acc> { Box::new(Acc(vec![0; n as usize])) }
        #[diplomat::attr(auto, named_constructor = "checked")]
        pub fn try_size(n: u8) -> Result<Box<Acc>, ()> { if n > 9 { Err(()) } else { Ok(Box::new(Acc(vec![0; n as usize]))) } }
        #[diplomat::attr(auto, named_constructor)]
        pub fn unnamed() -> Box<Acc> { Box::new(Acc(vec![1])) }
        #[diplomat::attr(auto, getter = "len")]
        pub fn get_len(&self) -> usize { self.0.len() }
        #[diplomat::attr(auto, getter = "first")]
        pub fn get_first(&self) -> u8 { self.0.first().copied().unwrap_or(0) }
        #[diplomat::attr(auto, setter = "first")]
        pub fn set_first(&mut self, v: u8) { if let Some(x) = self.0.first_mut() { *x = v } }
        #[diplomat::attr(auto, getter)]
        pub fn last(&self) -> Option<u8> { self.0.last().copied() }
        #[diplomat::attr(auto, stringifier)]
        pub fn describe(&self, w: &mut DiplomatWrite) { let _ = write!(w, "{}", self.0.len()); }
        #[diplomat::attr(auto, comparison)]
        pub fn compare(&self, other: &Acc) -> core::cmp::Ordering { self.0.len().cmp(&other.0.len()) }
        #[diplomat::attr(auto, iterable)]
        pub fn iter<'a>(&'a self) -> Box<AccIter<'a>> { Box::new(AccIter(self.0.iter())) }
        #[diplomat::attr(auto, indexer)]
        pub fn at(&self, i: usize) -> Option<u8> { self.0.get(i).copied() }
""" + acc_ops + """    }
    impl<'a> AccIter<'a> {
        #[diplomat::attr(auto, iterator)]
        pub fn next(&mut self) -> Option<u8> { self.0.next().copied() }
    }
    #[diplomat::opaque]
    pub struct Words(pub Vec<String>);
    #[diplomat::opaque]
    pub struct WordsIter<'a>(pub core::slice::Iter<'a, String>, pub &'a Words);
    impl Words {
        #[diplomat::attr(auto, constructor)]
        pub fn try_new(s: &str) -> Result<Box<Words>, Lv> { if s.is_empty() { Err(Lv::Lo) } else { Ok(Box::new(Words(vec![s.into()]))) } }
        #[diplomat::attr(auto, iterable)]
        pub fn iter<'a>(&'a self) -> Box<WordsIter<'a>> { Box::new(WordsIter(self.0.iter(), self)) }
        #[diplomat::attr(auto, indexer)]
        pub fn at<'a>(&'a self, i: usize) -> Option<&'a Words> { if i == 0 { Some(self) } else { None } }
    }
    impl<'a> WordsIter<'a> {
        #[diplomat::attr(auto, iterator)]
        pub fn next(&mut self) -> Option<Pt> { self.0.next().map(|s| Pt { x: s.len() as i32, y: 0 }) }
    }
    pub struct Pt { pub x: i32, pub y: i32 }
    impl Pt {
        #[diplomat::attr(auto, constructor)]
        pub fn new(x: i32, y: i32) -> Pt { Pt { x, y } }
        #[diplomat::attr(auto, named_constructor = "origin")]
        pub fn origin() -> Pt { Pt { x: 0, y: 0 } }
        #[diplomat::attr(auto, getter = "norm")]
        pub fn norm(self) -> i32 { self.x.abs() + self.y.abs() }
        #[diplomat::attr(auto, comparison)]
        pub fn compare(self, other: Pt) -> core::cmp::Ordering { self.x.cmp(&other.x) }
        #[diplomat::attr(auto, stringifier)]
        pub fn describe(self, w: &mut DiplomatWrite) { let _ = write!(w, "{},{}", self.x, self.y); }
""" + pt_ops + """    }
    #[diplomat::out]
    pub struct Stats { pub n: u32, pub acc: Box<Acc> }
    impl Stats {
        #[diplomat::attr(auto, constructor)]
        pub fn new(n: u32) -> Stats { Stats { n, acc: Box::new(Acc(vec![])) } }
        #[diplomat::attr(auto, named_constructor = "empty")]
        pub fn empty() -> Stats { Stats { n: 0, acc: Box::new(Acc(vec![])) } }
        #[diplomat::attr(auto, named_constructor = "checked")]
        pub fn checked(n: u32) -> Result<Stats, ()> { if n > 9 { Err(()) } else { Ok(Stats { n, acc: Box::new(Acc(vec![])) }) } }
    }
    #[diplomat::attr(supports = custom_errors, error)]
    pub enum Lv { Lo, Hi }
    impl Lv {
        #[diplomat::attr(auto, constructor)]
        pub fn new(hi: bool) -> Lv { if hi { Lv::Hi } else { Lv::Lo } }
        #[diplomat::attr(auto, named_constructor = "low")]
        pub fn low() -> Lv { Lv::Lo }
        #[diplomat::attr(auto, getter = "code")]
        pub fn code(self) -> i32 { self as i32 }
        #[diplomat::attr(auto, comparison)]
        pub fn compare(self, other: Lv) -> core::cmp::Ordering { (self as i32).cmp(&(other as i32)) }
        #[diplomat::attr(auto, stringifier)]
        pub fn describe(self, w: &mut DiplomatWrite) { let _ = write!(w, "{}", self as i32); }
    }
}
""")


def lifetimes_bridge():
    """borrowing structs nested in borrowing structs with lifetime parameters that are permuted, collapsed, shifted, partly 'static;
    as arguments, as results, as fields of out structs; next to slices and opaques with several lifetimes"""
    return """#[diplomat::bridge]
mod ffi {
    use diplomat_runtime::{DiplomatStrSlice, DiplomatSlice};
    #[diplomat::opaque]
    pub struct Op(pub u8);
    #[diplomat::opaque]
    pub struct Two<'h, 'k>(pub &'h u8, pub &'k u8);
    pub struct Single<'x> { pub a: &'x Op }
    pub struct Pair<'x, 'y> { pub a: &'x Op, pub b: &'y Op, pub s: DiplomatStrSlice<'y> }
    pub struct Collapsed<'a> { pub pair: Pair<'a, 'a> }
    pub struct Shifted<'p, 'q> { pub single: Single<'q>, pub o: &'p Op }
    pub struct Swapped<'p, 'q> { pub pair: Pair<'q, 'p> }
    pub struct Deep<'u, 'v, 'w> { pub sw: Swapped<'w, 'u>, pub sh: Shifted<'v, 'v>, pub bytes: DiplomatSlice<'w, u8> }
    pub struct Mixed<'m> { pub one: Single<'m>, pub other: Single<'m>, pub two: &'m Two<'m, 'm> }
    #[diplomat::out]
    pub struct OutDeep<'u, 'v> { pub c: Collapsed<'v>, pub s: Shifted<'v, 'u>, pub t: Box<Two<'u, 'v>> }
    impl Op {
        pub fn collapsed<'a>(&'a self, c: Collapsed<'a>) -> Collapsed<'a> { c }
        pub fn shifted<'p, 'q>(&'p self, s: Shifted<'p, 'q>, t: &'q Op) -> Shifted<'q, 'p> { Shifted { single: Single { a: self }, o: t } }
        pub fn swapped<'p, 'q>(s: Swapped<'p, 'q>) -> Pair<'p, 'q> { Pair { a: s.pair.b, b: s.pair.a, s: "".into() } }
        pub fn deep<'u, 'v, 'w>(d: Deep<'u, 'v, 'w>, m: Mixed<'v>) -> Deep<'w, 'v, 'u> where 'u: 'w, 'w: 'u { let _ = m; Deep { sw: Swapped { pair: d.sw.pair }, sh: d.sh, bytes: d.bytes } }
        pub fn out<'u, 'v>(&'u self, c: Collapsed<'v>, x: &'v Op) -> OutDeep<'u, 'v> { OutDeep { c, s: Shifted { single: Single { a: self }, o: x }, t: Box::new(Two(&self.0, &x.0)) } }
        pub fn two<'h, 'k>(&'h self, o: &'k Op, sw: Swapped<'k, 'h>) -> Box<Two<'k, 'h>> { let _ = sw; Box::new(Two(&o.0, &self.0)) }
    }
    impl<'p, 'q> Shifted<'p, 'q> {
        pub fn inner(self) -> Single<'q> { self.single }
        pub fn back(self, c: Collapsed<'p>) -> Swapped<'q, 'p> { Swapped { pair: Pair { a: c.pair.a, b: self.single.a, s: "".into() } } }
    }
}
"""


def lifetimes_opt_bridge():
    """optional borrowing structs the result borrows from: the borrow analysis has to look through the Option (backends without
    option support refuse the bridge at lowering, which is fine)"""
    return """#[diplomat::bridge]
mod ffi {
    use diplomat_runtime::DiplomatStrSlice;
    #[diplomat::opaque]
    pub struct Op(pub u8);
    #[diplomat::opaque]
    pub struct Two<'h, 'k>(pub &'h u8, pub &'k u8);
    pub struct Single<'x> { pub a: &'x Op }
    pub struct Pair<'x, 'y> { pub a: &'x Op, pub b: &'y Op, pub s: DiplomatStrSlice<'y> }
    pub struct Collapsed<'a> { pub pair: Pair<'a, 'a> }
    impl Op {
        pub fn opt_single<'a>(x: Option<Single<'a>>, fallback: &'a Op) -> &'a Op { match x { Some(s) => s.a, None => fallback } }
        pub fn opt_pair<'p, 'q>(&'p self, x: Option<Pair<'p, 'q>>, y: Option<Collapsed<'q>>) -> Box<Two<'p, 'q>> { let _ = (x, y); Box::new(Two(&self.0, &self.0)) }
        pub fn opt_unused<'a>(&self, x: Option<Single<'a>>) -> u8 { let _ = x; self.0 }
    }
    impl<'x> Single<'x> {
        pub fn or(self, other: Option<Single<'x>>) -> Single<'x> { other.unwrap_or(self) }
    }
}
"""


def constructors_bridge():
    """constructors that need a value of the type they construct, directly, through a second type, through a struct field, optionally;
    every type also has a write-out method and an ordinary one (demo_gen renders a call, and its arguments, for such methods)"""
    return """#[diplomat::bridge]
mod ffi {
    use diplomat_runtime::DiplomatWrite;
    #[diplomat::opaque]
    pub struct Node(pub u8);
    #[diplomat::opaque]
    pub struct Ping(pub u8);
    #[diplomat::opaque]
    pub struct Pong(pub u8);
    #[diplomat::opaque]
    pub struct Leaf(pub u8);
    pub struct Holder<'a> { pub node: &'a Node, pub n: u8 }
    impl Node {
        #[diplomat::attr(auto, constructor)]
        pub fn new(parent: &Node) -> Box<Node> { Box::new(Node(parent.0)) }
        pub fn show(&self, w: &mut DiplomatWrite) {}
        pub fn depth(&self, other: Option<&Node>) -> u8 { self.0 }
    }
    impl Ping {
        #[diplomat::attr(auto, constructor)]
        pub fn new(from: &Pong) -> Box<Ping> { Box::new(Ping(from.0)) }
        pub fn show(&self, w: &mut DiplomatWrite) {}
    }
    impl Pong {
        #[diplomat::attr(auto, constructor)]
        pub fn new(from: &Ping, leaf: &Leaf) -> Box<Pong> { Box::new(Pong(from.0)) }
        pub fn show(&self, leaf: &Leaf, w: &mut DiplomatWrite) {}
    }
    impl Leaf {
        #[diplomat::attr(auto, constructor)]
        pub fn new(n: u8) -> Box<Leaf> { Box::new(Leaf(n)) }
        pub fn with_holder<'a>(&self, h: Holder<'a>, w: &mut DiplomatWrite) {}
        pub fn show(&self, w: &mut DiplomatWrite) {}
    }
}
"""


BYTE_SLICES = """#[diplomat::bridge]
mod ffi {
    #[diplomat::opaque]
    pub struct Hasher(pub u8);
    impl Hasher {
        // the documented DiplomatByte alias, as the first and only slice type of the module, in both directions
        pub fn update(&mut self, data: &[DiplomatByte]) { let _ = data; }
        pub fn digest<'a>(&'a self) -> &'a [DiplomatByte] { &[] }
    }
}
"""
OPT_STRING_LISTS = """#[diplomat::bridge]
mod ffi {
    use diplomat_runtime::{DiplomatStr16Slice, DiplomatStrSlice, DiplomatUtf8StrSlice};
    #[diplomat::opaque]
    pub struct Matcher(pub u8);
    impl Matcher {
        // optional lists of strings in each of the three encodings
        pub fn count8(&self, needles: Option<&[DiplomatStrSlice]>) -> usize { needles.map(|n| n.len()).unwrap_or(0) }
        pub fn count16(&self, needles: Option<&[DiplomatStr16Slice]>) -> usize { needles.map(|n| n.len()).unwrap_or(0) }
        pub fn count(&self, needles: Option<&[DiplomatUtf8StrSlice]>) -> usize { needles.map(|n| n.len()).unwrap_or(0) }
    }
}
"""
# bridges that only some backends are run on: the others reject them at lowering or hit a recorded finding (optional slice parameters in Dart)
DUP_FILES = """#[diplomat::bridge]
mod ffi {
    // two types that a backend renames to the same output file
    #[diplomat::attr(auto, namespace = "a")]
    #[diplomat::attr(*, rename = "Item")]
    #[diplomat::opaque]
    pub struct ItemA(pub u8);
    #[diplomat::attr(auto, namespace = "b")]
    #[diplomat::attr(*, rename = "Item")]
    #[diplomat::opaque]
    pub struct ItemB(pub u8);
    impl ItemA { pub fn id(&self) -> u8 { self.0 } }
    impl ItemB { pub fn id(&self) -> u8 { self.0 } }
}
"""
OVERLOADS = """#[diplomat::bridge]
mod ffi {
    #[diplomat::opaque]
    pub struct Acc(pub i32);
    impl Acc {
        // two methods exposed under one name in the backends that declare method_overloading
        #[diplomat::attr(supports = method_overloading, rename = "add")]
        pub fn add_int(&mut self, x: i32) { self.0 += x; }
        #[diplomat::attr(supports = method_overloading, rename = "add")]
        pub fn add_pair(&mut self, x: i32, y: i32) { self.0 += x + y; }
    }
}
"""
ONLY = {"opt_string_lists": ("c", "cpp", "nanobind"), "dup_files": ("js", "dart", "cpp"), "overloads": ("cpp", "nanobind", "kotlin", "c")}


def bridges():
    return [("byte_slices", BYTE_SLICES), ("opt_string_lists", OPT_STRING_LISTS), ("dup_files", DUP_FILES), ("overloads", OVERLOADS)] + [("docs", docs_bridge()), ("docs_traits", docs_bridge(True)), ("special", special_bridge()), ("lifetimes", lifetimes_bridge()),
            ("constructors", constructors_bridge()), ("lifetimes_opt", lifetimes_opt_bridge())]


URL_ARGS = [[], ["-u", "*:https://example.org/api"], ["-u", "foo:https://foo.example/docs/", "-u", "bar:https://bar.example"]]
