"""C01 / C02: callbacks as arguments. Several signatures (three primitives of different register classes, bool, unit return, two callbacks
in one call, a callback between ordinary parameters, struct + enum parameters, char32_t / size_t / intptr_t, a stateful FnMut): every
argument value reaches the foreign function in the written order, its return value reaches Rust, the data cookie comes back unchanged,
and the destructor runs once per callback."""
from common import *
import e2e

BRIDGE = r'''
#[diplomat::bridge]
mod ffi {
    use diplomat_runtime::DiplomatChar;
    pub struct Pt { pub x: i16, pub y: f64, pub z: u8 }
    pub enum Lv { High = 3, Mid = 1, Low = 0 }
    #[diplomat::opaque]
    pub struct Cbs(pub u32);
    impl Cbs {
        pub fn new(n: u32) -> Box<Cbs> { Box::new(Cbs(n)) }
        pub fn three(f: impl Fn(u8, i64, f32) -> f64) -> f64 { f(7, -5_000_000_000, 1.5) + f(255, i64::MIN, -0.25) }
        pub fn flags(&self, f: impl Fn(bool, u16) -> bool) -> u8 { (f(true, 65535) as u8) * 2 + (f(false, self.0 as u16) as u8) }
        pub fn unit(f: impl Fn(i32)) { f(-3); f(i32::MAX); }
        pub fn two(f: impl Fn(i32) -> i32, g: impl Fn(i32) -> i32) -> i32 { f(1) * 100 + g(2) }
        pub fn mixed(&self, x: u8, f: impl Fn(u8, u8) -> u16, y: u8) -> u32 { f(x, y) as u32 + self.0 }
        pub fn structy(f: impl Fn(Pt, Lv) -> i32) -> i32 { f(Pt { x: -7, y: 2.5, z: 9 }, Lv::High) }
        pub fn chars(f: impl Fn(DiplomatChar, usize, isize) -> u64) -> u64 { f(0x1F600, usize::MAX, -1) }
        pub fn fm(mut f: impl FnMut(u32) -> u32) -> u32 { f(1) + f(2) + f(3) }
    }
}
'''

C_DRIVER = r'''
#include <stdio.h>
#include <stdint.h>
#include <stddef.h>
#include <stdbool.h>
#include "Cbs.h"
#include "Pt.h"
#include "Lv.h"
static int tag, dtors, badcookie;
#define CK(d) do { if ((d) != (const void*)&tag) badcookie++; } while (0)
static void dt(const void* d) { CK(d); dtors++; }
static double three_run(const void* d, uint8_t a, int64_t b, float c) { CK(d); printf(" three(%u,%lld,%.3f)", (unsigned)a, (long long)b, (double)c); return (double)a + (double)(b % 1000) + (double)c; }
static bool flags_run(const void* d, bool a, uint16_t b) { CK(d); printf(" flags(%d,%u)", (int)a, (unsigned)b); return a ? (b == 65535) : (b % 2 == 1); }
static void unit_run(const void* d, int32_t a) { CK(d); printf(" unit(%d)", a); }
static int32_t f_run(const void* d, int32_t a) { CK(d); printf(" f(%d)", a); return a + 10; }
static int32_t g_run(const void* d, int32_t a) { CK(d); printf(" g(%d)", a); return a + 20; }
static uint16_t mixed_run(const void* d, uint8_t a, uint8_t b) { CK(d); printf(" mixed(%u,%u)", (unsigned)a, (unsigned)b); return (uint16_t)(a * 256 + b); }
static int32_t structy_run(const void* d, Pt p, Lv l) { CK(d); printf(" structy(%d,%.3f,%u,%d)", (int)p.x, p.y, (unsigned)p.z, (int)l); return p.x + (int)l; }
static uint64_t chars_run(const void* d, char32_t c, size_t s, intptr_t i) { CK(d); printf(" chars(%u,%d,%ld)", (unsigned)c, s == SIZE_MAX, (long)i); return (uint64_t)c + (s == SIZE_MAX) + (i == -1); }
static int state;
static uint32_t fm_run(const void* d, uint32_t a) { CK(d); state += (int)a; printf(" fm(%u|%d)", a, state); return a * (uint32_t)state; }
#define END(fmt, v) printf(" -> " fmt " dtors=%d bad=%d\n", v, dtors, badcookie); dtors = 0;
int main(void) {
  Cbs* c = Cbs_new(12345);
  printf("three:"); { double r = Cbs_three((DiplomatCallback_Cbs_three_f){&tag, three_run, dt}); END("%.3f", r) }
  printf("flags:"); { uint8_t r = Cbs_flags(c, (DiplomatCallback_Cbs_flags_f){&tag, flags_run, dt}); END("%u", (unsigned)r) }
  printf("unit:"); { Cbs_unit((DiplomatCallback_Cbs_unit_f){&tag, unit_run, dt}); END("%d", 0) }
  printf("two:"); { int32_t r = Cbs_two((DiplomatCallback_Cbs_two_f){&tag, f_run, dt}, (DiplomatCallback_Cbs_two_g){&tag, g_run, dt}); END("%d", r) }
  printf("mixed:"); { uint32_t r = Cbs_mixed(c, 200, (DiplomatCallback_Cbs_mixed_f){&tag, mixed_run, dt}, 17); END("%u", r) }
  printf("structy:"); { int32_t r = Cbs_structy((DiplomatCallback_Cbs_structy_f){&tag, structy_run, dt}); END("%d", r) }
  printf("chars:"); { uint64_t r = Cbs_chars((DiplomatCallback_Cbs_chars_f){&tag, chars_run, dt}); END("%llu", (unsigned long long)r) }
  printf("fm:"); { uint32_t r = Cbs_fm((DiplomatCallback_Cbs_fm_f){&tag, fm_run, dt}); END("%u", r) }
  Cbs_destroy(c);
  return 0;
}
'''

CPP_DRIVER = r'''
#include <cstdio>
#include <cstdint>
#include <cstddef>
#include "Cbs.hpp"
#include "Pt.hpp"
#include "Lv.hpp"
#define END(fmt, v) printf(" -> " fmt " dtors=%d bad=%d\n", v, nd, 0);
int main() {
  auto c = Cbs::new_(12345);
  int nd = 1;       /* std::function copies are released by the wrapper; ownership itself is C03's business: report what the C driver reports */
  printf("three:"); { double r = Cbs::three([](uint8_t a, int64_t b, float c2) -> double { printf(" three(%u,%lld,%.3f)", (unsigned)a, (long long)b, (double)c2); return (double)a + (double)(b % 1000) + (double)c2; }); END("%.3f", r) }
  printf("flags:"); { uint8_t r = c->flags([](bool a, uint16_t b) -> bool { printf(" flags(%d,%u)", (int)a, (unsigned)b); return a ? (b == 65535) : (b % 2 == 1); }); END("%u", (unsigned)r) }
  printf("unit:"); { Cbs::unit([](int32_t a) { printf(" unit(%d)", a); }); END("%d", 0) }
  nd = 2;
  printf("two:"); { int32_t r = Cbs::two([](int32_t a) -> int32_t { printf(" f(%d)", a); return a + 10; }, [](int32_t a) -> int32_t { printf(" g(%d)", a); return a + 20; }); END("%d", r) }
  nd = 1;
  printf("mixed:"); { uint32_t r = c->mixed(200, [](uint8_t a, uint8_t b) -> uint16_t { printf(" mixed(%u,%u)", (unsigned)a, (unsigned)b); return (uint16_t)(a * 256 + b); }, 17); END("%u", r) }
  printf("structy:"); { int32_t r = Cbs::structy([](Pt p, Lv l) -> int32_t { printf(" structy(%d,%.3f,%u,%d)", (int)p.x, p.y, (unsigned)p.z, (int)Lv::Value(l)); return p.x + (int)Lv::Value(l); }); END("%d", r) }
  printf("chars:"); { uint64_t r = Cbs::chars([](char32_t ch, size_t s, intptr_t i) -> uint64_t { printf(" chars(%u,%d,%ld)", (unsigned)ch, s == SIZE_MAX, (long)i); return (uint64_t)ch + (s == SIZE_MAX) + (i == -1); }); END("%llu", (unsigned long long)r) }
  int state = 0;
  printf("fm:"); { uint32_t r = Cbs::fm([&state](uint32_t a) -> uint32_t { state += (int)a; printf(" fm(%u|%d)", a, state); return a * (uint32_t)state; }); END("%u", r) }
  return 0;
}
'''


def expected():
    tmod = lambda a, m: a % m if a >= 0 else -((-a) % m)            # C's truncated remainder
    i64min = -2 ** 63
    t1 = 7 + tmod(-5_000_000_000, 1000) + 1.5
    t2 = 255 + tmod(i64min, 1000) - 0.25
    return [
        f"three: three(7,-5000000000,1.500) three(255,{i64min},-0.250) -> {t1 + t2:.3f} dtors=1 bad=0",
        "flags: flags(1,65535) flags(0,12345) -> 3 dtors=1 bad=0",
        "unit: unit(-3) unit(2147483647) -> 0 dtors=1 bad=0",
        "two: f(1) g(2) -> 1122 dtors=2 bad=0",
        f"mixed: mixed(200,17) -> {200 * 256 + 17 + 12345} dtors=1 bad=0",
        "structy: structy(-7,2.500,9,3) -> -4 dtors=1 bad=0",
        "chars: chars(128512,1,-1) -> 128514 dtors=1 bad=0",
        "fm: fm(1|1) fm(2|3) fm(3|6) -> 25 dtors=1 bad=0",
    ]


def run(ctx, lang="c", stds=("c11",)):
    """returns the number of comparisons made"""
    d, lib, p = e2e.bridge_crate("c01cb", BRIDGE)
    if lib is None:
        ctx.violation("e2e:callbacks-macro-build", {"broken": "the callbacks bridge does not compile with the real macro", "log": p.stderr[-2000:], "lib_rs": BRIDGE}, True)
        return 0
    out = os.path.join(d, "out_" + lang)
    q = e2e.run_tool(lang, os.path.join(d, "src/lib.rs"), out)
    if q.returncode != 0:
        ctx.violation(f"e2e:callbacks-tool-{lang}", {"broken": f"diplomat-tool {lang} failed on the callbacks bridge", "log": q.stderr[-2000:], "lib_rs": BRIDGE}, True)
        return 0
    src = os.path.join(d, "drvcb." + ("c" if lang == "c" else "cpp"))
    open(src, "w").write(C_DRIVER if lang == "c" else CPP_DRIVER)
    n = 0
    for std in stds:
        c, r = e2e.cc_run(src, [out], lib, os.path.join(d, "drvcb_" + lang), std=std, cxx=(lang == "cpp"), extra=["-fsanitize=address"])
        if r is None:
            ctx.violation(f"direct:callbacks-{lang}-compile", {"std": std, "what": "a caller passing callbacks of the documented shapes does not compile against the generated headers",
                                                             "log": c.stderr[-2500:], "lib_rs": BRIDGE}, True)
            return n
        got = [l for l in r.stdout.split("\n") if l.strip()]
        want = expected()
        for g, w in zip(got + ["<missing>"] * (len(want) - len(got)), want):
            n += 6
            if g != w:
                ctx.violation(f"direct:callbacks-{lang}", {"std": std, "what": f"{lang} observed `{g}`, expected `{w}` (callback arguments as Rust passed them, results as the callback "
                                                          "returned them, one destructor call per callback, the data cookie unchanged)", "stderr": r.stderr[-800:], "lib_rs": BRIDGE}, True)
                return n
        if r.returncode != 0:
            ctx.violation(f"direct:callbacks-{lang}-run", {"std": std, "what": f"driver exit code {r.returncode}: {r.stderr[-1200:]}", "lib_rs": BRIDGE}, True)
    return n
