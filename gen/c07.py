"""C07 — Dart and Kotlin native declarations match the C ABI (DESIGN §5 C07)."""
import re
from common import *
import abigen, abi_run, e2e, tablegen

PROP = "C07"
HEADER = ("From Coq Require Import List String Bool NArith.\nImport ListNotations.\nLocal Open Scope string_scope.\n"
          "Local Open Scope list_scope.\nFrom DV Require Import gen.Tables Abi.Model.")

DART_PRIM = {"ffi.Bool": "ABool", "ffi.Uint8": "(AI 1 false)", "ffi.Int8": "(AI 1 true)", "ffi.Uint16": "(AI 2 false)", "ffi.Int16": "(AI 2 true)",
             "ffi.Uint32": "(AI 4 false)", "ffi.Int32": "(AI 4 true)", "ffi.Uint64": "(AI 8 false)", "ffi.Int64": "(AI 8 true)",
             "ffi.Size": "(AIp false)", "ffi.IntPtr": "(AIp true)", "ffi.Float": "(AF 4)", "ffi.Double": "(AF 8)", "ffi.Void": "AUnit"}
KT_PRIM = {"Boolean": "ABool", "Byte": "(AI 1 true)", "FFIUint8": "(AI 1 false)", "Short": "(AI 2 true)", "FFIUint16": "(AI 2 false)", "Int": "(AI 4 true)",
           "FFIUint32": "(AI 4 false)", "Long": "(AI 8 true)", "FFIUint64": "(AI 8 false)", "FFISizet": "(AIp false)", "FFIIsizet": "(AIp true)",
           "Float": "(AF 4)", "Double": "(AF 8)", "Unit": "AUnit", "Pointer": "APtr", "Pointer?": "APtr"}


class Dart:
    def __init__(self, out):
        self.txt = "".join(open(os.path.join(out, f)).read() + "\n" for f in sorted(os.listdir(out)) if f.endswith(".dart"))
        self.classes = {}
        for m in re.finditer(r"final class (\w+) extends ffi\.(Struct|Union) \{(.*?)\n\}", self.txt, re.S):
            fields = []
            for fm in re.finditer(r"(?:@(ffi\.\w+)\(\)\s*)?external\s+([\w\.<>]+)\s+(\w+);", m.group(3)):
                fields.append((fm.group(3), fm.group(1) or fm.group(2)))
            self.classes[m.group(1)] = (m.group(2), fields)
        self.natives = {}
        for m in re.finditer(r"@ffi\.Native<(.+?) Function\((.*?)\)>\(.*?symbol: '(\w+)'\)", self.txt):
            self.natives[m.group(3)] = (m.group(1).strip(), [p.strip() for p in split_top(m.group(2))])

    def abi(self, tok, depth=0):
        tok = tok.strip()
        if tok in DART_PRIM: return f"(dart_obs {cstr(tok)})"      # the name-to-class table lives in Abi/Model.v (dart_name_abi)
        if tok.startswith("ffi.Pointer<"): return "APtr"
        if tok in self.classes and depth < 8:
            kind, fields = self.classes[tok]
            inner = clist([self.abi(t, depth + 1) for _, t in fields])
            return f"(AUni {inner})" if kind == "Union" else f"(ARec {inner})"
        return "(AF 99)"      # unknown token: can never agree


def split_top(s):
    out, depth, cur = [], 0, ""
    for ch in s:
        if ch in "<(": depth += 1
        if ch in ">)": depth -= 1
        if ch == "," and depth == 0:
            out.append(cur); cur = ""
        else:
            cur += ch
    if cur.strip():
        out.append(cur)
    return out


class Kotlin:
    def __init__(self, out):
        base = None
        for root, _, fs in os.walk(out):
            if "Lib.kt" in fs:
                base = root
        self.txt = "".join(open(os.path.join(base, f)).read() + "\n" for f in sorted(os.listdir(base)) if f.endswith(".kt"))
        self.classes = {}
        for m in re.finditer(r"class (\w+)\s*:\s*(Structure|Union)\(\)[^{]*\{(.*?)\n\}", self.txt, re.S):
            body = m.group(3)
            fields = re.findall(r"@JvmField\s+(?:internal\s+)?var (\w+): ([\w\?]+)", body)
            order = re.search(r"listOf\(([^)]*)\)", body)
            names = re.findall(r'"(\w+)"', order.group(1)) if order else [f for f, _ in fields]
            fd = dict(fields)
            self.classes[m.group(1)] = (m.group(2), [(n, fd.get(n, "?")) for n in names] if m.group(2) == "Structure" else fields)
        self.natives = {}
        for m in re.finditer(r"fun (\w+)\(([^)]*)\)(?::\s*([\w\?]+))?\s*$", self.txt, re.M):
            ps = [p.split(":")[1].strip() for p in m.group(2).split(",") if ":" in p]
            self.natives.setdefault(m.group(1), (m.group(3) or "Unit", ps))

    def abi(self, tok, depth=0):
        tok = tok.strip()
        # the name-to-class table lives in Abi/Model.v (kt_name_abi; kt_field_abi inside a Structure / Union, where JNA lays a Boolean out
        # as a 32-bit int, so that only Byte matches a C bool there)
        if tok in KT_PRIM: return f"(kt_obs {cbool(depth > 0)} {cstr(tok)})"
        if tok in self.classes and depth < 8:
            kind, fields = self.classes[tok]
            inner = clist([self.abi(t, depth + 1) for _, t in fields])
            return f"(AUni {inner})" if kind == "Union" else f"(ARec {inner})"
        return "(AF 99)"


def env_term(mod):
    """Gallina function string -> abi for the generated structs"""
    s = "(fun n => "
    for name, fs in mod.structs.items():
        s += f"if n =? {cstr(name)} then ARec {clist([abi_run.coq_field_abi(mod, t) for _, t in fs])} else "
    return s + "ARec [])"


BIG_ENUM = """#[diplomat::bridge]
mod ffi {
    pub enum Flag { None = 0, Low = 1, High = 0x8000_0000 }
    #[diplomat::opaque]
    pub struct Op(pub u8);
    impl Op { pub fn high() -> Flag { Flag::High } }
}
"""


def check(ctx, replay=None):
    build_harness()
    tablegen.main()
    phase = standard_proof_phase(ctx, PROP, ["theories/Properties/C07.v"])
    e2e.build_tool()
    rng = ctx.rng
    d = os.path.join(BUILD, "e2e", "c07")
    os.makedirs(d, exist_ok=True)
    goals, meta, viol, nfun, samples, skipped_panics = [], [], 0, 0, [], []
    def violate(key, obj):
        nonlocal viol
        if len(ctx.violations) < 4:
            viol += 1
            ctx.violation(key, obj, True)
    for bi in range(2 if ctx.quick() else 10):
        for backend, Parser in (("dart", Dart), ("kotlin", Kotlin)):
            mod = abigen.Module(rng, profile=backend)
            methods = abigen.gen_methods(mod, 45, rng, profile=backend)
            # make sure pointer-sized integers appear in every position
            methods.append({"name": "sizes", "self": "ref", "params": [("a", ("prim", "isize")), ("b", ("prim", "usize")), ("c", ("slice", "isize", "ref"))],
                            "ret": ("prim", "isize"), "write": False, "rets": [0, 1, 2]})
            # every write-out return shape, with parameters before the writer and on every kind of receiver
            for wi, (selfk, ps) in enumerate(((None, []), ("ref", [("a", ("prim", "u8"))]), ("mut", [("a", ("prim", "i64")), ("b", ("prim", "f32"))]))):
                methods.append({"name": f"woptunit{wi}", "self": selfk, "params": ps, "ret": ("optunit",), "write": True, "rets": [None, True, None]})
            # structs named like the dart:ffi / JNA spellings of primitives, in the same optional / fallible arms as those primitives
            # (record types such as _ResultXVoid are shared by name)
            for sn in ("Size", "Bool", "Double", "Int32", "Uint8", "Long", "Float"):
                mod.structs[sn] = [("width", ("prim", "f64")), ("height", ("prim", "f64"))]
                for nm, selfk, ps, rt in ((f"optst_{sn.lower()}", "ref", [], ("opt", "std", ("struct", sn))), (f"resst_{sn.lower()}", None, [], ("res", ("struct", sn), ("unit",))),
                                          (f"resse_{sn.lower()}", "ref", [], ("res", ("unit",), ("struct", sn)))):
                    if backend == "kotlin" and nm.startswith("resse_"):
                        continue          # Kotlin wants an `error` attribute on struct error types (recorded C15 finding)
                    methods.append({"name": nm, "self": selfk, "params": ps, "ret": rt, "write": False, "rets": [mod.rand_value(rt) for _ in range(3)]})
            # a result whose arms both carry nothing
            methods.append({"name": "ruu", "self": "ref", "params": [("a", ("prim", "u8"))], "ret": ("res", ("unit",), ("unit",)), "write": False,
                            "rets": [mod.rand_value(("res", ("unit",), ("unit",))) for _ in range(3)]})
            # every primitive as the payload of an optional / fallible return and as a plain return (record shapes per primitive)
            for pn in abigen.PRIMS:
                if pn in ("i128", "u128"):
                    continue
                for nm, selfk, ps, rt in ((f"optp_{pn}", "ref", [], ("opt", "std", ("prim", pn))), (f"resp_{pn}", None, [("a", ("prim", pn))], ("res", ("prim", pn), ("unit",))),
                                          (f"rese_{pn}", "ref", [], ("res", ("unit",), ("prim", pn)))):
                    methods.append({"name": nm, "self": selfk, "params": ps, "ret": rt, "write": False, "rets": [mod.rand_value(rt) for _ in range(3)]})
            src = abigen.rust_source(mod, methods)
            path = os.path.join(d, f"{backend}{bi}.rs"); open(path, "w").write(src)
            out = os.path.join(d, f"out_{backend}")
            q = e2e.run_tool(backend, path, out, config=["lib_name=somelib", "kotlin.domain=dev.x"])
            if q.returncode != 0:
                if "panicked" in q.stderr:
                    skipped_panics.append(backend)
                    continue      # crashes are C15's business
                violate(f"tool:{backend}", {"what": f"diplomat-tool {backend} rejects a bridge inside its own profile: {q.stderr[-500:]}", "lib_rs": src[:3000]}); continue
            qc = e2e.run_tool("c", path, os.path.join(d, "out_c"))
            protos = abi_run.parse_header(os.path.join(d, "out_c", "Op.h"))[0] if qc.returncode == 0 else {}
            if backend == "kotlin":
                # a JNA Structure member must have a size: a Union class without fields listed as a member is refused at run time
                # ("Invalid Structure field ... has unknown or zero size"), while the C record of a payload-less result is the flag alone
                for root, _, fs in os.walk(out):
                    for f in fs:
                        if f.endswith(".kt"):
                            ktxt = open(os.path.join(root, f)).read()
                            for um in re.finditer(r"class (\w+)Union: Union\(\) \{\s*\}", ktxt):
                                if re.search(r"var union: %sUnion\b" % um.group(1), ktxt):
                                    violate("direct:kotlin-empty-union", {"record": um.group(1), "what": f"the JNA record {um.group(1)} of a result whose arms carry no payload has a member "
                                            f"`union` of the field-less class {um.group(1)}Union: the C type is {{ bool is_ok }}; JNA refuses a Structure field of zero size", "lib_rs": src[:2500]})
            P = Parser(out)
            env = env_term(mod)
            agree = "agree_dart_sig" if backend == "dart" else "agree_kotlin_sig"
            for m in methods:
                abi = "Op_" + m["name"]
                if abi not in P.natives:
                    violate(f"direct:missing:{backend}", {"method": m["name"], "what": f"no native declaration for {abi} in the {backend} output"}); continue
                ret, ps = P.natives[abi]
                nfun += 1
                pl = clist([abi_run.coq_pty(t) for _, t in m["params"]] + (["PWrite"] if m["write"] else []))
                self_ = "None" if m["self"] is None else f"(Some {cbool(m['self'] == 'mut')})"
                goals.append(f"{agree} {env} {self_} {pl} {abi_run.coq_rty(m['ret'])} {clist([P.abi(x) for x in ps])} {P.abi(ret)}")
                meta.append((backend, m, ps, ret, protos.get(abi)))
                # direct check against the C header: same parameter count
                if abi in protos and len(protos[abi][1]) != len(ps):
                    violate(f"direct:arity:{backend}", {"method": m["name"], "what": f"{backend} declares {len(ps)} parameters {ps}, the C header {len(protos[abi][1])}: {protos[abi][1]}"})
            for sname, fs in mod.structs.items():
                mirror = ("_" + sname + "Ffi") if backend == "dart" else (sname + "Native")
                if mirror not in P.classes:
                    continue
                kind, fields = P.classes[mirror]
                want = [f for f, _ in fs]
                got = [f for f, _ in fields]
                if got != want:
                    violate(f"direct:field-order:{backend}", {"struct": sname, "what": f"the {backend} mirror {mirror} lists fields {got}, the repr(C) struct has {want}"})
                goals.append(f"agree_mirror {cbool(backend == 'kotlin')} {clist([abi_run.coq_field_abi(mod, t) for _, t in fs])} {clist([P.abi(t) for _, t in fields])}")
                meta.append((backend, {"name": "struct " + sname}, [t for _, t in fields], "", None))
            if bi == 0:
                k = list(P.natives)[5] if len(P.natives) > 5 else None
                samples.append({"backend": backend, "symbol": k, "declared": P.natives.get(k)})
    # an enum whose discriminants do not fit a signed 32-bit integer: rustc and C make it `unsigned int`; a Dart declaration of
    # ffi.Int32 for it has the wrong signedness (every High arrives negative). The backend may also refuse the enum.
    epath = os.path.join(d, "bigenum.rs")
    open(epath, "w").write(BIG_ENUM)
    q = e2e.run_tool("dart", epath, os.path.join(d, "out_bigenum"), config=["lib_name=somelib"])
    nfun += 1
    if q.returncode == 0:
        txt = open(os.path.join(d, "out_bigenum", "Op.g.dart")).read()
        m = re.search(r"@ffi\.Native<(ffi\.\w+) Function\(\)>\([^)]*symbol: 'Op_high'", txt)
        if m and m.group(1) == "ffi.Int32":
            violate("direct:dart-enum-range", {"lib_rs": BIG_ENUM, "what": "enum Flag { None = 0, Low = 1, High = 0x8000_0000 } is a 4-byte *unsigned* type for rustc and C; Dart declares "
                                               "`ffi.Int32 Function()` for Op_high: Flag::High (2147483648) arrives as -2147483648, which is no variant"})
    if skipped_panics:
        raise MachineryError(f"C07: diplomat-tool panicked on {len(skipped_panics)} generated bridge(s) ({skipped_panics}): nothing could be compared for them")
    fails = run_shards(PROP, HEADER, goals, per_shard=60) if goals else []
    seen = set()
    for f in fails:
        backend, m, ps, ret, cproto = meta[f]
        key = f"decl:{backend}"
        if key in seen:
            continue
        seen.add(key)
        ctx.violation(key, {"backend": backend, "item": m["name"], "declared_params": ps, "declared_return": ret, "c_prototype": cproto,
                            "what": f"the {backend} native declaration of {m['name']} does not have the parameter/return classes (width, signedness, float kind, "
                                    "pointer vs by-value, record shape) of the C ABI the macro compiles"}, True)
    return batch_evidence(
        ctx, PROP, phase, goals, fails, len(goals), nfun,
        "generated bridges restricted to each backend's own feature profile (Dart: no optional slices / owned slices; Kotlin: no Option parameters, unit "
        "error arms, borrowed non-UTF-8 strings and slices), always including pointer-sized integers in parameter / return / slice position; "
        "diplomat-tool dart / kotlin; parsed: every @ffi.Native<... Function(...)> line with its _XFfi / _ResultXY / _SliceT classes, every JNA Library "
        "`fun` with its XNative / ResultXY / OptionX / Slice classes and getFieldOrder; each signature and struct mirror is turned into representation "
        "classes and compared in Coq with what the macro compiles (Kotlin up to signedness). distinct_nontrivial = native function declarations examined",
        "Modelled, not verified: see C01 (Abi/Model.v) plus the meaning of dart:ffi and JNA type names (dart_name_abi, kt_name_abi); gen/Tables.v "
        "regenerated from the Dart and Kotlin formatters. No Dart/Kotlin toolchain exists here: declarations are compared as declarations, nothing is executed",
        samples, ["Kotlin `Boolean` parameters are taken to denote a C bool (JNA passes an int whose low byte is the bool); a `Boolean` field of a JNA Structure is a 32-bit int and is classified as such"], {"functions": nfun})
