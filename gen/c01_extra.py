"""C01: shapes outside the shared generator's grammar, on a fixed bridge: borrowed slices / strings inside an Option return
(an FFI-safe option struct by value, not a nullable fat pointer) and every write-out return shape (plain, Result<(), E>,
Option<()>): the write parameter is declared last in the header exactly when the macro takes it."""
from common import *
import e2e

BRIDGE = r'''
#[diplomat::bridge]
mod ffi {
    use diplomat_runtime::{DiplomatWrite, DiplomatStr, DiplomatOption};
    use core::fmt::Write;
    #[diplomat::opaque]
    pub struct Store { pub s: String, pub v: Vec<u32>, pub w: Vec<u16>, pub n: u32 }
    impl Store {
        pub fn new(n: u32) -> Box<Store> { Box::new(Store { s: format!("text-{n}"), v: (0..n).map(|i| i * 3 + 1).collect(), w: (0..n).map(|i| (i * 5 + 2) as u16).collect(), n }) }
        pub fn os<'a>(&'a self) -> Option<&'a str> { if self.n % 2 == 0 { None } else { Some(&self.s) } }
        pub fn ods<'a>(&'a self) -> Option<&'a DiplomatStr> { if self.n % 2 == 0 { None } else { Some(self.s.as_bytes()) } }
        pub fn osl<'a>(&'a self) -> Option<&'a [u32]> { if self.n % 2 == 0 { None } else { Some(&self.v) } }
        pub fn osl16<'a>(&'a self, k: u8) -> Option<&'a [u16]> { if self.n % 2 == 0 { None } else { Some(&self.w[(k as usize).min(self.w.len())..]) } }
        pub fn rsl<'a>(&'a self) -> Result<&'a [u32], u8> { if self.n % 2 == 0 { Err(self.n as u8) } else { Ok(&self.v) } }
        pub fn sl<'a>(&'a self) -> &'a [u32] { &self.v }
        pub fn ou(&self) -> Option<u32> { if self.n % 2 == 0 { None } else { Some(self.n * 7) } }
        // an Option without a payload and without a writer; a slice that the caller may leave empty / default-constructed
        pub fn ounit(&self) -> Option<()> { if self.n % 2 == 0 { None } else { Some(()) } }
        pub fn count(&self, extra: &[u32]) -> u32 { (self.v.len() + extra.len()) as u32 }
        pub fn wopt(&self, pre: u8, w: &mut DiplomatWrite) -> Option<()> { if self.n % 2 == 0 { None } else { let _ = write!(w, "{}-{}", pre, self.n); Some(()) } }
        pub fn wres(&self, pre: u8, w: &mut DiplomatWrite) -> Result<(), u8> { if self.n % 2 == 0 { Err(pre) } else { let _ = write!(w, "{}+{}", pre, self.n); Ok(()) } }
        pub fn wplain(&self, pre: u8, w: &mut DiplomatWrite) { let _ = write!(w, "{}={}", pre, self.n); }
        pub fn wstatic(pre: u8, post: u16, w: &mut DiplomatWrite) -> Option<()> { if pre == 0 { None } else { let _ = write!(w, "{}:{}", pre, post); Some(()) } }
    }
    // receivers by value: structs and enums (explicit discriminants that coincide with a position only sometimes)
    pub struct Pt { pub x: i16, pub y: f64, pub z: u8 }
    pub enum Lv { High = 3, Mid = 1, Low = 0, Top = 7 }
    pub enum Mx { A, B = 5, C, D = 3 }
    impl Pt {
        pub fn sum(self) -> f64 { self.x as f64 + self.y + self.z as f64 }
        pub fn shift(self, d: i16, l: Lv) -> Pt { Pt { x: self.x + d, y: self.y * 2.0, z: l as u8 } }
        // optional by-value payloads spelled `Self`, with both Option spellings (they must behave like the spelled-out type)
        pub fn x_or_std(self, o: Option<Self>) -> i16 { match o { Some(p) => p.x, None => self.x } }
        pub fn x_or_dipl(self, o: DiplomatOption<Self>) -> i16 { match o.into_option() { Some(p) => p.x, None => self.x } }
        pub fn x_or_named(self, o: Option<Pt>) -> i16 { match o { Some(p) => p.x, None => self.x } }
        pub fn maybe(self, yes: bool) -> Option<Self> { if yes { Some(self) } else { None } }
    }
    impl Lv {
        pub fn code(self) -> i32 { self as i32 }
        pub fn next(self) -> Lv { match self { Lv::High => Lv::Mid, Lv::Mid => Lv::Low, Lv::Low => Lv::Top, Lv::Top => Lv::High } }
        pub fn pick(self, m: Mx) -> Option<Mx> { if self as i32 == 0 { None } else { Some(m) } }
    }
    impl Mx { pub fn code(self) -> i32 { self as i32 } }
}
'''

DRIVER = r'''
#include <stdio.h>
#include <stdint.h>
#include <string.h>
#include <stdlib.h>
#include <stdbool.h>
#include "Store.h"
#include "Pt.h"
#include "Lv.h"
#include "Mx.h"
static void pv32(DiplomatU32View v) { printf("["); for (size_t i = 0; i < v.len; i++) printf("%s%u", i ? "," : "", v.data[i]); printf("]"); }
static void pv16(DiplomatU16View v) { printf("["); for (size_t i = 0; i < v.len; i++) printf("%s%u", i ? "," : "", (unsigned)v.data[i]); printf("]"); }
static void ps(DiplomatStringView v) { printf("\"%.*s\"", (int)v.len, v.data); }
typedef struct Mine { int grows; int flushes; } Mine;
static void mine_flush(DiplomatWrite* w) { ((Mine*)w->context)->flushes++; }
static bool mine_grow(DiplomatWrite* w, size_t cap) { ((Mine*)w->context)->grows++; char* nb = (char*)realloc(w->buf, cap); if (!nb) return false; w->buf = nb; w->cap = cap; return true; }
int main(void) {
  for (uint32_t n = 0; n < 6; n++) {
    Store* s = Store_new(n);
    char buf[64];
    printf("n%u os=", n); { Store_os_result r = Store_os(s); if (r.is_ok) ps(r.ok); else printf("N"); }
    printf(" ods="); { Store_ods_result r = Store_ods(s); if (r.is_ok) ps(r.ok); else printf("N"); }
    printf(" osl="); { Store_osl_result r = Store_osl(s); if (r.is_ok) pv32(r.ok); else printf("N"); }
    printf(" osl16="); { Store_osl16_result r = Store_osl16(s, 1); if (r.is_ok) pv16(r.ok); else printf("N"); }
    printf(" rsl="); { Store_rsl_result r = Store_rsl(s); if (r.is_ok) pv32(r.ok); else printf("E%u", (unsigned)r.err); }
    printf(" sl="); pv32(Store_sl(s));
    printf(" ou="); { Store_ou_result r = Store_ou(s); if (r.is_ok) printf("%u", r.ok); else printf("N"); }
    { memset(buf, 0, sizeof buf); DiplomatWrite w = diplomat_simple_write(buf, sizeof buf); Store_wopt_result r = Store_wopt(s, 9, &w); printf(" wopt=%d:%s", (int)r.is_ok, buf); }
    { memset(buf, 0, sizeof buf); DiplomatWrite w = diplomat_simple_write(buf, sizeof buf); Store_wres_result r = Store_wres(s, 8, &w); if (r.is_ok) printf(" wres=1:%s", buf); else printf(" wres=0:E%u", (unsigned)r.err); }
    { memset(buf, 0, sizeof buf); DiplomatWrite w = diplomat_simple_write(buf, sizeof buf); Store_wplain(s, 7, &w); printf(" wplain=%s", buf); }
    { memset(buf, 0, sizeof buf); DiplomatWrite w = diplomat_simple_write(buf, sizeof buf); Store_wstatic_result r = Store_wstatic((uint8_t)n, 4660, &w); printf(" wstatic=%d:%s", (int)r.is_ok, buf); }
    { Store_ounit_result r = Store_ounit(s); printf(" ounit=%d count=%u", (int)r.is_ok, Store_count(s, (DiplomatU32View){ NULL, 0 })); }
    printf("\n");
    Store_destroy(s);
  }
  /* the writeable as a C struct: a fixed buffer that is too small reports grow_failed; a caller-defined writeable is driven through its own grow / flush */
  { Store* s = Store_new(12345); char small[4]; char big[32];
    DiplomatWrite w1 = diplomat_simple_write(small, sizeof small); Store_wplain(s, 7, &w1);
    DiplomatWrite w2 = diplomat_simple_write(big, sizeof big); Store_wplain(s, 7, &w2);
    printf("simple small: failed=%d len=%zu cap=%zu | big: failed=%d len=%zu text=%.*s\n", (int)w1.grow_failed, w1.len, w1.cap, (int)w2.grow_failed, w2.len, (int)w2.len, w2.buf);
    Mine m = { 0, 0 }; DiplomatWrite w3; memset(&w3, 0, sizeof w3);
    w3.context = &m; w3.buf = (char*)malloc(2); w3.len = 0; w3.cap = 2; w3.grow_failed = false; w3.flush = mine_flush; w3.grow = mine_grow;
    Store_wplain(s, 7, &w3); Store_wplain(s, 9, &w3);
    printf("custom: grows=%d flushes=%d failed=%d len=%zu text=%.*s\n", m.grows > 0, m.flushes, (int)w3.grow_failed, w3.len, (int)w3.len, w3.buf);
    free(w3.buf); Store_destroy(s); }
  { Pt p = { -7, 2.5, 9 }; Pt q = Pt_shift(p, 10, Lv_Mid);
    printf("pt sum=%.3f shift=%d,%.3f,%u\n", Pt_sum(p), (int)q.x, q.y, (unsigned)q.z); }
  { Pt p = { -7, 2.5, 9 }; Pt o = { 0, 1.0, 1 }; int16_t xs[3] = { 0, 7, 2 };
    printf("ptopt");
    for (int i = 0; i < 3; i++) { o.x = xs[i];
      Pt_option some; memset(&some, 0xEE, sizeof some); some.ok = o; some.is_ok = true;
      Pt_option none; memset(&none, 0xEE, sizeof none); none.is_ok = false;
      printf(" %d,%d,%d/%d,%d,%d", (int)Pt_x_or_std(p, some), (int)Pt_x_or_dipl(p, some), (int)Pt_x_or_named(p, some),
             (int)Pt_x_or_std(p, none), (int)Pt_x_or_dipl(p, none), (int)Pt_x_or_named(p, none)); }
    { Pt_maybe_result r = Pt_maybe(p, true); Pt_maybe_result r0 = Pt_maybe(p, false); printf(" maybe=%d:%d,%d\n", (int)r.is_ok, r.is_ok ? (int)r.ok.x : 0, (int)r0.is_ok); } }
  printf("lv consts=%d,%d,%d,%d codes=%d,%d,%d,%d next=%d,%d,%d,%d\n", (int)Lv_High, (int)Lv_Mid, (int)Lv_Low, (int)Lv_Top,
         Lv_code(Lv_High), Lv_code(Lv_Mid), Lv_code(Lv_Low), Lv_code(Lv_Top), (int)Lv_next(Lv_High), (int)Lv_next(Lv_Mid), (int)Lv_next(Lv_Low), (int)Lv_next(Lv_Top));
  printf("mx consts=%d,%d,%d,%d codes=%d,%d,%d,%d", (int)Mx_A, (int)Mx_B, (int)Mx_C, (int)Mx_D, Mx_code(Mx_A), Mx_code(Mx_B), Mx_code(Mx_C), Mx_code(Mx_D));
  { Lv_pick_result r = Lv_pick(Lv_Mid, Mx_C); printf(" pick=%d:%d", (int)r.is_ok, r.is_ok ? (int)r.ok : -1); }
  { Lv_pick_result r = Lv_pick(Lv_Low, Mx_D); printf(" pick0=%d\n", (int)r.is_ok); }
  return 0;
}
'''


def expected(writeable_struct=True):
    """writeable_struct: the two lines only the C driver prints (it looks inside the DiplomatWrite struct)"""
    out = []
    for n in range(6):
        odd = n % 2 == 1
        v = [i * 3 + 1 for i in range(n)]; w = [i * 5 + 2 for i in range(n)]
        l32 = "[" + ",".join(map(str, v)) + "]"; l16 = "[" + ",".join(map(str, w[min(1, len(w)):])) + "]"
        s = f'"text-{n}"'
        out.append(f"n{n} os={s if odd else 'N'} ods={s if odd else 'N'} osl={l32 if odd else 'N'} osl16={l16 if odd else 'N'} "
                   f"rsl={l32 if odd else 'E%d' % n} sl={l32} ou={n * 7 if odd else 'N'} wopt={'1:9-%d' % n if odd else '0:'} "
                   f"wres={'1:8+%d' % n if odd else '0:E8'} wplain=7={n} wstatic={'1:%d:4660' % n if n else '0:'} ounit={1 if odd else 0} count={n}")
    if writeable_struct:
        out.append("simple small: failed=1 len=2 cap=3 | big: failed=0 len=7 text=7=12345")
        out.append("custom: grows=1 flushes=2 failed=0 len=14 text=7=123459=12345")
    out.append("pt sum=4.500 shift=3,5.000,1")
    if writeable_struct:      # C driver only: by-value optional payloads spelled `Self`
        out.append("ptopt 0,0,0/-7,-7,-7 7,7,7/-7,-7,-7 2,2,2/-7,-7,-7 maybe=1:-7,0")
    out.append("lv consts=3,1,0,7 codes=3,1,0,7 next=1,0,7,3")
    out.append("mx consts=0,5,6,3 codes=0,5,6,3 pick=1:6 pick0=0")
    return out


def run(ctx, crate="c01x"):
    """returns number of comparisons made"""
    d, lib, p = e2e.bridge_crate(crate, BRIDGE)
    if lib is None:
        ctx.violation("e2e:extra-macro-build", {"broken": "the extra-shapes bridge does not compile with the real macro", "log": p.stderr[-2000:], "lib_rs": BRIDGE}, True)
        return 0
    q = e2e.run_tool("c", os.path.join(d, "src/lib.rs"), os.path.join(d, "out_c"))
    if q.returncode != 0:
        ctx.violation("e2e:extra-tool-c", {"broken": "diplomat-tool c failed on the extra-shapes bridge", "log": q.stderr[-2000:], "lib_rs": BRIDGE}, True)
        return 0
    open(os.path.join(d, "drvx.c"), "w").write(DRIVER)
    c, r = e2e.cc_run(os.path.join(d, "drvx.c"), [os.path.join(d, "out_c")], lib, os.path.join(d, "drvx"), extra=["-fsanitize=address"])
    if r is None:
        ctx.violation("direct:extra-decl", {"what": "a C caller written against the documented shapes (option struct by value for Option<&[T]> / Option<&str>; "
                      "DiplomatWrite* last for every write-out method) does not compile against the generated header", "log": c.stderr[-2000:], "lib_rs": BRIDGE}, True)
        return 0
    got = [l for l in r.stdout.split("\n") if l.strip()]
    want = expected()
    n = 0
    for g, w in zip(got + ["<missing>"] * (len(want) - len(got)), want):
        n += 1
        if g != w:
            ctx.violation("direct:extra-values", {"what": f"C received `{g}`, Rust returned `{w}`", "stderr": r.stderr[-800:], "lib_rs": BRIDGE}, True)
            break
    if r.returncode != 0 and got == want:
        ctx.violation("direct:extra-run", {"what": f"driver exit code {r.returncode}: {r.stderr[-1200:]}", "lib_rs": BRIDGE}, True)
    return n * 11


# a writer next to a success value: the macro exports a function that takes the DiplomatWrite, so the header either declares
# it or the tool refuses the method; a prototype without the parameter is an ABI mismatch
WRITE_AND_VALUE = """#[diplomat::bridge]
mod ffi {
    use diplomat_runtime::DiplomatWrite;
    #[diplomat::opaque]
    pub struct Op(pub u8);
    impl Op {
        pub fn %s(&self, out: &mut DiplomatWrite) -> %s { todo!() }
        pub fn plain(&self, out: &mut DiplomatWrite) {}
    }
}
"""


def run_write_and_value(ctx):
    d = os.path.join(BUILD, "e2e", "c01wv"); os.makedirs(d, exist_ok=True)
    n = 0
    for name, ret in (("describe", "usize"), ("describe_checked", "Result<u8, ()>"), ("describe_opt", "Option<u8>")):
        src = WRITE_AND_VALUE % (name, ret)
        path = os.path.join(d, f"{name}.rs"); open(path, "w").write(src)
        q = e2e.run_tool("c", path, os.path.join(d, "out"))
        n += 1
        if q.returncode != 0:
            continue            # refused at lowering: nothing is generated
        proto = re.search(r"\bOp_%s\(([^)]*)\)" % name, open(os.path.join(d, "out", "Op.h")).read())
        if proto is None or "DiplomatWrite" not in proto.group(1):
            ctx.violation("direct:write-and-value", {"what": f"`fn {name}(&self, out: &mut DiplomatWrite) -> {ret}` is accepted; the macro exports Op_{name}(self, write) but the C header "
                                                     f"declares Op_{name}({proto.group(1) if proto else '?'}): Rust reads its second argument from whatever the caller left there",
                                                     "lib_rs": src}, True)
    return n
