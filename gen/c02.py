"""C02 — C++ bindings preserve values and outcomes (DESIGN §5 C02)."""
import re
from common import *
import abigen, e2e, tablegen

PROP = "C02"
HEADER = ("From Coq Require Import List ZArith Bool.\nImport ListNotations.\nLocal Open Scope Z_scope.\nFrom DV Require Import Cpp.Model Cpp.Ops.")


class P:
    """type-directed parser of the canonical text"""
    def __init__(self, mod, s):
        self.mod, self.s, self.i = mod, s, 0
    def eat(self, lit):
        if not self.s.startswith(lit, self.i):
            raise ValueError(f"expected {lit!r} at {self.i} in {self.s!r}")
        self.i += len(lit)
    def peek(self, lit):
        return self.s.startswith(lit, self.i)
    def num(self, pat=r"-?\d+"):
        m = re.compile(pat).match(self.s, self.i)
        if not m:
            raise ValueError(f"number expected at {self.i} in {self.s!r}")
        self.i = m.end()
        return m.group(0)
    def parse(self, ty):
        k = ty[0]
        if k == "prim":
            kind = abigen.PRIMS[ty[1]][3]
            if kind == "f": return ("s", int(self.num(r"[0-9a-f]+"), 16))
            return ("s", int(self.num()))
        if k == "enum":
            self.eat("e"); return ("s", int(self.num()))
        if k == "struct":
            self.eat("{"); out = []
            for j, (f, t) in enumerate(self.mod.structs[ty[1]]):
                if j: self.eat(",")
                out.append(self.parse(t))
            self.eat("}"); return ("rec", out)
        if k == "zst":
            self.eat("{}"); return ("rec", [])
        if k == "unit":
            self.eat("()"); return ("rec", [])
        if k in ("oref", "obox", "orefret"):
            self.eat("#"); return ("ptr", int(self.num()))
        if k in ("oopt", "oboxopt", "orefopt"):
            if self.peek("N"): self.eat("N"); return ("ptr", None)
            self.eat("S(#"); x = int(self.num()); self.eat(")"); return ("ptr", x)
        if k in ("slice", "str"):
            self.eat("[" if k == "slice" else ("w[" if ty[1] == "d16" else "s["))
            out = []
            while not self.peek("]"):
                if out: self.eat(" ")
                out.append(self.parse(("prim", ty[1]))[1] if k == "slice" else int(self.num()))
            self.eat("]"); return ("view", out)
        if k in ("opt", "optslice", "optstr"):
            if self.peek("N"): self.eat("N"); return ("opt", None)
            inner = ty[2] if k == "opt" else (("slice", ty[1], "ref") if k == "optslice" else ("str", "utf8", "ref"))
            self.eat("S("); x = self.parse(inner); self.eat(")"); return ("opt", x)
        if k == "res":
            arm = "O" if self.peek("O(") else "E"
            self.eat(arm + "("); x = self.parse(ty[1] if arm == "O" else ty[2]); self.eat(")")
            return ("rec", [("s", 1 if arm == "O" else 0), x])
        if k == "ordering":
            self.eat("o"); return ("s", int(self.num()))
        raise ValueError(ty)


def coq_ty(mod, ty, val=None):
    k = ty[0]
    if k in ("prim", "enum", "ordering"): return "TScalar"
    if k == "struct": return "(TStruct " + clist([coq_ty(mod, t) for _, t in mod.structs[ty[1]]]) + ")"
    if k in ("zst", "unit"): return "(TStruct [])"
    if k in ("oref", "obox", "orefret", "oopt", "oboxopt", "orefopt"): return "TPtrOpt"
    if k in ("slice", "str"): return "TView"
    if k == "opt": return f"(TOpt {coq_ty(mod, ty[2])})"
    if k in ("optslice", "optstr"): return "(TOpt TView)"
    if k == "res":
        arm = ty[1] if (val and val[1][0][1] == 1) else ty[2]
        return f"(TStruct [TScalar; {coq_ty(mod, arm)}])"
    raise ValueError(ty)


def coq_v(x):
    k = x[0]
    if k == "s": return f"(VS {cZ(x[1])})"
    if k == "rec": return "(VRec " + clist([coq_v(y) for y in x[1]]) + ")"
    if k == "ptr": return "(VPtr None)" if x[1] is None else f"(VPtr (Some {cZ(x[1])}))"
    if k == "view": return "(VViewV " + clist([cZ(y) for y in x[1]]) + ")"
    if k == "opt": return "(VOptV None)" if x[1] is None else f"(VOptV (Some {coq_v(x[1])}))"
    raise ValueError(x)


def check(ctx, replay=None):
    build_harness()
    tablegen.main()
    phase = standard_proof_phase(ctx, PROP, ["theories/Properties/C02.v"])
    e2e.build_tool()
    rng = ctx.rng
    goals, viol, ncalls, nontriv, samples, stds_used = [], 0, 0, set(), [], set()
    def violate(key, obj, found=True):
        nonlocal viol
        if len(ctx.violations) < 3:
            viol += 1
            ctx.violation(key, obj, found)
    nb = 1 if ctx.quick() else 8
    for bi in range(nb):
        mod = abigen.Module(rng)
        methods = abigen.gen_methods(mod, 40 if ctx.quick() else 60, rng)
        # several directly passed &str in one method: each of them must be validated
        for j, ps in enumerate([[("a", ("str", "utf8", "ref")), ("b", ("str", "utf8", "ref"))],
                                [("a", ("str", "utf8", "ref")), ("raw", ("str", "dstr", "ref")), ("b", ("str", "utf8", "ref")), ("c", ("str", "utf8", "ref"))],
                                [("n", ("prim", "u8")), ("s", ("str", "utf8", "ref")), ("t", ("str", "utf8", "box"))]]):
            r = ("prim", "u16") if j != 1 else ("res", ("prim", "i8"), ("enum", list(mod.enums)[0]))
            methods.append({"name": f"strs{j}", "self": None if j else "ref", "params": ps, "ret": r, "write": False, "rets": [mod.rand_value(r) for _ in range(3)]})
        src = abigen.rust_source(mod, methods)
        d, lib, p = e2e.bridge_crate(f"c02b{bi % 2}", src)
        if lib is None:
            violate("e2e:macro-build", {"lib_rs": src[:5000], "what": "bridge does not compile with the real macro", "rustc": p.stderr[-1500:]}); continue
        q = e2e.run_tool("cpp", os.path.join(d, "src/lib.rs"), os.path.join(d, "out_cpp"))
        if q.returncode != 0:
            violate("e2e:tool-cpp", {"lib_rs": src[:5000], "what": "diplomat-tool cpp failed: " + q.stderr[-1200:]}); continue
        calls = abigen.cpp_scenarios(mod, methods, rng, per_method=4)
        open(os.path.join(d, "drv.cpp"), "w").write(abigen.cpp_driver(mod, methods, calls))
        for std in (["c++17"] if ctx.quick() else ["c++17", "c++20"]):
            stds_used.add(std)
            c, r = e2e.cc_run(os.path.join(d, "drv.cpp"), [os.path.join(d, "out_cpp")], lib, os.path.join(d, "drvpp"), std=std, cxx=True)
            if r is None:
                violate("e2e:cpp-compile", {"std": std, "what": "C++ driver does not compile against the generated headers", "log": c.stderr[-2500:], "lib_rs": src[:4000]}); continue
            if r.returncode != 0:
                violate("e2e:cpp-run", {"std": std, "what": f"C++ driver crashed rc={r.returncode}: {r.stderr[-1200:]}", "last_output": r.stdout[-500:]})
            recs = {int(ci): (ret, wr, log) for ci, ret, wr, log in re.findall(r"call (\d+) ret=([^\n]*?)(?: wr=([^\n]*))?\nlog (.*?)\|\n", r.stdout, re.S)}
            for ci, call in enumerate(calls):
                ncalls += 1
                m = call["m"]
                elog, eret, ewr = abigen.expected_cpp(mod, call)
                got = recs.get(ci)
                sig = f"{m['name']}({', '.join(mod.rust_ty(t) for _, t in m['params'])}) -> {mod.rust_ty(m['ret']) if m['ret'][0] != 'unit' else '()'}"
                if got is None:
                    violate("direct:missing-call", {"method": sig, "std": std, "what": "no output for this call"}); continue
                ret, wr, log = got
                if call.get("invalid_utf8"):
                    reached = log.strip() != ""
                    bad = next(v for (n, t), v in zip(m["params"], call["args"]) if t[0] == "str" and not abigen_valid(v))
                    goals.append(f"agree_str_guard {cbytes(bad)} {cbool(reached)}")
                    if reached or ret != "UTF8ERR":
                        violate("direct:utf8-guard", {"method": sig, "std": std, "what": f"invalid UTF-8 {bad} in a &str parameter reached Rust (log {log!r}, ret {ret!r})"})
                    continue
                if log.strip() != elog:
                    violate("direct:args", {"method": sig, "std": std, "what": f"Rust saw {log.strip()!r}, C++ passed {elog!r}"})
                elif ret != eret:
                    violate("direct:ret:" + m["ret"][0], {"method": sig, "std": std, "what": f"C++ received {ret!r}, Rust returned {eret!r}"})
                elif (wr or "") != (ewr or ""):
                    violate("direct:write", {"method": sig, "std": std, "what": f"std::string holds {wr!r}, Rust wrote {ewr!r}"})
                if m["params"] or m["ret"][0] != "unit":
                    nontriv.add(m["name"] + json.dumps(call["args"]) + str(call["sel"]) + str(bi))
                if std != "c++17":
                    continue
                # model: every value went through to_c (C++ -> C) and was read by Rust; returns through to_cpp
                try:
                    body = log.strip()
                    inner = body[len(m["name"]) + 1:-1] if body.endswith(")") else ""
                    parts = inner.split(";") if inner else []
                    if m["self"]:
                        parts = parts[1:]
                    for (n, t), v, text in zip(m["params"], call["args"], parts):
                        sent = P(mod, mod.canon(t, v)).parse(t)
                        obs = P(mod, text).parse(t)
                        goals.append(f"agree_transport {coq_ty(mod, t)} {coq_v(sent)} {coq_v(obs)}")
                    rt = m["ret"]
                    if rt[0] not in ("unit",) and not m["write"]:
                        sent = P(mod, eret).parse(rt)
                        obs = P(mod, ret).parse(rt)
                        goals.append(f"agree_transport {coq_ty(mod, rt, sent)} {coq_v(sent)} {coq_v(obs)}")
                except ValueError as ex:
                    goals.append("false")
            if bi == 0 and std == "c++17":
                samples = [{"method": calls[i]["m"]["name"], "params": [mod.rust_ty(t) for _, t in calls[i]["m"]["params"]], "observed": recs.get(i)} for i in (0, len(calls) // 2)]
    import c02_extra, c03_e2e, c02_special, c10_extra
    xstds = ("c++17",) if ctx.quick() else ("c++17", "c++20")
    nextra = c02_extra.run(ctx, xstds)
    nextra += c02_extra.run_string_lists(ctx, xstds)
    # synthesised operators (binary, compound assignment, relational, indexer) and results whose arms carry no bytes
    nextra += c02_special.run(ctx, xstds, goals=goals)
    nextra += c10_extra.run(ctx, ("cpp",), xstds)
    import c01_callbacks
    nextra += c01_callbacks.run(ctx, "cpp", xstds)
    # callbacks: values and state carried through the std::function trampoline (shared with C03's lifecycle histories)
    c03_e2e.run_cpp_callbacks(ctx)
    fails = run_shards(PROP, HEADER, goals) if goals else []
    if fails and not ctx.violations:
        ctx.violation("corr:transport", {"broken": "correspondence goal " + goals[fails[0]][:500] + " : Cpp/Model.v's conversion semantics do not reproduce the observed transport"}, False)
    return batch_evidence(
        ctx, PROP, phase, goals, fails, ncalls, len(nontriv),
        "%d generated bridge(s) over the documented grammar built with the real macro; diplomat-tool cpp; a generated C++ driver (std %s) calls "
        "every method through the class API with std::optional / string_view / u16string_view / span / struct / enum-class wrapper / reference / "
        "pointer arguments (extremes, NaN payloads, non-scalar char32_t, empty views, both arms) and prints unique_ptr / optional / diplomat::result "
        "/ std::string / struct returns; Rust-side logs must equal what was passed and returns what Rust produced; invalid UTF-8 in directly passed "
        "&str must yield Utf8Error without entering Rust. Coq goals: one per transported value (agree_transport) and per guard case. "
        "non-trivial = call with an argument or non-unit return" % (nb, "/".join(sorted(stds_used))),
        "Modelled, not verified: the conversion arms of tool/src/cpp/ty.rs and the struct/enum templates, as semantics over an abstract value domain "
        "(Cpp/Model.v); libstdc++, template instantiation and std::function lifetime are executed, not modelled (partial)",
        samples or [{"note": "no run"}], ["namespaced/renamed C++ types are covered by C13's canaries and C09's syntax checks"],
        {"bridges": nb, "cpp_standards": sorted(stds_used)})


def abigen_valid(v):
    try:
        bytes(v).decode("utf-8"); return True
    except Exception:
        return False
