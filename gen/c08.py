"""C08 — JS bindings use the real wasm32 repr(C) layout (DESIGN §5 C08)."""
import re, shutil, struct as pystruct
from common import *
import e2e

PROP = "C08"
HEADER = ("From Coq Require Import List NArith Bool.\nImport ListNotations.\nLocal Open Scope N_scope.\nFrom DV Require Import Layout.Model Layout.Result.")

PRIMS = {"u8": (1, "B"), "i8": (1, "b"), "u16": (2, "H"), "i16": (2, "h"), "u32": (4, "I"), "i32": (4, "i"), "u64": (8, "Q"), "i64": (8, "q"),
         "f32": (4, "f"), "f64": (8, "d"), "bool": (1, "?"), "DiplomatChar": (4, "I"), "usize": (4, "I"), "isize": (4, "i")}
ENUM = [0, 1, 7, -3]          # En { A, B, C = 7, D = -3 }
ENUM_NAMES = ["A", "B", "C", "D"]

MOCK = r'''
const memory = new WebAssembly.Memory({ initial: 8 });
let bump = 4096;
globalThis.__allocs = [];
const base = {
  memory,
  // like the real allocator (alloc::alloc::alloc) the mock hands out memory with arbitrary previous contents
  diplomat_alloc(size, align) { bump = Math.ceil(bump / align) * align; const p = bump; bump += Math.max(size, 1) + 16; globalThis.__allocs.push([size, align]);
    new Uint8Array(memory.buffer, p, Math.max(size, 1) + 16).fill(0xAA); return p; },
  diplomat_free(p, size, align) {},
};
export default new Proxy(base, { get(t, name) { if (name in t) return t[name]; return (...args) => globalThis.__hook(String(name), args, t); } });
'''


# ---- an independent implementation of the wasm32 repr(C) layout (the specification side of the direct check)
def size_align(S, t):
    k = t[0]
    if k == "prim": return PRIMS[t[1]][0], PRIMS[t[1]][0]
    if k == "enum": return 4, 4
    if k == "struct":
        offs, size, align = layout(S, S[t[1]])
        return size, align
    if k == "opt":
        s, a = size_align(S, t[1])
        return s + a, a
    raise ValueError(t)


def layout(S, fields):
    off, align, offs = 0, 1, []
    for _, t in fields:
        s, a = size_align(S, t)
        off = (off + a - 1) // a * a
        offs.append(off); off += s; align = max(align, a)
    return offs, (off + align - 1) // align * align, align


def scalars(S, t):
    k = t[0]
    if k in ("prim", "enum"): return 1
    if k == "opt": return None          # memory / union
    n = 0
    for _, ft in S[t[1]]:
        c = scalars(S, ft)
        if c is None: return None
        n += c
    return n


def pack(S, t, v, buf, base):
    k = t[0]
    if k == "prim":
        sz, fmt = PRIMS[t[1]]
        pystruct.pack_into("<" + fmt, buf, base, v)
    elif k == "enum":
        pystruct.pack_into("<i", buf, base, ENUM[v])
    elif k == "struct":
        offs, _, _ = layout(S, S[t[1]])
        for (fn, ft), o in zip(S[t[1]], offs):
            pack(S, ft, v[fn], buf, base + o)
    elif k == "opt":
        s, a = size_align(S, t[1])
        if v is None:
            buf[base + s] = 0
        else:
            pack(S, t[1], v[0], buf, base); buf[base + s] = 1


def flat_expected(S, t, padded):
    """docs/wasm_abi_quirks.md: every transitive scalar in order (+ typed padding iff padded); 'V' value slot, 'P' padding slot"""
    k = t[0]
    if k in ("prim", "enum"): return ["V"]
    if k == "opt":
        s, a = size_align(S, t[1])
        return ["V"] * (s // a) + ["V"] + ["P"] * (a - 1)
    fields = S[t[1]]
    offs, size, _ = layout(S, fields)
    out = []
    for i, (fn, ft) in enumerate(fields):
        out += flat_expected(S, ft, padded)
        if padded:
            s, a = size_align(S, ft)
            nxt = offs[i + 1] if i + 1 < len(fields) else size
            out += ["P"] * ((nxt - offs[i] - s) // a)
    return out


def corner(S, t):
    """a two-scalar struct with internal padding (transitively) inside an aggregate that contains a union: the one place where the
    generated JS departs from docs/wasm_abi_quirks.md (recorded finding, Layout/Flat.v corner_differs)"""
    if t[0] != "struct":
        return False
    direct = scalars(S, t) is None and any(ft[0] == "struct" and scalars(S, ft) == 2 for _, ft in S[t[1]])
    return direct or any(corner(S, ft) for _, ft in S[t[1]])


def flat_top(S, t):
    n = scalars(S, t)
    return flat_expected(S, t, n is None or n > 2)


# ---- generation
def gen_structs(rng, n):
    S = {}
    for i in range(n):
        name = f"S{i}"
        fields, has_mem = [], False
        for j in range(rng.choice([1, 2, 2, 3, 4, 5, 6])):
            r = rng.random()
            if r < 0.55:
                t = ("prim", rng.choice(list(PRIMS)))
            elif r < 0.65:
                t = ("enum",)
            elif r < 0.85 and S:
                t = ("struct", rng.choice(list(S)))
            else:
                inner = rng.choice([("prim", rng.choice(list(PRIMS))), ("enum",)] + ([("struct", rng.choice(list(S)))] if S and rng.random() < 0.5 else []))
                t = ("opt", inner)
            fields.append((f"f{j}", t))
        S[name] = fields
        # the unresolved corner (a 2-scalar struct directly inside an aggregate that contains a union) is left out, see DESIGN §5 C08
        if scalars(S, ("struct", name)) is None and any(ft[0] == "struct" and scalars(S, ft) == 2 for _, ft in fields):
            S[name] = [(fn, ft) for fn, ft in fields if not (ft[0] == "struct" and scalars(S, ft) == 2)] or [("f0", ("prim", "u8"))]
    return S


def rust_ty(t):
    k = t[0]
    if k == "prim": return t[1]
    if k == "enum": return "En"
    if k == "struct": return t[1]
    return f"DiplomatOption<{rust_ty(t[1])}>"


# error payloads of every alignment, one of them with a size that is no multiple of the larger alignments
ERRS = {"ErrA": [("a", ("prim", "u8"))], "ErrB": [("a", ("prim", "u32"))], "ErrC": [("a", ("prim", "f64")), ("b", ("prim", "u8"))],
        "ErrD": [("a", ("prim", "u8")), ("b", ("prim", "u8")), ("c", ("prim", "u8")), ("d", ("prim", "u8")), ("e", ("prim", "u8"))],
        "ErrE": [("a", ("prim", "u16")), ("b", ("prim", "u16")), ("c", ("prim", "u16"))]}


def fallible(S, name):
    """the optional / fallible returns exercised for struct `name`: (method, js method, error struct or None)"""
    out = [("give_opt", "giveOpt", None)]
    for e in ERRS:
        if e in S and e != name:
            out.append((f"give_res_{e.lower()}", "giveRes" + e[0] + e[1:].lower(), e))
    return out


def result_layout(S, t, e):
    """repr(C) DiplomatResult<t, e>: (offset of is_ok, alignment, size)"""
    st, at = size_align(S, t)
    se, ae = size_align(S, e) if e else (0, 1)
    a = max(at, ae)
    u = (max(st, se) + a - 1) // a * a
    return u, a, (u + 1 + a - 1) // a * a


def bridge(S):
    s = "#[diplomat::bridge]\nmod ffi {\n    #[allow(unused_imports)]\n    use diplomat_runtime::{DiplomatOption, DiplomatChar};\n    pub enum En { A, B, C = 7, D = -3 }\n"
    for name, fs in S.items():
        s += f"    pub struct {name} {{ " + ", ".join(f"pub {fn}: {rust_ty(ft)}" for fn, ft in fs) + " }\n"
        s += f"    impl {name} {{ pub fn take(self) {{}} pub fn give() -> {name} {{ todo!() }}\n"
        for m, _, e in fallible(S, name):
            s += f"        pub fn {m}() -> " + (f"Result<{name}, {e}>" if e else f"Option<{name}>") + " { todo!() }\n"
        s += "    }\n"
    return s + "}\n"


def rand_val(S, t, rng):
    k = t[0]
    if k == "prim":
        p = t[1]
        if p == "bool": return rng.random() < 0.5
        if p in ("f32", "f64"): return rng.choice([0.0, 1.5, -2.25, 1024.0, -0.5])
        sz, fmt = PRIMS[p]
        bits = sz * 8
        if fmt.islower() and fmt not in ("f", "d"):
            return rng.choice([0, -1, 2**(bits - 1) - 1, -2**(bits - 1), rng.randrange(-2**(bits - 1), 2**(bits - 1))])
        if p == "DiplomatChar": return rng.choice([0x41, 0x20AC, 0x10FFFF, 0])
        return rng.choice([0, 1, 2**bits - 1, 2**(bits - 1), rng.randrange(0, 2**bits)])
    if k == "enum": return rng.randrange(4)
    if k == "struct": return {fn: rand_val(S, ft, rng) for fn, ft in S[t[1]]}
    return None if rng.random() < 0.35 else [rand_val(S, t[1], rng)]


def js_val(S, t, v):
    k = t[0]
    if k == "prim":
        if t[1] == "bool": return "true" if v else "false"
        if t[1] in ("u64", "i64"): return f"{v}n"
        return repr(v)
    if k == "enum": return f"En.{ENUM_NAMES[v]}"
    if k == "struct": return "{" + ", ".join(f"{fn}: {js_val(S, ft, v[fn])}" for fn, ft in S[t[1]]) + "}"
    return "null" if v is None else js_val(S, t[1], v[0])


def canon(S, t, v):
    """canonical JSON-able form compared between what JS read back and what was stored"""
    k = t[0]
    if k == "prim":
        if t[1] == "bool": return bool(v)
        if t[1] in ("f32", "f64"): return str(int(v)) if float(v).is_integer() else float(v)
        return str(int(v))
    if k == "enum": return str(ENUM[v])
    if k == "struct": return {fn: canon(S, ft, v[fn]) for fn, ft in S[t[1]]}
    return None if v is None else canon(S, t[1], v[0])


def coq_fty(S, t):
    k = t[0]
    if k == "prim": return f"(FPrim {PRIMS[t[1]][0]})"
    if k == "enum": return "FEnum"
    if k == "struct": return "(FStruct " + clist([coq_fty(S, ft) for _, ft in S[t[1]]]) + ")"
    return f"(FOpt {coq_fty(S, t[1])})"


def coq_val(S, t, v):
    k = t[0]
    if k == "prim":
        sz, fmt = PRIMS[t[1]]
        raw = pystruct.pack("<" + fmt, v)
        return f"(VNum {int.from_bytes(raw, 'little')})"
    if k == "enum": return f"(VNum {ENUM[v] % 2**32})"
    if k == "struct": return "(VStructV " + clist([coq_val(S, ft, v[fn]) for fn, ft in S[t[1]]]) + ")"
    return "VNone" if v is None else f"(VSome {coq_val(S, t[1], v[0])})"


DRIVER = r'''
import { En } from "./En.mjs";
const out = [];
function ser(x) {
  if (x === null || x === undefined) return null;
  if (typeof x === "bigint") return x.toString();
  if (typeof x === "number") return Number.isInteger(x) ? String(x) : x;
  if (typeof x === "boolean") return x;
  if (x instanceof En) return String(x.ffiValue);
  const o = {};
  for (const k of FIELDS[x.constructor.name]) o[k] = ser(x[k]);
  return o;
}
function hex(buf, p, n) { return Array.from(new Uint8Array(buf, p, n)).map(b => b.toString(16).padStart(2, "0")).join(""); }
'''


def check(ctx, replay=None):
    build_harness()
    phase = standard_proof_phase(ctx, PROP, ["theories/Properties/C08.v"])
    e2e.build_tool()
    rng = ctx.rng
    d = os.path.join(BUILD, "e2e", "c08")
    shutil.rmtree(d, ignore_errors=True); os.makedirs(d, exist_ok=True)
    goals, viol, nstruct, nvals, samples, nfall = [], 0, 0, 0, [], 0
    def violate(key, obj):
        nonlocal viol
        if len(ctx.violations) < 4:
            viol += 1
            ctx.violation(key, obj, True)
    for bi in range(2 if ctx.quick() else 10):
        S = gen_structs(rng, 10 if ctx.quick() else 14)
        S.update(ERRS)
        if bi == 0:      # fixed shapes from the documentation and from past failures first
            S.update({"Pair": [("a", ("prim", "u8")), ("b", ("prim", "u32"))]})
            S.update({"Triple": [("pair", ("struct", "Pair")), ("c", ("prim", "u8"))], "Quad": [("p", ("struct", "Pair")), ("x", ("prim", "u16")), ("y", ("prim", "u64"))],
                      "Millis": [("value", ("prim", "u16"))], "Settings": [("id", ("prim", "u32")), ("timeout", ("struct", "Millis")), ("retries", ("prim", "u8"))],
                      "WrapPair": [("inner", ("struct", "Pair"))],
                      # the recorded corner: a padded two-scalar struct next to a union, directly and one level down
                      "CornerU": [("p", ("struct", "Pair")), ("o", ("opt", ("prim", "u8")))], "CornerDeep": [("c", ("struct", "CornerU")), ("t", ("prim", "u16"))],
                      # three levels: a padded two-scalar struct inside a two-scalar wrapper inside a struct with more scalars
                      "Large3": [("m", ("struct", "WrapPair")), ("x", ("prim", "u16")), ("y", ("prim", "u16"))],
                      "WrapWrapPair": [("w", ("struct", "WrapPair"))], "Large4": [("a", ("prim", "u8")), ("m", ("struct", "WrapWrapPair")), ("z", ("prim", "i64"))], "OptS": [("a", ("prim", "u8")), ("o", ("opt", ("struct", "Settings"))), ("z", ("prim", "i64"))],
                      # optional payloads of every alignment, 8 included (i64 slots are BigInts in the flattened argument list)
                      "Payload": [("f", ("prim", "f64")), ("s", ("prim", "u16"))],
                      "Holder": [("id", ("prim", "u8")), ("big", ("opt", ("prim", "u64"))), ("p", ("opt", ("struct", "Payload"))), ("small", ("opt", ("prim", "u32"))), ("tiny", ("opt", ("prim", "i8")))],
                      "OptF": [("a", ("opt", ("prim", "f64"))), ("b", ("prim", "u8")), ("c", ("opt", ("prim", "i64")))],
                      # single-primitive wrappers (and wrappers of wrappers) at non-zero offsets
                      "Wrap16": [("v", ("prim", "u16"))], "WrapWrap": [("w", ("struct", "Wrap16"))],
                      "Outer": [("a", ("prim", "u32")), ("w", ("struct", "Wrap16")), ("b", ("prim", "u8")), ("ww", ("struct", "WrapWrap")), ("c", ("prim", "i32"))]})
        src = os.path.join(d, f"lib{bi}.rs"); open(src, "w").write(bridge(S))
        vals = {n: [rand_val(S, ("struct", n), rng) for _ in range(3)] for n in S}
        for n in S:        # the first value of every struct has all its optional fields present
            for _ in range(200):
                v = rand_val(S, ("struct", n), rng)
                if all(v[fn] is not None for fn, ft in S[n] if ft[0] == "opt"):
                    vals[n][0] = v; break
        for abi in ("legacy", "spec"):
            out = os.path.join(d, f"out_{bi}_{abi}")
            q = e2e.run_tool("js", src, out, config=[f"js.abi={abi}"])
            if q.returncode != 0:
                if "panicked" not in q.stderr:
                    violate(f"tool:{abi}", {"what": f"diplomat-tool js (js.abi={abi}) rejects a plain struct bridge: {q.stderr[-400:]}", "lib_rs": bridge(S)[:2500]})
                continue
            open(os.path.join(out, "diplomat-wasm.mjs"), "w").write(MOCK)
            drv = [DRIVER, "const FIELDS = " + json.dumps({n: [fn for fn, _ in fs] for n, fs in S.items()}) + ";"]
            for n in S:
                drv.append(f'import {{ {n} }} from "./{n}.mjs";')
            t = lambda n: ("struct", n)
            for n, fs in S.items():
                offs, size, align = layout(S, fs)
                for vi, v in enumerate(vals[n]):
                    buf = bytearray(size); pack(S, t(n), v, buf, 0)
                    drv.append(f"""{{
  let rec = {{s: "{n}", v: {vi}}};
  globalThis.__hook = (name, args, w) => {{ rec.take_name = name; rec.take_args = args.map(a => typeof a === "bigint" ? a.toString() + "n" : a);
    if ({'true' if (abi == 'spec' and not wraps_prim(S, t(n))) else 'false'}) rec.take_bytes = hex(w.memory.buffer, args[0], {size}); }};
  try {{ {n}.fromFields({js_val(S, t(n), v)}).take(); }} catch (e) {{ rec.take_error = String(e); }}
  globalThis.__allocs.length = 0;
  globalThis.__hook = (name, args, w) => {{ rec.give_nargs = args.length;
    if (args.length >= 1) {{ new Uint8Array(w.memory.buffer, args[args.length - 1], {size}).set(Uint8Array.from("{dirty(S, t(n), v, buf).hex()}".match(/../g).map(h => parseInt(h, 16)))); return undefined; }}
    return GIVEPRIM; }};
  const GIVEPRIM = {js_lit(single_prim_js(S, t(n), v))};
  try {{ rec.give = ser({n}.give()); }} catch (e) {{ rec.give_error = String(e); }}
  rec.allocs = globalThis.__allocs.slice();
  out.push(rec);
}}""")
                    if vi < 2:
                        for m, jm, e in fallible(S, n):
                            u, a, total = result_layout(S, t(n), ("struct", e) if e else None)
                            for ok in ((True, False) if vi == 0 else (True,)):
                                if ok or not e:
                                    payload = dirty(S, t(n), v, buf).hex() if ok else ""
                                else:
                                    ev = vals[e][0]
                                    eb = bytearray(size_align(S, ("struct", e))[0]); pack(S, ("struct", e), ev, eb, 0)
                                    payload = dirty(S, ("struct", e), ev, eb).hex()
                                drv.append(f"""{{
  let rec = {{s: "{n}", v: {vi}, fall: "{m}", err: {json.dumps(e)}, ok: {'true' if ok else 'false'}}};
  globalThis.__allocs.length = 0;
  globalThis.__hook = (name, args, w) => {{ rec.nargs = args.length; rec.export = name;
    const bytes = "{payload}".match(/../g) || [];
    new Uint8Array(w.memory.buffer, args[0], {total}).fill(0xAA);
    new Uint8Array(w.memory.buffer, args[0], bytes.length).set(Uint8Array.from(bytes.map(h => parseInt(h, 16))));
    new Uint8Array(w.memory.buffer, args[0] + {u}, 1)[0] = {1 if ok else 0}; return undefined; }};
  try {{ rec.got = ser({n}.{jm}()); rec.returned = true; }} catch (x) {{ if (x && x.cause !== undefined) rec.cause = ser(x.cause); else rec.error = String(x); }}
  rec.allocs = globalThis.__allocs.slice();
  out.push(rec);
}}""")
            drv.append("console.log(JSON.stringify(out));")
            open(os.path.join(out, "drv.mjs"), "w").write("\n".join(drv))
            r = sh(["node", "drv.mjs"], cwd=out, timeout=300)
            if r.returncode != 0:
                violate(f"node:{abi}", {"what": f"node failed on the generated modules (js.abi={abi}): {r.stderr[-800:]}", "lib_rs": bridge(S)[:2500]}); continue
            recs = json.loads(r.stdout)
            for rec in [r for r in recs if "fall" in r]:
                n, vi, e = rec["s"], rec["v"], rec["err"]
                u, a, total = result_layout(S, t(n), ("struct", e) if e else None)
                shape = f"Result<{n}, {e}>" if e else f"Option<{n}>"
                ctxinfo = {"method": f"{n}::{rec['fall']}() -> {shape}", "ok_type": [f"{fn}: {rust_ty(ft)}" for fn, ft in S[n]],
                           "err_type": [f"{fn}: {rust_ty(ft)}" for fn, ft in S[e]] if e else None, "abi": abi,
                           "repr_c": f"is_ok at offset {u}, alignment {a}, size {total}", "rust_wrote": "Ok/Some" if rec["ok"] else "Err/None"}
                nvals += 1; nfall += 1
                if "error" in rec:
                    violate(f"direct:js-exception:{abi}", dict(ctxinfo, what=f"generated JS threw: {rec['error']}")); continue
                if rec.get("nargs", 0) < 1 or not rec["allocs"]:
                    violate(f"direct:result-buffer:{abi}", dict(ctxinfo, what=f"no receive buffer was passed for {shape} (export called with {rec.get('nargs')} arguments)")); continue
                size_js, align_js = rec["allocs"][0]
                if align_js != a or size_js - 1 != u:
                    violate(f"direct:result-buffer:{abi}", dict(ctxinfo, what=f"receive buffer for {shape} allocated as (size {size_js}, align {align_js}) and is_ok read at offset "
                                                                 f"{size_js - 1}; repr(C) puts is_ok at offset {u} of a value aligned to {a}"))
                want_ok = canon(S, t(n), vals[n][vi])
                if rec["ok"]:
                    if not rec.get("returned") or rec.get("got") != want_ok:
                        violate(f"direct:result-read:{abi}", dict(ctxinfo, what=f"Rust returned the Ok/Some value {json.dumps(want_ok)}; JS produced "
                                                               f"{json.dumps(rec.get('got')) if rec.get('returned') else 'an error with cause ' + json.dumps(rec.get('cause'))}"))
                elif e:
                    want_err = canon(S, ("struct", e), vals[e][0])
                    if rec.get("returned") or rec.get("cause") != want_err:
                        violate(f"direct:result-read:{abi}", dict(ctxinfo, what=f"Rust returned Err({json.dumps(want_err)}); JS produced "
                                                               f"{'the value ' + json.dumps(rec.get('got')) if rec.get('returned') else 'cause ' + json.dumps(rec.get('cause'))}"))
                elif not rec.get("returned") or rec.get("got") is not None:
                    violate(f"direct:result-read:{abi}", dict(ctxinfo, what=f"Rust returned None; JS produced {json.dumps(rec.get('got'))}"))
                sa = lambda x: f"(sa_of {coq_fty(S, x)})"
                goals.append(f"agree_recv {sa(t(n))} {sa(('struct', e)) if e else 'unit_sa'} {size_js} {align_js}")
            for rec in [r for r in recs if "fall" not in r]:
                n, vi = rec["s"], rec["v"]
                v = vals[n][vi]
                fs = S[n]
                offs, size, align = layout(S, fs)
                buf = bytearray(size); pack(S, t(n), v, buf, 0)
                nvals += 1
                ctxinfo = {"struct": n, "fields": [f"{fn}: {rust_ty(ft)}" for fn, ft in fs], "abi": abi, "value": js_val(S, t(n), v)}
                if "take_error" in rec or "give_error" in rec:
                    violate(f"direct:js-exception:{abi}", dict(ctxinfo, what=f"generated JS threw: {rec.get('take_error') or rec.get('give_error')}")); continue
                # values read back from Rust's bytes
                got_give = rec.get("give")
                if wraps_prim(S, t(n)):
                    # nothing is read from memory here: the export's i32 result is handed through, and a bool arrives as 0 / 1
                    # exactly as it does for a plain `-> bool` method; that is not a statement about layout
                    got_give = json.loads(json.dumps(got_give).replace('"1"', "true").replace('"0"', "false")) if single_prim_ty(S, t(n)) == "bool" else got_give
                if got_give != canon(S, t(n), v):
                    violate(f"direct:read:{abi}", dict(ctxinfo, what=f"JS read {json.dumps(rec.get('give'))} from the repr(C) bytes of {json.dumps(canon(S, t(n), v))}"))
                if rec.get("give_nargs", 0) >= 1:
                    if [size, align] not in rec["allocs"]:
                        violate(f"direct:recvbuf:{abi}", dict(ctxinfo, what=f"receive buffer allocated as {rec['allocs']}, the struct has size {size} align {align}"))
                    goals.append(f"agree_layout {clist([coq_fty(S, ft) for _, ft in fs])} {rec['allocs'][0][0] if rec['allocs'] else 0} {rec['allocs'][0][1] if rec['allocs'] else 0} {clist([str(o) for o in offs])}")
                if abi == "spec" and wraps_prim(S, t(n)):
                    want = single_prim_js(S, t(n), v)
                    args = rec.get("take_args", [])
                    if isinstance(want, tuple):
                        if len(args) != 1 or str(args[0]) != f"{want[1]}n":
                            violate("direct:wrapper:spec", dict(ctxinfo, what=f"a struct wrapping one 64-bit integer is passed as {args}, expected {want[1]}n"))
                    elif want is not None and (len(args) != 1 or float(args[0]) != float(want)):
                        violate("direct:wrapper:spec", dict(ctxinfo, what=f"a struct wrapping one primitive is passed as {args}, expected the primitive {want}"))
                elif abi == "spec":
                    if "take_bytes" in rec:
                        got = bytes.fromhex(rec["take_bytes"])
                        # padding bytes are unspecified: compare the bytes of the fields only
                        mask = bytearray(size); pack_mask(S, t(n), mask, 0, v)
                        if bytes(a & m for a, m in zip(got, mask)) != bytes(a & m for a, m in zip(buf, mask)):
                            violate("direct:write:spec", dict(ctxinfo, what=f"JS wrote {got.hex()} into wasm memory, repr(C) bytes are {buf.hex()}"))
                        masked = [a & m for a, m in zip(got, mask)]
                        goals.append(f"listN_eqb (map (fun '(a, m) => N.land a m) (combine (write_val {coq_fty(S, t(n))} {coq_val(S, t(n), v)} (repeat 0 {size}%nat) 0) {cbytes(list(mask))})) {cbytes(masked)}")
                else:
                    args = rec.get("take_args", [])
                    want = flat_top(S, t(n))
                    slots = []
                    ok = len(args) == len(want)
                    for a, w in zip(args, want):
                        if w == "P" and a not in (0, "0n"):
                            ok = False
                    if not ok and corner(S, t(n)):
                        # known finding: compared with what Layout/Model.v says the JS does (flat_js_top), not with the documented rule
                        ctx.violation("legacy-flatten:two-scalar-struct-beside-union", dict(ctxinfo, what=f"wasm export received {args} ({len(args)} slots); docs/wasm_abi_quirks.md "
                                      f"prescribes {''.join(want)} ({len(want)} slots): the padding of a two-scalar struct inside an aggregate that holds a union is not passed"), True)
                        goals.append(f"Nat.eqb (length (flat_js_top {coq_fty(S, t(n))})) {len(args)}")
                        continue
                    if not ok:
                        violate("direct:flatten:legacy", dict(ctxinfo, what=f"wasm export received {args} ({len(args)} slots); the legacy ABI prescribes the slot pattern {''.join(want)} ({len(want)} slots)"))
                    # observed pattern: a slot is padding iff the model-independent expectation says so and it holds 0
                    obs = ["SPad" if (i < len(want) and want[i] == "P" and a in (0, "0n")) else "SVal" for i, a in enumerate(args)]
                    goals.append(f"agree_flat {coq_fty(S, t(n))} {clist(obs)}")
            nstruct += len(S)
            if bi == 0 and abi == "legacy":
                samples = [{"struct": r["s"], "fields": [f"{fn}: {rust_ty(ft)}" for fn, ft in S[r["s"]]], "take_args": r.get("take_args"), "give": r.get("give")} for r in recs[:2]]
            shutil.rmtree(out, ignore_errors=True)
    fails = run_shards(PROP, HEADER, goals, per_shard=120) if goals else []
    if fails and not ctx.violations:
        ctx.violation("corr:layout", {"broken": "correspondence goal " + goals[fails[0]][:500] + " : Layout/Model.v does not reproduce what the generated JS does"}, False)
    return batch_evidence(
        ctx, PROP, phase, goals, fails, nvals, nstruct,
        "generated struct families (1-6 fields over the 14 non-128-bit primitives, an enum with negative/gapped discriminants, nested structs, "
        "DiplomatOption of primitives/enums/structs; any field order) plus the documentation's Pair/Triple/Big shapes and single-primitive wrappers; "
        "diplomat-tool js with js.abi=legacy and js.abi=spec; the generated modules are EXECUTED in node against a mock wasm module (plain "
        "WebAssembly.Memory, bump allocator recording (size, align), recording Proxy for exports): fromFields(v).take() -> recorded argument list "
        "(legacy) or bytes written to memory (spec); give() with the mock storing the repr(C) bytes of v -> values read back and receive-buffer "
        "(size, align); give_opt() / give_res_<E>() -> Option<S> / Result<S, E> for five error structs of alignment 1, 2, 4, 8: the mock stores the "
        "payload and is_ok where repr(C) DiplomatResult puts them, JS must allocate a buffer of that alignment, read is_ok at that offset and "
        "return the value / throw the cause. Expected bytes / slot patterns come from an independent python implementation of the wasm32 repr(C) rule and of "
        "docs/wasm_abi_quirks.md; the same observations are checked against Layout/Model.v in Coq. distinct_nontrivial = structs exercised",
        "Modelled, not verified: js/layout.rs (struct_field_info, type_size_alignment_and_scalar_count, ScalarCount), the forcePadding logic of "
        "js/gen.rs + struct.js.jinja, byte-level reads/writes (Layout/Model.v). No wasm32 Rust target exists here: the legacy flattened argument "
        "list is checked against the rule documented in docs/wasm_abi_quirks.md, not against rustc's wasm code generator; i128/u128, slices and "
        "opaque fields are not generated; a 2-scalar struct inside an aggregate containing a union is a recorded finding (two fixed shapes exercise it; the random generator leaves it out)",
        samples, ["float fields use exactly representable values; padding bytes are not compared"],
        {"struct_families": 2 if ctx.quick() else 10, "values": nvals, "fallible_returns": nfall})


def dirty(S, t, v, buf):
    """the repr(C) image with every byte that carries no information (padding, payloads of absent options) set to 0xAA: what JS
    finds in memory when Rust wrote the value into a buffer that was not zeroed"""
    mask = bytearray(len(buf)); pack_mask(S, t, mask, 0, v)
    return bytes(b if m else 0xAA for b, m in zip(buf, mask))


def js_lit(x):
    """JS literal of the value a mocked wasm export returns (64-bit integers are BigInts)"""
    return f"{x[1]}n" if isinstance(x, tuple) else json.dumps(x)


def single_prim_ty(S, t):
    while t[0] == "struct" and len(S[t[1]]) == 1:
        t = S[t[1]][0][1]
    return t[1] if t[0] == "prim" else None


def wraps_prim(S, t):
    """js/gen.rs only_primitive: a struct with exactly one field that is a primitive or such a struct"""
    while t[0] == "struct" and len(S[t[1]]) == 1:
        t = S[t[1]][0][1]
    return t[0] == "prim"


def single_prim_js(S, t, v):
    """value a wasm export returns for a struct that (transitively) wraps one primitive"""
    while t[0] == "struct" and len(S[t[1]]) == 1:
        fn, ft = S[t[1]][0]
        v, t = v[fn], ft
    if t[0] == "prim" and not isinstance(v, dict):
        if t[1] in ("u64", "i64"): return ("big", int(v))
        return v if not isinstance(v, bool) else (1 if v else 0)
    if t[0] == "enum":
        return ENUM[v]
    return None


def pack_mask(S, t, mask, base, v=None):
    """which bytes of the repr(C) image carry information for value v (everything but padding and absent payloads)"""
    k = t[0]
    if k == "prim":
        for i in range(PRIMS[t[1]][0]): mask[base + i] = 0xFF
    elif k == "enum":
        for i in range(4): mask[base + i] = 0xFF
    elif k == "struct":
        offs, _, _ = layout(S, S[t[1]])
        for (fn, ft), o in zip(S[t[1]], offs):
            pack_mask(S, ft, mask, base + o, None if v is None else v[fn])
    elif k == "opt":
        s, a = size_align(S, t[1])
        mask[base + s] = 0xFF      # the flag; the payload is only meaningful when present
        if v is not None:
            pack_mask(S, t[1], mask, base, v[0])
