"""C06 — every backend calls exactly the exported symbols (DESIGN §5 C06)."""
import re, shutil
from common import *
import e2e, tablegen
from c13 import rust_f, coq_f, denote, BACKENDS, CFG

PROP = "C06"
HEADER = ("From Coq Require Import List String Bool.\nImport ListNotations.\nLocal Open Scope string_scope.\n"
          "Local Open Scope list_scope.\nFrom DV Require Import gen.Tables Cfg.Model Rename.Model.")
PATTERNS = ["ns_{0}", "{0}", "{0}_v2", "pre_{0}_post", "pure_rename_%d", "x{0}y", "Cap_{0}"]
# whole-name patterns that are reserved words somewhere: an ABI name is a linker symbol, it is never escaped
KEYWORD_NAMES = ["complex", "synchronized", "atomic_cancel", "concept", "typeof_unqual", "register", "signed", "explicit", "namespace", "template"]   # none is a Rust keyword


def gen_modules(ctx):
    rng, mods, uid = ctx.rng, [], [0]
    def pats(pure_ok=False):
        r = rng.random()
        if r < 0.55: return []
        p = rng.choice(PATTERNS if pure_ok else [x for x in PATTERNS if "{0}" in x])
        if "%d" in p:
            uid[0] += 1; p = p % uid[0]
        out = [p]
        if rng.random() < 0.15:
            out.append(rng.choice(["again_{0}", "{0}"]))
        return out
    def attrs(kind):
        if rng.random() < 0.75: return []
        b = rng.choice(BACKENDS[:-1])
        f = rng.choice([("b", b), ("not", ("b", b)), ("any", [("b", b), ("b", rng.choice(BACKENDS[:-1]))])])
        return [(f, "disable")] if rng.random() < 0.7 else [(f, "rename:Zz%d" % rng.randint(0, 999))]
    nm = rng.choice([1, 2, 3])
    tcount = 0
    for mi in range(nm):
        m = {"abi": pats(), "attrs": [], "types": [], "nested": rng.random() < 0.5}
        for _ in range(rng.randint(1, 4 if ctx.quick() else 8)):
            tcount += 1
            t = {"name": f"Ty{tcount}", "kind": rng.choice(["opaque", "opaque", "openum", "struct", "enum"]), "abi": pats(True), "attrs": attrs("t"), "impls": []}
            for _ in range(rng.randint(0, 2)):
                im = {"abi": pats(), "attrs": [a for a in attrs("i") if a[1] == "disable"], "methods": []}
                for _ in range(rng.randint(1, 3)):
                    uid[0] += 1
                    im["methods"].append({"name": f"me{uid[0]}", "abi": [p if "pure" not in p else p + "m" for p in pats(True)], "attrs": attrs("m"),
                                          "static": t["kind"] not in ("opaque", "openum") or rng.random() < 0.3})
                t["impls"].append(im)
            m["types"].append(t)
        mods.append(m)
    return mods


def dedupe_disables(mods, support, others):
    """drop attributes that would put two applicable disables on one path (a lowering error, outside the property)"""
    for m in mods:
        for t in m["types"]:
            for im in t["impls"]:
                for me in im["methods"]:
                    for b in BACKENDS:
                        path = [a for a in t["attrs"] + im["attrs"] + me["attrs"] if a[1] == "disable"]
                        if sum(denote(a[0], b, support, others) for a in path) > 1 or \
                           sum(denote(a[0], b, support, others) for a in im["attrs"] + me["attrs"] if a[1] == "disable") > 1:
                            me["attrs"] = []; im["attrs"] = []
    return mods


def rust_attr(a):
    f, p = a
    pay = "disable" if p == "disable" else 'rename = "' + p[7:] + '"'
    return f"#[diplomat::attr({rust_f(f)}, {pay})]\n"


def bridge(mods):
    s = ""
    for mi, m in enumerate(mods):
        s += "#[diplomat::bridge]\n" + "".join(f'#[diplomat::abi_rename = "{p}"]\n' for p in m["abi"]) + f"mod {m.get('modname', 'ffi%d' % mi)} {{\n"
        for t in m["types"]:
            ab = "".join(f'    #[diplomat::abi_rename = "{p}"]\n' for p in t["abi"]) + "".join("    " + rust_attr(a) for a in t["attrs"])
            if t["kind"] == "opaque":
                s += f"    #[diplomat::opaque]\n{ab}    pub struct {t['name']};\n"
            elif t["kind"] == "openum":
                s += f"    #[diplomat::opaque]\n{ab}    pub enum {t['name']} {{ A, B }}\n"
            elif t["kind"] == "struct":
                s += f"{ab}    pub struct {t['name']} {{ pub x: u8 }}\n"
            else:
                s += f"{ab}    pub enum {t['name']} {{ A, B }}\n"
            for im in t["impls"]:
                s += "".join(f'    #[diplomat::abi_rename = "{p}"]\n' for p in im["abi"]) + "".join("    " + rust_attr(a) for a in im["attrs"])
                s += f"    impl {t['name']} {{\n"
                for me in im["methods"]:
                    s += "".join(f'        #[diplomat::abi_rename = "{p}"]\n' for p in me["abi"]) + "".join("        " + rust_attr(a) for a in me["attrs"])
                    recv = "" if me["static"] else "&self"
                    s += f"        pub fn {me['name']}({recv}) {{}}\n"
                s += "    }\n"
        if m["nested"]:
            # a plain module nested in a bridge: not analysed by the macro nor by the tool
            s += f"    mod inner{mi} {{\n        pub struct Hidden{mi};\n        impl Hidden{mi} {{ pub fn step(&self) {{}} }}\n    }}\n"
        for cm in m.get("children", []):
            s += "".join("    " + l + "\n" for l in bridge([cm]).rstrip("\n").split("\n"))
        s += "}\n"
    return s


def coq_mods(mods):
    def cattrs(l):
        return clist([f"({coq_f(f)}, {'PDisable' if p == 'disable' else 'PRename ' + cstr(p[7:])})" for f, p in l])
    cs = lambda l: clist([cstr(x) for x in l])
    out = []
    flat = []
    for m in mods:
        flat.append(m); flat += m.get("children", [])
    for m in flat:
        tys = []
        for t in m["types"]:
            ims = [f"mkImpl {cs(im['abi'])} {cattrs(im['attrs'])} " +
                   clist([f"mkMeth {cstr(me['name'])} {cs(me['abi'])} {cattrs(me['attrs'])}" for me in im["methods"]]) for im in t["impls"]]
            tys.append(f"mkTy {cstr(t['name'])} {cbool(t['kind'] in ('opaque', 'openum'))} {cs(t['abi'])} {cattrs(t['attrs'])} {clist(ims)}")
        out.append(f"mkMod {cs(m['abi'])} {cattrs(m['attrs'])} {clist(tys)}")
    return clist(out)


RUNTIME = re.compile(r"^(diplomat_|_?Diplomat|create_rust_jvm|destroy_rust_jvm)")


def refs_of(backend, out):
    """symbols the generated code of a backend refers to (runtime helpers excluded)"""
    syms = set()
    def files(sub, ext):
        base = os.path.join(out, sub)
        for root, _, fs in os.walk(base):
            for f in fs:
                if f.endswith(ext) and not f.startswith("diplomat_runtime") and not f.startswith("diplomat-"):
                    yield os.path.join(root, f)
    if backend in ("c", "cpp", "nanobind"):
        ext = ".h" if backend == "c" else ".hpp"
        sub = "include" if backend == "nanobind" else ""
        for f in files(sub, ext):
            txt = open(f).read()
            if backend != "c":
                blocks = re.findall(r'extern "C" \{(.*?)\} // extern "C"', txt, re.S)
                txt = "\n".join(blocks)
            for line in txt.split("\n"):
                m = re.match(r"^\s*(?!typedef|return|if|while|switch)[\w:\*\s]+?[\s\*](\w+)\(.*\);\s*$", line)
                if m:
                    syms.add(m.group(1))
    elif backend in ("js", "demo_gen"):
        for f in files("js" if backend == "demo_gen" else "", ".mjs"):
            syms |= set(re.findall(r"\bwasm\.(\w+)", open(f).read())) - {"mjs"}
    elif backend == "dart":
        for f in files("", ".dart"):
            syms |= set(re.findall(r"symbol: '(\w+)'", open(f).read()))
            syms |= set(re.findall(r"_DiplomatFfiUse\('(\w+)'\)", open(f).read()))
    elif backend == "kotlin":
        for f in files("", ".kt"):
            txt = open(f).read()
            for blk in re.findall(r"interface \w+Lib: Library \{(.*?)\n\}", txt, re.S):
                syms |= set(re.findall(r"fun (\w+)\(", blk))
            syms |= set(re.findall(r"\blib\.(\w+)\(", txt))          # every call site, not only the declarations
    return {s for s in syms if not RUNTIME.match(s)}


QUALIFIED = """#[diplomat::bridge]
mod plain {
    #[diplomat::opaque]
    pub struct Foo(pub u8);
    impl Foo { pub fn get(&self) -> u8 { self.0 } }
}
#[::diplomat::bridge]
mod qualified {
    #[diplomat::opaque]
    pub struct Bar(pub u8);
    impl Bar { pub fn get(&self) -> u8 { self.0 } }
}
"""


def check(ctx, replay=None):
    build_harness()
    tablegen.main()
    phase = standard_proof_phase(ctx, PROP, ["theories/Properties/C06.v"])
    e2e.build_tool()
    fields, _ = tablegen.support_fields()
    support = {b: tablegen.attr_support(p, fields) for b, p in tablegen.BACKENDS}
    others = tablegen.other_names()
    nb = 6 if ctx.quick() else 40
    goals, meta, viol, nsyms, samples = [], [], 0, 0, []
    d = os.path.join(BUILD, "e2e", "c06")
    os.makedirs(d, exist_ok=True)
    for bi in range(nb):
        mods = gen_modules(ctx)
        if bi % 3 == 0:
            # always present: an opaque enum and an opaque struct that carry their own abi_rename (their destructors must follow it)
            mods[0]["types"][0]["kind"] = "openum"; mods[0]["types"][0]["abi"] = ["kind_{0}_v2"]
            if len(mods[0]["types"]) > 1:
                mods[0]["types"][1]["kind"] = "opaque"; mods[0]["types"][1]["abi"] = ["st_{0}"]
        if bi % 3 == 2:
            # always present: a bridge module nested in a bridge module that carries a pattern, and whole-name patterns that are keywords somewhere
            mods[0]["abi"] = ["outer_{0}"]
            kw = ctx.rng.sample(KEYWORD_NAMES, 3)
            mods[0]["children"] = [{"abi": [], "attrs": [], "nested": False, "modname": f"inner{bi}", "types": [
                {"name": f"In{bi}", "kind": "opaque", "abi": [], "attrs": [], "impls": [{"abi": [], "attrs": [], "methods": [
                    {"name": f"meinA{bi}", "abi": [], "attrs": [], "static": False}, {"name": f"meinB{bi}", "abi": [kw[0]], "attrs": [], "static": True}]}]},
                {"name": f"Ik{bi}", "kind": "opaque", "abi": [kw[1]], "attrs": [], "impls": [{"abi": [], "attrs": [], "methods": [
                    {"name": f"meinC{bi}", "abi": [kw[2]], "attrs": [], "static": False}]}]}]}]
        if bi % 3 == 1:
            # always present: a module-level pattern over an opaque type (its destructor is always exported) with a method
            mods[0]["abi"] = ["mo_{0}_v1"]; mods[0]["types"][0]["kind"] = "opaque"
            if not any(im["methods"] for im in mods[0]["types"][0]["impls"]):
                mods[0]["types"][0]["impls"].append({"abi": [], "attrs": [], "methods": [{"name": f"mefix{bi}", "abi": [], "attrs": [], "static": False}]})
        mods = dedupe_disables(mods, support, others)
        if replay and "modules" in replay.get("replay", {}):
            mods = replay["replay"]["modules"]
        src_txt = bridge(mods)
        dd, lib, p = e2e.bridge_crate(f"c06b{bi % 6}", src_txt)
        if lib is None:
            ctx.violation("macro:build", {"modules": mods, "lib_rs": src_txt, "what": "accepted-looking bridge does not compile with the real macro",
                                          "rustc": p.stderr[-1200:]}, True)
            continue
        exported = {s for s in e2e.nm_symbols(lib) if re.match(r"^\w+$", s) and not RUNTIME.match(s) and not s.startswith("rust_") and not s.startswith("_")
                    and s not in ("main",)}
        # keep only symbols coming from this crate's object (nm -g on a staticlib lists std too): those not containing '$' and defined in our bridge naming universe
        src = os.path.join(dd, "src", "lib.rs")
        cm = coq_mods(mods)
        # symbols of std / runtime live in other archive members; restrict to the member of this crate
        pm = sh(["nm", "-g", "--defined-only", "-A", lib], timeout=120)
        own = set()
        for line in pm.stdout.split("\n"):
            mm = re.match(r".*:(c06b\d+-[0-9a-f]+\.[\w\.\-]*o):\S+ T (\w+)$", line.strip())
            if mm:
                own.add(mm.group(2))
        exported = {s for s in own if not RUNTIME.match(s) and not s.startswith('_')}
        nsyms += len(exported)
        goals.append(f"agree_exported {cm} {clist([cstr(s) for s in sorted(exported)])}"); meta.append(("exported", mods))
        for b in BACKENDS + ["kotlin+finalizers"]:
            o = os.path.join(d, f"out_{b.replace('+', '_')}")
            extra_cfg = []
            if b == "kotlin+finalizers":
                b, extra_cfg = "kotlin", ["kotlin.use_finalizers_not_cleaners=true"]
            q = e2e.run_tool(b, src, o, config=CFG + extra_cfg)
            if q.returncode != 0:
                if len(ctx.violations) < 3:
                    viol += 1
                    ctx.violation(f"tool:{b}", {"modules": mods, "lib_rs": src_txt, "what": f"diplomat-tool {b} failed: {q.stderr[-600:]}"}, True)
                continue
            refs = refs_of(b, o)
            goals.append(f"agree_referenced {cstr(b)} {cm} {clist([cstr(s) for s in sorted(refs)])}"); meta.append((b, mods))
            extra = refs - exported
            if extra and len(ctx.violations) < 3:
                viol += 1
                ctx.violation(f"direct:unexported:{b}", {"modules": mods, "lib_rs": src_txt, "backend": b,
                              "what": f"{b} bindings refer to {sorted(extra)[:6]} which the Rust library does not export (nm)"}, True)
            if bi == 0 and b == "cpp":
                samples.append({"backend": b, "referenced": sorted(refs)[:12], "exported": sorted(exported)[:12]})
            shutil.rmtree(o, ignore_errors=True)
        if bi == 0:
            samples.append({"lib_rs": src_txt[:1500]})
    fails = run_shards(PROP, HEADER, goals, per_shard=8) if goals else []
    if fails and not ctx.violations:
        for f in fails[:3]:
            ctx.violation(f"corr:{meta[f][0]}", {"modules": meta[f][1], "lib_rs": bridge(meta[f][1]), "broken": "correspondence goal " + goals[f][:200] +
                          "... : the set of symbols " + ("exported by the macro-built library" if meta[f][0] == "exported" else f"referenced by the {meta[f][0]} bindings") +
                          " is not the set Rename/Model.v derives (naming scheme Type_method / Type_destroy after abi_rename inheritance; enabled methods and destructors)"},
                          meta[f][0] != "exported" or True)
    # the bridge attribute written with a leading `::` (a fully qualified path, as generated code and some style guides write it): the
    # macro exports the module's functions, so the tool has to see the module too
    dd, lib, p = e2e.bridge_crate("c06q", QUALIFIED)
    if lib is not None:
        pm = sh(["nm", "-g", "--defined-only", "-A", lib], timeout=120)
        own = {mm.group(1) for mm in (re.match(r".*:c06q-[0-9a-f]+\.[\w\.\-]*o:\S+ T (\w+)$", l.strip()) for l in pm.stdout.split("\n")) if mm}
        own = {x for x in own if not RUNTIME.match(x) and not x.startswith("_")}
        o = os.path.join(dd, "out_c")
        q = e2e.run_tool("c", os.path.join(dd, "src", "lib.rs"), o)
        if q.returncode == 0:
            refs = refs_of("c", o)
            nsyms += len(own)
            if own - refs:
                ctx.violation("direct:bridge-attribute-spelling", {"lib_rs": QUALIFIED, "exported_not_declared": sorted(own - refs), "what": "the macro exports the functions of a module "
                              "annotated `#[::diplomat::bridge]`, diplomat-tool does not recognise the module as a bridge and declares none of them"}, True)
    return batch_evidence(
        ctx, PROP, phase, goals, fails, len(goals), max(nsyms, 2),
        "%d generated bridges (1-3 bridge modules, opaque/struct/enum types, 0-2 impl blocks each, abi_rename patterns with and without {0} "
        "(incl. the bare {0}, doubled placeholders, several attributes on one item) on module / type / impl / method, disable and rename "
        "attributes under backend conditions, plain modules nested in bridges), each compiled with the real macro; observed: nm of this crate's "
        "archive member, and the symbols parsed from every backend's output (C prototypes, C++/nanobind extern blocks, wasm.<sym>, Dart "
        "symbol: '<sym>', Kotlin JNA interfaces). One Coq goal per (bridge, backend) + one per bridge for nm. distinct_nontrivial = exported "
        "symbols seen" % nb,
        "Modelled, not verified: RenameAttr parsing/apply/extend, Method::from_syn / OpaqueType::dtor_abi_name naming, which items gen_bridge "
        "exports, and which items a backend keeps (Cfg/Model.v), transcribed into Rename/Model.v; output parsers (python regexes) are trusted",
        samples, ["runtime helper symbols (diplomat_*) are outside the property", "demo_gen refers to symbols through its js/ output"],
        {"bridges": nb, "exported_symbols_seen": nsyms})
