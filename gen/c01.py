"""C01 — macro and C header agree on the ABI (DESIGN §5 C01)."""
from common import *
import abigen, abi_run, tablegen

PROP = "C01"
HEADER = ("From Coq Require Import List String Bool NArith.\nImport ListNotations.\nLocal Open Scope string_scope.\n"
          "Local Open Scope list_scope.\nFrom DV Require Import gen.Tables Abi.Model.")


def analyse(ctx, res, goals, meta, want_pairs=False):
    """direct property check + Coq goals for one e2e run. Returns number of direct violations raised."""
    mod, methods = res["mod"], res["methods"]
    viol = 0
    def violate(key, obj):
        nonlocal viol
        if len(ctx.violations) < 3:
            viol += 1
            ctx.violation(key, obj, True)
    for kind, log in res["errors"]:
        ctx.violation("e2e:" + kind, {"broken": f"end-to-end stage `{kind}` failed on a bridge inside the documented grammar", "log": log,
                                      "lib_rs": res["src"][:6000]}, kind in ("c-run", "c-compile", "tool-c", "macro-build"))
    if "records" not in res:
        return viol
    # value transport: every call entered exactly once with bit-identical arguments, returns bit-identical
    for ci, call in enumerate(res["calls"]):
        elog, eret, ewr = abigen.expected(mod, call)
        got = res["records"].get(ci)
        m = call["m"]
        sig = f"{m['name']}({', '.join(mod.rust_ty(t) for _, t in m['params'])}) -> {mod.rust_ty(m['ret']) if m['ret'][0] != 'unit' else '()'}"
        if got is None:
            violate("direct:missing-call", {"method": sig, "what": "no output for this call (driver died earlier)"}); continue
        ret, wr, log = got
        if log.strip() != elog:
            violate("direct:args:" + "+".join(sorted({t[0] for _, t in m["params"]})),
                    {"method": sig, "what": f"Rust saw {log.strip()!r}, C passed {elog!r}", "args": call["args"]})
        elif ret != eret:
            violate("direct:ret:" + m["ret"][0], {"method": sig, "what": f"C received {ret!r}, Rust returned {eret!r}"})
        elif (wr or "") != (ewr or ""):
            violate("direct:write", {"method": sig, "what": f"write-out holds {wr!r}, Rust wrote {ewr!r}"})
    # struct layouts: both compilers and the model
    for s, fs in mod.structs.items():
        c, r = res["layouts"].get((s, "c")), res["layouts"].get((s, "r"))
        if c != r:
            violate("direct:layout", {"struct": s, "fields": fs, "what": f"C lays {s} out as size/align/offsets {c}, rustc as {r}"})
        fl = clist([abi_run.coq_field_abi(mod, t) for _, t in fs])
        for side, v in (("c", c), ("r", r)):
            if v:
                goals.append(f"agree_layout {fl} {cN(v[0])} {cN(v[1])} {clist([cN(x) for x in v[2:]])}"); meta.append(("layout", s))
    # declarations
    for m in methods:
        abi = "Op_" + m["name"]
        if abi not in res["protos"]:
            violate("direct:missing-proto", {"method": m["name"], "what": f"{abi} is exported by the macro but not declared in Op.h"}); continue
        ret, ps = res["protos"][abi]
        pl = clist([abi_run.coq_pty(t) for _, t in m["params"]] + (["PWrite"] if m["write"] else []))
        self_ = "None" if m["self"] is None else f"(Some {cbool(m['self'] == 'mut')})"
        goals.append(f"agree_proto {cstr(abi)} {self_} {pl} {abi_run.coq_rty(m['ret'])} {clist([cstr(x) for x in ps])} {cstr(ret)}")
        meta.append(("proto", m["name"]))
        if m["ret"][0] in ("opt", "res"):
            mem = res["results"].get(abi + "_result")
            if mem is None:
                violate("direct:missing-typedef", {"method": m["name"], "what": f"no typedef {abi}_result in Op.h"}); continue
            goals.append(f"agree_result_typedef {abi_run.coq_rty(m['ret'])} " + clist([f"({cstr(a)}, {cstr(b)})" for a, b in mem]))
            meta.append(("typedef", m["name"]))
    if want_pairs:
        pairs = {}
        for m in methods:
            if "pair" in m:
                pairs.setdefault(m["pair"], []).append(m)
        for i, (a, b) in pairs.items():
            pa, pb = res["protos"].get("Op_" + a["name"]), res["protos"].get("Op_" + b["name"])
            ra = res["results"].get("Op_" + a["name"] + "_result"); rb = res["results"].get("Op_" + b["name"] + "_result")
            norm = lambda p, n: None if p is None else (p[0].replace(n, "M"), p[1])
            if norm(pa, "Op_" + a["name"]) != norm(pb, "Op_" + b["name"]) or ra != rb:
                violate("direct:spelling-decl", {"type": mod.rust_ty(a["params"][0][1]), "what":
                        f"std Option and DiplomatOption spellings give different C declarations: {pa} / {ra} vs {pb} / {rb}"})
    return viol


def check(ctx, replay=None):
    build_harness()
    tablegen.main()
    phase = standard_proof_phase(ctx, PROP, ["theories/Properties/C01.v"])
    import e2e
    e2e.build_tool()
    goals, meta, nb = [], [], (1 if ctx.quick() else 12)
    ncalls, nontriv, sample = 0, set(), []
    viol = 0
    for bi in range(nb):
        res = abi_run.run(ctx, f"c01b{bi % 2}", 45 if ctx.quick() else 60, paired=False)
        viol += analyse(ctx, res, goals, meta)
        for ci, call in enumerate(res.get("calls", [])):
            ncalls += 1
            if call["m"]["params"] or call["m"]["ret"][0] != "unit":
                nontriv.add(call["m"]["name"] + json.dumps(call["args"]) + str(call["sel"]) + str(bi))
        if bi == 0 and "records" in res:
            for ci in (0, len(res["calls"]) // 2):
                call = res["calls"][ci]
                sample.append({"method": call["m"]["name"], "params": [res["mod"].rust_ty(t) for _, t in call["m"]["params"]],
                               "ret": res["mod"].rust_ty(call["m"]["ret"]), "observed": res["records"].get(ci)})
    import c01_extra, c01_callbacks
    nextra = c01_extra.run(ctx)
    nextra += c01_extra.run_write_and_value(ctx)
    nextra += c01_callbacks.run(ctx, "c", ("c11",))
    fails = run_shards(PROP, HEADER, goals) if goals else []
    if fails and not ctx.violations:
        for f in fails[:3]:
            ctx.violation(f"corr:{meta[f][0]}", {"item": meta[f][1], "broken": "correspondence goal " + goals[f][:500] +
                          " : the generated C declaration / layout is not the one Abi/Model.v derives; the value-transport run found no corrupted value"}, False)
    return batch_evidence(
        ctx, PROP, phase, goals, fails, ncalls + len(goals), len(nontriv),
        "%d generated bridge(s) over the documented grammar (15 primitives, enums with arbitrary i32 discriminants, nested structs with DiplomatOption "
        "fields, opaques behind &/&mut/Box/Option, borrowed/mutable/owned slices of every primitive, three string encodings borrowed and owned, both "
        "Option spellings, Result incl. unit arms, DiplomatWrite, Ordering), method bodies that log every argument bit-exactly and return scripted "
        "values; staticlib built with the real macro, diplomat-tool c, a generated C11 driver calling every function with extremes / NaN payloads / "
        "non-scalar DiplomatChar / NULL+0 slices / both arms / stale payloads in None; compared: the Rust-side log (entered once, arguments bit-exact), "
        "returned values, write-out, sizeof/offsetof vs size_of/offset_of. Coq goals: one per prototype, result typedef and struct layout. "
        "non-trivial = call with at least one argument or a non-unit return; distinct by (method, values)" % nb,
        "Modelled, not verified: the macro's FFI type rewriting (param_ty, return rewriting) and the C backend's type naming / typedef shapes, "
        "transcribed into Abi/Model.v; gen/Tables.v regenerated from fmt_primitive_as_c, fmt_primitive_name_for_derived_type and capi.h.jinja. "
        "Value transport relies on rustc and gcc implementing the same C ABI for equal repr(C) types (trusted); register assignment is not modelled",
        sample, ["callback *lifecycles* are C03's end-to-end part; argument / result transport through callbacks of eight signatures is exercised here (c01_callbacks)", "x86-64 LP64 layout for size/offset theorems"],
        {"bridges": nb, "calls_executed": ncalls, "extra_shape_values_compared": nextra})
