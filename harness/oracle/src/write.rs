//! C12: drive the real `impl fmt::Write for DiplomatWrite`, `diplomat_simple_write`,
//! `diplomat_buffer_write_*` the way a C caller does: through a #[repr(C)] mirror of the struct,
//! a scripted grow callback reached through `context`, and exactly-sized buffers followed by a
//! canary zone inside the same allocation.
use core::ffi::c_void;
use core::fmt::Write;
use diplomat_runtime::DiplomatWrite;
use serde_json::{json, Value};

#[repr(C)]
struct Mirror {
    context: *mut c_void,
    buf: *mut u8,
    len: usize,
    cap: usize,
    grow_failed: bool,
    flush: extern "C" fn(*mut Mirror),
    grow: extern "C" fn(*mut Mirror, usize) -> bool,
}

extern "C" {
    fn diplomat_simple_write(buf: *mut u8, buf_size: usize) -> Mirror;
    fn diplomat_buffer_write_create(cap: usize) -> *mut Mirror;
    fn diplomat_buffer_write_get_bytes(this: *const Mirror) -> *mut u8;
    fn diplomat_buffer_write_len(this: *const Mirror) -> usize;
    fn diplomat_buffer_write_destroy(this: *mut Mirror);
}

const CANARY: usize = 64;
const CANARY_BYTE: u8 = 0xA5;

struct Script {
    outcomes: std::collections::VecDeque<Option<(usize, u8)>>,
    bufs: Vec<Vec<u8>>, // every buffer ever handed out stays alive (and is checked) until the end
    caps: Vec<usize>,
    grow_log: Vec<(usize, bool)>,
    flushes: usize,
}

fn alloc(cap: usize, fill: u8) -> Vec<u8> {
    let mut v = vec![fill; cap + CANARY];
    for b in &mut v[cap..] {
        *b = CANARY_BYTE;
    }
    v
}

extern "C" fn scripted_grow(this: *mut Mirror, requested: usize) -> bool {
    unsafe {
        let sc = &mut *((*this).context as *mut Script);
        match sc.outcomes.pop_front().flatten() {
            None => {
                sc.grow_log.push((requested, false));
                false
            }
            Some((extra, fill)) => {
                let nc = requested + extra;
                let mut nb = alloc(nc, fill);
                let old = core::slice::from_raw_parts((*this).buf, (*this).cap);
                nb[..old.len()].copy_from_slice(old);
                (*this).buf = nb.as_mut_ptr();
                (*this).cap = nc;
                sc.bufs.push(nb);
                sc.caps.push(nc);
                sc.grow_log.push((requested, true));
                true
            }
        }
    }
}
extern "C" fn scripted_flush(this: *mut Mirror) {
    unsafe {
        let sc = &mut *((*this).context as *mut Script);
        sc.flushes += 1;
    }
}

fn canaries_ok(sc: &Script) -> bool {
    sc.bufs.iter().zip(&sc.caps).all(|(b, &c)| b[c..].iter().all(|&x| x == CANARY_BYTE))
}

fn chunks_of(case: &Value) -> Vec<String> {
    case["chunks"]
        .as_array()
        .unwrap()
        .iter()
        .map(|c| {
            let bytes: Vec<u8> = c.as_array().unwrap().iter().map(|b| b.as_u64().unwrap() as u8).collect();
            String::from_utf8(bytes).expect("chunk must be valid UTF-8 (write_str takes &str)")
        })
        .collect()
}

fn run_caller(case: &Value) -> Value {
    let cap = case["cap"].as_u64().unwrap() as usize;
    let fill = case["fill"].as_u64().unwrap() as u8;
    let outcomes = case["grows"]
        .as_array()
        .unwrap()
        .iter()
        .map(|g| if g.is_null() { None } else { Some((g[0].as_u64().unwrap() as usize, g[1].as_u64().unwrap() as u8)) })
        .collect();
    let mut sc = Box::new(Script { outcomes, bufs: vec![alloc(cap, fill)], caps: vec![cap], grow_log: vec![], flushes: 0 });
    let mut m = Mirror {
        context: &mut *sc as *mut Script as *mut c_void,
        buf: sc.bufs[0].as_mut_ptr(),
        len: 0,
        cap,
        grow_failed: false,
        flush: scripted_flush,
        grow: scripted_grow,
    };
    let mut obs = vec![];
    for ch in chunks_of(case) {
        let before = sc.grow_log.len();
        {
            let w: &mut DiplomatWrite = unsafe { &mut *(&mut m as *mut Mirror as *mut DiplomatWrite) };
            // every way a Rust caller writes through fmt::Write: write_str, write_char (single-char chunks), write! / write_fmt
            let via = case["via"].as_str().unwrap_or("str");
            let r = if via == "char" && ch.chars().count() == 1 {
                w.write_char(ch.chars().next().unwrap())
            } else if via == "fmt" {
                write!(w, "{}", ch)
            } else {
                w.write_str(&ch)
            };
            assert!(r.is_ok());
        }
        let mem = unsafe { core::slice::from_raw_parts(m.buf, m.cap) }.to_vec();
        obs.push(json!({
            "len": m.len, "cap": m.cap, "failed": m.grow_failed, "mem": mem,
            "grows": sc.grow_log[before..].iter().map(|(r, ok)| json!([r, ok])).collect::<Vec<_>>(),
            "canary": canaries_ok(&sc),
        }));
    }
    {
        let w: &mut DiplomatWrite = unsafe { &mut *(&mut m as *mut Mirror as *mut DiplomatWrite) };
        w.flush();
    }
    json!({"obs": obs, "flushes": sc.flushes, "canary": canaries_ok(&sc)})
}

fn run_simple(case: &Value) -> Value {
    let size = case["bufsize"].as_u64().unwrap() as usize;
    let fill = case["fill"].as_u64().unwrap() as u8;
    let mut buf = alloc(size, fill);
    let mut m = unsafe { diplomat_simple_write(buf.as_mut_ptr(), size) };
    let mut lens = vec![];
    for ch in chunks_of(case) {
        let w: &mut DiplomatWrite = unsafe { &mut *(&mut m as *mut Mirror as *mut DiplomatWrite) };
        w.write_str(&ch).unwrap();
        lens.push(m.len);
    }
    let w: &mut DiplomatWrite = unsafe { &mut *(&mut m as *mut Mirror as *mut DiplomatWrite) };
    w.flush();
    let after1 = buf[..size].to_vec();
    let w: &mut DiplomatWrite = unsafe { &mut *(&mut m as *mut Mirror as *mut DiplomatWrite) };
    w.flush();
    let after2 = buf[..size].to_vec();
    json!({
        "mem": after1, "mem2": after2, "len": m.len, "cap": m.cap, "failed": m.grow_failed, "lens": lens,
        "canary": buf[size..].iter().all(|&x| x == CANARY_BYTE),
        "same_buf": m.buf == buf.as_mut_ptr(),
    })
}

fn run_owned(case: &Value) -> Value {
    let cap = case["cap"].as_u64().unwrap() as usize;
    let p = unsafe { diplomat_buffer_write_create(cap) };
    let mut obs = vec![];
    for ch in chunks_of(case) {
        let w: &mut DiplomatWrite = unsafe { &mut *(p as *mut DiplomatWrite) };
        w.write_str(&ch).unwrap();
        let (l, c, failed) = unsafe { ((*p).len, (*p).cap, (*p).grow_failed) };
        let gl = unsafe { diplomat_buffer_write_len(p) };
        let gb = unsafe { diplomat_buffer_write_get_bytes(p) };
        let bytes = if gb.is_null() { Value::Null } else { json!(unsafe { core::slice::from_raw_parts(gb, gl) }.to_vec()) };
        obs.push(json!({"len": l, "cap": c, "failed": failed, "get_len": gl, "get_bytes": bytes}));
    }
    unsafe { diplomat_buffer_write_destroy(p) };
    json!({"obs": obs})
}

pub fn run(input: &str) {
    let mut out = String::new();
    for line in input.lines().filter(|l| !l.trim().is_empty()) {
        let case: Value = serde_json::from_str(line).expect("json case");
        let r = match case["kind"].as_str().unwrap() {
            "caller" => run_caller(&case),
            "simple" => run_simple(&case),
            "owned" => run_owned(&case),
            k => panic!("unknown kind {k}"),
        };
        out.push_str(&r.to_string());
        out.push('\n');
    }
    print!("{out}");
}
