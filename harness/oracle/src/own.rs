//! C03 (runtime part): histories over the real DiplomatResult / DiplomatOption / DiplomatOwnedSlice /
//! DiplomatCallback with drop-counting payloads.  A payload dropped twice is observable without touching
//! the allocator (the token just logs its id).
use core::ffi::c_void;
use diplomat_runtime::*;
use serde_json::{json, Value};
use std::cell::RefCell;

thread_local! {
    static LOG: RefCell<Vec<usize>> = RefCell::new(vec![]);
    static CREATED: RefCell<Vec<(usize, &'static str)>> = RefCell::new(vec![]);
}
fn fresh(kind: &'static str) -> usize {
    CREATED.with(|c| {
        let mut c = c.borrow_mut();
        let id = c.len();
        c.push((id, kind));
        id
    })
}
struct Tok(usize);
impl Drop for Tok {
    fn drop(&mut self) {
        LOG.with(|l| l.borrow_mut().push(self.0));
    }
}
impl Clone for Tok {
    fn clone(&self) -> Tok {
        Tok(fresh("clone"))
    }
}
unsafe extern "C" fn cb_dtor(data: *mut c_void) {
    LOG.with(|l| l.borrow_mut().push(data as usize - 1));
}
unsafe extern "C" fn cb_run(_data: *mut c_void) {}

enum Val {
    Std(Result<Tok, Tok>),
    Opt(Option<Tok>),
    Dip(DiplomatResult<Tok, Tok>),
    DipOpt(DiplomatOption<Tok>),
    StdU(Result<(), Tok>),
    DipU(DiplomatResult<(), Tok>),
    Boxed(Box<[Tok]>),
    Owned(DiplomatOwnedSlice<Tok>),
    Cb(DiplomatCallback<()>),
}

fn run_case(case: &Value) -> Value {
    LOG.with(|l| l.borrow_mut().clear());
    CREATED.with(|c| c.borrow_mut().clear());
    let mut regs: Vec<Option<Val>> = (0..16).map(|_| None).collect();
    let mut per_op = vec![];
    let mut seen = 0usize;
    for op in case["ops"].as_array().unwrap() {
        let name = op[0].as_str().unwrap();
        let r = op[1].as_u64().unwrap() as usize;
        match name {
            "mk" => {
                let ok = op[2].as_bool().unwrap();
                let t = Tok(fresh("payload"));
                regs[r] = Some(Val::Std(if ok { Ok(t) } else { Err(t) }));
            }
            "mkunit" => {
                let ok = op[2].as_bool().unwrap();
                regs[r] = Some(Val::StdU(if ok { Ok(()) } else { Err(Tok(fresh("payload"))) }));
            }
            "none" => regs[r] = Some(Val::Opt(None)),
            "some" => regs[r] = Some(Val::Opt(Some(Tok(fresh("payload"))))),
            "from" => {
                regs[r] = Some(match regs[r].take().unwrap() {
                    Val::Std(x) => Val::Dip(x.into()),
                    Val::Opt(x) => Val::DipOpt(x.into()),
                    Val::StdU(x) => Val::DipU(x.into()),
                    _ => panic!("from: wrong kind"),
                })
            }
            "into" => {
                regs[r] = Some(match regs[r].take().unwrap() {
                    Val::Dip(x) => Val::Std(x.into()),
                    Val::DipOpt(x) => Val::Opt(x.into_option()),
                    Val::DipU(x) => Val::StdU(x.into()),
                    _ => panic!("into: wrong kind"),
                })
            }
            "clone" => {
                let r2 = op[2].as_u64().unwrap() as usize;
                let c = match regs[r].as_ref().unwrap() {
                    Val::Dip(x) => Val::Dip(x.clone()),
                    Val::DipOpt(x) => Val::DipOpt(x.clone()),
                    Val::DipU(x) => Val::DipU(x.clone()),
                    _ => panic!("clone: wrong kind"),
                };
                regs[r2] = Some(c);
            }
            "asref" => match regs[r].as_ref().unwrap() {
                Val::Dip(x) => {
                    let _ = x.as_ref().is_ok();
                }
                Val::DipOpt(x) => {
                    let _ = x.as_ref().is_ok();
                }
                Val::Owned(x) => {
                    let _ = x.len();
                }
                _ => {}
            },
            "mkbox" => regs[r] = Some(Val::Boxed(vec![Tok(fresh("box"))].into_boxed_slice())),
            "box2owned" => {
                regs[r] = Some(match regs[r].take().unwrap() {
                    Val::Boxed(b) => Val::Owned(b.into()),
                    _ => panic!("box2owned: wrong kind"),
                })
            }
            "owned2box" => {
                regs[r] = Some(match regs[r].take().unwrap() {
                    Val::Owned(b) => Val::Boxed(b.into()),
                    _ => panic!("owned2box: wrong kind"),
                })
            }
            "nullowned" => {
                let raw: (usize, usize) = (0, 0);
                regs[r] = Some(Val::Owned(unsafe { core::mem::transmute::<(usize, usize), DiplomatOwnedSlice<Tok>>(raw) }));
            }
            "mkcb" => {
                let dtor = op[2].as_bool().unwrap();
                let id = fresh(if dtor { "callback" } else { "callback-nodtor" });
                regs[r] = Some(Val::Cb(DiplomatCallback {
                    data: (id + 1) as *mut c_void,
                    run_callback: unsafe { core::mem::transmute::<unsafe extern "C" fn(*mut c_void), unsafe extern "C" fn(*mut c_void, ...)>(cb_run) },
                    destructor: if dtor { Some(cb_dtor) } else { None },
                }));
            }
            "drop" => {
                regs[r] = None;
            }
            o => panic!("op {o}"),
        }
        let now: Vec<usize> = LOG.with(|l| l.borrow()[seen..].to_vec());
        seen += now.len();
        per_op.push(now);
    }
    for r in regs.iter_mut() {
        *r = None;
    }
    let tail: Vec<usize> = LOG.with(|l| l.borrow()[seen..].to_vec());
    let created: Vec<Value> = CREATED.with(|c| c.borrow().iter().map(|(i, k)| json!([i, k])).collect());
    json!({"logs": per_op, "tail": tail, "created": created})
}

pub fn run(input: &str) {
    let mut out = String::new();
    for line in input.lines().filter(|l| !l.trim().is_empty()) {
        let case: Value = serde_json::from_str(line).expect("json case");
        out.push_str(&run_case(&case).to_string());
        out.push('\n');
    }
    print!("{out}");
}
