//! C17: the public Config API driven exactly like tool/src/main.rs + the attribute loop of gen():
//! read_file(config.toml) ; read_cli_settings(--config k=v ...) ; set(key, toml_value_from_str(attr value)) ;
//! get_overridden(target).  The effective configuration is observed through its Serialize impl.
use diplomat_tool::config::{toml_value_from_str, Config};
use serde_json::{json, Value};

fn key_of(w: &Value) -> String {
    match w[0].as_str() {
        Some(scope) => format!("{}.{}", scope, w[1].as_str().unwrap()),
        None => w[1].as_str().unwrap().to_string(),
    }
}

fn toml_lit(v: &Value) -> String {
    match v {
        Value::String(s) => format!("{:?}", s),
        Value::Bool(b) => b.to_string(),
        Value::Number(n) => n.to_string(),
        _ => panic!("value"),
    }
}

/// what the shell hands to `--config key=value`: strings arrive without quotes
fn cli_lit(v: &Value) -> String {
    match v {
        Value::String(s) => s.clone(),
        other => toml_lit(other),
    }
}

fn run_case(case: &Value, dir: &std::path::Path) -> Value {
    // config.toml: top-level keys first, then one table per scope
    let mut toml = String::new();
    let file = case["file"].as_array().unwrap();
    for w in file.iter().filter(|w| w[0].is_null()) {
        toml.push_str(&format!("{} = {}\n", w[1].as_str().unwrap(), toml_lit(&w[2])));
    }
    let mut scopes: Vec<String> = vec![];
    for w in file.iter().filter(|w| !w[0].is_null()) {
        let s = w[0].as_str().unwrap().to_string();
        if !scopes.contains(&s) {
            scopes.push(s);
        }
    }
    for s in &scopes {
        toml.push_str(&format!("[{}]\n", s));
        for w in file.iter().filter(|w| w[0].as_str() == Some(s)) {
            toml.push_str(&format!("{} = {}\n", w[1].as_str().unwrap(), toml_lit(&w[2])));
        }
    }
    let path = dir.join("config.toml");
    std::fs::write(&path, &toml).unwrap();
    let cli: Vec<String> = case["cli"].as_array().unwrap().iter().map(|w| format!("{}={}", key_of(w), cli_lit(&w[2]))).collect();
    let attr: Vec<(String, String)> = case["attr"].as_array().unwrap().iter().map(|w| (key_of(w), toml_lit(&w[2]))).collect();
    let target = case["target"].as_str().unwrap().to_string();
    let r = std::panic::catch_unwind(move || {
        let mut config = Config::default();
        config.read_file(&path).expect("Error loading config");
        config.read_cli_settings(cli);
        for (k, v) in attr {
            config.set(&k, toml_value_from_str(&v));
        }
        let config = config.get_overridden(&target);
        serde_json::to_value(&config).unwrap()
    });
    match r {
        Ok(v) => json!({"config": v, "toml": toml}),
        Err(_) => json!({"config": null, "toml": toml}),
    }
}

pub fn run(input: &str) {
    std::panic::set_hook(Box::new(|_| {}));
    let dir = std::env::temp_dir().join(format!("verif_cfg_{}", std::process::id()));
    std::fs::create_dir_all(&dir).unwrap();
    let mut out = String::new();
    for line in input.lines().filter(|l| !l.trim().is_empty()) {
        let case: Value = serde_json::from_str(line).expect("json case");
        out.push_str(&run_case(&case, &dir).to_string());
        out.push('\n');
    }
    let _ = std::fs::remove_dir_all(&dir);
    print!("{out}");
}
