//! C14: what diplomat_core::ast::File collects from a source text, in its own iteration order.
use diplomat_core::ast;
use serde_json::{json, Value};

pub fn run(input: &str) {
    let mut out = String::new();
    for line in input.lines().filter(|l| !l.trim().is_empty()) {
        let case: Value = serde_json::from_str(line).expect("json case");
        let src = case["src"].as_str().unwrap();
        let file: syn::File = syn::parse_str(src).expect("parse");
        let f = ast::File::from(&file);
        let mut mods = vec![];
        for (name, m) in f.modules.iter() {
            let mut tys = vec![];
            for (tname, ty) in m.declared_types.iter() {
                let methods: Vec<String> = ty.methods().iter().map(|me| me.name.as_str().to_string()).collect();
                tys.push(json!([tname.as_str(), methods]));
            }
            mods.push(json!([name, tys]));
        }
        out.push_str(&json!({"modules": mods}).to_string());
        out.push('\n');
    }
    print!("{out}");
}
