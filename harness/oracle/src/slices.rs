//! C16: the real From/Into/Deref impls of runtime/src/slices.rs and the exported diplomat_is_str,
//! observed the way a C caller sees them (a #[repr(C)] {ptr,len} mirror).
use diplomat_runtime::*;
use serde_json::{json, Value};

extern "C" {
    fn diplomat_is_str(ptr: *const u8, size: usize) -> bool;
}

#[repr(C)]
#[derive(Clone, Copy)]
struct Raw<T> {
    ptr: *mut T,
    len: usize,
}

trait Elem: Copy + 'static {
    fn mk(i: usize) -> Self;
    fn bits(self) -> u64;
}
macro_rules! int_elem { ($($t:ty),*) => { $(impl Elem for $t {
    fn mk(i: usize) -> Self { (i as u64).wrapping_mul(0x9E37_79B9_7F4A_7C15).wrapping_add(11) as $t }
    fn bits(self) -> u64 { self as u64 & (u64::MAX >> (64 - 8 * core::mem::size_of::<$t>() as u32)) }
})* } }
int_elem!(u8, i8, u16, i16, u32, i32, u64, i64, usize, isize);
impl Elem for f32 {
    fn mk(i: usize) -> Self { f32::from_bits(u32::mk(i)) }
    fn bits(self) -> u64 { self.to_bits() as u64 }
}
impl Elem for f64 {
    fn mk(i: usize) -> Self { f64::from_bits(u64::mk(i)) }
    fn bits(self) -> u64 { self.to_bits() }
}
impl Elem for bool {
    fn mk(i: usize) -> Self { i % 3 == 0 }
    fn bits(self) -> u64 { self as u64 }
}
impl Elem for char {
    fn mk(i: usize) -> Self { char::from_u32(0x41 + (i as u32 * 7919) % 0xD000).unwrap() }
    fn bits(self) -> u64 { self as u64 }
}

fn classify<T>(p: *const T, base: *const T, n: usize) -> Value {
    let (p, b, sz) = (p as usize, base as usize, core::mem::size_of::<T>());
    if p == 0 {
        json!("null")
    } else if p % core::mem::align_of::<T>() != 0 {
        json!("misaligned")
    } else if p >= b && p <= b + n * sz && (p - b) % sz == 0 {
        json!({"at": (p - b) / sz})
    } else {
        json!("dangling")
    }
}

fn read_elems<T: Elem>(s: &[T]) -> Vec<u64> {
    s.iter().map(|e| e.bits()).collect()
}

fn go<T: Elem>(case: &Value) -> Value {
    let n = case["n"].as_u64().unwrap() as usize;
    let off = case["off"].as_u64().unwrap() as usize;
    let len = case["len"].as_u64().unwrap() as usize;
    let mut v: Vec<T> = (0..n).map(T::mk).collect();
    let elems = read_elems(&v);
    let base = v.as_ptr();
    match case["kind"].as_str().unwrap() {
        "borrow" => {
            let s: &[T] = &v[off..off + len];
            let d: DiplomatSlice<T> = s.into();
            let raw: Raw<T> = unsafe { core::mem::transmute_copy(&d) };
            let dr: &[T] = &d;
            let deref = (dr.as_ptr(), dr.len());
            let back: &[T] = d.into();
            json!({"elems": elems, "view": [classify(raw.ptr, base, n), raw.len],
                   "back": [classify(back.as_ptr(), base, n), back.len()], "read": read_elems(back),
                   "deref_same": deref == (back.as_ptr(), back.len())})
        }
        "mut" => {
            let s: &mut [T] = &mut v[off..off + len];
            let mut d: DiplomatSliceMut<T> = s.into();
            let raw: Raw<T> = unsafe { core::mem::transmute_copy(&d) };
            let deref = { let r: &[T] = &d; (r.as_ptr(), r.len()) };
            let derefm = { let r: &mut [T] = &mut d; (r.as_ptr(), r.len()) };
            let back: &mut [T] = d.into();
            let bp = (back.as_ptr(), back.len());
            let read = read_elems(back);
            // write through and observe the original storage
            let mut wrote_ok = true;
            if !back.is_empty() {
                let last = back.len() - 1;
                back[last] = T::mk(9999);
                wrote_ok = v[off + last].bits() == T::mk(9999).bits();
            }
            json!({"elems": elems, "view": [classify(raw.ptr, base, n), raw.len],
                   "back": [classify(bp.0, base, n), bp.1], "read": read,
                   "deref_same": deref == bp && derefm == bp && wrote_ok})
        }
        "owned" => {
            let b: Box<[T]> = v[off..off + len].to_vec().into_boxed_slice();
            let bbase = b.as_ptr();
            let belems = read_elems(&b);
            let d: DiplomatOwnedSlice<T> = b.into();
            let raw: Raw<T> = unsafe { core::mem::transmute_copy(&d) };
            let deref = { let r: &[T] = &d; (r.as_ptr(), r.len()) };
            let back: Box<[T]> = d.into();
            json!({"elems": belems, "view": [classify(raw.ptr, bbase, len), raw.len],
                   "back": [classify(back.as_ptr(), bbase, len), back.len()], "read": read_elems(&back),
                   "deref_same": deref == (back.as_ptr(), back.len())})
        }
        "foreign" => {
            // the view is built by the foreign side: NULL+len0, or base+off with len
            let null = case["null"].as_bool().unwrap();
            let raw = Raw::<T> { ptr: if null { core::ptr::null_mut() } else { unsafe { v.as_mut_ptr().add(off) } }, len: if null { case["len"].as_u64().unwrap() as usize } else { len } };
            let view = json!([classify(raw.ptr, base, n), raw.len]);
            match case["target"].as_str().unwrap() {
                "slice" => {
                    let d: DiplomatSlice<T> = unsafe { core::mem::transmute_copy(&raw) };
                    let dr: &[T] = &d;
                    let deref = (dr.as_ptr(), dr.len());
                    let back: &[T] = d.into();
                    json!({"elems": elems, "view": view, "back": [classify(back.as_ptr(), base, n), back.len()],
                           "read": read_elems(back), "deref_same": deref.1 == back.len()})
                }
                "mut" => {
                    let mut d: DiplomatSliceMut<T> = unsafe { core::mem::transmute_copy(&raw) };
                    let l1 = { let r: &[T] = &d; r.len() };
                    let l2 = { let r: &mut [T] = &mut d; r.len() };
                    let back: &mut [T] = d.into();
                    json!({"elems": elems, "view": view, "back": [classify(back.as_ptr(), base, n), back.len()],
                           "read": read_elems(back), "deref_same": l1 == back.len() && l2 == back.len()})
                }
                "owned" => {
                    assert!(null, "foreign owned views are only built as NULL");
                    let d: DiplomatOwnedSlice<T> = unsafe { core::mem::transmute_copy(&raw) };
                    let l1 = { let r: &[T] = &d; r.len() };
                    // dropping a NULL owned slice must be a no-op
                    let d2: DiplomatOwnedSlice<T> = unsafe { core::mem::transmute_copy(&raw) };
                    drop(d2);
                    let back: Box<[T]> = d.into();
                    json!({"elems": elems, "view": view, "back": [classify(back.as_ptr(), base, n), back.len()],
                           "read": read_elems(&back), "deref_same": l1 == back.len()})
                }
                t => panic!("target {t}"),
            }
        }
        k => panic!("kind {k}"),
    }
}

fn go_str(case: &Value) -> Value {
    let text = case["text"].as_str().unwrap().to_string();
    let off = case["off"].as_u64().unwrap() as usize;
    let len = case["len"].as_u64().unwrap() as usize;
    let base = text.as_ptr();
    let n = text.len();
    let elems: Vec<u64> = text.bytes().map(|b| b as u64).collect();
    match case["kind"].as_str().unwrap() {
        "str" => {
            let s: &str = &text[off..off + len];
            let d: DiplomatUtf8StrSlice = s.into();
            let raw: Raw<u8> = unsafe { core::mem::transmute_copy(&d) };
            let dr: &str = &d;
            let deref = (dr.as_ptr(), dr.len());
            let back: &str = d.into();
            json!({"elems": elems, "view": [classify(raw.ptr as *const u8, base, n), raw.len],
                   "back": [classify(back.as_ptr(), base, n), back.len()],
                   "read": back.bytes().map(|b| b as u64).collect::<Vec<_>>(),
                   "deref_same": deref == (back.as_ptr(), back.len())})
        }
        "ownedstr" => {
            let b: Box<str> = text[off..off + len].to_string().into_boxed_str();
            let bbase = b.as_ptr();
            let belems: Vec<u64> = b.bytes().map(|x| x as u64).collect();
            let d: DiplomatOwnedUTF8StrSlice = b.into();
            let raw: Raw<u8> = unsafe { core::mem::transmute_copy(&d) };
            let deref = { let r: &str = &d; (r.as_ptr(), r.len()) };
            let back: Box<str> = d.into();
            json!({"elems": belems, "view": [classify(raw.ptr as *const u8, bbase, len), raw.len],
                   "back": [classify(back.as_ptr(), bbase, len), back.len()],
                   "read": back.bytes().map(|b| b as u64).collect::<Vec<_>>(),
                   "deref_same": deref == (back.as_ptr(), back.len())})
        }
        "nullstr" => {
            let raw = Raw::<u8> { ptr: core::ptr::null_mut(), len: 0 };
            let d: DiplomatOwnedUTF8StrSlice = unsafe { core::mem::transmute_copy(&raw) };
            let back: Box<str> = d.into();
            json!({"elems": elems, "view": ["null", 0], "back": [classify(back.as_ptr(), base, n), back.len()],
                   "read": Vec::<u64>::new(), "deref_same": true})
        }
        k => panic!("kind {k}"),
    }
}

fn is_str(b: &[u8]) -> bool {
    unsafe { diplomat_is_str(b.as_ptr(), b.len()) }
}

/// the same bytes viewed at every offset 0..16 from a 16-aligned address (a sub-view of a larger buffer, as a
/// std::string_view::substr is), between non-ASCII neighbours: the answers, which must all be the same
fn is_str_at_offsets(b: &[u8]) -> Vec<bool> {
    let mut arena = vec![0xC3u8; b.len() + 64];
    let base = arena.as_ptr().align_offset(16);
    (0..16)
        .map(|k| {
            for x in arena.iter_mut() {
                *x = 0xC3;
            }
            arena[base + 16 + k..base + 16 + k + b.len()].copy_from_slice(b);
            unsafe { diplomat_is_str(arena.as_ptr().add(base + 16 + k), b.len()) }
        })
        .collect()
}

pub fn run(input: &str) {
    let mut out = String::new();
    for line in input.lines().filter(|l| !l.trim().is_empty()) {
        let case: Value = serde_json::from_str(line).expect("json case");
        let kind = case["kind"].as_str().unwrap();
        let r = match kind {
            "utf8" => {
                let b: Vec<u8> = case["bytes"].as_array().unwrap().iter().map(|x| x.as_u64().unwrap() as u8).collect();
                let at = is_str_at_offsets(&b);
                let v = is_str(&b);
                let differing: Vec<usize> = at.iter().enumerate().filter(|(_, x)| **x != v).map(|(i, _)| i).collect();
                json!({"valid": v, "differing_offsets": differing})
            }
            "utf8_null" => {
                // a NULL pointer with length 0 is how C and C++ (std::string_view()) spell the empty string
                json!({"valid": unsafe { diplomat_is_str(core::ptr::null(), 0) }})
            }
            "utf8_last" => {
                let mut b: Vec<u8> = case["prefix"].as_array().unwrap().iter().map(|x| x.as_u64().unwrap() as u8).collect();
                b.push(0);
                let n = b.len();
                let mut acc = vec![];
                for x in 0..=255u8 {
                    b[n - 1] = x;
                    if is_str(&b) {
                        acc.push(x);
                    }
                }
                json!({"accept": acc})
            }
            "str" | "ownedstr" | "nullstr" => go_str(&case),
            _ => match case["ty"].as_str().unwrap() {
                "u8" => go::<u8>(&case), "i8" => go::<i8>(&case), "u16" => go::<u16>(&case), "i16" => go::<i16>(&case),
                "u32" => go::<u32>(&case), "i32" => go::<i32>(&case), "u64" => go::<u64>(&case), "i64" => go::<i64>(&case),
                "usize" => go::<usize>(&case), "isize" => go::<isize>(&case), "f32" => go::<f32>(&case),
                "f64" => go::<f64>(&case), "bool" => go::<bool>(&case), "char" => go::<char>(&case),
                t => panic!("type {t}"),
            },
        };
        out.push_str(&r.to_string());
        out.push('\n');
    }
    print!("{out}");
}
