//! C04: what the real borrow analysis (`Method::borrowing_param_visitor`) reports for every method of a
//! bridge source, visiting self and the parameters in the order every managed backend does.
use diplomat_core::hir::borrowing_param::LifetimeEdgeKind;
use diplomat_core::hir::{self, BackendAttrSupport, BasicAttributeValidator, TypeContext};
use serde_json::{json, Value};

fn one(src: &str, force_slices: bool) -> Value {
    let file: syn::File = match syn::parse_str(src) {
        Ok(f) => f,
        Err(e) => return json!({"parse_error": e.to_string()}),
    };
    let mut v = BasicAttributeValidator::new("verif");
    let mut s = BackendAttrSupport::default();
    s.option = true;
    s.memory_sharing = false;
    s.utf8_strings = true;
    s.utf16_strings = true;
    s.static_slices = true;
    v.support = s;
    let tcx = match TypeContext::from_syn(&file, Default::default(), v) {
        Ok(t) => t,
        Err(errs) => {
            let msgs: Vec<String> = errs.iter().map(|(c, e)| format!("{c}: {e}")).collect();
            return json!({"rejected": msgs});
        }
    };
    let mut methods = vec![];
    for (_id, ty) in tcx.all_types() {
        for m in ty.methods() {
            let mut vis = m.borrowing_param_visitor(&tcx, force_slices);
            if let Some(ps) = m.param_self.as_ref() {
                vis.visit_param(&ps.ty.clone().into(), "this");
            }
            for p in m.params.iter() {
                vis.visit_param(&p.ty, p.name.as_str());
            }
            let mut lts = vec![];
            for (lt, info) in vis.borrow_map() {
                let longer: Vec<String> = info.all_longer_lifetimes.iter().map(|l| m.lifetime_env.fmt_lifetime(l).to_string()).collect();
                let edges: Vec<Value> = info
                    .incoming_edges
                    .iter()
                    .map(|e| match e.kind {
                        LifetimeEdgeKind::OpaqueParam => json!([e.param_name, "opaque"]),
                        LifetimeEdgeKind::SliceParam => json!([e.param_name, "slice"]),
                        LifetimeEdgeKind::StructLifetime(env, def_lt, opt) => json!([e.param_name, "struct", env.fmt_lifetime(def_lt).to_string(), opt]),
                        _ => json!([e.param_name, "unknown"]),
                    })
                    .collect();
                lts.push(json!({"lt": m.lifetime_env.fmt_lifetime(lt).to_string(), "longer": longer, "edges": edges}));
            }
            // what elision.rs made of the written lifetimes: hir::Type::lifetimes() of self, every parameter and every
            // type contained in the output, and LifetimeEnv::num_lifetimes
            let fmt = |l: hir::MaybeStatic<hir::Lifetime>| match l {
                hir::MaybeStatic::Static => "static".to_string(),
                hir::MaybeStatic::NonStatic(l) => m.lifetime_env.fmt_lifetime(l).to_string(),
            };
            let mut lowered_params: Vec<Vec<String>> = vec![];
            if let Some(ps) = m.param_self.as_ref() {
                let t: hir::Type = ps.ty.clone().into();
                lowered_params.push(t.lifetimes().map(fmt).collect());
            }
            for p in m.params.iter() {
                lowered_params.push(p.ty.lifetimes().map(fmt).collect());
            }
            let mut lowered_ret: Vec<Vec<String>> = vec![];
            m.output.with_contained_types(|t| lowered_ret.push(t.lifetimes().map(fmt).collect()));
            let lowered = json!({"params": lowered_params, "ret": lowered_ret, "num": m.lifetime_env.num_lifetimes()});
            methods.push(json!({"ty": ty.name().as_str(), "method": m.name.as_str(), "map": lts, "lowered": lowered}));
        }
    }
    json!({"methods": methods})
}

pub fn run(input: &str) {
    let mut out = String::new();
    for line in input.lines().filter(|l| !l.trim().is_empty()) {
        let case: Value = serde_json::from_str(line).expect("json case");
        let src = case["src"].as_str().unwrap().to_string();
        let force = case["force_slices"].as_bool().unwrap_or(false);
        // the analysis is allowed to reject, never to panic: a panic is reported as such
        let r = std::panic::catch_unwind(move || one(&src, force));
        let v = match r {
            Ok(v) => v,
            Err(p) => {
                let msg = p.downcast_ref::<String>().cloned().or_else(|| p.downcast_ref::<&str>().map(|s| s.to_string())).unwrap_or_default();
                json!({"panic": msg})
            }
        };
        out.push_str(&v.to_string());
        out.push('\n');
    }
    print!("{out}");
}
