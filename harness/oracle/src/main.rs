//! Runs the real implementation on case files; prints canonical observations (one JSON per line).
mod borrow;
mod collect;
mod config;
mod docs;
mod own;
mod slices;
mod write;

fn main() {
    let args: Vec<String> = std::env::args().collect();
    if args.len() < 2 {
        eprintln!("usage: oracle <area> <casefile>");
        std::process::exit(2);
    }
    let input = if args.len() > 2 { std::fs::read_to_string(&args[2]).expect("read casefile") } else { String::new() };
    match args[1].as_str() {
        "write" => write::run(&input),
        "slices" => slices::run(&input),
        "own" => own::run(&input),
        "config" => config::run(&input),
        "collect" => collect::run(&input),
        "borrow" => borrow::run(&input),
        "docs" => docs::run(&input),
        other => {
            eprintln!("unknown area {other}");
            std::process::exit(2);
        }
    }
}
