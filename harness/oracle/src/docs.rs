//! C15: the documentation renderer every backend calls (`ast::Docs::from_attrs` + `to_markdown` with a
//! `DocsUrlGenerator`), on doc lines and rust_link attributes given as data.
use diplomat_core::ast::Docs;
use diplomat_core::hir::DocsUrlGenerator;
use serde_json::{json, Value};
use std::collections::HashMap;

fn one(case: &Value) -> Value {
    let mut attrs: Vec<syn::Attribute> = vec![];
    for l in case["lines"].as_array().unwrap() {
        let lit = proc_macro2::Literal::string(l.as_str().unwrap());
        attrs.push(syn::parse_quote!(#[doc = #lit]));
    }
    for l in case["links"].as_array().unwrap() {
        let path: Vec<&str> = l["path"].as_array().unwrap().iter().map(|s| s.as_str().unwrap()).collect();
        let mut text = format!("{}, {}", path.join("::"), l["typ"].as_str().unwrap());
        if let Some(d) = l["disp"].as_str() {
            text.push_str(", ");
            text.push_str(d);
        }
        let tokens: proc_macro2::TokenStream = text.parse().unwrap();
        attrs.push(syn::parse_quote!(#[diplomat::rust_link(#tokens)]));
    }
    let default = case["default"].as_str().map(|s| s.to_string());
    let mut bases = HashMap::new();
    for kv in case["bases"].as_array().unwrap() {
        bases.insert(kv[0].as_str().unwrap().to_string(), kv[1].as_str().unwrap().to_string());
    }
    // parsing the attributes happens before lowering: a failure here is outside the property
    let docs = match std::panic::catch_unwind(|| Docs::from_attrs(&attrs)) {
        Ok(d) => d,
        Err(_) => return json!({"rejected": "Docs::from_attrs"}),
    };
    let r = std::panic::catch_unwind(|| {
        let gen = DocsUrlGenerator::with_base_urls(default, bases);
        docs.to_markdown(&gen)
    });
    match r {
        Ok(md) => json!({"md": md.as_bytes()}),
        Err(e) => {
            let msg = e.downcast_ref::<String>().cloned().or_else(|| e.downcast_ref::<&str>().map(|s| s.to_string())).unwrap_or_default();
            json!({"panic": msg})
        }
    }
}

pub fn run(input: &str) {
    std::panic::set_hook(Box::new(|_| {}));
    for line in input.lines().filter(|l| !l.trim().is_empty()) {
        let case: Value = serde_json::from_str(line).expect("case json");
        println!("{}", one(&case));
    }
}
