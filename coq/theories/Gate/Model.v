(* The lowering gate (core/src/hir/lowering.rs: lower_type, lower_out_type, lower_return_type, lower_self_param,
   struct / out-struct field checks, write position; core/src/ast/types.rs: is_ffi_safe) as acceptance
   functions over the AST type grammar.  "Accepted" = no error is pushed to the error store.  Definitions only. *)
From Coq Require Import List Bool.
Import ListNotations.

Inductive named := NStruct | NOutStruct | NZst | NOpaque | NEnum.

Inductive ty :=
| TPrim | TOrdering | TNamed (n : named)
| TRef (t : ty) | TBox (t : ty)
| TOption (diplomat_spelling : bool) (t : ty)
| TResult (ok err : ty)
| TWrite | TUnit
| TStr (has_lifetime is_static diplomat_spelling : bool)        (* &'a str / &'static str / Box<str> and the DiplomatStr / Diplomat*StrSlice spellings *)
| TPrimSlice (has_lifetime is_static diplomat_spelling : bool)  (* &'a [p] / &'a mut [p] / Box<[p]> / DiplomatSlice<'a, p> ... *)
| TStrSlice (diplomat_spelling : bool)                          (* &[&str] / &[DiplomatStrSlice] *)
| TFunction (params : list ty) (ret : ty).

(* BackendAttrSupport bits the gate consults + the unsafe_references_in_callbacks setting *)
Record flags := mkFlags { f_option : bool; f_callbacks : bool; f_static_slices : bool; f_unsafe_refs : bool }.

Definition is_opaque (t : ty) : bool := match t with TNamed NOpaque => true | _ => false end.
Definition is_unit (t : ty) : bool := match t with TUnit => true | _ => false end.

(* lower_out_type; [in_ro] = in_result_option *)
Fixpoint lot (fl : flags) (in_struct in_ro : bool) (t : ty) : bool :=
  match t with
  | TPrim => true
  | TOrdering => negb in_struct
  | TNamed NStruct | TNamed NOutStruct | TNamed NEnum => true
  | TNamed NZst => in_ro
  | TNamed NOpaque => false
  | TRef t' | TBox t' => is_opaque t'
  | TOption dipl t' =>
      match t' with
      | TRef t'' | TBox t'' => is_opaque t'' && negb dipl
      | TNamed NOpaque => false
      | TNamed _ => negb (in_struct && negb dipl) && f_option fl && lot fl in_struct true t'
      | TPrim => negb (in_struct && negb dipl) && f_option fl
      | _ => false
      end
  | TStr has_lt _ _ | TPrimSlice has_lt _ _ => has_lt          (* owned slices cannot be returned *)
  | TResult _ _ | TWrite | TUnit | TStrSlice _ | TFunction _ _ => false
  end.

(* does a (lowered) callback parameter type carry a non-static lifetime, slices excepted *)
Definition cb_param_borrows (t : ty) : bool :=
  match t with
  | TRef _ => true
  | TOption _ (TRef _) => true
  | _ => false
  end.
Definition cb_param_ok (fl : flags) (t : ty) : bool :=
  lot fl false false t && (f_unsafe_refs fl || negb (cb_param_borrows t)).

(* lower_type (inputs) *)
Fixpoint lt (fl : flags) (in_struct : bool) (t : ty) {struct t} : bool :=
  match t with
  | TPrim => true
  | TNamed NStruct | TNamed NEnum => true
  | TNamed _ => false                                          (* ZST, out-struct, opaque by value *)
  | TRef t' => is_opaque t'
  | TOption dipl t' =>
      match t' with
      | TRef t'' => is_opaque t'' && negb dipl
      | TNamed NOpaque => false
      | TNamed _ => negb (in_struct && negb dipl) && f_option fl && lt fl in_struct t'
      | TPrim => negb (in_struct && negb dipl) && f_option fl
      | TStrSlice _ => f_option fl
      | TStr _ _ _ | TPrimSlice _ _ _ => f_option fl && lt fl in_struct t'
      | _ => false
      end
  | TStr _ st _ | TPrimSlice _ st _ => negb st || f_static_slices fl
  | TStrSlice _ => true
  | TFunction ps r =>
      f_callbacks fl && negb in_struct && forallb (cb_param_ok fl) ps && (is_unit r || lt fl in_struct r)
  | TOrdering | TBox _ | TResult _ _ | TWrite | TUnit => false
  end.

(* lower_return_type *)
Definition lret (fl : flags) (t : ty) : bool :=
  match t with
  | TResult ok err => (is_unit ok || lot fl false true ok) && (is_unit err || lot fl false true err)
  | TOption dipl v =>
      match v with
      | TBox _ | TRef _ => lot fl false true t
      | TUnit => true
      | _ => lot fl false true v
      end
  | TUnit => true
  | _ => lot fl false false t
  end.

(* ast::TypeName::is_ffi_safe *)
Definition is_ffi_safe (t : ty) : bool :=
  match t with
  | TPrim | TNamed _ | TRef _ | TBox _ | TFunction _ _ => true
  | TStr _ _ d | TPrimSlice _ _ d | TStrSlice d => d
  | TOption dipl (TRef _) | TOption dipl (TBox _) => negb dipl
  | TOption dipl _ => dipl
  | TUnit | TWrite | TResult _ _ | TOrdering => false
  end.

(* positions *)
Inductive pos := PParam | PReturn | PStructField | POutStructField | PCbParam | PCbRet.
Definition accept (fl : flags) (p : pos) (t : ty) : bool :=
  match p with
  | PParam => lt fl false t
  | PReturn => lret fl t
  | PStructField => is_ffi_safe t && lt fl false t         (* lower_struct passes in_struct = false and relies on is_ffi_safe *)
  | POutStructField => lot fl true false t
  | PCbParam => f_callbacks fl && cb_param_ok fl t
  | PCbRet => f_callbacks fl && (is_unit t || lt fl false t)
  end.

(* self parameters *)
Inductive selfk := SelfVal | SelfRef.
Definition accept_self (n : named) (k : selfk) : bool :=
  match n, k with
  | NOpaque, SelfRef => true | NOpaque, SelfVal => false
  | NStruct, SelfVal => true | NStruct, SelfRef => false
  | NZst, _ => false            (* methods on ZST structs are not implemented *)
  | NOutStruct, _ => false
  | NEnum, SelfVal => true | NEnum, SelfRef => false   (* every backend passes enums by value *)
  end.
(* DiplomatWrite: only the last parameter is taken as the writer *)
Definition accept_params (fl : flags) (ps : list ty) : bool :=
  match rev ps with
  | TWrite :: r => forallb (lt fl false) r
  | _ => forallb (lt fl false) ps
  end.

(* R9 (validation after lowering, type_context.rs): no elided lifetime anywhere in the return type, and every bound a used
   type's definition implies ('b: 'a of `Bounded<'a, 'b: 'a>`) is spelled out on the method — wherever the type sits *)
Inductive rpos := RPlain | RInOption | RInOk (err_is_unit : bool) | RInErr (ok_is_unit : bool).
Definition accept_ret_lifetimes (p : rpos) (elided bound_needed bound_declared : bool) : bool :=
  negb elided && (negb bound_needed || bound_declared).
Definition agree_ret_lifetimes (p : rpos) (elided bound_needed bound_declared accepted : bool) : bool :=
  Bool.eqb (accept_ret_lifetimes p elided bound_needed bound_declared) accepted.

Definition agree_gate (fl : flags) (p : pos) (t : ty) (accepted : bool) : bool := Bool.eqb (accept fl p t) accepted.
