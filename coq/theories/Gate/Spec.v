(* The documented rules, stated declaratively (what is allowed where), independently of the gate's code. *)
From Coq Require Import List Bool.
Import ListNotations.
From DV Require Import Gate.Model.

(* what DiplomatOption is for: primitives, structs, enums *)
Inductive value_payload : ty -> Prop :=
| vp_prim : value_payload TPrim | vp_struct : value_payload (TNamed NStruct) | vp_enum : value_payload (TNamed NEnum).
Inductive slice_like : ty -> Prop :=
| sl_str h s d : slice_like (TStr h s d) | sl_prim h s d : slice_like (TPrimSlice h s d) | sl_strs d : slice_like (TStrSlice d).

(* outputs: return values, out-struct fields, callback parameters *)
Inductive OutOk (fl : flags) (in_struct in_ro : bool) : ty -> Prop :=
| OPrim : OutOk fl in_struct in_ro TPrim
| OOrdering : in_struct = false -> OutOk fl in_struct in_ro TOrdering
| OStruct : OutOk fl in_struct in_ro (TNamed NStruct)
| OOutStruct : OutOk fl in_struct in_ro (TNamed NOutStruct)
| OEnum : OutOk fl in_struct in_ro (TNamed NEnum)
| OZst : in_ro = true -> OutOk fl in_struct in_ro (TNamed NZst)         (* zero-sized structs only as an Option/Result arm *)
| ORefOpaque : OutOk fl in_struct in_ro (TRef (TNamed NOpaque))          (* R1: opaques behind references ... *)
| OBoxOpaque : OutOk fl in_struct in_ro (TBox (TNamed NOpaque))          (* ... or, in outputs, Box *)
| OOptRefOpaque : OutOk fl in_struct in_ro (TOption false (TRef (TNamed NOpaque)))
| OOptBoxOpaque : OutOk fl in_struct in_ro (TOption false (TBox (TNamed NOpaque)))
| OOptValue dipl t : value_payload t \/ t = TNamed NOutStruct \/ t = TNamed NZst ->
    f_option fl = true -> (in_struct = true -> dipl = true) ->          (* R5: std Option of non-pointers never in struct fields *)
    OutOk fl in_struct in_ro (TOption dipl t)
| OStr s d : OutOk fl in_struct in_ro (TStr true s d)                    (* borrowed slices only *)
| OPrimSlice s d : OutOk fl in_struct in_ro (TPrimSlice true s d).

Definition borrows (t : ty) : Prop := (exists t', t = TRef t') \/ (exists d t', t = TOption d (TRef t')).
Definition CbParamOk (fl : flags) (t : ty) : Prop :=
  OutOk fl false false t /\ (f_unsafe_refs fl = true \/ ~ borrows t).

(* inputs: parameters and struct fields *)
Inductive InOk (fl : flags) (in_struct : bool) : ty -> Prop :=
| IPrim : InOk fl in_struct TPrim
| IStruct : InOk fl in_struct (TNamed NStruct)                           (* R2, R8: no out-structs, owned opaques or ZSTs *)
| IEnum : InOk fl in_struct (TNamed NEnum)
| IRefOpaque : InOk fl in_struct (TRef (TNamed NOpaque))                 (* R1, R3: references to opaques only *)
| IOptRefOpaque : InOk fl in_struct (TOption false (TRef (TNamed NOpaque)))
| IOptValue dipl t : value_payload t -> f_option fl = true -> (in_struct = true -> dipl = true) -> InOk fl in_struct (TOption dipl t)
| IOptSlice dipl t : slice_like t -> f_option fl = true -> InOk fl in_struct t -> InOk fl in_struct (TOption dipl t)
| IStr h s d : (s = true -> f_static_slices fl = true) -> InOk fl in_struct (TStr h s d)
| IPrimSlice h s d : (s = true -> f_static_slices fl = true) -> InOk fl in_struct (TPrimSlice h s d)
| IStrSlice d : InOk fl in_struct (TStrSlice d)
| IFunction ps r : f_callbacks fl = true -> in_struct = false -> Forall (CbParamOk fl) ps ->
    (r = TUnit \/ InOk fl in_struct r) -> InOk fl in_struct (TFunction ps r).

(* return types: R4 — Result only at the top; Option of a pointer is a nullable pointer; Option<()>; otherwise an output *)
Inductive RetOk (fl : flags) : ty -> Prop :=
| RUnitOk : RetOk fl TUnit
| RResult ok err : (ok = TUnit \/ OutOk fl false true ok) -> (err = TUnit \/ OutOk fl false true err) -> RetOk fl (TResult ok err)
| ROptUnit d : RetOk fl (TOption d TUnit)
| ROptPtr d v : (exists t', v = TRef t' \/ v = TBox t') -> OutOk fl false true (TOption d v) -> RetOk fl (TOption d v)
| ROptVal d v : (forall t', v <> TRef t' /\ v <> TBox t') -> v <> TUnit -> OutOk fl false true v -> RetOk fl (TOption d v)
| ROther t : (forall a b, t <> TResult a b) -> (forall d v, t <> TOption d v) -> t <> TUnit -> OutOk fl false false t -> RetOk fl t.
