From Coq Require Import List Bool.
Import ListNotations.
From DV Require Import Base.Lists Gate.Model Gate.Spec.

Section TyInd.
  Variable P : ty -> Prop.
  Hypothesis H1 : P TPrim. Hypothesis H2 : P TOrdering. Hypothesis H3 : forall n, P (TNamed n).
  Hypothesis H4 : forall t, P t -> P (TRef t). Hypothesis H5 : forall t, P t -> P (TBox t).
  Hypothesis H6 : forall d t, P t -> P (TOption d t). Hypothesis H7 : forall a b, P a -> P b -> P (TResult a b).
  Hypothesis H8 : P TWrite. Hypothesis H9 : P TUnit.
  Hypothesis H10 : forall h s d, P (TStr h s d). Hypothesis H11 : forall h s d, P (TPrimSlice h s d).
  Hypothesis H12 : forall d, P (TStrSlice d).
  Hypothesis H13 : forall ps r, Forall P ps -> P r -> P (TFunction ps r).
  Fixpoint ty_ind' (t : ty) : P t :=
    match t with
    | TPrim => H1 | TOrdering => H2 | TNamed n => H3 n
    | TRef t' => H4 t' (ty_ind' t') | TBox t' => H5 t' (ty_ind' t')
    | TOption d t' => H6 d t' (ty_ind' t') | TResult a b => H7 a b (ty_ind' a) (ty_ind' b)
    | TWrite => H8 | TUnit => H9 | TStr h s d => H10 h s d | TPrimSlice h s d => H11 h s d | TStrSlice d => H12 d
    | TFunction ps r => H13 ps r ((fix go (l : list ty) : Forall P l :=
                                     match l with [] => Forall_nil P | x :: l' => Forall_cons x (ty_ind' x) (go l') end) ps) (ty_ind' r)
    end.
End TyInd.

Ltac bsplit := repeat match goal with H : _ && _ = true |- _ => apply andb_true_iff in H; destruct H end.

Lemma is_opaque_true t : is_opaque t = true -> t = TNamed NOpaque.
Proof. destruct t as [| |[]| | | | | | | | | |]; cbn; congruence. Qed.

(* outputs *)
Theorem lot_iff fl s r t : lot fl s r t = true <-> OutOk fl s r t.
Proof.
  split.
  - destruct t as [| |n|t'|t'|d t'|a b| | |h st dd|h st dd|dd|ps rr]; cbn [lot]; intros H; try discriminate.
    + constructor.
    + constructor. now apply negb_true_iff in H.
    + destruct n; try discriminate; try constructor. exact H.
    + apply is_opaque_true in H. subst. constructor.
    + apply is_opaque_true in H. subst. constructor.
    + destruct t' as [| |n|t''|t''|? ?|? ?| | |? ? ?|? ? ?|?|? ?]; try discriminate.
      * bsplit. apply OOptValue; [left; constructor|assumption|].
        intros ->. destruct d; [reflexivity|discriminate].
      * destruct n; try discriminate; bsplit;
          (apply OOptValue; [|assumption|intros ->; destruct d; [reflexivity|discriminate]]).
        -- left. constructor.
        -- right. now left.
        -- right. now right.
        -- left. constructor.
      * bsplit. apply is_opaque_true in H. subst. destruct d; [discriminate|constructor].
      * bsplit. apply is_opaque_true in H. subst. destruct d; [discriminate|constructor].
    + destruct h; [constructor|discriminate].
    + destruct h; [constructor|discriminate].
  - induction 1; cbn [lot is_opaque]; try reflexivity.
    + subst. reflexivity.
    + assumption.
    + destruct H as [H|[->| ->]].
      * destruct H; cbn; rewrite H0; destruct s, dipl; cbn; try reflexivity; specialize (H1 eq_refl); discriminate.
      * rewrite H0. destruct s, dipl; cbn; try reflexivity; specialize (H1 eq_refl); discriminate.
      * rewrite H0. destruct s, dipl; cbn; try reflexivity; specialize (H1 eq_refl); discriminate.
Qed.

Lemma cb_param_borrows_iff t : cb_param_borrows t = true <-> borrows t.
Proof.
  split.
  - destruct t as [| |?|t'|?|d t'|? ?| | |? ? ?|? ? ?|?|? ?]; cbn; try discriminate.
    + intros _. left. eauto.
    + destruct t'; try discriminate. intros _. right. eauto.
  - intros [[t' ->]|[d [t' ->]]]; reflexivity.
Qed.

Lemma cb_param_ok_iff fl t : cb_param_ok fl t = true <-> CbParamOk fl t.
Proof.
  unfold cb_param_ok, CbParamOk. rewrite andb_true_iff, lot_iff, orb_true_iff, negb_true_iff.
  split; intros [H1 H2]; split; try assumption.
  - destruct H2 as [H2|H2]; [now left|right]. intros Hb. apply cb_param_borrows_iff in Hb. congruence.
  - destruct H2 as [H2|H2]; [now left|right]. destruct (cb_param_borrows t) eqn:E; [|reflexivity].
    exfalso. apply H2. now apply cb_param_borrows_iff.
Qed.

Lemma lt_opt_slice fl s d t : slice_like t -> lt fl s (TOption d t) = f_option fl && lt fl s t.
Proof. destruct 1; cbn [lt]; try reflexivity. now rewrite andb_true_r. Qed.

(* inputs *)
Theorem lt_iff fl t : forall s, lt fl s t = true <-> InOk fl s t.
Proof.
  induction t as [| |n|t' IH|t' IH|d t' IH|a b IHa IHb| | |h st dd|h st dd|dd|ps rr IHps IHr] using ty_ind'; intros s; split.
  all: try (cbn [lt]; intros H; discriminate).
  all: try (intros H; inversion H; fail).
  - intros _. constructor.
  - intros _. reflexivity.
  - cbn [lt]. destruct n; intros H; try discriminate; constructor.
  - intros H. inversion H; reflexivity.
  - cbn [lt]. intros H. apply is_opaque_true in H. subst. constructor.
  - intros H. inversion H. reflexivity.
  - cbn [lt]. destruct t' as [| |n|t''|t''|? ?|? ?| | |h' s' d'|h' s' d'|d'|? ?]; intros H; try discriminate.
    + bsplit. apply IOptValue.
      * apply vp_prim.
      * assumption.
      * intros ->. destruct d; [reflexivity|cbn in H; discriminate].
    + destruct n; try discriminate; bsplit;
        match goal with Hl : lt _ _ (TNamed _) = true |- _ => cbn in Hl end; try discriminate.
      * apply IOptValue; [apply vp_struct|assumption|]. intros ->. destruct d; [reflexivity|cbn in H; discriminate].
      * apply IOptValue; [apply vp_enum|assumption|]. intros ->. destruct d; [reflexivity|cbn in H; discriminate].
    + bsplit. apply is_opaque_true in H. subst. destruct d; [discriminate|constructor].
    + bsplit. apply IOptSlice; [constructor|assumption|]. apply IH. assumption.
    + bsplit. apply IOptSlice; [constructor|assumption|]. apply IH. assumption.
    + apply IOptSlice; [constructor|assumption|constructor].
  - intros H. inversion H; subst.
    + reflexivity.
    + match goal with Hv : value_payload _ |- _ => destruct Hv end; cbn;
        match goal with Ho : f_option fl = true |- _ => rewrite Ho end;
        destruct s, d; cbn; try reflexivity;
        match goal with Hs : true = true -> _ |- _ => specialize (Hs eq_refl); discriminate end.
    + rewrite lt_opt_slice by assumption.
      match goal with Ho : f_option fl = true |- _ => rewrite Ho end. cbn [andb]. apply IH. assumption.
  - cbn [lt]. intros H. constructor. intros ->. cbn in H. exact H.
  - intros H. inversion H; subst. cbn [lt]. destruct st; [now rewrite H1|reflexivity].
  - cbn [lt]. intros H. constructor. intros ->. cbn in H. exact H.
  - intros H. inversion H; subst. cbn [lt]. destruct st; [now rewrite H1|reflexivity].
  - intros _. constructor.
  - intros _. reflexivity.
  - cbn [lt]. intros H. bsplit. constructor; try assumption.
    + now apply negb_true_iff.
    + apply Forall_forall. intros p Hp. apply cb_param_ok_iff. eapply forallb_forall; eassumption.
    + apply orb_true_iff in H0. destruct H0 as [H0|H0].
      * left. destruct rr; try discriminate. reflexivity.
      * right. apply IHr. exact H0.
  - intros H. inversion H; subst. cbn [lt].
    match goal with Hc : f_callbacks fl = true |- _ => rewrite Hc end. cbn [negb andb].
    apply andb_true_iff. split.
    + apply forallb_forall. intros p Hp. apply cb_param_ok_iff.
      match goal with Hf : Forall (CbParamOk fl) ps |- _ => rewrite Forall_forall in Hf; now apply Hf end.
    + match goal with Hx : _ \/ _ |- _ => destruct Hx as [Hru|Hri] end; [subst; reflexivity|].
      apply orb_true_iff. right. apply IHr. exact Hri.
Qed.

(* return types *)
Theorem lret_iff fl t : lret fl t = true <-> RetOk fl t.
Proof.
  split.
  - destruct t as [| |n|t'|t'|d v|a b| | |h st dd|h st dd|dd|ps rr]; cbn [lret]; intros H.
    all: try (apply ROther; [intros; discriminate|intros; discriminate|discriminate|apply lot_iff; exact H]).
    + destruct v as [| |n|v'|v'|? ?|? ?| | |? ? ?|? ? ?|?|? ?].
      all: try (apply ROptVal; [intros; split; discriminate|discriminate|apply lot_iff; exact H]).
      * apply ROptPtr; [eexists; left; reflexivity|apply lot_iff; exact H].
      * apply ROptPtr; [eexists; right; reflexivity|apply lot_iff; exact H].
      * constructor.
    + bsplit. constructor.
      * apply orb_true_iff in H. destruct H as [H|H]; [left; destruct a; try discriminate; reflexivity|right; now apply lot_iff].
      * apply orb_true_iff in H0. destruct H0 as [H0|H0]; [left; destruct b; try discriminate; reflexivity|right; now apply lot_iff].
    + constructor.
  - induction 1.
    + reflexivity.
    + cbn [lret]. apply andb_true_iff. split; apply orb_true_iff.
      * destruct H as [->|H]; [now left|right; now apply lot_iff].
      * destruct H0 as [->|H0]; [now left|right; now apply lot_iff].
    + reflexivity.
    + destruct H as [t' [->| ->]]; cbn [lret]; now apply lot_iff.
    + cbn [lret]. destruct v; try (now apply lot_iff).
      * destruct (H v) as [E _]. congruence.
      * destruct (H v) as [_ E]. congruence.
      * congruence.
    + destruct t; cbn [lret]; try (now apply lot_iff).
      * exfalso. eapply H0. reflexivity.
      * exfalso. eapply H. reflexivity.
      * congruence.
Qed.

(* R7: a DiplomatWrite anywhere but last is rejected; last, it is the writer *)
Theorem write_only_last fl ps :
  accept_params fl (ps ++ [TWrite]) = forallb (lt fl false) ps /\
  (forall a b, accept_params fl (a ++ TWrite :: b ++ [TPrim]) = false).
Proof.
  split.
  - unfold accept_params. rewrite rev_app_distr. cbn [rev app]. apply forallb_rev.
  - intros a b. unfold accept_params. rewrite !rev_app_distr. cbn [rev app]. rewrite rev_app_distr. cbn [rev app].
    rewrite forallb_app. cbn. now rewrite andb_false_r.
Qed.

Example gate_examples :
  let fl := mkFlags true true true false in
  accept fl PParam (TOption false (TRef (TNamed NOpaque))) = true /\ accept fl PParam (TOption true (TRef (TNamed NOpaque))) = false /\
  accept fl PParam (TBox (TNamed NOpaque)) = false /\ accept fl PReturn (TBox (TNamed NOpaque)) = true /\
  accept fl PStructField (TOption false TPrim) = false /\ accept fl PStructField (TOption true TPrim) = true /\
  accept fl PReturn (TResult (TNamed NZst) TUnit) = true /\ accept fl PParam (TResult TPrim TPrim) = false /\
  accept (mkFlags false true true false) PParam (TOption false (TPrimSlice true false false)) = false /\
  accept fl PCbParam (TRef (TNamed NOpaque)) = false /\ accept (mkFlags true true true true) PCbParam (TRef (TNamed NOpaque)) = true.
Proof. repeat split. Qed.
