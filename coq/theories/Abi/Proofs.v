From Coq Require Import List String Bool NArith Lia.
Import ListNotations.
From DV Require Import gen.Tables Abi.Model.
Local Open Scope string_scope.
Local Open Scope list_scope.

(* Tie A theorems: re-checked against the regenerated tables on every run. *)

(* every primitive's C type has the representation of the Rust primitive (width, signedness, float kind) *)
Theorem c_prim_abi_agrees : forall p, c_name_abi (c_prim_name p) = Some (rust_prim_abi p).
Proof. destruct p; vm_compute; reflexivity. Qed.

(* the name used for derived types (OptionU8, DiplomatU8View) has a capi row whose C type is the primitive's C type *)
Theorem capi_row_agrees : forall p, assoc_s (c_derived_name p) capi_rows = Some (c_prim_name p).
Proof. destruct p; vm_compute; reflexivity. Qed.

(* declared C types mean what the macro compiles: parameters over primitives, for both Option spellings *)
Theorem param_abi_agrees_prim : forall env sp p mu,
  option_map norm (c_decl_abi env (PV (VPrim p))) = Some (norm (ffi_param_abi env (PV (VPrim p)))) /\
  option_map norm (c_decl_abi env (POpt sp (VPrim p))) = Some (norm (ffi_param_abi env (POpt sp (VPrim p)))) /\
  option_map norm (c_decl_abi env (PSlice p mu)) = Some (norm (ffi_param_abi env (PSlice p mu))) /\
  option_map norm (c_decl_abi env (POptSlice p)) = Some (norm (ffi_param_abi env (POptSlice p))).
Proof. intros env sp p mu. destruct p, mu; vm_compute; repeat split. Qed.

Theorem param_abi_agrees_other : forall env sp n mu w,
  option_map norm (c_decl_abi env (PV (VEnum n))) = Some (norm (ffi_param_abi env (PV (VEnum n)))) /\
  option_map norm (c_decl_abi env (POpt sp (VEnum n))) = Some (norm (ffi_param_abi env (POpt sp (VEnum n)))) /\
  option_map norm (c_decl_abi env (PORef mu)) = Some (norm (ffi_param_abi env (PORef mu))) /\
  option_map norm (c_decl_abi env POOpt) = Some (norm (ffi_param_abi env POOpt)) /\
  option_map norm (c_decl_abi env PWrite) = Some (norm (ffi_param_abi env PWrite)) /\
  option_map norm (c_decl_abi env (PStr w)) = Some (norm (ffi_param_abi env (PStr w))) /\
  option_map norm (c_decl_abi env POptStr) = Some (norm (ffi_param_abi env POptStr)).
Proof. intros env sp n mu w. destruct mu, w; vm_compute; repeat split. Qed.

(* by-value structs and options of structs: equal whenever the struct itself is laid out as declared
   (non-zero-sized, already in normal form) *)
Theorem param_abi_agrees_struct : forall env sp n,
  is_zst (env n) = false -> norm (env n) = env n ->
  option_map norm (c_decl_abi env (PV (VStruct n))) = Some (norm (ffi_param_abi env (PV (VStruct n)))) /\
  option_map norm (c_decl_abi env (POpt sp (VStruct n))) = Some (norm (ffi_param_abi env (POpt sp (VStruct n)))).
Proof.
  intros env sp n Hz Hn. cbn [c_decl_abi ffi_param_abi vty_abi result_abi opt_struct option_map]. split; [reflexivity|].
  simpl. rewrite Hz. simpl. reflexivity.
Qed.

(* C10: the spelling of Option is irrelevant for the declaration and the representation *)
Theorem spelling_irrelevant : forall env v,
  c_param_ty (POpt true v) = c_param_ty (POpt false v) /\
  ffi_param_abi env (POpt true v) = ffi_param_abi env (POpt false v) /\
  (forall m, c_ret_ty m (ROpt true v) = c_ret_ty m (ROpt false v)) /\
  c_result_members (ROpt true v) = c_result_members (ROpt false v) /\
  ffi_ret_abi env (ROpt true v) = ffi_ret_abi env (ROpt false v).
Proof. intros env v. destruct v; repeat split. Qed.

(* unit arms occupy no payload: the C typedef has no member for them and the Rust side adds no bytes *)
Theorem unit_arm_no_payload : forall env v,
  c_result_members (RRes ArmUnit (ArmV v)) = [("err", c_vty v)] /\
  c_result_members (RRes (ArmV v) ArmUnit) = [("ok", c_vty v)] /\
  c_result_members (RRes ArmUnit ArmUnit) = [] /\
  c_result_members (RRes ArmZst ArmUnit) = [] /\
  norm (ffi_ret_abi env (RRes ArmUnit ArmUnit)) = ARec [ABool] /\
  size_align (ffi_ret_abi env (RRes ArmUnit ArmUnit)) = (1, 1)%N /\
  size_align (ffi_ret_abi env (RRes ArmZst ArmUnit)) = (1, 1)%N.
Proof. intros env v. repeat split. Qed.

(* is_ok sits right after the payload: {payload, is_ok} *)
Theorem option_flag_offset : forall p,
  let '(s, a) := size_align (rust_prim_abi p) in
  offsets [AUni [rust_prim_abi p; AUnit]; ABool] = [0%N; s] /\
  size_align (result_abi (rust_prim_abi p) AUnit) = (round_up (s + 1) a, a).
Proof. destruct p; vm_compute; split; reflexivity. Qed.

(* an absent optional pointer is NULL: Option<&T> / Option<Box<T>> are plain pointers on both sides *)
Theorem pointer_options_are_pointers : forall env,
  ffi_param_abi env POOpt = APtr /\ ffi_ret_abi env ROptBox = APtr /\ ffi_ret_abi env ROptRef = APtr /\
  c_param_ty POOpt = "const Op*" /\ (forall m, c_ret_ty m ROptBox = "Op*").
Proof. intros env. repeat split. Qed.

Example layout_example :
  size_align (ARec [AI 2 true; ARec [AI 1 false; AI 4 false]; AI 4 true; AF 8; ARec [AUni [AI 1 false]; ABool]]) = (32, 8)%N /\
  offsets [AI 2 true; ARec [AI 1 false; AI 4 false]; AI 4 true; AF 8; ARec [AUni [AI 1 false]; ABool]] = [0; 4; 12; 16; 24]%N.
Proof. vm_compute. split; reflexivity. Qed.

(* ---- C07 (Tie A): the primitive tables of the Dart and Kotlin formatters ---- *)
Theorem dart_prim_agrees : forall p, dart_name_abi (dart_prim_ffi p) = Some (rust_prim_abi p).
Proof. destruct p; vm_compute; reflexivity. Qed.

Theorem kotlin_prim_agrees_width : forall p,
  option_map erase_sign (kt_name_abi (kt_prim_ffi p)) = Some (erase_sign (rust_prim_abi p)) /\
  option_map erase_sign (kt_name_abi (kt_prim_native p)) = Some (erase_sign (rust_prim_abi p)).
Proof. destruct p; vm_compute; split; reflexivity. Qed.

(* struct fields and result / option records (fmt_primitive_type_native) have the width of the Rust primitive under the JNA
   field rule: in particular bool is not declared Boolean there *)
Lemma kotlin_field_prim_agrees_width p :
  option_map erase_sign (kt_field_abi (kt_prim_native p)) = Some (erase_sign (rust_prim_abi p)).
Proof. destruct p; vm_compute; reflexivity. Qed.

(* the parameter spelling of bool would be wrong as a field: 4 bytes against 1 *)
Lemma kotlin_boolean_field_is_wide :
  option_map (fun a => fst (size_align a)) (kt_field_abi "Boolean") = Some 4%N /\ fst (size_align (rust_prim_abi PBool)) = 1%N.
Proof. split; vm_compute; reflexivity. Qed.
