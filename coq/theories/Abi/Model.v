(* The C ABI seen from both sides: what the proc macro compiles (macro/src/lib.rs + diplomat-runtime's
   #[repr(C)] types) and what the C backend declares (tool/src/c/ty.rs, formatter.rs, capi.h.jinja).
   Primitive names and the capi rows come from gen/Tables.v (regenerated from /repo).  Definitions only. *)
From Coq Require Import List String Bool NArith.
Import ListNotations.
From DV Require Import gen.Tables.
Local Open Scope string_scope.
Local Open Scope list_scope.
Notation "a +++ b" := (String.append a b) (at level 60, right associativity).

(* representation classes (x86-64 SysV / any LP64 C ABI) *)
Inductive abi :=
| AI (bytes : N) (signed : bool) | AIp (signed : bool)      (* fixed-width / pointer-sized integer *)
| AF (bytes : N) | ABool | APtr | AUnit
| ARec (fields : list abi) | AUni (alts : list abi).

Definition round_up (x a : N) : N := ((x + a - 1) / a * a)%N.
Fixpoint size_align (a : abi) : N * N :=
  match a with
  | AI b _ | AF b => (b, b)
  | ABool => (1, 1)%N
  | APtr | AIp _ => (8, 8)%N
  | AUnit => (0, 1)%N
  | ARec fs =>
      let '(sz, al) := fold_left (fun '(off, al) f => let '(s, a) := size_align f in (round_up off a + s, N.max al a))%N fs (0, 1)%N in
      (round_up sz al, al)
  | AUni alts =>
      let '(sz, al) := fold_left (fun '(sz, al) f => let '(s, a) := size_align f in (N.max sz s, N.max al a)) alts (0, 1)%N in
      (round_up sz al, al)
  end.
(* field offsets of a repr(C) record *)
Fixpoint offsets_from (off : N) (fs : list abi) : list N :=
  match fs with
  | [] => []
  | f :: r => let '(s, a) := size_align f in let o := round_up off a in o :: offsets_from (o + s)%N r
  end.
Definition offsets (fs : list abi) : list N := offsets_from 0 fs.

(* zero-sized alternatives / members do not exist in C: the header simply omits them *)
Fixpoint is_zst (a : abi) : bool :=
  match a with
  | AUnit => true
  | ARec fs => forallb is_zst fs
  | AUni alts => forallb is_zst alts
  | _ => false
  end.
Fixpoint norm (a : abi) : abi :=
  match a with
  | ARec fs => ARec ((fix go (l : list abi) : list abi :=
                        match l with [] => [] | x :: r => if is_zst x then go r else norm x :: go r end) fs)
  | AUni alts =>
      (* a union with a single (non-zero-sized) member is laid out as that member *)
      match (fix go (l : list abi) : list abi :=
               match l with [] => [] | x :: r => if is_zst x then go r else norm x :: go r end) alts with
      | [one] => one
      | l => AUni l
      end
  | x => x
  end.

(* Rust side: the primitive types *)
Definition rust_prim_abi (p : prim) : abi :=
  match p with
  | PBool => ABool
  | PChar => AI 4 false          (* DiplomatChar = u32 *)
  | PByte | PU8 => AI 1 false | PI8 => AI 1 true
  | PU16 => AI 2 false | PI16 => AI 2 true
  | PU32 => AI 4 false | PI32 => AI 4 true
  | PU64 => AI 8 false | PI64 => AI 8 true
  | PUsize => AIp false | PIsize => AIp true
  | PF32 => AF 4 | PF64 => AF 8
  end.
(* C side: <stdint.h> / <uchar.h> names on an LP64 target *)
Definition c_name_abi (s : string) : option abi :=
  if s =? "bool" then Some ABool else if s =? "char32_t" then Some (AI 4 false) else
  if s =? "uint8_t" then Some (AI 1 false) else if s =? "int8_t" then Some (AI 1 true) else
  if s =? "uint16_t" then Some (AI 2 false) else if s =? "int16_t" then Some (AI 2 true) else
  if s =? "uint32_t" then Some (AI 4 false) else if s =? "int32_t" then Some (AI 4 true) else
  if s =? "uint64_t" then Some (AI 8 false) else if s =? "int64_t" then Some (AI 8 true) else
  if s =? "size_t" then Some (AIp false) else if s =? "intptr_t" then Some (AIp true) else
  if s =? "float" then Some (AF 4) else if s =? "double" then Some (AF 8) else
  if s =? "char" then Some (AI 1 false) else if s =? "char16_t" then Some (AI 2 false) else None.

(* ---- the type grammar of bridge methods ---- *)
Inductive vty := VPrim (p : prim) | VEnum (n : string) | VStruct (n : string).
Inductive pty :=
| PV (v : vty) | PORef (mutable : bool) | POOpt
| PSlice (p : prim) (mutable_or_owned : bool) | PStr (wide : bool)
| POpt (diplomat_spelling : bool) (v : vty) | POptSlice (p : prim) | POptStr | PWrite.
Inductive arm := ArmUnit | ArmV (v : vty) | ArmBox | ArmZst.
Inductive rty :=
| RUnit | RV (v : vty) | RBox | ROptBox | RRef | ROptRef
| ROpt (diplomat_spelling : bool) (v : vty) | RRes (ok err : arm) | ROrd.

(* tool/src/c/ty.rs gen_ty_name + formatter: the declared C type of a parameter *)
Definition c_vty (v : vty) : string :=
  match v with VPrim p => c_prim_name p | VEnum n | VStruct n => n end.
Definition c_param_ty (p : pty) : string :=
  match p with
  | PV v => c_vty v
  | PORef true => "Op*" | PORef false | POOpt => "const Op*"
  | PSlice p m => "Diplomat" +++ c_derived_name p +++ (if m then "ViewMut" else "View")
  | PStr false => "DiplomatStringView" | PStr true => "DiplomatString16View"
  | POpt _ (VPrim p) => "Option" +++ c_derived_name p
  | POpt _ (VEnum n) | POpt _ (VStruct n) => n +++ "_option"
  | POptSlice p => "Option" +++ c_derived_name p +++ "View"
  | POptStr => "OptionStringView"
  | PWrite => "DiplomatWrite*"
  end.
(* ... of the return value; [m] is the method's ABI name *)
Definition c_ret_ty (m : string) (r : rty) : string :=
  match r with
  | RUnit => "void"
  | RV v => c_vty v
  | RBox | ROptBox => "Op*"
  | RRef | ROptRef => "const Op*"
  | ROpt _ _ | RRes _ _ => m +++ "_result"
  | ROrd => "int8_t"
  end.
(* members of the anonymous union in `typedef struct M_result {union {T ok; E err;}; bool is_ok;}` *)
Definition c_arm (a : arm) : option string :=
  match a with ArmUnit | ArmZst => None | ArmV v => Some (c_vty v) | ArmBox => Some "Op*" end.
Definition c_result_members (r : rty) : list (string * string) :=
  match r with
  | ROpt _ v => [("ok", c_vty v)]
  | RRes ok err => (match c_arm ok with Some t => [("ok", t)] | None => [] end) ++
                   (match c_arm err with Some t => [("err", t)] | None => [] end)
  | _ => []
  end.

(* ---- representation: what the macro compiles.  [env] gives user enums/structs their layout ---- *)
Definition slice_abi : abi := ARec [APtr; AIp false].
Definition result_abi (ok err : abi) : abi := ARec [AUni [ok; err]; ABool].    (* DiplomatResult<T,E> *)
Definition vty_abi (env : string -> abi) (v : vty) : abi :=
  match v with VPrim p => rust_prim_abi p | VEnum _ => AI 4 true | VStruct n => env n end.
Definition ffi_param_abi (env : string -> abi) (p : pty) : abi :=
  match p with
  | PV v => vty_abi env v
  | PORef _ | POOpt | PWrite => APtr                   (* Option<&T> uses the null niche *)
  | PSlice _ _ | PStr _ => slice_abi
  | POpt _ v => result_abi (vty_abi env v) AUnit       (* both spellings become DiplomatOption<T> *)
  | POptSlice _ | POptStr => result_abi slice_abi AUnit
  end.
Definition arm_abi (env : string -> abi) (a : arm) : abi :=
  match a with ArmUnit => AUnit | ArmZst => ARec [] | ArmV v => vty_abi env v | ArmBox => APtr end.
Definition ffi_ret_abi (env : string -> abi) (r : rty) : abi :=
  match r with
  | RUnit => AUnit
  | RV v => vty_abi env v
  | RBox | ROptBox | RRef | ROptRef => APtr
  | ROpt _ v => result_abi (vty_abi env v) AUnit
  | RRes ok err => result_abi (arm_abi env ok) (arm_abi env err)
  | ROrd => AI 1 true
  end.

(* ---- what the C header's typedefs mean ---- *)
Definition opt_struct (payload : abi) : abi := ARec [AUni [payload]; ABool].
(* the typedefs MAKE_SLICES_AND_OPTIONS(name, c_ty) creates *)
Definition capi_typedefs : list (string * abi) :=
  flat_map (fun '(name, cty) =>
    match c_name_abi cty with
    | Some a => [("Option" +++ name, opt_struct a);
                 ("Diplomat" +++ name +++ "View", slice_abi); ("Diplomat" +++ name +++ "ViewMut", slice_abi);
                 ("Option" +++ name +++ "View", opt_struct slice_abi); ("Option" +++ name +++ "ViewMut", opt_struct slice_abi)]
    | None => [("Diplomat" +++ name +++ "View", slice_abi); ("Option" +++ name +++ "View", opt_struct slice_abi)]
    end) capi_rows.
Fixpoint assoc_s {A} (k : string) (l : list (string * A)) : option A :=
  match l with [] => None | (k', v) :: r => if k =? k' then Some v else assoc_s k r end.
(* meaning of a declared C parameter/return type, given the user types' layout *)
Definition c_decl_abi (env : string -> abi) (p : pty) : option abi :=
  match p with
  | PV (VPrim q) => c_name_abi (c_prim_name q)
  | PV (VEnum _) => Some (AI 4 true)                    (* a C enum with int-range enumerators *)
  | PV (VStruct n) => Some (env n)
  | PORef _ | POOpt | PWrite => Some APtr
  | POpt _ (VPrim _) | PSlice _ _ | PStr _ | POptSlice _ | POptStr => assoc_s (c_param_ty p) capi_typedefs
  | POpt _ (VEnum _) => Some (opt_struct (AI 4 true))   (* typedef struct E_option {union { E ok; }; bool is_ok; } *)
  | POpt _ (VStruct n) => Some (opt_struct (env n))
  end.

Fixpoint abi_eqb (a b : abi) {struct a} : bool :=
  match a, b with
  | AI x s, AI y t => N.eqb x y && Bool.eqb s t
  | AIp s, AIp t => Bool.eqb s t
  | AF x, AF y => N.eqb x y
  | ABool, ABool | APtr, APtr | AUnit, AUnit => true
  | ARec l, ARec m | AUni l, AUni m =>
      (fix go (l m : list abi) : bool :=
         match l, m with [], [] => true | x :: l', y :: m' => abi_eqb x y && go l' m' | _, _ => false end) l m
  | _, _ => false
  end.

(* ---- correspondence helpers ---- *)
Definition all_prims : list prim := [PBool; PChar; PByte; PI8; PU8; PI16; PU16; PI32; PU32; PI64; PU64; PIsize; PUsize; PF32; PF64].
Fixpoint listN_eqb (a b : list N) : bool :=
  match a, b with [], [] => true | x :: a', y :: b' => N.eqb x y && listN_eqb a' b' | _, _ => false end.
Fixpoint list_str_eqb (a b : list string) : bool :=
  match a, b with [], [] => true | x :: a', y :: b' => String.eqb x y && list_str_eqb a' b' | _, _ => false end.
(* a prototype: declared parameter types in order, declared return type *)
Definition agree_proto (m : string) (self : option bool) (ps : list pty) (r : rty) (obs_params : list string) (obs_ret : string) : bool :=
  list_str_eqb ((match self with Some mu => [c_param_ty (PORef mu)] | None => [] end) ++ map c_param_ty ps) obs_params &&
  String.eqb (c_ret_ty m r) obs_ret.
Definition agree_result_typedef (r : rty) (obs_members : list (string * string)) : bool :=
  list_str_eqb (map fst (c_result_members r)) (map fst obs_members) &&
  list_str_eqb (map snd (c_result_members r)) (map snd obs_members).
(* struct layout: size, alignment, field offsets as both compilers report them *)
Definition agree_layout (fields : list abi) (size align : N) (offs : list N) : bool :=
  let '(s, a) := size_align (ARec fields) in N.eqb s size && N.eqb a align && listN_eqb (offsets fields) offs.

(* ---- C07: native declarations of the Dart (dart:ffi) and Kotlin (JNA) bindings ---- *)
Definition dart_name_abi (s : string) : option abi :=
  if s =? "ffi.Bool" then Some ABool else
  if s =? "ffi.Uint8" then Some (AI 1 false) else if s =? "ffi.Int8" then Some (AI 1 true) else
  if s =? "ffi.Uint16" then Some (AI 2 false) else if s =? "ffi.Int16" then Some (AI 2 true) else
  if s =? "ffi.Uint32" then Some (AI 4 false) else if s =? "ffi.Int32" then Some (AI 4 true) else
  if s =? "ffi.Uint64" then Some (AI 8 false) else if s =? "ffi.Int64" then Some (AI 8 true) else
  if s =? "ffi.Size" then Some (AIp false) else if s =? "ffi.IntPtr" then Some (AIp true) else
  if s =? "ffi.Float" then Some (AF 4) else if s =? "ffi.Double" then Some (AF 8) else None.
(* JNA has no unsigned integers: FFIUintN wrappers are IntegerType(N); classes are compared up to signedness *)
Definition kt_name_abi (s : string) : option abi :=
  if s =? "Boolean" then Some ABool else
  if s =? "Byte" then Some (AI 1 true) else if s =? "FFIUint8" then Some (AI 1 false) else
  if s =? "Short" then Some (AI 2 true) else if s =? "FFIUint16" then Some (AI 2 false) else
  if s =? "Int" then Some (AI 4 true) else if s =? "FFIUint32" then Some (AI 4 false) else
  if s =? "Long" then Some (AI 8 true) else if s =? "FFIUint64" then Some (AI 8 false) else
  if s =? "FFISizet" then Some (AIp false) else if s =? "FFIIsizet" then Some (AIp true) else
  if s =? "Float" then Some (AF 4) else if s =? "Double" then Some (AF 8) else None.
(* a *field* of a JNA Structure / Union: JNA lays a Kotlin Boolean out as a 32-bit int there (as a parameter it is passed
   as an int whose low byte a C bool reads), so only a one-byte type mirrors a C bool inside records *)
Definition kt_field_abi (s : string) : option abi :=
  if s =? "Boolean" then Some (AI 4 true) else kt_name_abi s.
(* what a type name parsed from generated Kotlin / Dart denotes; [field]: inside a JNA Structure. Unknown names denote a
   class nothing agrees with *)
Definition kt_obs (field : bool) (s : string) : abi :=
  match (if field then kt_field_abi s else kt_name_abi s) with
  | Some a => a
  | None => if (s =? "Pointer") || (s =? "Pointer?") then APtr else if s =? "Unit" then AUnit else AF 99
  end.
Definition dart_obs (s : string) : abi :=
  match dart_name_abi s with
  | Some a => a
  | None => if s =? "ffi.Void" then AUnit else AF 99
  end.
Fixpoint erase_sign (a : abi) : abi :=
  match a with
  | AI b _ => AI b false | AIp _ => AIp false
  | ABool => AI 1 false                        (* struct mirrors store bool as Byte *)
  | ARec l => ARec (map erase_sign l) | AUni l => AUni (map erase_sign l)
  | x => x
  end.
(* a native signature / struct mirror as observed in the generated binding vs what the macro compiles *)
Fixpoint all2abi (f : abi -> abi -> bool) (a b : list abi) : bool :=
  match a, b with [], [] => true | x :: a', y :: b' => f x y && all2abi f a' b' | _, _ => false end.
Definition agree_dart_sig (env : string -> abi) (self : option bool) (ps : list pty) (r : rty) (obs_ps : list abi) (obs_r : abi) : bool :=
  all2abi (fun m o => abi_eqb (norm m) (norm o))
          ((match self with Some mu => [APtr] | None => [] end) ++ map (ffi_param_abi env) ps) obs_ps &&
  abi_eqb (norm (ffi_ret_abi env r)) (norm obs_r).
Definition agree_kotlin_sig (env : string -> abi) (self : option bool) (ps : list pty) (r : rty) (obs_ps : list abi) (obs_r : abi) : bool :=
  all2abi (fun m o => abi_eqb (erase_sign (norm m)) (erase_sign (norm o)))
          ((match self with Some mu => [APtr] | None => [] end) ++ map (ffi_param_abi env) ps) obs_ps &&
  abi_eqb (erase_sign (norm (ffi_ret_abi env r))) (erase_sign (norm obs_r)).
Definition agree_mirror (erase : bool) (fields : list abi) (obs : list abi) : bool :=
  all2abi (fun m o => if erase then abi_eqb (erase_sign (norm m)) (erase_sign (norm o)) else abi_eqb (norm m) (norm o)) fields obs.
