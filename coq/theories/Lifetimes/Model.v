(* C04 — the borrow analysis behind the managed backends' lifetime edges.  Definitions only.

   Modelled code:
     core/src/ast/lifetimes.rs   LifetimeEnv::from_method_item / from_struct_item: extend_generics, extend_bounds,
                                 extend_implicit_lifetime_bounds (the `&'a T<'b>` rule with its "already longer" test)
     core/src/hir/lifetimes.rs   LifetimeTransitivityIterator (all_longer_lifetimes): stack + visited DFS
     core/src/hir/type_context.rs validate / validate_ty_in_env: def-site bounds must be restated at the use site
     core/src/hir/methods/borrowing_param.rs  BorrowingParamVisitor::new / visit_param / borrow_map

   Lifetimes are HIR indices: an index below the number of named lifetimes of the enclosing method (or type
   definition) is a named lifetime, any other index is an anonymous one ('_ or elided), [Static] is 'static. *)
From Coq Require Import List Arith Bool.
Import ListNotations.

Inductive lt := Static | Lt (i : nat).

(* the types that can carry lifetimes, after lowering.  [opt]: Option<..>; [borrow = None]: Box<..> / owned;
   [sp]: the type is written `Self` in the source (ast::TypeName::SelfType) rather than by name, or its borrow is
   elided in the source (Elision.lower_ret1): the two spellings for which the AST records no implied bound *)
Inductive ty :=
| TPrim
| TOpaque (sp : bool) (opt : bool) (borrow : option lt) (tid : nat) (args : list lt)
| TSlice (opt : bool) (borrow : option lt)
| TStruct (opt : bool) (tid : nat) (args : list lt).

(* ---------- lifetime graphs: node i |-> the lifetimes recorded as longer than i (LifetimeNode.longer) ---------- *)
Definition graph := list (list nat).
Definition longer (g : graph) (i : nat) : list nat := nth i g [].
Definition memb (x : nat) (l : list nat) : bool := existsb (Nat.eqb x) l.

Fixpoint upd (g : graph) (i : nat) (f : list nat -> list nat) : graph :=
  match g, i with
  | [], _ => []
  | x :: r, 0 => f x :: r
  | x :: r, S j => x :: upd r j f
  end.

(* extend_bounds: nodes[short].longer.push(long) *)
Definition add_edge (g : graph) (short long : nat) : graph := upd g short (fun l => l ++ [long]).

Definition edge_count (g : graph) : nat := list_sum (map (@length nat) g).

(* LifetimeTransitivityIterator: pop; skip if visited; mark; push the node's edges (Vec::extend, so the last edge is on
   top); yield.  [visited] is the yielded set, most recent first.  Fuel = 1 + number of edges is always enough
   (Proofs.dfs_fuel_enough), so the fuel-exhausted branch is never taken by all_longer. *)
Fixpoint dfs (g : graph) (fuel : nat) (stack visited : list nat) : list nat :=
  match fuel with
  | 0 => visited
  | S f =>
    match stack with
    | [] => visited
    | x :: st => if memb x visited then dfs g f st visited
                 else dfs g f (rev (longer g x) ++ st) (x :: visited)
    end
  end.

Definition all_longer (g : graph) (r : nat) : list nat := dfs g (S (edge_count g)) [r] [].

(* ---------- building a LifetimeEnv ---------- *)
(* [Decl l ss]: the generic / where bound 'l: 's1 + 's2 ...;  [Impl b ps]: a reference &'b T<'p1, 'p2 ..> *)
Inductive op := Decl (long : nat) (shorts : list nat) | Impl (b : nat) (paths : list nat).

Definition apply_op (g : graph) (o : op) : graph :=
  match o with
  | Decl l shorts => fold_left (fun g s => add_edge g s l) shorts g
  | Impl b paths =>
      let explicit := all_longer g b in   (* LifetimeTransitivity::longer_than, computed once before the pushes *)
      fold_left (fun g p => add_edge g b p) (filter (fun p => negb (memb p explicit)) paths) g
  end.

Definition empty_graph (n : nat) : graph := repeat [] n.
Definition build (n : nat) (ops : list op) : graph := fold_left apply_op ops (empty_graph n).

Definition named (n : nat) (l : lt) : option nat :=
  match l with Lt i => if i <? n then Some i else None | Static => None end.
Definition named_list (n : nat) (ls : list lt) : list nat :=
  flat_map (fun l => match named n l with Some i => [i] | None => [] end) ls.

(* what a reference `&'b T<args>` implies, however T is written: only a named borrow of a named path lifetime adds
   anything; Option / Result are looked through by the caller (the list of types handed in is already flattened) *)
Definition ref_ops (n : nat) (t : ty) : list op :=
  match t with
  | TOpaque _ _ (Some b) _ args => match named n b with Some bi => [Impl bi (named_list n args)] | None => [] end
  | _ => []
  end.
(* extend_implicit_lifetime_bounds: matches TypeName::Named only, so nothing is recorded for a type written `Self`
   (validate_ty then insists on the bound being declared) *)
Definition ty_ops (n : nat) (t : ty) : list op :=
  match t with
  | TOpaque true _ _ _ _ => []
  | _ => ref_ops n t
  end.

Definition decl_ops (decl : list (nat * list nat)) : list op := map (fun d => Decl (fst d) (snd d)) decl.

(* a struct or opaque definition: number of lifetime parameters, declared bounds, field types (none for opaques) *)
Record tdef := mkDef { d_n : nat; d_decl : list (nat * list nat); d_fields : list ty }.
Definition d_ops (d : tdef) : list op := decl_ops (d_decl d) ++ flat_map (ty_ops (d_n d)) (d_fields d).
Definition d_env (d : tdef) : graph := build (d_n d) (d_ops d).
Definition defs := list tdef.
Definition def_of (ds : defs) (tid : nat) : tdef := nth tid ds (mkDef 0 [] []).

(* a method: named lifetimes (impl generics then method generics), declared bounds in source order,
   self (if any) followed by the parameters, the types contained in the return type *)
Record msig := mkSig { m_n : nat; m_decl : list (nat * list nat); m_params : list ty; m_ret : list ty }.
Definition m_ops (m : msig) : list op :=
  decl_ops (m_decl m) ++ flat_map (ty_ops (m_n m)) (m_params m ++ m_ret m).
Definition m_env (m : msig) : graph := build (m_n m) (m_ops m).

(* ---------- hir::Type::lifetimes ---------- *)
Definition opt_list {A} (o : option A) : list A := match o with Some a => [a] | None => [] end.
Definition ty_lts (t : ty) : list lt :=
  match t with
  | TPrim => []
  | TOpaque _ _ b _ args => args ++ opt_list b
  | TSlice _ b => opt_list b
  | TStruct _ _ args => args
  end.
Definition nonstatic (ls : list lt) : list nat :=
  flat_map (fun l => match l with Lt i => [i] | Static => [] end) ls.

(* ---------- validation (type_context.rs validate_ty_in_env) ---------- *)
Definition ty_use (t : ty) : option (nat * list lt) :=
  match t with
  | TOpaque _ _ _ tid args => Some (tid, args)
  | TStruct _ tid args => Some (tid, args)
  | _ => None
  end.
Definition ty_self_lt (t : ty) : list lt := match t with TOpaque _ _ b _ _ => opt_list b | _ => [] end.

(* one (use_lt, def_lt) pair of LinkedLifetimes::lifetimes_all; def_lt = None is the borrow of an opaque *)
Definition check_link (env : graph) (denv : graph) (dn : nat) (args : list lt) (use_lt : lt) (def_lt : option nat) : bool :=
  match use_lt with
  | Static => true
  | Lt u =>
    if u <? length env then      (* get_bounds: only named lifetimes have bounds *)
      let def_longer := match def_lt with Some dl => longer denv dl | None => seq 0 dn end in
      forallb (fun dl => match nth dl args Static with
                         | Static => true
                         | Lt cu => (cu =? u) || memb cu (longer env u)
                         end) def_longer
    else true
  end.

Definition validate_ty (ds : defs) (env : graph) (t : ty) : bool :=
  match ty_use t with
  | None => true
  | Some (tid, args) =>
      let d := def_of ds tid in
      forallb (fun l => check_link env (d_env d) (d_n d) args l None) (ty_self_lt t)
      && forallb (fun p => check_link env (d_env d) (d_n d) args (fst p) (Some (snd p))) (combine args (seq 0 (d_n d)))
  end.

(* struct definitions restate what their fields need; methods restate what self, parameters and return need;
   an anonymous lifetime in the return type is an error ("Found elided lifetime in return type") *)
Definition validate_defs (ds : defs) : bool :=
  forallb (fun d => forallb (validate_ty ds (d_env d)) (d_fields d)) ds.
Definition ret_lts (m : msig) : list nat := nonstatic (flat_map ty_lts (m_ret m)).
Definition validate_method (ds : defs) (m : msig) : bool :=
  forallb (fun r => r <? m_n m) (ret_lts m)
  && forallb (validate_ty ds (m_env m)) (m_params m ++ m_ret m).

(* ---------- BorrowingParamVisitor ---------- *)
Inductive edge :=
| EOpaque (p : nat)                          (* LifetimeEdgeKind::OpaqueParam *)
| ESlice (p : nat)                           (* SliceParam *)
| EStruct (p : nat) (slot : nat) (opt : bool) (* StructLifetime(def env, def lifetime, is_option) *)
| EPanic (p : nat).                          (* unreachable!(): a borrowed Option<slice> (known finding) *)

Definition touches (ls : list nat) (t : ty) : bool := existsb (fun u => memb u ls) (nonstatic (ty_lts t)).

(* visit_param for one output lifetime whose all_longer set is [ls]; [p] is the parameter's position *)
Definition visit_param (ls : list nat) (p : nat) (t : ty) : list edge :=
  match t with
  | TPrim => []
  | TStruct opt _ args =>
      flat_map (fun sl => match snd sl with
                          | Lt u => if memb u ls then [EStruct p (fst sl) opt] else []
                          | Static => []
                          end) (combine (seq 0 (length args)) args)
  | TOpaque _ _ _ _ _ => if touches ls t then [EOpaque p] else []
  | TSlice false _ => if touches ls t then [ESlice p] else []
  | TSlice true _ => if touches ls t then [EPanic p] else []
  end.

Definition edges_for (m : msig) (r : nat) : list edge :=
  let ls := all_longer (m_env m) r in
  flat_map (fun pt => visit_param ls (fst pt) (snd pt)) (combine (seq 0 (length (m_params m))) (m_params m)).

(* borrow_map: one entry per used (non-static) lifetime of the output; BTreeMap: keys ascending, no duplicates *)
Fixpoint insert_sorted (x : nat) (l : list nat) : list nat :=
  match l with
  | [] => [x]
  | y :: r => if x <? y then x :: l else if x =? y then l else y :: insert_sorted x r
  end.
Definition sort_dedup (l : list nat) : list nat := fold_right insert_sorted [] l.
Definition borrow_map (m : msig) : list (nat * (list nat * list edge)) :=
  map (fun r => (r, (sort_dedup (all_longer (m_env m) r), edges_for m r))) (sort_dedup (ret_lts m)).
