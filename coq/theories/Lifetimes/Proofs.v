(* C04 — proofs about Lifetimes/Model.v *)
From Coq Require Import List Arith Bool Lia Relations.
Import ListNotations.
From DV Require Import Lifetimes.Model.

(* ------------------------------------------------------------------ basics *)
Lemma memb_In x l : memb x l = true <-> In x l.
Proof.
  unfold memb. rewrite existsb_exists. split.
  - intros [y [Hy He]]. apply Nat.eqb_eq in He. subst. exact Hy.
  - intros H. exists x. split; [exact H|apply Nat.eqb_refl].
Qed.

Lemma memb_false x l : memb x l = false <-> ~ In x l.
Proof. rewrite <- memb_In. destruct (memb x l); split; congruence. Qed.

(* a direct edge: b is recorded as longer than a *)
Definition direct (g : graph) (a b : nat) : Prop := In b (longer g a).
Definition reach (g : graph) : nat -> nat -> Prop := clos_refl_trans_1n nat (direct g).

Lemma reach_refl g a : reach g a a.
Proof. apply Relation_Operators.rt1n_refl. Qed.

Lemma reach_step g a b c : direct g a b -> reach g b c -> reach g a c.
Proof. intros H1 H2. exact (Relation_Operators.rt1n_trans _ _ a b c H1 H2). Qed.

Lemma reach_trans g a b c : reach g a b -> reach g b c -> reach g a c.
Proof. intros H1 H2. induction H1 as [|x y z Hxy _ IH]; [exact H2|]. exact (Relation_Operators.rt1n_trans _ _ x y c Hxy (IH H2)). Qed.

Lemma reach_one g a b : direct g a b -> reach g a b.
Proof. intros. eapply reach_step; [eassumption|apply reach_refl]. Qed.

(* ------------------------------------------------------------------ the DFS computes the reflexive-transitive closure *)
Definition deg (g : graph) (i : nat) : nat := length (longer g i).

(* edges leaving nodes that are not yet visited *)
Definition undeg_list (g : graph) (vis : list nat) (l : list nat) : nat :=
  list_sum (map (deg g) (filter (fun i => negb (memb i vis)) l)).
Definition undeg (g : graph) (vis : list nat) : nat := undeg_list g vis (seq 0 (length g)).

Lemma memb_cons x y l : memb x (y :: l) = (x =? y) || memb x l.
Proof. reflexivity. Qed.

Lemma list_sum_cons a l : list_sum (a :: l) = a + list_sum l.
Proof. reflexivity. Qed.

Lemma undeg_list_mark g vis x l : NoDup l -> ~ In x vis ->
  undeg_list g (x :: vis) l + (if memb x l then deg g x else 0) = undeg_list g vis l.
Proof.
  intros Hnd Hx. unfold undeg_list. induction l as [|y l IH]; [reflexivity|].
  inversion Hnd as [|? ? Hy Hnd']; subst. specialize (IH Hnd').
  cbn [filter]. rewrite !memb_cons.
  destruct (Nat.eqb_spec x y) as [->|Hne].
  - rewrite Nat.eqb_refl. cbn [orb negb].
    assert (Hm : memb y l = false) by (apply memb_false; exact Hy). rewrite Hm in IH.
    assert (Hv : memb y vis = false) by (apply memb_false; exact Hx). rewrite Hv.
    cbn [negb map]. rewrite list_sum_cons. lia.
  - assert (Hyx : (y =? x) = false) by (apply Nat.eqb_neq; congruence). rewrite Hyx. cbn [orb].
    destruct (memb y vis); cbn [negb map]; rewrite ?list_sum_cons; lia.
Qed.

Lemma list_sum_map_nth_seq (g : graph) : list_sum (map (deg g) (seq 0 (length g))) = edge_count g.
Proof.
  unfold edge_count, deg, longer.
  assert (H : forall (pre : graph), list_sum (map (fun i => length (nth i (pre ++ g) [])) (seq (length pre) (length g))) = list_sum (map (@length nat) g)).
  { induction g as [|x g IH]; intros pre; [reflexivity|].
    cbn [length seq map]. rewrite !list_sum_cons. rewrite app_nth2 by lia. rewrite Nat.sub_diag. cbn [nth].
    f_equal. specialize (IH (pre ++ [x])). rewrite app_length in IH. cbn [length] in IH.
    rewrite Nat.add_1_r in IH. rewrite <- app_assoc in IH. cbn [app] in IH. exact IH. }
  exact (H []).
Qed.

Lemma undeg_nil g : undeg g [] = edge_count g.
Proof.
  unfold undeg, undeg_list. rewrite <- list_sum_map_nth_seq. f_equal. f_equal.
  induction (seq 0 (length g)) as [|y l IH]; [reflexivity|]. cbn. f_equal. exact IH.
Qed.

Lemma deg_out_of_range g x : length g <= x -> deg g x = 0.
Proof. intros H. unfold deg, longer. rewrite nth_overflow by exact H. reflexivity. Qed.

Lemma undeg_mark g vis x : ~ In x vis -> undeg g (x :: vis) + deg g x = undeg g vis.
Proof.
  intros Hx. unfold undeg. pose proof (undeg_list_mark g vis x (seq 0 (length g)) (seq_NoDup _ _) Hx) as H.
  destruct (memb x (seq 0 (length g))) eqn:Hm; [exact H|].
  apply memb_false in Hm. rewrite in_seq in Hm. rewrite deg_out_of_range by lia. exact H.
Qed.

(* the invariant: what is visited is closed up to the stack; everything visited or stacked is reachable from the roots *)
Lemma dfs_inv g : forall fuel st vis,
  length st + undeg g vis <= fuel ->
  (forall v w, In v vis -> direct g v w -> In w vis \/ In w st) ->
  let R := dfs g fuel st vis in
  incl vis R /\ incl st R /\
  (forall v w, In v R -> direct g v w -> In w R) /\
  (forall x, In x R -> In x vis \/ exists s, In s st /\ reach g s x).
Proof.
  induction fuel as [|f IH]; intros st vis Hfuel Hclosed; cbn [dfs].
  - assert (st = []) by (destruct st; [reflexivity|cbn in Hfuel; lia]). subst st.
    repeat split.
    + apply incl_refl.
    + intros x [].
    + intros v w Hv Hd. destruct (Hclosed v w Hv Hd) as [H|[]]. exact H.
    + intros x Hx. left. exact Hx.
  - destruct st as [|x st].
    + repeat split.
      * apply incl_refl.
      * intros x [].
      * intros v w Hv Hd. destruct (Hclosed v w Hv Hd) as [H|[]]. exact H.
      * intros x Hx. left. exact Hx.
    + destruct (memb x vis) eqn:Hm.
      * apply memb_In in Hm.
        destruct (IH st vis) as (Hv & Hs & Hc & Hr).
        { cbn [length] in Hfuel. lia. }
        { intros v w Hvv Hd. destruct (Hclosed v w Hvv Hd) as [H|[<-|H]]; [left; exact H|left; exact Hm|right; exact H]. }
        repeat split.
        -- exact Hv.
        -- intros y [<-|Hy]; [apply Hv; exact Hm|apply Hs; exact Hy].
        -- exact Hc.
        -- intros y Hy. destruct (Hr y Hy) as [H|[s [Hs1 Hs2]]]; [left; exact H|right; exists s; split; [right; exact Hs1|exact Hs2]].
      * apply memb_false in Hm.
        destruct (IH (rev (longer g x) ++ st) (x :: vis)) as (Hv & Hs & Hc & Hr).
        { rewrite app_length, rev_length. pose proof (undeg_mark g vis x Hm) as Hu. unfold deg in Hu.
          cbn [length] in Hfuel. lia. }
        { intros v w [<-|Hvv] Hd.
          - right. apply in_or_app. left. apply in_rev. rewrite rev_involutive. exact Hd.
          - destruct (Hclosed v w Hvv Hd) as [H|[<-|H]]; [left; right; exact H|left; left; reflexivity|right; apply in_or_app; right; exact H]. }
        repeat split.
        -- intros y Hy. apply Hv. right. exact Hy.
        -- intros y [<-|Hy]; [apply Hv; left; reflexivity|apply Hs; apply in_or_app; right; exact Hy].
        -- exact Hc.
        -- intros y Hy. destruct (Hr y Hy) as [[<-|H]|[s [Hs1 Hs2]]].
           ++ right. exists x. split; [left; reflexivity|apply reach_refl].
           ++ left. exact H.
           ++ apply in_app_or in Hs1. destruct Hs1 as [Hs1|Hs1].
              ** right. exists x. split; [left; reflexivity|]. apply in_rev in Hs1. eapply reach_step; [exact Hs1|exact Hs2].
              ** right. exists s. split; [right; exact Hs1|exact Hs2].
Qed.

Lemma dfs_result g r :
  In r (all_longer g r) /\
  (forall v w, In v (all_longer g r) -> direct g v w -> In w (all_longer g r)) /\
  (forall x, In x (all_longer g r) -> reach g r x).
Proof.
  unfold all_longer.
  destruct (dfs_inv g (S (edge_count g)) [r] []) as (_ & Hs & Hc & Hr).
  { cbn [length]. rewrite undeg_nil. lia. }
  { intros v w []. }
  split; [apply Hs; left; reflexivity|]. split; [exact Hc|].
  intros x H. destruct (Hr x H) as [[]|[s [[<-|[]] Hs2]]]. exact Hs2.
Qed.

Lemma closed_reach g (R : list nat) :
  (forall v w, In v R -> direct g v w -> In w R) -> forall a x, reach g a x -> In a R -> In x R.
Proof.
  intros Hc a x Ha. induction Ha as [a|a b c Hab _ IH]; intros Hin; [exact Hin|]. apply IH. eapply Hc; eassumption.
Qed.

(* all_longer_lifetimes(r) is exactly the set of lifetimes reachable from r along recorded bounds, r included *)
Theorem all_longer_is_closure g r x : In x (all_longer g r) <-> reach g r x.
Proof.
  destruct (dfs_result g r) as (Hr & Hc & Hs). split; [apply Hs|].
  intros H. exact (closed_reach g _ Hc r x H Hr).
Qed.

(* ------------------------------------------------------------------ building the env: recorded bounds = written bounds *)
From DV Require Import Lifetimes.Spec.

Lemma upd_length g i f : length (upd g i f) = length g.
Proof. revert i. induction g as [|x g IH]; intros [|i]; cbn [upd length]; try reflexivity; rewrite IH; reflexivity. Qed.

Lemma upd_nth g i f a : nth a (upd g i f) [] = if (a =? i) && (i <? length g) then f (nth a g []) else nth a g [].
Proof.
  revert i a. induction g as [|x g IH]; intros i a.
  - destruct i, a; cbn; try reflexivity; rewrite ?andb_false_r; reflexivity.
  - destruct i as [|i], a as [|a]; cbn [upd nth length]; try reflexivity.
    + rewrite IH. cbn [Nat.eqb]. replace (S i <? S (length g)) with (i <? length g) by reflexivity. reflexivity.
Qed.

Lemma direct_add_edge g s l a b :
  direct (add_edge g s l) a b <-> direct g a b \/ (a = s /\ b = l /\ s < length g).
Proof.
  unfold direct, longer, add_edge. rewrite upd_nth.
  destruct (Nat.eqb_spec a s) as [->|Hne]; cbn [andb].
  - destruct (Nat.ltb_spec s (length g)) as [Hlt|Hge].
    + rewrite in_app_iff. cbn [In]. split.
      * intros [H|[<-|[]]]; [left; exact H|right; repeat split; exact Hlt].
      * intros [H|(_ & -> & _)]; [left; exact H|right; left; reflexivity].
    + split; [intros H; left; exact H|intros [H|(_ & _ & H)]; [exact H|lia]].
  - split; [intros H; left; exact H|intros [H|(H & _)]; [exact H|congruence]].
Qed.

Lemma add_edge_length g s l : length (add_edge g s l) = length g.
Proof. apply upd_length. Qed.

(* adding a list of edges from pairs *)
Definition add_pairs (g : graph) (ps : list (nat * nat)) : graph := fold_left (fun g p => add_edge g (fst p) (snd p)) ps g.

Lemma add_pairs_length g ps : length (add_pairs g ps) = length g.
Proof. revert g. induction ps as [|p ps IH]; intros g; [reflexivity|]. cbn [add_pairs fold_left]. fold (add_pairs (add_edge g (fst p) (snd p)) ps). rewrite IH. apply add_edge_length. Qed.

Lemma direct_add_pairs g ps a b :
  direct (add_pairs g ps) a b <-> direct g a b \/ (In (a, b) ps /\ a < length g).
Proof.
  revert g. induction ps as [|[s l] ps IH]; intros g.
  - cbn. split; [intros H; left; exact H|intros [H|[[] _]]; exact H].
  - cbn [add_pairs fold_left fst snd]. fold (add_pairs (add_edge g s l) ps). rewrite IH, direct_add_edge, add_edge_length.
    cbn [In]. split.
    + intros [[H|(-> & -> & H)]|[H1 H2]]; [left; exact H|right; split; [left; reflexivity|exact H]|right; split; [right; exact H1|exact H2]].
    + intros [H|[[Heq|H1] H2]]; [left; left; exact H| |right; split; assumption].
      inversion Heq; subst. left. right. repeat split. exact H2.
Qed.

Lemma fold_left_map' {A B C} (f : A -> B -> A) (h : C -> B) (l : list C) (a : A) :
  fold_left f (map h l) a = fold_left (fun a x => f a (h x)) l a.
Proof. revert a. induction l as [|x l IH]; intros a; [reflexivity|]. cbn [map fold_left]. apply IH. Qed.

Lemma apply_op_as_pairs g o : exists ps, apply_op g o = add_pairs g ps /\ incl ps (pairs_of_op o) /\
  (forall a b, In (a, b) (pairs_of_op o) -> In (a, b) ps \/ reach g a b).
Proof.
  destruct o as [l ss|b ps]; cbn [apply_op pairs_of_op].
  - exists (map (fun s => (s, l)) ss). split; [|split; [apply incl_refl|intros a b' H; left; exact H]].
    unfold add_pairs. rewrite fold_left_map'. reflexivity.
  - exists (map (fun p => (b, p)) (filter (fun p => negb (memb p (all_longer g b))) ps)). split; [|split].
    + unfold add_pairs. rewrite fold_left_map'. reflexivity.
    + intros [a c] H. apply in_map_iff in H. destruct H as [p [Hp Hin]]. apply filter_In in Hin. apply in_map_iff. exists p. tauto.
    + intros a c H. apply in_map_iff in H. destruct H as [p [Hp Hin]]. inversion Hp; subst.
      destruct (memb c (all_longer g a)) eqn:Hm.
      * right. apply all_longer_is_closure. apply memb_In. exact Hm.
      * left. apply in_map_iff. exists c. split; [reflexivity|]. apply filter_In. split; [exact Hin|]. rewrite Hm. reflexivity.
Qed.

Lemma reach_mono g g' a b : (forall x y, direct g x y -> direct g' x y) -> reach g a b -> reach g' a b.
Proof. intros Hm H. induction H as [|x y z Hxy _ IH]; [apply reach_refl|]. eapply reach_step; [apply Hm; exact Hxy|exact IH]. Qed.

Lemma apply_op_length g o : length (apply_op g o) = length g.
Proof. destruct (apply_op_as_pairs g o) as [ps [-> _]]. apply add_pairs_length. Qed.

Lemma apply_op_mono g o a b : direct g a b -> direct (apply_op g o) a b.
Proof. destruct (apply_op_as_pairs g o) as [ps [-> _]]. intros H. apply direct_add_pairs. left. exact H. Qed.

Lemma apply_op_sound g o a b : direct (apply_op g o) a b -> direct g a b \/ In (a, b) (pairs_of_op o).
Proof.
  destruct (apply_op_as_pairs g o) as [ps [-> [Hi _]]]. intros H. apply direct_add_pairs in H.
  destruct H as [H|[H _]]; [left; exact H|right; apply Hi; exact H].
Qed.

Lemma apply_op_complete g o a b : In (a, b) (pairs_of_op o) -> a < length g -> reach (apply_op g o) a b.
Proof.
  intros H Ha. destruct (apply_op_as_pairs g o) as [ps [Heq [_ Hc]]].
  destruct (Hc a b H) as [Hin|Hr].
  - rewrite Heq. apply reach_one. apply direct_add_pairs. right. split; assumption.
  - eapply reach_mono; [|exact Hr]. intros x y. apply apply_op_mono.
Qed.

Lemma fold_ops_length ops g : length (fold_left apply_op ops g) = length g.
Proof. revert g. induction ops as [|o ops IH]; intros g; [reflexivity|]. cbn [fold_left]. rewrite IH. apply apply_op_length. Qed.

Lemma fold_ops_mono ops g a b : direct g a b -> direct (fold_left apply_op ops g) a b.
Proof. revert g. induction ops as [|o ops IH]; intros g H; [exact H|]. cbn [fold_left]. apply IH. apply apply_op_mono. exact H. Qed.

Lemma fold_ops_sound ops g a b : direct (fold_left apply_op ops g) a b -> direct g a b \/ In (a, b) (constraints ops).
Proof.
  revert g. induction ops as [|o ops IH]; intros g H; [left; exact H|].
  cbn [fold_left] in H. apply IH in H. unfold constraints. cbn [flat_map]. rewrite in_app_iff.
  destruct H as [H|H]; [apply apply_op_sound in H; tauto|right; right; exact H].
Qed.

Lemma fold_ops_complete ops g a b : In (a, b) (constraints ops) -> a < length g -> reach (fold_left apply_op ops g) a b.
Proof.
  revert g. induction ops as [|o ops IH]; intros g H Ha; [destruct H|].
  unfold constraints in H. cbn [flat_map] in H. apply in_app_iff in H. cbn [fold_left]. destruct H as [H|H].
  - eapply reach_mono; [|apply apply_op_complete; eassumption]. intros x y. apply fold_ops_mono.
  - apply IH; [exact H|rewrite apply_op_length; exact Ha].
Qed.

Lemma longer_empty n a : longer (empty_graph n) a = [].
Proof. unfold longer, empty_graph. revert a. induction n as [|n IH]; intros [|a]; cbn; try reflexivity. apply IH. Qed.

Lemma build_length n ops : length (build n ops) = n.
Proof. unfold build. rewrite fold_ops_length. unfold empty_graph. apply repeat_length. Qed.

(* every recorded bound was written down; every written bound is recorded or already follows from recorded ones *)
Lemma build_sound n ops a b : direct (build n ops) a b -> In (a, b) (constraints ops).
Proof.
  intros H. apply fold_ops_sound in H. destruct H as [H|H]; [|exact H].
  unfold direct in H. rewrite longer_empty in H. destruct H.
Qed.

Lemma build_complete n ops a b : In (a, b) (constraints ops) -> a < n -> reach (build n ops) a b.
Proof. intros H Ha. apply fold_ops_complete; [exact H|]. unfold empty_graph. rewrite repeat_length. exact Ha. Qed.

Definition cpair (ops : list op) (a b : nat) : Prop := In (a, b) (constraints ops).

Theorem build_is_closure n ops : (forall a b, cpair ops a b -> a < n) ->
  forall a b, reach (build n ops) a b <-> clos_refl_trans_1n nat (cpair ops) a b.
Proof.
  intros Hwf a b. split; intros H.
  - induction H as [|x y z Hxy _ IH]; [apply Relation_Operators.rt1n_refl|].
    eapply Relation_Operators.rt1n_trans; [apply build_sound in Hxy; exact Hxy|exact IH].
  - induction H as [|x y z Hxy _ IH]; [apply reach_refl|].
    eapply reach_trans; [apply build_complete; [exact Hxy|apply (Hwf x y Hxy)]|exact IH].
Qed.

(* ------------------------------------------------------------------ ranges of the written bounds *)
Lemma constraints_app a b : constraints (a ++ b) = constraints a ++ constraints b.
Proof. unfold constraints. apply flat_map_app. Qed.

Lemma named_some n l i : named n l = Some i -> l = Lt i /\ i < n.
Proof. destruct l as [|j]; unfold named; [discriminate|]. destruct (Nat.ltb_spec j n) as [Hjn|Hjn]; [|discriminate]. intros He; inversion He; subst. split; [reflexivity|assumption]. Qed.

Lemma named_list_In n ls i : In i (named_list n ls) <-> In (Lt i) ls /\ i < n.
Proof.
  unfold named_list. rewrite in_flat_map. split.
  - intros [l [Hl Hi]]. destruct (named n l) as [j|] eqn:Hn; [|destruct Hi]. destruct Hi as [<-|[]].
    apply named_some in Hn. destruct Hn as [-> Hlt]. split; assumption.
  - intros [Hl Hlt]. exists (Lt i). split; [exact Hl|]. unfold named. destruct (Nat.ltb_spec i n); [left; reflexivity|lia].
Qed.

(* the pairs a reference type implies: borrow 'a, argument 'b of the referent, both named *)
Lemma ref_ops_In n t a b : In (a, b) (constraints (ref_ops n t)) <->
  exists sp opt tid args, t = TOpaque sp opt (Some (Lt a)) tid args /\ a < n /\ In (Lt b) args /\ b < n.
Proof.
  split.
  - destruct t as [|sp opt [bl|] tid args|opt bl|opt tid args]; cbn [ref_ops]; try (intros []).
    destruct (named n bl) as [bi|] eqn:Hn; [|intros []].
    unfold constraints. cbn [flat_map pairs_of_op]. rewrite app_nil_r. intros H. apply in_map_iff in H.
    destruct H as [p [Hp Hin]]. inversion Hp; subst. apply named_list_In in Hin. apply named_some in Hn.
    destruct Hn as [-> Ha]. exists sp, opt, tid, args. tauto.
  - intros (sp & opt & tid & args & -> & Ha & Hin & Hb). cbn [ref_ops]. unfold named.
    destruct (Nat.ltb_spec a n) as [_|]; [|lia]. unfold constraints. cbn [flat_map pairs_of_op]. rewrite app_nil_r.
    apply in_map_iff. exists b. split; [reflexivity|]. apply named_list_In. tauto.
Qed.

Lemma ref_ops_range n t a b : In (a, b) (constraints (ref_ops n t)) -> a < n /\ b < n.
Proof. intros H. apply ref_ops_In in H. destruct H as (? & ? & ? & ? & _ & ? & _ & ?). tauto. Qed.

Lemma ty_ops_sub n t a b : In (a, b) (constraints (ty_ops n t)) -> In (a, b) (constraints (ref_ops n t)).
Proof. destruct t as [|[|] opt bl tid args|opt bl|opt tid args]; cbn [ty_ops]; auto. intros []. Qed.

Lemma ty_ops_range n t a b : In (a, b) (constraints (ty_ops n t)) -> a < n /\ b < n.
Proof. intros H. apply (ref_ops_range n t). apply ty_ops_sub. exact H. Qed.

Lemma decl_ops_range n decl a b : decl_ok n decl -> In (a, b) (constraints (decl_ops decl)) -> a < n /\ b < n.
Proof.
  intros Hok H. unfold constraints, decl_ops in H. apply in_flat_map in H. destruct H as [o [Ho Hin]].
  apply in_map_iff in Ho. destruct Ho as [[l ss] [<- Hd]]. cbn [pairs_of_op fst snd] in Hin.
  apply in_map_iff in Hin. destruct Hin as [s [Hs Hin]]. inversion Hs; subst. destruct (Hok _ _ Hd) as [Hl Hss]. split; [apply Hss; exact Hin|exact Hl].
Qed.

Lemma ops_range n decl tys a b : decl_ok n decl ->
  In (a, b) (constraints (decl_ops decl ++ flat_map (ty_ops n) tys)) -> a < n /\ b < n.
Proof.
  intros Hok H. rewrite constraints_app in H. apply in_app_iff in H. destruct H as [H|H].
  - eapply decl_ops_range; eassumption.
  - unfold constraints in H. rewrite flat_map_concat_map in H. apply in_concat in H. destruct H as [l [Hl Hin]].
    apply in_map_iff in Hl. destruct Hl as [o [<- Ho]]. apply in_flat_map in Ho. destruct Ho as [t [_ Ht]].
    apply (ty_ops_range n t). unfold constraints. apply in_flat_map. exists o. split; assumption.
Qed.

(* recorded bounds of a method / definition env stay among the named lifetimes *)
Lemma env_range n decl tys a b : decl_ok n decl ->
  direct (build n (decl_ops decl ++ flat_map (ty_ops n) tys)) a b -> a < n /\ b < n.
Proof. intros Hok H. apply build_sound in H. eapply ops_range; eassumption. Qed.

(* ------------------------------------------------------------------ validation: def-site bounds are restated at the use site *)
Lemma In_combine_seq {A} (l : list A) : forall k n x a, nth_error l x = Some a -> x < n -> In (a, k + x) (combine l (seq k n)).
Proof.
  induction l as [|y l IH]; intros k n x a Hn Hlt; [destruct x; discriminate|].
  destruct n as [|n]; [lia|]. destruct x as [|x]; cbn [nth_error] in Hn.
  - inversion Hn; subst. cbn. left. f_equal. lia.
  - cbn [seq combine]. right. replace (k + S x) with (S k + x) by lia. apply IH; [exact Hn|lia].
Qed.

Lemma validate_ty_link ds env t tid args :
  validate_ty ds env t = true -> ty_use t = Some (tid, args) ->
  forall x u, nth_error args x = Some (Lt u) -> x < d_n (def_of ds tid) -> u < length env ->
  forall x1, direct (d_env (def_of ds tid)) x x1 ->
    match nth x1 args Static with Static => True | Lt cu => cu = u \/ direct env u cu end.
Proof.
  intros Hv Hu x u Hx Hlt Hul x1 Hd. unfold validate_ty in Hv. rewrite Hu in Hv.
  apply andb_true_iff in Hv. destruct Hv as [_ Hv]. rewrite forallb_forall in Hv.
  specialize (Hv (Lt u, x)). cbn [fst snd] in Hv.
  assert (Hin : In (Lt u, x) (combine args (seq 0 (d_n (def_of ds tid))))) by (apply (In_combine_seq args 0); assumption).
  specialize (Hv Hin). unfold check_link in Hv.
  destruct (Nat.ltb_spec u (length env)) as [_|]; [|lia].
  rewrite forallb_forall in Hv. specialize (Hv x1 Hd).
  destruct (nth x1 args Static) as [|cu]; [exact I|].
  apply orb_true_iff in Hv. destruct Hv as [Hv|Hv]; [left; apply Nat.eqb_eq; exact Hv|right; apply memb_In; exact Hv].
Qed.

(* a chain of def-site bounds x -> .. -> y is mirrored, argument by argument, by recorded bounds at the use site *)
Lemma use_chain ds env t tid args :
  validate_ty ds env t = true -> ty_use t = Some (tid, args) ->
  length args = d_n (def_of ds tid) -> (forall a, In a args -> lt_ok a) ->
  (forall a b, direct env a b -> b < length env) ->
  (forall a b, direct (d_env (def_of ds tid)) a b -> a < d_n (def_of ds tid) /\ b < d_n (def_of ds tid)) ->
  forall x y, reach (d_env (def_of ds tid)) x y -> x < d_n (def_of ds tid) ->
  forall u, nth_error args x = Some (Lt u) -> u < length env ->
  exists v, nth_error args y = Some (Lt v) /\ reach env u v /\ v < length env.
Proof.
  intros Hv Hu Hlen Hlt Henv Hdenv x y Hr. induction Hr as [x|x x1 y Hd _ IH]; intros Hx u Hn Hul.
  - exists u. split; [exact Hn|split; [apply reach_refl|exact Hul]].
  - destruct (Hdenv _ _ Hd) as [_ Hx1].
    pose proof (validate_ty_link ds env t tid args Hv Hu x u Hn Hx Hul x1 Hd) as Hl.
    assert (Hx1' : x1 < length args) by lia.
    assert (Hex : exists a1, nth_error args x1 = Some a1).
    { destruct (nth_error args x1) eqn:E; [eexists; reflexivity|apply nth_error_None in E; lia]. }
    destruct Hex as [a1 Hn1].
    pose proof (nth_error_In _ _ Hn1) as Hin1. destruct (Hlt _ Hin1) as [cu ->].
    rewrite (nth_error_nth _ _ Static Hn1) in Hl.
    destruct Hl as [->|Hdir].
    + apply (IH Hx1 u Hn1 Hul).
    + destruct (IH Hx1 cu Hn1 (Henv _ _ Hdir)) as [v (Hv1 & Hv2 & Hv3)].
      exists v. split; [exact Hv1|split; [eapply reach_step; eassumption|exact Hv3]].
Qed.

Lemma def_of_In ds tid t : In t (d_fields (def_of ds tid)) -> In (def_of ds tid) ds.
Proof.
  unfold def_of. intros H. destruct (Nat.ltb_spec tid (length ds)) as [Hlt|Hge]; [apply nth_In; exact Hlt|].
  rewrite nth_overflow in H by exact Hge. destruct H.
Qed.

Lemma d_env_range ds d a b : def_ok ds d -> direct (d_env d) a b -> a < d_n d /\ b < d_n d.
Proof. intros [Hd _] H. unfold d_env, d_ops in H. eapply env_range; eassumption. Qed.

Lemma d_env_length d : length (d_env d) = d_n d.
Proof. apply build_length. Qed.

(* whatever a definition requires of its parameters follows from the bounds recorded for that definition *)
Theorem wf_edge_recorded ds : defs_ok ds -> validate_defs ds = true ->
  forall tid x y, wf_edge ds tid x y -> In (def_of ds tid) ds ->
    x < d_n (def_of ds tid) /\ y < d_n (def_of ds tid) /\ reach (d_env (def_of ds tid)) x y.
Proof.
  intros Hok Hval tid x y H. induction H as [tid x y Hc|tid t tid' args x y u v Ht Hu Hwf IH Hx Hy]; intros Hin.
  - destruct (Hok _ Hin) as [Hd _].
    assert (Hr : x < d_n (def_of ds tid) /\ y < d_n (def_of ds tid)) by (unfold d_ops in Hc; eapply ops_range; eassumption).
    split; [tauto|split; [tauto|]]. apply build_complete; tauto.
  - destruct (Hok _ Hin) as [_ Hf]. destruct (Hf t Ht) as [Huse Hrange]. destruct (Huse _ _ Hu) as (Hlen & Hargs & _).
    assert (Hu' : u < d_n (def_of ds tid)).
    { apply Hrange. destruct t; cbn in Hu; inversion Hu; subst; cbn [ty_lts]; try apply in_or_app; try left; eapply nth_error_In; eassumption. }
    assert (Hv' : v < d_n (def_of ds tid)).
    { apply Hrange. destruct t; cbn in Hu; inversion Hu; subst; cbn [ty_lts]; try apply in_or_app; try left; eapply nth_error_In; eassumption. }
    split; [exact Hu'|split; [exact Hv'|]].
    assert (Hin' : In (def_of ds tid') ds).
    { unfold def_of. destruct (Nat.ltb_spec tid' (length ds)) as [Hlt|Hge]; [apply nth_In; exact Hlt|].
      exfalso. assert (Hx' : x < length args) by (apply nth_error_Some; congruence).
      rewrite Hlen in Hx'. unfold def_of in Hx'. rewrite nth_overflow in Hx' by exact Hge. cbn in Hx'. lia. }
    destruct (IH Hin') as (Hx' & _ & Hr).
    unfold validate_defs in Hval. rewrite forallb_forall in Hval. specialize (Hval _ Hin). rewrite forallb_forall in Hval. specialize (Hval t Ht).
    destruct (use_chain ds (d_env (def_of ds tid)) t tid' args Hval Hu Hlen Hargs) with (x := x) (y := y) (u := u) as [v0 (Hv0 & Hr0 & _)].
    + intros a b Hd. rewrite d_env_length. eapply (d_env_range ds); [apply Hok; exact Hin|exact Hd].
    + intros a b Hd. eapply (d_env_range ds); [apply Hok; exact Hin'|exact Hd].
    + exact Hr.
    + exact Hx'.
    + exact Hx.
    + rewrite d_env_length. exact Hu'.
    + rewrite Hy in Hv0. inversion Hv0; subst. exact Hr0.
Qed.

(* ------------------------------------------------------------------ methods: recorded closure = Rust's outlives relation *)
Lemma m_env_length m : length (m_env m) = m_n m.
Proof. apply build_length. Qed.

Lemma m_env_range ds m a b : sig_ok ds m -> direct (m_env m) a b -> a < m_n m /\ b < m_n m.
Proof. intros [Hd _] H. unfold m_env, m_ops in H. eapply env_range; eassumption. Qed.

Lemma use_def_In ds t tid args x a : use_ok ds t -> ty_use t = Some (tid, args) -> nth_error args x = Some a -> In (def_of ds tid) ds.
Proof.
  intros Huse Hu Hx. destruct (Huse _ _ Hu) as (Hlen & _).
  unfold def_of. destruct (Nat.ltb_spec tid (length ds)) as [Hlt|Hge]; [apply nth_In; exact Hlt|].
  exfalso. assert (Hx' : x < length args) by (apply nth_error_Some; congruence).
  rewrite Hlen in Hx'. unfold def_of in Hx'. rewrite nth_overflow in Hx' by exact Hge. cbn in Hx'. lia.
Qed.

Lemma rust_edge_recorded ds m : defs_ok ds -> validate_defs ds = true -> sig_ok ds m -> validate_method ds m = true ->
  forall u v, rust_edge ds m u v -> u < m_n m -> reach (m_env m) u v /\ v < m_n m.
Proof.
  intros Hok Hvd Hsig Hvm u v H Hun. destruct H as [u v Hc|t tid args x y u v Ht Hu Hwf Hx Hy].
  - pose proof Hsig as [Hd Hall]. unfold spec_ops in Hc. rewrite constraints_app in Hc. apply in_app_iff in Hc.
    destruct Hc as [Hc|Hc].
    + assert (Hr : u < m_n m /\ v < m_n m) by (eapply decl_ops_range; eassumption).
      split; [apply build_complete; [unfold m_ops; rewrite constraints_app; apply in_or_app; left; exact Hc|tauto]|tauto].
    + unfold constraints in Hc. rewrite flat_map_concat_map in Hc. apply in_concat in Hc. destruct Hc as [l [Hl Hin]].
      apply in_map_iff in Hl. destruct Hl as [o [<- Ho]]. apply in_flat_map in Ho. destruct Ho as [t [Ht Hot]].
      assert (Hp : In (u, v) (constraints (ref_ops (m_n m) t))) by (unfold constraints; apply in_flat_map; exists o; split; assumption).
      apply ref_ops_In in Hp. destruct Hp as (sp & opt & tid & args & -> & Hu' & Hvin & Hv').
      split; [|exact Hv'].
      destruct sp.
      * (* written `Self`: nothing was recorded for the reference, but validation insisted on a declared bound *)
        unfold validate_method in Hvm. apply andb_true_iff in Hvm. destruct Hvm as [_ Hvm].
        rewrite forallb_forall in Hvm. specialize (Hvm _ Ht). unfold validate_ty in Hvm. cbn [ty_use ty_self_lt opt_list] in Hvm.
        apply andb_true_iff in Hvm. destruct Hvm as [Hself _]. cbn [forallb] in Hself. rewrite andb_true_r in Hself.
        unfold check_link in Hself. rewrite m_env_length in Hself.
        destruct (Nat.ltb_spec u (m_n m)) as [_|]; [|lia].
        destruct (Hall _ Ht tid args eq_refl) as (Hlen & _ & _).
        destruct (In_nth_error _ _ Hvin) as [dl Hdl].
        assert (Hdl' : dl < length args) by (apply nth_error_Some; rewrite Hdl; discriminate).
        rewrite forallb_forall in Hself. specialize (Hself dl). rewrite (nth_error_nth _ _ Static Hdl) in Hself.
        assert (Hs : In dl (seq 0 (d_n (def_of ds tid)))) by (apply in_seq; lia).
        specialize (Hself Hs). apply orb_true_iff in Hself. destruct Hself as [He|He].
        -- apply Nat.eqb_eq in He. subst v. apply reach_refl.
        -- apply reach_one. apply memb_In. exact He.
      * apply build_complete; [|exact Hu']. unfold m_ops. rewrite constraints_app. apply in_or_app. right.
        unfold constraints. apply in_flat_map. exists o. split; [|exact Hin].
        apply in_flat_map. exists (TOpaque false opt (Some (Lt u)) tid args). split; [exact Ht|exact Hot].
  - pose proof Hsig as [Hd Hall]. pose proof (Hall t Ht) as Huse. destruct (Huse _ _ Hu) as (Hlen & Hargs & _).
    pose proof (use_def_In ds t tid args x _ Huse Hu Hx) as Hin.
    destruct (wf_edge_recorded ds Hok Hvd tid x y Hwf Hin) as (Hx' & _ & Hr).
    unfold validate_method in Hvm. apply andb_true_iff in Hvm. destruct Hvm as [_ Hvm].
    rewrite forallb_forall in Hvm. specialize (Hvm t Ht).
    destruct (use_chain ds (m_env m) t tid args Hvm Hu Hlen Hargs) with (x := x) (y := y) (u := u) as [v0 (Hv0 & Hr0 & Hv0n)].
    + intros a b Hdir. rewrite m_env_length. eapply (m_env_range ds); [exact Hsig|exact Hdir].
    + intros a b Hdir. eapply (d_env_range ds); [apply Hok; exact Hin|exact Hdir].
    + exact Hr.
    + exact Hx'.
    + exact Hx.
    + rewrite m_env_length. exact Hun.
    + rewrite Hy in Hv0. inversion Hv0; subst. rewrite m_env_length in Hv0n. split; assumption.
Qed.

(* everything the tool records is a bound the signature writes down or implies *)
Lemma m_ops_sub_spec m a b : In (a, b) (constraints (m_ops m)) -> In (a, b) (constraints (spec_ops m)).
Proof.
  unfold m_ops, spec_ops. rewrite !constraints_app, !in_app_iff. intros [H|H]; [left; exact H|right].
  unfold constraints in *. rewrite flat_map_concat_map in H. apply in_concat in H. destruct H as [l [Hl Hin]].
  apply in_map_iff in Hl. destruct Hl as [o [<- Ho]]. apply in_flat_map in Ho. destruct Ho as [t [Ht Hot]].
  assert (Hp : In (a, b) (flat_map pairs_of_op (ty_ops (m_n m) t))) by (apply in_flat_map; exists o; split; assumption).
  apply (ty_ops_sub (m_n m) t) in Hp. unfold constraints in Hp. apply in_flat_map in Hp. destruct Hp as [o' [Ho' Hin']].
  apply in_flat_map. exists o'. split; [|exact Hin']. apply in_flat_map. exists t. split; assumption.
Qed.

(* for an accepted method, a lifetime is forced to outlive 'r by Rust's rules iff the recorded bounds reach it from 'r *)
Theorem outlives_iff_recorded ds m : defs_ok ds -> validate_defs ds = true -> sig_ok ds m -> validate_method ds m = true ->
  forall r x, r < m_n m -> (outlives ds m r x <-> reach (m_env m) r x).
Proof.
  intros Hok Hvd Hsig Hvm r x Hr. split; intros H.
  - revert Hr. induction H as [a|a b c Hab _ IH]; intros Ha; [apply reach_refl|].
    destruct (rust_edge_recorded ds m Hok Hvd Hsig Hvm a b Hab Ha) as [Hrb Hb].
    eapply reach_trans; [exact Hrb|apply IH; exact Hb].
  - clear Hr. induction H as [a|a b c Hab _ IH]; [apply Relation_Operators.rt1n_refl|].
    eapply Relation_Operators.rt1n_trans; [|exact IH]. apply re_own. apply build_sound in Hab. apply m_ops_sub_spec. exact Hab.
Qed.

(* ------------------------------------------------------------------ visit_param / edges_for *)
Lemma In_combine_seq_iff {A} (l : list A) : forall k p t,
  In (p, t) (combine (seq k (length l)) l) <-> exists i, p = k + i /\ nth_error l i = Some t.
Proof.
  induction l as [|y l IH]; intros k p t; cbn [length seq combine].
  - split; [intros []|intros [i [_ H]]; destruct i; discriminate].
  - cbn [In]. rewrite IH. split.
    + intros [H|[i [-> Hi]]]; [inversion H; subst; exists 0; split; [lia|reflexivity]|exists (S i); split; [lia|exact Hi]].
    + intros [[|i] [-> Hi]]; cbn [nth_error] in Hi.
      * inversion Hi; subst. left. f_equal. lia.
      * right. exists i. split; [lia|exact Hi].
Qed.

Lemma edges_for_In m r e :
  In e (edges_for m r) <-> exists p t, nth_error (m_params m) p = Some t /\ In e (visit_param (all_longer (m_env m) r) p t).
Proof.
  unfold edges_for. rewrite in_flat_map. split.
  - intros [[p t] [Hin He]]. apply In_combine_seq_iff in Hin. destruct Hin as [i [-> Hi]]. exists i, t. cbn in He. tauto.
  - intros [p [t [Hp He]]]. exists (p, t). split; [apply In_combine_seq_iff; exists p; split; [reflexivity|exact Hp]|exact He].
Qed.

Lemma nonstatic_In u ls : In u (nonstatic ls) <-> In (Lt u) ls.
Proof.
  unfold nonstatic. rewrite in_flat_map. split.
  - intros [l [Hl Hu]]. destruct l as [|i]; [destruct Hu|]. destruct Hu as [<-|[]]. exact Hl.
  - intros H. exists (Lt u). split; [exact H|left; reflexivity].
Qed.

Lemma touches_iff ls t : touches ls t = true <-> exists u, In (Lt u) (ty_lts t) /\ In u ls.
Proof.
  unfold touches. rewrite existsb_exists. split.
  - intros [u [Hu Hm]]. exists u. split; [apply nonstatic_In; exact Hu|apply memb_In; exact Hm].
  - intros [u [Hu Hm]]. exists u. split; [apply nonstatic_In; exact Hu|apply memb_In; exact Hm].
Qed.

Lemma visit_struct_In ls p opt tid args e :
  In e (visit_param ls p (TStruct opt tid args)) <->
  exists slot u, e = EStruct p slot opt /\ nth_error args slot = Some (Lt u) /\ In u ls.
Proof.
  cbn [visit_param]. rewrite in_flat_map. split.
  - intros [[slot l] [Hin He]]. apply In_combine_seq_iff in Hin. destruct Hin as [i [-> Hi]]. cbn [fst snd] in He.
    destruct l as [|u]; [destruct He|]. destruct (memb u ls) eqn:Hm; [|destruct He]. destruct He as [<-|[]].
    exists i, u. split; [reflexivity|split; [exact Hi|apply memb_In; exact Hm]].
  - intros [slot [u (-> & Hn & Hu)]]. exists (slot, Lt u). split; [apply In_combine_seq_iff; exists slot; split; [reflexivity|exact Hn]|].
    cbn [fst snd]. apply memb_In in Hu. rewrite Hu. left. reflexivity.
Qed.

(* the borrow analysis reports, for an output lifetime 'r of an accepted method, exactly the inputs whose type mentions
   a lifetime that Rust's rules force to outlive 'r *)
Theorem borrow_edges_exact ds m : defs_ok ds -> validate_defs ds = true -> sig_ok ds m -> validate_method ds m = true ->
  forall r, r < m_n m -> no_borrowed_opt_slice ds m r ->
  forall e, In e (edges_for m r) <-> spec_edge ds m r e.
Proof.
  intros Hok Hvd Hsig Hvm r Hr Hnp e.
  assert (Hiff : forall u, In u (all_longer (m_env m) r) <-> outlives ds m r u).
  { intros u. rewrite all_longer_is_closure. symmetry. apply outlives_iff_recorded; assumption. }
  rewrite edges_for_In. split.
  - intros [p [t [Hp He]]]. destruct t as [|sp opt b tid args|opt b|opt tid args].
    + destruct He.
    + cbn [visit_param] in He. destruct (touches _ _) eqn:Ht; [|destruct He]. destruct He as [<-|[]].
      apply touches_iff in Ht. destruct Ht as [u [Hu Hin]]. cbn [ty_lts] in Hu.
      exists sp, opt, b, tid, args, u. split; [exact Hp|split; [exact Hu|apply Hiff; exact Hin]].
    + cbn [visit_param] in He. destruct opt.
      * destruct (touches _ _) eqn:Ht; [|destruct He]. apply touches_iff in Ht. destruct Ht as [u [Hu Hin]].
        exfalso. apply (Hnp p b u Hp Hu). apply Hiff. exact Hin.
      * destruct (touches _ _) eqn:Ht; [|destruct He]. destruct He as [<-|[]].
        apply touches_iff in Ht. destruct Ht as [u [Hu Hin]]. cbn [ty_lts] in Hu.
        exists false, b, u. split; [exact Hp|split; [exact Hu|apply Hiff; exact Hin]].
    + apply visit_struct_In in He. destruct He as [slot [u (-> & Hn & Hin)]].
      exists tid, args, u. split; [exact Hp|split; [exact Hn|apply Hiff; exact Hin]].
  - destruct e as [p|p|p slot opt|p]; cbn [spec_edge].
    + intros (sp & opt & b & tid & args & u & Hp & Hu & Ho). exists p, (TOpaque sp opt b tid args). split; [exact Hp|].
      cbn [visit_param]. assert (Ht : touches (all_longer (m_env m) r) (TOpaque sp opt b tid args) = true).
      { apply touches_iff. exists u. split; [exact Hu|apply Hiff; exact Ho]. }
      rewrite Ht. left. reflexivity.
    + intros (opt & b & u & Hp & Hu & Ho). destruct opt; [exfalso; exact (Hnp p b u Hp Hu Ho)|].
      exists p, (TSlice false b). split; [exact Hp|].
      cbn [visit_param]. assert (Ht : touches (all_longer (m_env m) r) (TSlice false b) = true).
      { apply touches_iff. exists u. split; [exact Hu|apply Hiff; exact Ho]. }
      rewrite Ht. left. reflexivity.
    + intros (tid & args & u & Hp & Hn & Ho). exists p, (TStruct opt tid args). split; [exact Hp|].
      apply visit_struct_In. exists slot, u. split; [reflexivity|split; [exact Hn|apply Hiff; exact Ho]].
    + intros [].
Qed.

(* every key of the borrow map is a lifetime of the return type and vice versa; entries do not depend on the other keys
   (so the extra keys the JS backend asks for with force_include_slices change nothing for the return lifetimes) *)
Lemma insert_sorted_In x y l : In y (insert_sorted x l) <-> y = x \/ In y l.
Proof.
  induction l as [|z l IH]; cbn [insert_sorted In]; [intuition congruence|].
  destruct (Nat.ltb_spec x z); [cbn [In]; intuition congruence|].
  destruct (Nat.eqb_spec x z) as [->|]; cbn [In]; [intuition congruence|]. rewrite IH. intuition congruence.
Qed.

Lemma sort_dedup_In y l : In y (sort_dedup l) <-> In y l.
Proof. induction l as [|x l IH]; cbn [sort_dedup fold_right In]; [tauto|]. fold (sort_dedup l). rewrite insert_sorted_In, IH. intuition congruence. Qed.

Theorem borrow_map_keys m r : In r (map fst (borrow_map m)) <-> In r (ret_lts m).
Proof. unfold borrow_map. rewrite map_map. cbn [fst]. rewrite map_id. apply sort_dedup_In. Qed.

Theorem borrow_map_entry m r ls es : In (r, (ls, es)) (borrow_map m) -> es = edges_for m r.
Proof. unfold borrow_map. intros H. apply in_map_iff in H. destruct H as [r' [He _]]. inversion He; subst. reflexivity. Qed.

(* ------------------------------------------------------------------ decidable well-formedness *)
Lemma decl_okb_sound n decl : decl_okb n decl = true -> decl_ok n decl.
Proof.
  unfold decl_okb, decl_ok. rewrite forallb_forall. intros H l ss Hin. specialize (H _ Hin). cbn [fst snd] in H.
  apply andb_true_iff in H. destruct H as [Hl Hs]. apply Nat.ltb_lt in Hl. rewrite forallb_forall in Hs.
  split; [exact Hl|intros s Hsin; apply Nat.ltb_lt; apply Hs; exact Hsin].
Qed.

Lemma lt_okb_sound l : lt_okb l = true -> lt_ok l.
Proof. destruct l as [|i]; [discriminate|]. intros _. exists i. reflexivity. Qed.

Lemma use_okb_sound ds t : use_okb ds t = true -> use_ok ds t.
Proof.
  unfold use_okb, use_ok. intros H tid args Hu. rewrite Hu in H.
  apply andb_true_iff in H. destruct H as [H H3]. apply andb_true_iff in H. destruct H as [H1 H2].
  apply Nat.eqb_eq in H1. rewrite forallb_forall in H2, H3.
  split; [exact H1|split; intros a Ha; apply lt_okb_sound; auto].
Qed.

Lemma def_okb_sound ds d : def_okb ds d = true -> def_ok ds d.
Proof.
  unfold def_okb, def_ok. intros H. apply andb_true_iff in H. destruct H as [H1 H2].
  split; [apply decl_okb_sound; exact H1|]. rewrite forallb_forall in H2. intros t Ht. specialize (H2 t Ht).
  apply andb_true_iff in H2. destruct H2 as [Hu Hr]. split; [apply use_okb_sound; exact Hu|].
  rewrite forallb_forall in Hr. intros i Hi. specialize (Hr _ Hi). cbn in Hr. apply Nat.ltb_lt. exact Hr.
Qed.

Lemma defs_okb_sound ds : defs_okb ds = true -> defs_ok ds.
Proof. unfold defs_okb, defs_ok. rewrite forallb_forall. intros H d Hd. apply def_okb_sound. apply H. exact Hd. Qed.

Lemma sig_okb_sound ds m : sig_okb ds m = true -> sig_ok ds m.
Proof.
  unfold sig_okb, sig_ok. intros H. apply andb_true_iff in H. destruct H as [H1 H2].
  split; [apply decl_okb_sound; exact H1|]. rewrite forallb_forall in H2. intros t Ht. apply use_okb_sound. apply H2. exact Ht.
Qed.

Lemma ret_lts_named ds m r : validate_method ds m = true -> In r (ret_lts m) -> r < m_n m.
Proof.
  unfold validate_method. intros H Hr. apply andb_true_iff in H. destruct H as [H _].
  rewrite forallb_forall in H. apply Nat.ltb_lt. apply H. exact Hr.
Qed.

(* C04, first sentence *)
Theorem borrow_edges_exact_b ds m r :
  defs_okb ds = true -> validate_defs ds = true -> sig_okb ds m = true -> validate_method ds m = true ->
  In r (ret_lts m) -> no_borrowed_opt_slice ds m r ->
  forall e, In e (edges_for m r) <-> spec_edge ds m r e.
Proof.
  intros H1 H2 H3 H4 Hr Hn. apply borrow_edges_exact; try assumption.
  - apply defs_okb_sound; exact H1.
  - apply sig_okb_sound; exact H3.
  - eapply ret_lts_named; eassumption.
Qed.

(* ------------------------------------------------------------------ the hypotheses are satisfiable, and each one is needed *)
Module Examples.
  (* Op;  struct S<'x, 'y: 'x> { a: &'x Op, b: &'y Op };  struct Outer<'u, 'v: 'u> { inner: S<'u, 'v> } *)
  Definition ds : defs :=
    [ mkDef 0 [] [];
      mkDef 2 [(1, [0])] [TOpaque false false (Some (Lt 0)) 0 []; TOpaque false false (Some (Lt 1)) 0 []];
      mkDef 2 [(1, [0])] [TStruct false 1 [Lt 0; Lt 1]] ].
  (* fn f<'a, 'b: 'a, 'c: 'b>(o: Outer<'a, 'b>, p: &'c Op, q: &Op) -> &'a Op *)
  Definition m : msig :=
    mkSig 3 [(1, [0]); (2, [1])] [TStruct false 2 [Lt 0; Lt 1]; TOpaque false false (Some (Lt 2)) 0 []; TOpaque false false (Some (Lt 3)) 0 []]
          [TOpaque false false (Some (Lt 0)) 0 []].

  Example hypotheses_hold :
    defs_okb ds = true /\ validate_defs ds = true /\ sig_okb ds m = true /\ validate_method ds m = true /\ In 0 (ret_lts m).
  Proof. repeat split; try (vm_compute; reflexivity). left. reflexivity. Qed.

  Example edges : edges_for m 0 = [EStruct 0 0 false; EStruct 0 1 false; EOpaque 1].
  Proof. vm_compute. reflexivity. Qed.

  (* the same method without the bound 'b: 'a that Outer requires is rejected ... *)
  Definition m_unrestated : msig :=
    mkSig 3 [(2, [1])] [TStruct false 2 [Lt 0; Lt 1]; TOpaque false false (Some (Lt 2)) 0 []; TOpaque false false (Some (Lt 3)) 0 []]
          [TOpaque false false (Some (Lt 0)) 0 []].
  Example unrestated_is_rejected : validate_method ds m_unrestated = false.
  Proof. vm_compute. reflexivity. Qed.

  (* ... and it has to be: the analysis alone would miss the 'v slot, which Rust lets the return value borrow from *)
  Example unrestated_misses_an_edge :
    spec_edge ds m_unrestated 0 (EStruct 0 1 false) /\ ~ In (EStruct 0 1 false) (edges_for m_unrestated 0).
  Proof.
    split.
    - exists 2, [Lt 0; Lt 1], 1. split; [reflexivity|split; [reflexivity|]].
      eapply Relation_Operators.rt1n_trans; [|apply Relation_Operators.rt1n_refl].
      eapply (re_use ds m_unrestated (TStruct false 2 [Lt 0; Lt 1]) 2 [Lt 0; Lt 1] 0 1 0 1); try reflexivity.
      + left. reflexivity.
      + apply wf_own. vm_compute. left. reflexivity.
    - vm_compute. intros [H|[]]. discriminate H.
  Qed.

  (* the recorded finding: fn g<'a>(s: Option<&'a [u8]>) -> &'a Op makes visit_param hit unreachable!() *)
  Definition m_opt_slice : msig := mkSig 1 [] [TSlice true (Some (Lt 0))] [TOpaque false false (Some (Lt 0)) 0 []].
  Example opt_slice_panics :
    validate_method ds m_opt_slice = true /\ edges_for m_opt_slice 0 = [EPanic 0] /\ ~ no_borrowed_opt_slice ds m_opt_slice 0.
  Proof.
    split; [vm_compute; reflexivity|]. split; [vm_compute; reflexivity|].
    intros H. apply (H 0 (Some (Lt 0)) 0); [reflexivity|left; reflexivity|apply Relation_Operators.rt1n_refl].
  Qed.

  (* impl<'h> H<'h> { fn pick<'a>(&self, other: &'a Self, x: &'h Op) -> &'a Op }: with the type written `Self` nothing is
     recorded for the reference, so the method is rejected unless 'h: 'a is declared; written as `&'a H<'h>` the implied
     bound is recorded and the method is accepted. Either way the accepted method reports `x`. *)
  Definition dh : defs := [mkDef 0 [] []; mkDef 1 [] []].
  Definition pick (sp : bool) (decl : list (nat * list nat)) : msig :=
    mkSig 2 decl [TOpaque false false (Some (Lt 2)) 1 [Lt 0]; TOpaque sp false (Some (Lt 1)) 1 [Lt 0]; TOpaque false false (Some (Lt 0)) 0 []]
          [TOpaque false false (Some (Lt 1)) 0 []].
  Example self_spelling :
    validate_method dh (pick true []) = false /\ validate_method dh (pick false []) = true /\ validate_method dh (pick true [(0, [1])]) = true /\
    edges_for (pick false []) 1 = [EOpaque 0; EOpaque 1; EOpaque 2] /\ edges_for (pick true [(0, [1])]) 1 = [EOpaque 0; EOpaque 1; EOpaque 2].
  Proof. repeat split; vm_compute; reflexivity. Qed.
End Examples.
