(* C04 / C05 — lowering of written lifetimes to HIR indices, with inference of elided ones.  Definitions only.

   Modelled code:
     core/src/hir/elision.rs   ElisionSource::visit_lifetime, BaseLifetimeLowerer::{new_elided, lower_lifetime,
                               self_lifetimes_or_new}, SelfParamLifetimeLowerer::{lower_self_ref, no_self_ref},
                               ParamLifetimeLowerer / ReturnLifetimeLowerer as LifetimeLowerer
                               (lower_lifetime, lower_lifetimes with its padding loop, lower_generics)
     core/src/hir/lowering.rs  the order in which lower_self_param / lower_type / lower_out_type hand lifetimes to the
                               lowerer: the borrow of a reference first, then the generics of the type behind it
     core/src/hir/type_context.rs validate: "Found elided lifetime in return type" (an index without bounds)

   A written lifetime is 'static, a named lifetime (its index in the method's LifetimeEnv) or anonymous ('_ or left
   out).  The result of lowering is the signature [Model.msig] the borrow analysis runs on.  [None] stands for the two
   panics of ReturnLifetimeLowerer::lower_lifetime ("nothing to borrow from" / "source of elision is ambiguous"). *)
From Coq Require Import List Arith Bool.
Import ListNotations.
From DV Require Import gen.Tables Lifetimes.Model Lifetimes.Check.

Inductive alt := AStatic | ANamed (i : nat) | AAnon.

(* the types of Model.ty as written in the source.  [ndef]: number of lifetime parameters of the type's definition
   (lower_lifetimes pads a shorter written list with anonymous lifetimes);  [sp]: written `Self` (is_self) *)
Inductive sty :=
| SPrim
| SOpaque (sp : bool) (opt : bool) (borrow : option alt) (tid : nat) (args : list alt) (ndef : nat)
| SSlice (opt : bool) (borrow : option alt)
| SStruct (sp : bool) (opt : bool) (tid : nat) (args : list alt) (ndef : nat).

(* the receiver: `&'l self` / `&'l mut self` on an opaque, `self` by value on a struct, or none *)
Inductive sself :=
| SelfNone
| SelfRef (l : alt) (tid : nat) (args : list alt)
| SelfVal (tid : nat) (args : list alt).

Record ssig := mkSSig { s_n : nat; s_decl : list (nat * list nat); s_self : sself; s_params : list sty; s_ret : list sty }.

(* ElisionSource and its transition function are regenerated from elision.rs on every run (gen/Tables.v, Tie A):
   NoBorrows | SelfParam l | OneParam l | Multiple;  visit_of;  ret_anon_of (the Anonymous arm of the return phase) *)
Definition esrc := esrc_of lt.
Definition visit : esrc -> lt -> esrc := visit_of.

(* BaseLifetimeLowerer (the nodes never change after construction) + the ElisionSource next to it *)
Record st := mkSt { src : esrc; cache : option (list lt); num : nat }.

Definition base_lower (s : st) (l : alt) : lt * st :=
  match l with
  | AStatic => (Static, s)
  | ANamed i => (Lt i, s)
  | AAnon => (Lt (num s), mkSt (src s) (cache s) (S (num s)))
  end.

(* ParamLifetimeLowerer::lower_lifetime *)
Definition param_lower (s : st) (l : alt) : lt * st :=
  let '(h, s1) := base_lower s l in (h, mkSt (visit (src s1) h) (cache s1) (num s1)).

Fixpoint map_st (f : st -> alt -> lt * st) (s : st) (ls : list alt) : list lt * st :=
  match ls with
  | [] => ([], s)
  | l :: r => let '(h, s1) := f s l in let '(hs, s2) := map_st f s1 r in (h :: hs, s2)
  end.

Definition self_lifetimes_or_new (s : st) (ls : list alt) : list lt * st :=
  match cache s with
  | Some c => (c, s)
  | None => let '(hs, s1) := map_st base_lower s ls in (hs, mkSt (src s1) (Some hs) (num s1))
  end.

(* LifetimeLowerer::lower_lifetimes: the written ones, then one anonymous lifetime per missing parameter *)
Definition pad (ls : list alt) (ndef : nat) : list alt := ls ++ repeat AAnon (ndef - length ls).

Definition param_generics (s : st) (ls : list alt) (ndef : nat) (is_self : bool) : list lt * st :=
  if is_self then self_lifetimes_or_new s ls else map_st param_lower s (pad ls ndef).

Definition param_borrow (s : st) (b : option alt) : option lt * st :=
  match b with
  | None => (None, s)
  | Some l => let '(h, s1) := param_lower s l in (Some h, s1)
  end.

Definition lower_param (s : st) (t : sty) : ty * st :=
  match t with
  | SPrim => (TPrim, s)
  | SOpaque sp opt b tid args ndef =>
      let '(hb, s1) := param_borrow s b in
      let '(hs, s2) := param_generics s1 args ndef sp in
      (TOpaque sp opt hb tid hs, s2)
  | SSlice opt b => let '(hb, s1) := param_borrow s b in (TSlice opt hb, s1)
  | SStruct sp opt tid args ndef =>
      let '(hs, s1) := param_generics s args ndef sp in (TStruct opt tid hs, s1)
  end.

Fixpoint lower_params (s : st) (ts : list sty) : list ty * st :=
  match ts with
  | [] => ([], s)
  | t :: r => let '(h, s1) := lower_param s t in let '(hs, s2) := lower_params s1 r in (h :: hs, s2)
  end.

(* lower_self_param: the self type is always lowered with is_self = true *)
Definition lower_self (n : nat) (sf : sself) : list ty * st :=
  let s0 := mkSt NoBorrows None n in
  match sf with
  | SelfNone => ([], s0)
  | SelfRef l tid args =>
      let '(h, s1) := base_lower s0 l in
      let s2 := mkSt (SelfParam h) (cache s1) (num s1) in
      let '(hs, s3) := self_lifetimes_or_new s2 args in
      ([TOpaque false false (Some h) tid hs], s3)   (* Model.ty's [sp] is about implied bounds: the receiver is recorded by name *)
  | SelfVal tid args =>
      let '(hs, s1) := self_lifetimes_or_new s0 args in
      ([TStruct false tid hs], s1)
  end.

(* ReturnLifetimeLowerer::lower_lifetime *)
Definition ret_lower (s : st) (l : alt) : option lt :=
  match l with
  | AStatic => Some Static
  | ANamed i => Some (Lt i)
  | AAnon => ret_anon_of (src s)
  end.

Fixpoint map_opt {A B} (f : A -> option B) (l : list A) : option (list B) :=
  match l with
  | [] => Some []
  | a :: r => match f a, map_opt f r with Some b, Some bs => Some (b :: bs) | _, _ => None end
  end.

Definition ret_generics (s : st) (ls : list alt) (ndef : nat) (is_self : bool) : option (list lt * st) :=
  if is_self then Some (self_lifetimes_or_new s ls)
  else match map_opt (ret_lower s) (pad ls ndef) with Some hs => Some (hs, s) | None => None end.

Definition ret_borrow (s : st) (b : option alt) : option (option lt) :=
  match b with
  | None => Some None
  | Some l => match ret_lower s l with Some h => Some (Some h) | None => None end
  end.

Definition lower_ret1 (s : st) (t : sty) : option (ty * st) :=
  match t with
  | SPrim => Some (TPrim, s)
  | SOpaque sp opt b tid args ndef =>
      match ret_borrow s b with
      | None => None
      | Some hb => match ret_generics s args ndef sp with
                   | None => None
                   | Some (hs, s1) => Some (TOpaque sp opt hb tid hs, s1)
                   end
      end
  | SSlice opt b => match ret_borrow s b with None => None | Some hb => Some (TSlice opt hb, s) end
  | SStruct sp opt tid args ndef =>
      match ret_generics s args ndef sp with
      | None => None
      | Some (hs, s1) => Some (TStruct opt tid hs, s1)
      end
  end.

Fixpoint lower_rets (s : st) (ts : list sty) : option (list ty * st) :=
  match ts with
  | [] => Some ([], s)
  | t :: r => match lower_ret1 s t with
              | None => None
              | Some (h, s1) => match lower_rets s1 r with
                                | None => None
                                | Some (hs, s2) => Some (h :: hs, s2)
                                end
              end
  end.

(* ast::LifetimeEnv is built from the *written* types before any of this runs: behind an elided borrow no `&'a T<'b>`
   bound is recorded even when elision then resolves the borrow to a named lifetime.  Model.ty's first flag stands for
   exactly that ("no implied bound recorded"), so it is set on such return types.  Not expressible with that flag, and
   kept out of the generated correspondence inputs: a *written* borrow over elided arguments (`-> &'a T<'_>`), where
   the AST records the bound for the written arguments only. *)
Definition mark (t : sty) (p : ty) : ty :=
  match t, p with
  | SOpaque _ _ (Some AAnon) _ _ _, TOpaque _ opt b tid args => TOpaque true opt b tid args
  | _, _ => p
  end.
Fixpoint marks (ts : list sty) (ps : list ty) : list ty :=
  match ts, ps with
  | t :: tr, p :: pr => mark t p :: marks tr pr
  | _, _ => ps
  end.

(* the whole method: the lowered signature and LifetimeEnv::num_lifetimes *)
Definition lower_sig (g : ssig) : option (msig * nat) :=
  let '(ps0, s0) := lower_self (s_n g) (s_self g) in
  let '(ps, s1) := lower_params s0 (s_params g) in
  match lower_rets s1 (s_ret g) with
  | None => None
  | Some (rs, s2) => Some (mkSig (s_n g) (s_decl g) (ps0 ++ ps) (marks (s_ret g) rs), num s2)
  end.

(* ---------- Rust's rule, stated without the state machine ---------- *)
(* the lifetime positions of the parameters that count for output elision: everything written in a parameter except
   the lifetimes of a type spelled `Self`; one entry per position, after padding *)
Definition sty_positions (t : sty) : list alt :=
  match t with
  | SPrim => []
  | SOpaque sp _ b _ args ndef => opt_list b ++ (if sp then [] else pad args ndef)
  | SSlice _ b => opt_list b
  | SStruct sp _ _ args ndef => if sp then [] else pad args ndef
  end.
Definition positions (ts : list sty) : list alt := flat_map sty_positions ts.

(* the receiver decides if it is a reference; otherwise exactly one position must exist *)
Inductive target := TNone | TAmbiguous | TPos (k : nat) | TSelf.
Definition rust_target (sf : sself) (ps : list sty) : target :=
  match sf with
  | SelfRef _ _ _ => TSelf
  | _ => match positions ps with
         | [] => TNone
         | [_] => TPos 0
         | _ => TAmbiguous
         end
  end.

(* written form of a signature in which every elided lifetime of the return type (outside `Self`) is spelled [l] *)
Definition spell (l : alt) (a : alt) : alt := match a with AAnon => l | _ => a end.
Definition spell_ty (l : alt) (t : sty) : sty :=
  match t with
  | SPrim => SPrim
  | SOpaque sp opt b tid args ndef =>
      SOpaque sp opt (option_map (spell l) b) tid (if sp then args else map (spell l) (pad args ndef)) ndef
  | SSlice opt b => SSlice opt (option_map (spell l) b)
  | SStruct sp opt tid args ndef => SStruct sp opt tid (if sp then args else map (spell l) (pad args ndef)) ndef
  end.
Definition spell_ret (l : alt) (g : ssig) : ssig :=
  mkSSig (s_n g) (s_decl g) (s_self g) (s_params g) (map (spell_ty l) (s_ret g)).

Definition alt_of_lt (l : lt) : alt := match l with Static => AStatic | Lt i => ANamed i end.

(* ---------- comparison with what the real lowering produced (correspondence goals) ---------- *)
Definition lt_eqb (a b : lt) : bool :=
  match a, b with Static, Static => true | Lt i, Lt j => i =? j | _, _ => false end.
(* observed: Some (hir::Type::lifetimes of self, parameters.., returned types.. ; num_lifetimes) or None for a panic *)
Definition agree_lowered (g : ssig) (obs : option (list (list lt) * list (list lt) * nat)) : bool :=
  match lower_sig g, obs with
  | None, None => true
  | Some (m, k), Some (ps, rs, k') =>
      list_eqb (list_eqb lt_eqb) (map ty_lts (m_params m)) ps
      && list_eqb (list_eqb lt_eqb) (map ty_lts (m_ret m)) rs && (k =? k')
  | _, _ => false
  end.
