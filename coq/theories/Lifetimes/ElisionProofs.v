(* C04 / C05 — facts about the lifetime-lowering state machine of Lifetimes/Elision.v. *)
From Coq Require Import List Arith Bool Lia.
Import ListNotations.
From DV Require Import gen.Tables Lifetimes.Model Lifetimes.Check Lifetimes.Elision.

(* ---------- closed forms of the state-passing maps ---------- *)
Fixpoint assign (k : nat) (ls : list alt) : list lt :=
  match ls with
  | [] => []
  | AStatic :: r => Static :: assign k r
  | ANamed i :: r => Lt i :: assign k r
  | AAnon :: r => Lt k :: assign (S k) r
  end.
Definition is_anon (a : alt) : bool := match a with AAnon => true | _ => false end.
Definition count_anon (ls : list alt) : nat := length (filter is_anon ls).

Lemma map_st_base s ls :
  map_st base_lower s ls = (assign (num s) ls, mkSt (src s) (cache s) (num s + count_anon ls)).
Proof.
  revert s; induction ls as [|a r IH]; intros [e c k]; cbn [map_st assign count_anon filter length num src cache].
  - f_equal. f_equal. lia.
  - destruct a; cbn [base_lower is_anon num src cache]; rewrite IH; cbn [num src cache count_anon];
      unfold count_anon; cbn [filter is_anon length]; f_equal; f_equal; lia.
Qed.

Lemma map_st_param s ls :
  map_st param_lower s ls =
  (assign (num s) ls, mkSt (fold_left visit (assign (num s) ls) (src s)) (cache s) (num s + count_anon ls)).
Proof.
  revert s; induction ls as [|a r IH]; intros [e c k]; cbn [map_st assign count_anon filter length num src cache fold_left].
  - f_equal. f_equal. lia.
  - destruct a; unfold param_lower; cbn [base_lower is_anon num src cache]; rewrite IH; cbn [num src cache fold_left];
      unfold count_anon; cbn [filter is_anon length]; f_equal; f_equal; lia.
Qed.

(* ---------- the elision source is Rust's rule ---------- *)
Lemma fold_visit_self hs h : fold_left visit hs (SelfParam h) = SelfParam h.
Proof. induction hs as [|x r IH]; cbn; auto. Qed.
Lemma fold_visit_multiple hs : fold_left visit hs Multiple = Multiple.
Proof. induction hs as [|x r IH]; cbn; auto. Qed.
Lemma fold_visit_one hs h : fold_left visit hs (OneParam h) = match hs with [] => OneParam h | _ => Multiple end.
Proof. destruct hs as [|x r]; cbn; auto using fold_visit_multiple. Qed.
Definition classify (hs : list lt) : esrc :=
  match hs with [] => NoBorrows | [h] => OneParam h | _ => Multiple end.
Lemma fold_visit_none hs : fold_left visit hs NoBorrows = classify hs.
Proof. destruct hs as [|x r]; cbn; auto. rewrite fold_visit_one. destruct r; auto. Qed.

(* the lowered lifetimes sitting at the positions that count (Elision.sty_positions), read off the lowered type *)
Definition pos1 (t : sty) (p : ty) : list lt :=
  match t, p with
  | SOpaque sp _ _ _ _ _, TOpaque _ _ b _ args => opt_list b ++ (if sp then [] else args)
  | SSlice _ _, TSlice _ b => opt_list b
  | SStruct sp _ _ _ _, TStruct _ _ args => if sp then [] else args
  | _, _ => []
  end.
Fixpoint lowered_positions (ts : list sty) (ps : list ty) : list lt :=
  match ts, ps with
  | t :: tr, p :: pr => pos1 t p ++ lowered_positions tr pr
  | _, _ => []
  end.

Lemma self_or_new_src s ls hs s1 : self_lifetimes_or_new s ls = (hs, s1) -> src s1 = src s.
Proof.
  unfold self_lifetimes_or_new. destruct (cache s).
  - intros H; inversion H; auto.
  - rewrite map_st_base. intros H; inversion H; auto.
Qed.

Lemma param_borrow_src s b hb s1 :
  param_borrow s b = (hb, s1) -> src s1 = fold_left visit (opt_list hb) (src s).
Proof.
  destruct b as [l|]; cbn.
  - unfold param_lower. destruct (base_lower s l) as [h s0] eqn:E. intros H; inversion H; subst; cbn.
    destruct l; cbn in E; inversion E; subst; auto.
  - intros H; inversion H; auto.
Qed.

Lemma param_generics_src s ls ndef sp hs s1 :
  param_generics s ls ndef sp = (hs, s1) -> src s1 = fold_left visit (if sp then [] else hs) (src s).
Proof.
  unfold param_generics. destruct sp.
  - intros H. apply self_or_new_src in H. auto.
  - rewrite map_st_param. intros H; inversion H; subst; auto.
Qed.

Lemma lower_param_src s t p s1 :
  lower_param s t = (p, s1) -> src s1 = fold_left visit (pos1 t p) (src s).
Proof.
  destruct t as [|sp opt b tid args ndef|opt b|sp opt tid args ndef]; cbn [lower_param].
  - intros H; inversion H; auto.
  - destruct (param_borrow s b) as [hb s0] eqn:Eb. destruct (param_generics s0 args ndef sp) as [hs s2] eqn:Eg.
    intros H; inversion H; subst. cbn [pos1]. rewrite fold_left_app.
    rewrite (param_generics_src _ _ _ _ _ _ Eg), (param_borrow_src _ _ _ _ Eb). auto.
  - destruct (param_borrow s b) as [hb s0] eqn:Eb. intros H; inversion H; subst. cbn [pos1].
    apply (param_borrow_src _ _ _ _ Eb).
  - destruct (param_generics s args ndef sp) as [hs s0] eqn:Eg. intros H; inversion H; subst. cbn [pos1].
    apply (param_generics_src _ _ _ _ _ _ Eg).
Qed.

Lemma lower_params_src ts : forall s ps s1,
  lower_params s ts = (ps, s1) -> src s1 = fold_left visit (lowered_positions ts ps) (src s).
Proof.
  induction ts as [|t r IH]; intros s ps s1; cbn [lower_params].
  - intros H; inversion H; auto.
  - destruct (lower_param s t) as [p s0] eqn:Ep. destruct (lower_params s0 r) as [pr s2] eqn:Er.
    intros H; inversion H; subst. cbn [lowered_positions]. rewrite fold_left_app.
    rewrite (IH _ _ _ Er), (lower_param_src _ _ _ _ Ep). auto.
Qed.

Definition self_borrow (ps0 : list ty) : lt :=
  match ps0 with [TOpaque _ _ (Some h) _ _] => h | _ => Static end.

(* `&self` decides; otherwise exactly one lifetime position among the parameters (lifetimes of `Self` not counted) *)
Theorem elision_source_rule g ps0 s0 ps s1 :
  lower_self (s_n g) (s_self g) = (ps0, s0) ->
  lower_params s0 (s_params g) = (ps, s1) ->
  src s1 = match s_self g with
           | SelfRef _ _ _ => SelfParam (self_borrow ps0)
           | _ => classify (lowered_positions (s_params g) ps)
           end.
Proof.
  intros Hs Hp. rewrite (lower_params_src _ _ _ _ Hp).
  unfold lower_self in Hs. destruct (s_self g) as [|l tid args|tid args].
  - inversion Hs; subst; cbn. apply fold_visit_none.
  - destruct (base_lower _ l) as [h s2] eqn:E.
    destruct (self_lifetimes_or_new _ args) as [hs s3] eqn:E2.
    inversion Hs; subst. apply self_or_new_src in E2. rewrite E2. cbn. apply fold_visit_self.
  - destruct (self_lifetimes_or_new _ args) as [hs s3] eqn:E2.
    inversion Hs; subst. apply self_or_new_src in E2. rewrite E2. cbn. apply fold_visit_none.
Qed.

(* the number of positions is that of the written signature *)
Lemma assign_length k ls : length (assign k ls) = length ls.
Proof. revert k; induction ls as [|a r IH]; intros k; cbn; auto. destruct a; cbn; rewrite IH; auto. Qed.

Lemma lower_param_positions s t p s1 :
  lower_param s t = (p, s1) -> length (pos1 t p) = length (sty_positions t).
Proof.
  destruct t as [|sp opt b tid args ndef|opt b|sp opt tid args ndef]; cbn [lower_param].
  - intros H; inversion H; auto.
  - destruct (param_borrow s b) as [hb s0] eqn:Eb. destruct (param_generics s0 args ndef sp) as [hs s2] eqn:Eg.
    intros H; inversion H; subst. cbn [pos1 sty_positions]. rewrite !app_length. f_equal.
    + destruct b; cbn in Eb; [destruct (param_lower s a)|]; inversion Eb; auto.
    + unfold param_generics in Eg. destruct sp; auto. rewrite map_st_param in Eg. inversion Eg. apply assign_length.
  - destruct (param_borrow s b) as [hb s0] eqn:Eb. intros H; inversion H; subst. cbn [pos1 sty_positions].
    destruct b; cbn in Eb; [destruct (param_lower s a)|]; inversion Eb; auto.
  - destruct (param_generics s args ndef sp) as [hs s0] eqn:Eg. intros H; inversion H; subst. cbn [pos1 sty_positions].
    unfold param_generics in Eg. destruct sp; auto. rewrite map_st_param in Eg. inversion Eg. apply assign_length.
Qed.

Lemma lower_params_positions ts : forall s ps s1,
  lower_params s ts = (ps, s1) -> length (lowered_positions ts ps) = length (positions ts).
Proof.
  induction ts as [|t r IH]; intros s ps s1; cbn [lower_params].
  - intros H; inversion H; auto.
  - destruct (lower_param s t) as [p s0] eqn:Ep. destruct (lower_params s0 r) as [pr s2] eqn:Er.
    intros H; inversion H; subst. unfold positions. cbn [lowered_positions flat_map]. rewrite !app_length.
    rewrite (lower_param_positions _ _ _ _ Ep). f_equal. apply (IH _ _ _ Er).
Qed.

(* the state machine finds a source exactly when Rust's rule (Elision.rust_target) names one *)
Definition has_source (e : esrc) : bool := match e with SelfParam _ | OneParam _ => true | _ => false end.
Definition elision_source (g : ssig) : esrc :=
  src (snd (lower_params (snd (lower_self (s_n g) (s_self g))) (s_params g))).

Theorem source_iff_rust_target g :
  has_source (elision_source g) = match rust_target (s_self g) (s_params g) with TSelf | TPos _ => true | _ => false end.
Proof.
  unfold elision_source.
  destruct (lower_self (s_n g) (s_self g)) as [ps0 s0] eqn:Es. cbn [snd].
  destruct (lower_params s0 (s_params g)) as [ps s1] eqn:Ep. cbn [snd].
  rewrite (elision_source_rule _ _ _ _ _ Es Ep). unfold rust_target.
  pose proof (lower_params_positions _ _ _ _ Ep) as L.
  destruct (s_self g); cbn; auto;
    destruct (lowered_positions (s_params g) ps) as [|x [|y r]], (positions (s_params g)) as [|a [|b q]]; cbn in *; auto; lia.
Qed.

(* ---------- an elided lifetime of the return type is the source, nothing else ---------- *)
Lemma ret_lower_target s h : ret_lower s (alt_of_lt h) = Some h.
Proof. destruct h; auto. Qed.

Lemma ret_lower_spell s h x :
  ret_lower s AAnon = Some h -> ret_lower s (spell (alt_of_lt h) x) = ret_lower s x.
Proof. intros H. destruct x; cbn [spell]; auto. rewrite H. apply ret_lower_target. Qed.

Lemma map_opt_ext {A B} (f g : A -> option B) l : (forall a, f a = g a) -> map_opt f l = map_opt g l.
Proof. intros E; induction l as [|a r IH]; cbn; auto. rewrite E, IH. auto. Qed.
Lemma map_opt_map {A B C} (f : B -> option C) (g : A -> B) l : map_opt f (map g l) = map_opt (fun a => f (g a)) l.
Proof. induction l as [|a r IH]; cbn; auto. rewrite IH. auto. Qed.

Lemma pad_length ls ndef : ndef <= length (pad ls ndef).
Proof. unfold pad. rewrite app_length, repeat_length. lia. Qed.
Lemma pad_idem ls ndef : ndef <= length ls -> pad ls ndef = ls.
Proof. intros H. unfold pad. replace (ndef - length ls) with 0 by lia. cbn. apply app_nil_r. Qed.

Lemma ret_generics_spell s h args ndef (sp : bool) :
  ret_lower s AAnon = Some h ->
  ret_generics s (if sp then args else map (spell (alt_of_lt h)) (pad args ndef)) ndef sp = ret_generics s args ndef sp.
Proof.
  intros H. unfold ret_generics. destruct sp; auto.
  rewrite pad_idem by (rewrite map_length; apply pad_length).
  rewrite map_opt_map. rewrite (map_opt_ext _ (ret_lower s)); auto. intros a. apply ret_lower_spell; auto.
Qed.

Lemma ret_borrow_spell s h b :
  ret_lower s AAnon = Some h -> ret_borrow s (option_map (spell (alt_of_lt h)) b) = ret_borrow s b.
Proof. intros H. destruct b as [l|]; cbn; auto. rewrite ret_lower_spell; auto. Qed.

Lemma lower_ret1_spell s h t :
  ret_lower s AAnon = Some h -> lower_ret1 s (spell_ty (alt_of_lt h) t) = lower_ret1 s t.
Proof.
  intros H. destruct t as [|sp opt b tid args ndef|opt b|sp opt tid args ndef]; cbn [spell_ty lower_ret1]; auto.
  - rewrite ret_borrow_spell, ret_generics_spell; auto.
  - rewrite ret_borrow_spell; auto.
  - rewrite ret_generics_spell; auto.
Qed.

Lemma ret_generics_src s ls ndef sp hs s1 : ret_generics s ls ndef sp = Some (hs, s1) -> src s1 = src s.
Proof.
  unfold ret_generics. destruct sp.
  - intros H; inversion H as [E]. apply self_or_new_src in E. auto.
  - destruct (map_opt _ _); intros H; inversion H; auto.
Qed.

Lemma lower_ret1_src s t p s1 : lower_ret1 s t = Some (p, s1) -> src s1 = src s.
Proof.
  destruct t as [|sp opt b tid args ndef|opt b|sp opt tid args ndef]; cbn [lower_ret1].
  - intros H; inversion H; auto.
  - destruct (ret_borrow s b); [|discriminate]. destruct (ret_generics s args ndef sp) as [[hs s0]|] eqn:E; [|discriminate].
    intros H; inversion H; subst. apply (ret_generics_src _ _ _ _ _ _ E).
  - destruct (ret_borrow s b); intros H; inversion H; auto.
  - destruct (ret_generics s args ndef sp) as [[hs s0]|] eqn:E; [|discriminate].
    intros H; inversion H; subst. apply (ret_generics_src _ _ _ _ _ _ E).
Qed.

Lemma lower_rets_spell ts : forall s h,
  ret_lower s AAnon = Some h -> lower_rets s (map (spell_ty (alt_of_lt h)) ts) = lower_rets s ts.
Proof.
  induction ts as [|t r IH]; intros s h H; cbn [map lower_rets]; auto.
  rewrite lower_ret1_spell by auto.
  destruct (lower_ret1 s t) as [[p s1]|] eqn:E; auto.
  rewrite IH; auto. unfold ret_lower in *. rewrite (lower_ret1_src _ _ _ _ E). auto.
Qed.

(* spellings differ in what the AST records as implied bounds, nothing else: compare up to Model.ty's first flag *)
Definition forget (t : ty) : ty :=
  match t with TOpaque _ opt b tid args => TOpaque false opt b tid args | _ => t end.
Definition forget_sig (m : msig) : msig :=
  mkSig (m_n m) (m_decl m) (map forget (m_params m)) (map forget (m_ret m)).

Lemma forget_mark t p : forget (mark t p) = forget p.
Proof. destruct t as [|sp opt [[| |]|] tid args ndef| |], p; auto. Qed.
Lemma forget_marks ts : forall ps, map forget (marks ts ps) = map forget ps.
Proof. induction ts as [|t r IH]; intros [|p pr]; cbn; auto. rewrite forget_mark, IH. auto. Qed.

(* writing the source lifetime out in place of every elided lifetime of the return type changes the lowered
   signature in nothing but that flag: the analysis of `fn f(&'a self, x: &'b T) -> &R` runs on the same lifetimes as
   that of `-> &'a R` *)
Theorem elided_return_is_source g h :
  elision_source g = SelfParam h \/ elision_source g = OneParam h ->
  option_map (fun mk => (forget_sig (fst mk), snd mk)) (lower_sig (spell_ret (alt_of_lt h) g)) =
  option_map (fun mk => (forget_sig (fst mk), snd mk)) (lower_sig g).
Proof.
  unfold elision_source, lower_sig, spell_ret. cbn [s_n s_self s_params s_ret s_decl].
  destruct (lower_self (s_n g) (s_self g)) as [ps0 s0]. cbn [snd]. destruct (lower_params s0 (s_params g)) as [ps s1]. cbn [snd].
  intros H. rewrite lower_rets_spell.
  - destruct (lower_rets s1 (s_ret g)) as [[rs s2]|]; cbn; auto.
    unfold forget_sig; cbn. rewrite !forget_marks. auto.
  - unfold ret_lower. destruct H as [H|H]; rewrite H; auto.
Qed.

(* ---------- when lowering panics ---------- *)
Definition ret_positions (t : sty) : list alt :=
  match t with
  | SPrim => []
  | SOpaque sp _ b _ args ndef => opt_list b ++ (if sp then [] else pad args ndef)
  | SSlice _ b => opt_list b
  | SStruct sp _ _ args ndef => if sp then [] else pad args ndef
  end.
Definition ret_elided (ts : list sty) : bool := existsb is_anon (flat_map ret_positions ts).

Lemma map_opt_none_iff s ls :
  has_source (src s) = false -> (map_opt (ret_lower s) ls = None <-> existsb is_anon ls = true).
Proof.
  intros H. induction ls as [|a r IH]; cbn [map_opt existsb].
  - split; discriminate.
  - destruct a; cbn [ret_lower is_anon orb].
    + destruct (map_opt (ret_lower s) r); [split; [discriminate|]; intros E; apply IH in E; discriminate | tauto].
    + destruct (map_opt (ret_lower s) r); [split; [discriminate|]; intros E; apply IH in E; discriminate | tauto].
    + destruct (src s); cbn in H; try discriminate; tauto.
Qed.

Lemma map_opt_some s ls : has_source (src s) = true -> map_opt (ret_lower s) ls <> None.
Proof.
  intros H. induction ls as [|a r IH]; cbn [map_opt]; [discriminate|].
  destruct (map_opt (ret_lower s) r); [|tauto].
  destruct a; cbn [ret_lower]; try discriminate. destruct (src s); cbn in H; discriminate.
Qed.

Lemma lower_ret1_none s t :
  has_source (src s) = false -> (lower_ret1 s t = None <-> existsb is_anon (ret_positions t) = true).
Proof.
  intros H.
  assert (B : forall b, ret_borrow s b = None <-> existsb is_anon (opt_list b) = true).
  { intros [l|]; cbn; [|split; discriminate]. destruct l; cbn; try (split; discriminate).
    destruct (src s); cbn in H; try discriminate; tauto. }
  assert (G : forall args ndef sp, ret_generics s args ndef sp = None <-> existsb is_anon (if sp then [] else pad args ndef) = true).
  { intros args ndef sp. unfold ret_generics. destruct sp; [cbn; split; discriminate|].
    rewrite <- (map_opt_none_iff s _ H). destruct (map_opt _ _); split; congruence. }
  destruct t as [|sp opt b tid args ndef|opt b|sp opt tid args ndef]; cbn [lower_ret1 ret_positions].
  - cbn; split; discriminate.
  - rewrite existsb_app, orb_true_iff, <- B, <- G.
    destruct (ret_borrow s b); [|tauto]. destruct (ret_generics s args ndef sp) as [[? ?]|]; [|tauto].
    split; [discriminate|intros [?|?]; discriminate].
  - rewrite <- B. destruct (ret_borrow s b); [split; discriminate|tauto].
  - rewrite <- G. destruct (ret_generics s args ndef sp) as [[? ?]|]; [split; discriminate|tauto].
Qed.

Lemma lower_rets_none ts : forall s,
  has_source (src s) = false -> (lower_rets s ts = None <-> ret_elided ts = true).
Proof.
  unfold ret_elided. induction ts as [|t r IH]; intros s H; cbn [lower_rets flat_map].
  - cbn; split; discriminate.
  - rewrite existsb_app, orb_true_iff, <- (lower_ret1_none s t H).
    destruct (lower_ret1 s t) as [[p s1]|] eqn:E; [|tauto].
    assert (H1 : has_source (src s1) = false) by (rewrite (lower_ret1_src _ _ _ _ E); auto).
    rewrite <- (IH s1 H1). destruct (lower_rets s1 r) as [[? ?]|]; [|tauto].
    split; [discriminate|intros [?|?]; discriminate].
Qed.

Lemma lower_ret1_some s t : has_source (src s) = true -> lower_ret1 s t <> None.
Proof.
  intros H.
  assert (B : forall b, ret_borrow s b <> None).
  { intros [l|]; cbn; [|discriminate]. destruct l; cbn; try discriminate. destruct (src s); cbn in H; discriminate. }
  assert (G : forall args ndef sp, ret_generics s args ndef sp <> None).
  { intros args ndef sp. unfold ret_generics. destruct sp; [discriminate|].
    pose proof (map_opt_some s (pad args ndef) H). destruct (map_opt _ _); congruence. }
  destruct t as [|sp opt b tid args ndef|opt b|sp opt tid args ndef]; cbn [lower_ret1]; try discriminate.
  - specialize (B b); specialize (G args ndef sp). destruct (ret_borrow s b); [|tauto].
    destruct (ret_generics s args ndef sp) as [[? ?]|]; [discriminate|tauto].
  - specialize (B b). destruct (ret_borrow s b); [discriminate|tauto].
  - specialize (G args ndef sp). destruct (ret_generics s args ndef sp) as [[? ?]|]; [discriminate|tauto].
Qed.

Lemma lower_rets_some ts : forall s, has_source (src s) = true -> lower_rets s ts <> None.
Proof.
  induction ts as [|t r IH]; intros s H; cbn [lower_rets]; [discriminate|].
  pose proof (lower_ret1_some s t H) as N. destruct (lower_ret1 s t) as [[p s1]|] eqn:E; [|tauto].
  assert (H1 : has_source (src s1) = true) by (rewrite (lower_ret1_src _ _ _ _ E); auto).
  specialize (IH s1 H1). destruct (lower_rets s1 r) as [[? ?]|]; [discriminate|tauto].
Qed.

(* the two panics of ReturnLifetimeLowerer fire exactly on signatures rustc itself refuses (E0106): an elided
   lifetime in the return type while Rust's rule names no source *)
Theorem lowering_panics_iff g :
  lower_sig g = None <->
  (ret_elided (s_ret g) = true /\
   match rust_target (s_self g) (s_params g) with TNone | TAmbiguous => True | _ => False end).
Proof.
  pose proof (source_iff_rust_target g) as R. unfold elision_source in R. unfold lower_sig.
  destruct (lower_self (s_n g) (s_self g)) as [ps0 s0]. cbn [snd] in R. destruct (lower_params s0 (s_params g)) as [ps s1]. cbn [snd] in R.
  destruct (has_source (src s1)) eqn:Hs.
  - pose proof (lower_rets_some (s_ret g) s1 Hs) as N.
    destruct (lower_rets s1 (s_ret g)) as [[rs s2]|]; [|tauto].
    split; [discriminate|]. intros [_ T]. destruct (rust_target _ _); try discriminate; tauto.
  - rewrite <- (lower_rets_none (s_ret g) s1 Hs).
    destruct (lower_rets s1 (s_ret g)) as [[rs s2]|].
    + split; [discriminate|intros [? _]; discriminate].
    + split; auto. intros _. split; auto. destruct (rust_target _ _); try discriminate; auto.
Qed.

(* ---------- Rust's outlives relation does not depend on the spelling ---------- *)
From Coq Require Import Relations.
From DV Require Import Lifetimes.Spec Lifetimes.Proofs.

Lemma ref_ops_forget n t : ref_ops n (forget t) = ref_ops n t.
Proof. destruct t; auto. Qed.
Lemma ty_use_forget t : ty_use (forget t) = ty_use t.
Proof. destruct t; auto. Qed.

Lemma flat_map_map {A B C} (f : B -> list C) (g : A -> B) l : flat_map f (map g l) = flat_map (fun a => f (g a)) l.
Proof. induction l as [|a r IH]; cbn; auto. rewrite IH. auto. Qed.

Lemma spec_ops_forget m : spec_ops (forget_sig m) = spec_ops m.
Proof.
  unfold spec_ops, forget_sig; cbn. f_equal. rewrite <- map_app, flat_map_map.
  apply flat_map_ext. intros t. apply ref_ops_forget.
Qed.

Lemma rust_edge_forget ds m u v : rust_edge ds (forget_sig m) u v <-> rust_edge ds m u v.
Proof.
  split; intros H.
  - destruct H as [u v H|t tid args x y u v Hin Hu Hw Hx Hy].
    + apply re_own. rewrite spec_ops_forget in H. auto.
    + cbn in Hin. rewrite <- map_app in Hin. apply in_map_iff in Hin. destruct Hin as [t0 [E Hin]]. subst t.
      rewrite ty_use_forget in Hu. eapply re_use; eauto.
  - destruct H as [u v H|t tid args x y u v Hin Hu Hw Hx Hy].
    + apply re_own. rewrite spec_ops_forget. auto.
    + apply (re_use ds (forget_sig m) (forget t) tid args x y u v); auto.
      * cbn. rewrite <- map_app. apply in_map. auto.
      * rewrite ty_use_forget. auto.
Qed.

Lemma outlives_forget ds m r x : outlives ds (forget_sig m) r x <-> outlives ds m r x.
Proof.
  unfold outlives. split; intros H; induction H as [|a b c Hab Hbc IH]; try constructor.
  - econstructor; [apply rust_edge_forget; eauto|auto].
  - econstructor; [apply rust_edge_forget; eauto|auto].
Qed.

Lemma spec_edge_forget ds m r e : spec_edge ds (forget_sig m) r e <-> spec_edge ds m r e.
Proof.
  destruct e as [p|p|p slot opt|p]; cbn [spec_edge forget_sig m_params]; try tauto.
  - split.
    + intros (sp & opt & b & tid & args & u & Hn & Hi & Ho).
      rewrite nth_error_map in Hn. destruct (nth_error (m_params m) p) as [t|] eqn:E; [|discriminate].
      destruct t; cbn in Hn; inversion Hn; subst. apply (proj1 (outlives_forget _ _ _ _)) in Ho. do 6 eexists. split; [reflexivity|split; eauto].
    + intros (sp & opt & b & tid & args & u & Hn & Hi & Ho).
      exists false, opt, b, tid, args, u. rewrite nth_error_map, Hn. cbn. split; auto. split; auto. apply outlives_forget; auto.
  - split.
    + intros (opt & b & u & Hn & Hi & Ho).
      rewrite nth_error_map in Hn. destruct (nth_error (m_params m) p) as [t|] eqn:E; [|discriminate].
      destruct t; cbn in Hn; inversion Hn; subst. apply (proj1 (outlives_forget _ _ _ _)) in Ho. do 3 eexists. split; [reflexivity|split; eauto].
    + intros (opt & b & u & Hn & Hi & Ho).
      exists opt, b, u. rewrite nth_error_map, Hn. cbn. split; auto. split; auto. apply outlives_forget; auto.
  - split.
    + intros (tid & args & u & Hn & Hi & Ho).
      rewrite nth_error_map in Hn. destruct (nth_error (m_params m) p) as [t|] eqn:E; [|discriminate].
      destruct t; cbn in Hn; inversion Hn; subst. apply (proj1 (outlives_forget _ _ _ _)) in Ho. do 3 eexists. split; [reflexivity|split; eauto].
    + intros (tid & args & u & Hn & Hi & Ho).
      exists tid, args, u. rewrite nth_error_map, Hn. cbn. split; auto. split; auto. apply outlives_forget; auto.
Qed.

(* For a method written with an elided return lifetime and accepted by validation, the inputs the analysis reports
   are exactly those Rust's rules require for the same method with the source lifetime written out. *)
Theorem elided_return_edges g h ds m k m' k' r :
  elision_source g = SelfParam h \/ elision_source g = OneParam h ->
  lower_sig g = Some (m, k) -> lower_sig (spell_ret (alt_of_lt h) g) = Some (m', k') ->
  defs_okb ds = true -> validate_defs ds = true -> sig_okb ds m = true -> validate_method ds m = true ->
  In r (ret_lts m) -> no_borrowed_opt_slice ds m r ->
  k = k' /\ forall e, In e (edges_for m r) <-> spec_edge ds m' r e.
Proof.
  intros Hs Hm Hm' Hd Hv Hk Hvm Hr Hn.
  pose proof (elided_return_is_source g h Hs) as E. rewrite Hm, Hm' in E. cbn in E.
  assert (F : forget_sig m' = forget_sig m) by congruence.
  split; [congruence|]. intros e.
  rewrite (borrow_edges_exact_b ds m r Hd Hv Hk Hvm Hr Hn e).
  rewrite <- (spec_edge_forget ds m r e), <- (spec_edge_forget ds m' r e), F. tauto.
Qed.

(* ---------- an elided return lifetime whose source is itself anonymous is refused by validation ---------- *)
Lemma map_opt_in s h ls hs :
  ret_lower s AAnon = Some h -> map_opt (ret_lower s) ls = Some hs -> existsb is_anon ls = true -> In h hs.
Proof.
  intros Hh. revert hs. induction ls as [|a r IH]; intros hs; cbn [map_opt existsb]; [discriminate|].
  destruct (ret_lower s a) as [x|] eqn:Ea; [|discriminate].
  destruct (map_opt (ret_lower s) r) as [xs|]; [|discriminate].
  intros H; inversion H; subst. rewrite orb_true_iff. intros [A|A].
  - destruct a; try discriminate. left. congruence.
  - right. apply IH; auto.
Qed.

Lemma lower_ret1_elided_in s h t p s1 :
  ret_lower s AAnon = Some h -> lower_ret1 s t = Some (p, s1) ->
  existsb is_anon (ret_positions t) = true -> In h (ty_lts p).
Proof.
  intros Hh.
  assert (B : forall b hb, ret_borrow s b = Some hb -> existsb is_anon (opt_list b) = true -> In h (opt_list hb)).
  { intros [l|] hb; cbn; [|discriminate]. destruct (ret_lower s l) eqn:E; [|discriminate].
    intros H; inversion H; subst. destruct l; cbn; try discriminate. intros _. left. congruence. }
  assert (G : forall args ndef (sp : bool) hs s2, ret_generics s args ndef sp = Some (hs, s2) ->
              existsb is_anon (if sp then [] else pad args ndef) = true -> In h hs).
  { intros args ndef sp hs s2. unfold ret_generics. destruct sp; [cbn; discriminate|].
    destruct (map_opt _ _) as [xs|] eqn:E; [|discriminate]. intros H; inversion H; subst. apply (map_opt_in _ h _ _ Hh E). }
  destruct t as [|sp opt b tid args ndef|opt b|sp opt tid args ndef]; cbn [lower_ret1 ret_positions].
  - cbn. discriminate.
  - destruct (ret_borrow s b) as [hb|] eqn:Eb; [|discriminate].
    destruct (ret_generics s args ndef sp) as [[hs s2]|] eqn:Eg; [|discriminate].
    intros H; inversion H; subst. rewrite existsb_app, orb_true_iff. cbn [ty_lts]. rewrite in_app_iff.
    intros [A|A]; [right; eapply B; eauto|left; eapply G; eauto].
  - destruct (ret_borrow s b) as [hb|] eqn:Eb; [|discriminate]. intros H; inversion H; subst. cbn [ty_lts]. eapply B; eauto.
  - destruct (ret_generics s args ndef sp) as [[hs s2]|] eqn:Eg; [|discriminate].
    intros H; inversion H; subst. cbn [ty_lts]. eapply G; eauto.
Qed.

Lemma ty_lts_mark t p : ty_lts (mark t p) = ty_lts p.
Proof. destruct t as [|sp opt [[| |]|] tid args ndef| |], p; auto. Qed.
Lemma ty_lts_marks ts : forall ps, flat_map ty_lts (marks ts ps) = flat_map ty_lts ps.
Proof. induction ts as [|t r IH]; intros [|p pr]; cbn; auto. rewrite ty_lts_mark, IH. auto. Qed.

Lemma lower_rets_elided_in ts : forall s h rs s2,
  ret_lower s AAnon = Some h -> lower_rets s ts = Some (rs, s2) -> ret_elided ts = true -> In h (flat_map ty_lts rs).
Proof.
  unfold ret_elided. induction ts as [|t r IH]; intros s h rs s2 Hh; cbn [lower_rets flat_map]; [cbn; discriminate|].
  destruct (lower_ret1 s t) as [[p s1]|] eqn:E1; [|discriminate].
  destruct (lower_rets s1 r) as [[pr s3]|] eqn:E2; [|discriminate].
  intros H; inversion H; subst. rewrite existsb_app, orb_true_iff. cbn [flat_map]. rewrite in_app_iff. intros [A|A].
  - left. eapply lower_ret1_elided_in; eauto.
  - right. assert (Hh1 : ret_lower s1 AAnon = Some h) by (unfold ret_lower in *; rewrite (lower_ret1_src _ _ _ _ E1); auto).
    eapply IH; eauto.
Qed.

(* "Found elided lifetime in return type": when the source of elision is not a named lifetime (`fn f(&self) -> &T`,
   `fn f(x: &T) -> &T`), validation refuses the method, for any type definitions *)
Theorem elided_return_of_anonymous_source_rejected g i m k ds :
  (elision_source g = SelfParam (Lt i) \/ elision_source g = OneParam (Lt i)) -> s_n g <= i ->
  ret_elided (s_ret g) = true -> lower_sig g = Some (m, k) -> validate_method ds m = false.
Proof.
  unfold elision_source, lower_sig.
  destruct (lower_self (s_n g) (s_self g)) as [ps0 s0]. cbn [snd]. destruct (lower_params s0 (s_params g)) as [ps s1]. cbn [snd].
  intros Hs Hi He. destruct (lower_rets s1 (s_ret g)) as [[rs s2]|] eqn:E; [|discriminate].
  intros H; inversion H; subst. clear H.
  assert (Hh : ret_lower s1 AAnon = Some (Lt i)) by (unfold ret_lower; destruct Hs as [Hs|Hs]; rewrite Hs; auto).
  pose proof (lower_rets_elided_in _ _ _ _ _ Hh E He) as Hin.
  unfold validate_method. apply andb_false_iff. left. cbn [m_n].
  apply not_true_is_false. intros F. rewrite forallb_forall in F.
  assert (Hr : In i (ret_lts (mkSig (s_n g) (s_decl g) (ps0 ++ ps) (marks (s_ret g) rs)))).
  { unfold ret_lts. cbn [m_ret]. rewrite ty_lts_marks. unfold nonstatic. apply in_flat_map. exists (Lt i). split; auto. left; auto. }
  specialize (F i Hr). apply Nat.ltb_lt in F. lia.
Qed.

(* ---------- every lowered lifetime lies inside the method's LifetimeEnv ---------- *)
Definition alt_ok (n : nat) (a : alt) : Prop := match a with ANamed i => i < n | _ => True end.
Definition below (k : nat) (l : lt) : Prop := match l with Static => True | Lt i => i < k end.
Definition sty_alts (t : sty) : list alt :=
  match t with
  | SPrim => []
  | SOpaque _ _ b _ args _ => opt_list b ++ args
  | SSlice _ b => opt_list b
  | SStruct _ _ _ args _ => args
  end.
Definition self_alts (sf : sself) : list alt :=
  match sf with SelfNone => [] | SelfRef l _ args => l :: args | SelfVal _ args => args end.
Definition ssig_ok (g : ssig) : Prop :=
  Forall (alt_ok (s_n g)) (self_alts (s_self g) ++ flat_map sty_alts (s_params g) ++ flat_map sty_alts (s_ret g)).

Definition src_below (k : nat) (e : esrc) : Prop :=
  match e with SelfParam h | OneParam h => below k h | _ => True end.
Definition cache_below (k : nat) (c : option (list lt)) : Prop :=
  match c with Some hs => Forall (below k) hs | None => True end.
Definition sinv (n : nat) (s : st) : Prop := n <= num s /\ src_below (num s) (src s) /\ cache_below (num s) (cache s).

Lemma below_mono k k' l : k <= k' -> below k l -> below k' l.
Proof. destruct l; cbn; auto. lia. Qed.
Lemma Forall_below_mono k k' ls : k <= k' -> Forall (below k) ls -> Forall (below k') ls.
Proof. intros H F. eapply Forall_impl; [|exact F]. intros a. apply below_mono; auto. Qed.
Lemma src_below_mono k k' e : k <= k' -> src_below k e -> src_below k' e.
Proof. destruct e; cbn; auto; apply below_mono. Qed.
Lemma cache_below_mono k k' c : k <= k' -> cache_below k c -> cache_below k' c.
Proof. destruct c; cbn; auto. apply Forall_below_mono. Qed.

Lemma assign_below n ls : forall k, Forall (alt_ok n) ls -> n <= k -> Forall (below (k + count_anon ls)) (assign k ls).
Proof.
  induction ls as [|a r IH]; intros k F Hk; cbn [assign]; [constructor|].
  inversion F as [|a' r' Ha Hr]; subst. unfold count_anon in *.
  destruct a; cbn [filter is_anon length].
  - constructor; [exact I|]. apply IH; auto.
  - constructor; [cbn in *; lia|]. apply IH; auto.
  - constructor; [cbn; lia|]. replace (k + S (length (filter is_anon r))) with (S k + length (filter is_anon r)) by lia.
    apply IH; auto.
Qed.

Lemma fold_visit_below k hs : forall e, src_below k e -> Forall (below k) hs -> src_below k (fold_left visit hs e).
Proof.
  induction hs as [|h r IH]; intros e He F; cbn [fold_left]; auto.
  inversion F; subst. apply IH; auto. destruct e; cbn in *; auto.
Qed.

Lemma self_or_new_below n s ls hs s1 :
  self_lifetimes_or_new s ls = (hs, s1) -> sinv n s -> Forall (alt_ok n) ls ->
  sinv n s1 /\ num s <= num s1 /\ Forall (below (num s1)) hs.
Proof.
  unfold self_lifetimes_or_new, sinv. intros H [Hn [Hs Hc]] F. destruct (cache s) as [c|] eqn:Ec.
  - inversion H; subst. rewrite Ec. cbn in Hc. auto.
  - rewrite map_st_base in H. inversion H; subst. cbn [num src cache].
    pose proof (assign_below n ls (num s) F Hn) as A.
    repeat split; auto; try lia. eapply src_below_mono; [|exact Hs]. lia.
Qed.

Lemma param_map_below n s ls hs s1 :
  map_st param_lower s ls = (hs, s1) -> sinv n s -> Forall (alt_ok n) ls ->
  sinv n s1 /\ num s <= num s1 /\ Forall (below (num s1)) hs.
Proof.
  rewrite map_st_param. unfold sinv. intros H [Hn [Hs Hc]] F. inversion H; subst. cbn [num src cache].
  pose proof (assign_below n ls (num s) F Hn) as A.
  repeat split; auto; try lia.
  - apply fold_visit_below; auto. eapply src_below_mono; [|exact Hs]. lia.
  - eapply cache_below_mono; [|exact Hc]. lia.
Qed.

Lemma pad_ok n ls ndef : Forall (alt_ok n) ls -> Forall (alt_ok n) (pad ls ndef).
Proof. intros F. unfold pad. apply Forall_app. split; auto. apply Forall_forall. intros a Ha. apply repeat_spec in Ha. subst. exact I. Qed.

Lemma param_generics_below n s ls ndef sp hs s1 :
  param_generics s ls ndef sp = (hs, s1) -> sinv n s -> Forall (alt_ok n) ls ->
  sinv n s1 /\ num s <= num s1 /\ Forall (below (num s1)) hs.
Proof.
  unfold param_generics. destruct sp; intros H I F.
  - eapply self_or_new_below; eauto.
  - eapply param_map_below; eauto. apply pad_ok; auto.
Qed.

Lemma param_borrow_below n s b hb s1 :
  param_borrow s b = (hb, s1) -> sinv n s -> Forall (alt_ok n) (opt_list b) ->
  sinv n s1 /\ num s <= num s1 /\ Forall (below (num s1)) (opt_list hb).
Proof.
  destruct b as [l|]; cbn [param_borrow opt_list]; intros H I F.
  - destruct (param_lower s l) as [h s0] eqn:E. inversion H; subst.
    assert (M : map_st param_lower s [l] = ([h], s1)) by (cbn [map_st]; rewrite E; auto).
    destruct (param_map_below n _ _ _ _ M I F) as [A [B C]]. cbn [opt_list]. auto.
  - inversion H; subst. cbn. repeat split; auto; apply I.
Qed.

Definition ty_below (k : nat) (t : ty) : Prop := Forall (below k) (ty_lts t).

Lemma lower_param_below n s t p s1 :
  lower_param s t = (p, s1) -> sinv n s -> Forall (alt_ok n) (sty_alts t) ->
  sinv n s1 /\ num s <= num s1 /\ ty_below (num s1) p.
Proof.
  unfold ty_below. destruct t as [|sp opt b tid args ndef|opt b|sp opt tid args ndef]; cbn [lower_param sty_alts]; intros H I F.
  - inversion H; subst. cbn. repeat split; auto; apply I.
  - apply Forall_app in F. destruct F as [Fb Fa].
    destruct (param_borrow s b) as [hb s0] eqn:Eb. destruct (param_generics s0 args ndef sp) as [hs s2] eqn:Eg.
    inversion H; subst. destruct (param_borrow_below n _ _ _ _ Eb I Fb) as [I0 [L0 B0]].
    destruct (param_generics_below n _ _ _ _ _ _ Eg I0 Fa) as [I2 [L2 B2]].
    repeat split; try apply I2; try lia. cbn [ty_lts]. apply Forall_app. split; auto. eapply Forall_below_mono; [|exact B0]. lia.
  - destruct (param_borrow s b) as [hb s0] eqn:Eb. inversion H; subst.
    destruct (param_borrow_below n _ _ _ _ Eb I F) as [I0 [L0 B0]]. auto.
  - destruct (param_generics s args ndef sp) as [hs s0] eqn:Eg. inversion H; subst.
    destruct (param_generics_below n _ _ _ _ _ _ Eg I F) as [I0 [L0 B0]]. auto.
Qed.

Lemma lower_params_below n ts : forall s ps s1,
  lower_params s ts = (ps, s1) -> sinv n s -> Forall (alt_ok n) (flat_map sty_alts ts) ->
  sinv n s1 /\ num s <= num s1 /\ Forall (ty_below (num s1)) ps.
Proof.
  induction ts as [|t r IH]; intros s ps s1; cbn [lower_params flat_map]; intros H I F.
  - inversion H; subst. repeat split; auto; apply I.
  - apply Forall_app in F. destruct F as [Ft Fr].
    destruct (lower_param s t) as [p s0] eqn:Ep. destruct (lower_params s0 r) as [pr s2] eqn:Er. inversion H; subst.
    destruct (lower_param_below n _ _ _ _ Ep I Ft) as [I0 [L0 B0]].
    destruct (IH _ _ _ Er I0 Fr) as [I2 [L2 B2]].
    repeat split; try apply I2; try lia. constructor; auto. unfold ty_below in *. eapply Forall_below_mono; [|exact B0]. lia.
Qed.

Lemma lower_self_below n sf ps0 s0 :
  lower_self n sf = (ps0, s0) -> Forall (alt_ok n) (self_alts sf) ->
  sinv n s0 /\ Forall (ty_below (num s0)) ps0.
Proof.
  assert (I0 : sinv n (mkSt NoBorrows None n)) by (unfold sinv; cbn; auto).
  unfold lower_self. destruct sf as [|l tid args|tid args]; cbn [self_alts]; intros H F.
  - inversion H; subst. split; auto.
  - inversion F as [|a r Fl Fa]; subst.
    destruct (base_lower _ l) as [h s1] eqn:E.
    assert (Hh : below (num s1) h /\ n <= num s1 /\ cache s1 = None).
    { destruct l; cbn in E; inversion E; subst; cbn in *; repeat split; auto; lia. }
    destruct Hh as [Hh [Hn Hc]].
    destruct (self_lifetimes_or_new _ args) as [hs s3] eqn:E2. inversion H; subst.
    assert (I1 : sinv n (mkSt (SelfParam h) (cache s1) (num s1))) by (unfold sinv; cbn [num src cache]; rewrite Hc; cbn; auto).
    destruct (self_or_new_below n _ _ _ _ E2 I1 Fa) as [I3 [L3 B3]]. split; auto.
    constructor; auto. unfold ty_below. cbn [ty_lts opt_list]. apply Forall_app. split; auto.
    constructor; auto. eapply below_mono; [|exact Hh]. exact L3.
  - destruct (self_lifetimes_or_new _ args) as [hs s3] eqn:E2. inversion H; subst.
    destruct (self_or_new_below n _ _ _ _ E2 I0 F) as [I3 [L3 B3]]. split; auto.
Qed.

Lemma ret_lower_below n s l h : ret_lower s l = Some h -> sinv n s -> alt_ok n l -> below (num s) h.
Proof.
  unfold sinv. intros H [Hn [Hs Hc]] A. destruct l; cbn in H.
  - inversion H; subst. exact I.
  - inversion H; subst. cbn in *. lia.
  - destruct (src s); inversion H; subst; auto.
Qed.

Lemma map_opt_below n s ls hs :
  map_opt (ret_lower s) ls = Some hs -> sinv n s -> Forall (alt_ok n) ls -> Forall (below (num s)) hs.
Proof.
  revert hs. induction ls as [|a r IH]; intros hs; cbn [map_opt]; intros H I F.
  - inversion H; subst. constructor.
  - inversion F; subst. destruct (ret_lower s a) as [x|] eqn:E; [|discriminate].
    destruct (map_opt (ret_lower s) r) as [xs|]; [|discriminate]. inversion H; subst.
    constructor; [eapply ret_lower_below; eauto|auto].
Qed.

Lemma lower_ret1_below n s t p s1 :
  lower_ret1 s t = Some (p, s1) -> sinv n s -> Forall (alt_ok n) (sty_alts t) ->
  sinv n s1 /\ num s <= num s1 /\ ty_below (num s1) p.
Proof.
  unfold ty_below.
  assert (B : forall b hb, ret_borrow s b = Some hb -> sinv n s -> Forall (alt_ok n) (opt_list b) -> Forall (below (num s)) (opt_list hb)).
  { intros [l|] hb; cbn; intros H I F.
    - destruct (ret_lower s l) eqn:E; [|discriminate]. inversion H; subst. inversion F; subst. constructor; [eapply ret_lower_below; eauto|constructor].
    - inversion H; subst. constructor. }
  assert (G : forall args ndef sp hs s2, ret_generics s args ndef sp = Some (hs, s2) -> sinv n s -> Forall (alt_ok n) args ->
              sinv n s2 /\ num s <= num s2 /\ Forall (below (num s2)) hs).
  { intros args ndef sp hs s2. unfold ret_generics. destruct sp; intros H I F.
    - inversion H as [E]. eapply self_or_new_below; eauto.
    - destruct (map_opt _ _) as [xs|] eqn:E; [|discriminate]. inversion H; subst.
      repeat split; auto; try apply I. eapply map_opt_below; eauto. apply pad_ok; auto. }
  destruct t as [|sp opt b tid args ndef|opt b|sp opt tid args ndef]; cbn [lower_ret1 sty_alts]; intros H I F.
  - inversion H; subst. cbn. repeat split; auto; apply I.
  - apply Forall_app in F. destruct F as [Fb Fa].
    destruct (ret_borrow s b) as [hb|] eqn:Eb; [|discriminate].
    destruct (ret_generics s args ndef sp) as [[hs s2]|] eqn:Eg; [|discriminate]. inversion H; subst.
    destruct (G _ _ _ _ _ Eg I Fa) as [I2 [L2 B2]].
    repeat split; try apply I2; try lia. cbn [ty_lts]. apply Forall_app. split; auto.
    eapply Forall_below_mono; [|exact (B _ _ Eb I Fb)]. lia.
  - destruct (ret_borrow s b) as [hb|] eqn:Eb; [|discriminate]. inversion H; subst.
    repeat split; auto; try apply I. cbn [ty_lts]. eapply B; eauto.
  - destruct (ret_generics s args ndef sp) as [[hs s2]|] eqn:Eg; [|discriminate]. inversion H; subst.
    destruct (G _ _ _ _ _ Eg I F) as [I2 [L2 B2]]. auto.
Qed.

Lemma lower_rets_below n ts : forall s rs s1,
  lower_rets s ts = Some (rs, s1) -> sinv n s -> Forall (alt_ok n) (flat_map sty_alts ts) ->
  sinv n s1 /\ num s <= num s1 /\ Forall (ty_below (num s1)) rs.
Proof.
  induction ts as [|t r IH]; intros s rs s1; cbn [lower_rets flat_map]; intros H I F.
  - inversion H; subst. repeat split; auto; apply I.
  - apply Forall_app in F. destruct F as [Ft Fr].
    destruct (lower_ret1 s t) as [[p s0]|] eqn:Ep; [|discriminate].
    destruct (lower_rets s0 r) as [[pr s2]|] eqn:Er; [|discriminate]. inversion H; subst.
    destruct (lower_ret1_below n _ _ _ _ Ep I Ft) as [I0 [L0 B0]].
    destruct (IH _ _ _ Er I0 Fr) as [I2 [L2 B2]].
    repeat split; try apply I2; try lia. constructor; auto. unfold ty_below in *. eapply Forall_below_mono; [|exact B0]. lia.
Qed.

(* every lifetime the lowering hands to the borrow analysis and to the backends is 'static or an index below
   LifetimeEnv::num_lifetimes: LifetimeEnv::fmt_lifetime cannot reach its "Found out of range lifetime" panic on a
   lifetime of the method's own signature *)
Theorem lowered_lifetimes_in_range g m k :
  ssig_ok g -> lower_sig g = Some (m, k) ->
  s_n g <= k /\ Forall (below k) (flat_map ty_lts (m_params m ++ m_ret m)).
Proof.
  unfold ssig_ok, lower_sig. intros W.
  apply Forall_app in W. destruct W as [Ws W]. apply Forall_app in W. destruct W as [Wp Wr].
  destruct (lower_self (s_n g) (s_self g)) as [ps0 s0] eqn:Es.
  destruct (lower_params s0 (s_params g)) as [ps s1] eqn:Ep.
  destruct (lower_rets s1 (s_ret g)) as [[rs s2]|] eqn:Er; [|discriminate].
  intros H; inversion H; subst. clear H.
  destruct (lower_self_below _ _ _ _ Es Ws) as [I0 B0].
  destruct (lower_params_below _ _ _ _ _ Ep I0 Wp) as [I1 [L1 B1]].
  destruct (lower_rets_below _ _ _ _ _ Er I1 Wr) as [I2 [L2 B2]].
  split; [apply I2|]. cbn [m_params m_ret]. rewrite flat_map_app, flat_map_app, ty_lts_marks.
  assert (FM : forall K ts, Forall (ty_below K) ts -> Forall (below K) (flat_map ty_lts ts)).
  { intros K ts F. induction F as [|t r Ht Hr IH]; cbn; [constructor|]. apply Forall_app. split; auto. }
  repeat (apply Forall_app; split).
  - eapply Forall_below_mono; [|apply FM; exact B0]. lia.
  - eapply Forall_below_mono; [|apply FM; exact B1]. lia.
  - apply FM; auto.
Qed.
