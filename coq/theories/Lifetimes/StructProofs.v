(* C04 — the struct accessors evaluate to exactly the fields that carry the lifetime *)
From Coq Require Import List Arith Bool Lia.
Import ListNotations.
From DV Require Import Lifetimes.Model Lifetimes.Proofs Lifetimes.Struct.

Lemma inner_slots_In args l slot : In slot (inner_slots args l) <-> nth_error args slot = Some (Lt l).
Proof.
  unfold inner_slots. rewrite in_flat_map. split.
  - intros [[i a] [Hin H]]. apply In_combine_seq_iff in Hin. destruct Hin as [k [-> Hk]]. cbn [fst snd] in H.
    destruct a as [|u]; [destruct H|]. destruct (Nat.eqb_spec u l) as [->|]; [|destruct H]. destruct H as [<-|[]]. exact Hk.
  - intros H. exists (slot, Lt l). split; [apply In_combine_seq_iff; exists slot; split; [reflexivity|exact H]|].
    cbn [fst snd]. rewrite Nat.eqb_refl. left. reflexivity.
Qed.

Lemma uses_struct o tid args l : uses (TStruct o tid args) l = true <-> exists slot, nth_error args slot = Some (Lt l).
Proof.
  unfold uses. cbn [ty_lts]. rewrite existsb_exists. split.
  - intros [a [Ha H]]. destruct a as [|u]; [discriminate|]. apply Nat.eqb_eq in H. subst u.
    apply In_nth_error in Ha. exact Ha.
  - intros [slot H]. exists (Lt l). split; [eapply nth_error_In; exact H|apply Nat.eqb_refl].
Qed.

Definition is_struct_ty (t : ty) : bool := match t with TStruct _ _ _ => true | _ => false end.

Lemma accessor_In d l a : In a (accessor d l) <->
  exists fi t, nth_error (d_fields d) fi = Some t /\
    ((is_struct_ty t = false /\ uses t l = true /\ a = AField fi) \/
     (exists o tid args slot, t = TStruct o tid args /\ nth_error args slot = Some (Lt l) /\ a = ANested fi slot)).
Proof.
  unfold accessor. rewrite in_flat_map. split.
  - intros [[fi t] [Hin H]]. apply In_combine_seq_iff in Hin. destruct Hin as [k [-> Hk]]. cbn [fst snd] in H.
    exists k, t. split; [exact Hk|]. destruct (uses t l) eqn:Hu; [|destruct H].
    destruct t as [|o b tid args|o b|o tid args]; try (destruct H as [<-|[]]; left; repeat split; assumption).
    right. apply in_map_iff in H. destruct H as [slot [<- Hs]]. apply inner_slots_In in Hs. exists o, tid, args, slot. repeat split; assumption.
  - intros [fi [t [Hn H]]]. exists (fi, t). split; [apply In_combine_seq_iff; exists fi; split; [reflexivity|exact Hn]|]. cbn [fst snd].
    destruct H as [(Hs & Hu & ->)|(o & tid & args & slot & -> & Hslot & ->)].
    + rewrite Hu. destruct t; try (left; reflexivity). discriminate Hs.
    + assert (Hu : uses (TStruct o tid args) l = true) by (apply uses_struct; exists slot; exact Hslot). rewrite Hu.
      apply in_map. apply inner_slots_In. exact Hslot.
Qed.

Lemma sdepth_child ds f tid fi o tid' args :
  sdepth_le ds f tid = true -> nth_error (d_fields (def_of ds tid)) fi = Some (TStruct o tid' args) ->
  exists f', f = S f' /\ sdepth_le ds f' tid' = true.
Proof.
  intros H Hn. destruct f as [|f']; cbn [sdepth_le] in H; rewrite forallb_forall in H; specialize (H _ (nth_error_In _ _ Hn)); cbn in H.
  - discriminate.
  - exists f'. split; [reflexivity|exact H].
Qed.

(* THEOREM: for structs nested to any depth, `_fieldsForLifetimeX` yields exactly the fields carrying the lifetime plugged into X *)
Theorem expand_exact ds : forall f tid l p,
  sdepth_le ds f tid = true -> (In p (expand ds (S f) tid l) <-> carries ds tid l p).
Proof.
  induction f as [|f IH]; intros tid l p Hd.
  - cbn [expand]. rewrite in_flat_map. split.
    + intros [a [Ha Hp]]. apply accessor_In in Ha. destruct Ha as [fi [t [Hn [(Hs & Hu & ->)|(o & tid' & args & slot & -> & Hslot & ->)]]]].
      * destruct Hp as [<-|[]]. eapply c_leaf; [exact Hn| |exact Hu]. intros o tid' args ->. discriminate Hs.
      * destruct (sdepth_child ds 0 tid fi o tid' args Hd Hn) as [f' [Hf _]]. discriminate Hf.
    + intros Hc. inversion Hc as [? ? fi t Hn Hns Hu|? ? fi o tid' args slot q Hn Hslot Hq]; subst.
      * exists (AField fi). split; [|left; reflexivity]. apply accessor_In. exists fi, t. split; [exact Hn|]. left.
        repeat split; [destruct t; try reflexivity; exfalso; eapply Hns; reflexivity|exact Hu].
      * destruct (sdepth_child ds 0 tid fi o tid' args Hd Hn) as [f' [Hf _]]. discriminate Hf.
  - cbn [expand]. rewrite in_flat_map. split.
    + intros [a [Ha Hp]]. apply accessor_In in Ha. destruct Ha as [fi [t [Hn [(Hs & Hu & ->)|(o & tid' & args & slot & -> & Hslot & ->)]]]].
      * destruct Hp as [<-|[]]. eapply c_leaf; [exact Hn| |exact Hu]. intros o tid' args ->. discriminate Hs.
      * rewrite Hn in Hp. apply in_map_iff in Hp. destruct Hp as [q [<- Hq]].
        destruct (sdepth_child ds (S f) tid fi o tid' args Hd Hn) as [f' [Hf Hd']]. inversion Hf; subst f'.
        eapply c_nested; [exact Hn|exact Hslot|]. apply (IH tid' slot q Hd'). exact Hq.
    + intros Hc. inversion Hc as [? ? fi t Hn Hns Hu|? ? fi o tid' args slot q Hn Hslot Hq]; subst.
      * exists (AField fi). split; [|left; reflexivity]. apply accessor_In. exists fi, t. split; [exact Hn|]. left.
        repeat split; [destruct t; try reflexivity; exfalso; eapply Hns; reflexivity|exact Hu].
      * exists (ANested fi slot). split.
        -- apply accessor_In. exists fi, (TStruct o tid' args). split; [exact Hn|]. right. exists o, tid', args, slot. repeat split. exact Hslot.
        -- rewrite Hn. apply in_map.
           destruct (sdepth_child ds (S f) tid fi o tid' args Hd Hn) as [f' [Hf Hd']]. inversion Hf; subst f'.
           apply (IH tid' slot q Hd'). exact Hq.
Qed.

Example expand_example :
  (* Inner<'x,'y> { a: &'x Op, b: &'y Op }; Outer<'u> { inner: Inner<'u,'u>, o: &'u Op } *)
  let ds := [mkDef 0 [] []; mkDef 2 [] [TOpaque false false (Some (Lt 0)) 0 []; TOpaque false false (Some (Lt 1)) 0 []];
             mkDef 1 [] [TStruct false 1 [Lt 0; Lt 0]; TOpaque false false (Some (Lt 0)) 0 []]] in
  sdepth_le ds 1 2 = true /\ accessor (def_of ds 2) 0 = [ANested 0 0; ANested 0 1; AField 1] /\
  expand ds 2 2 0 = [[0; 0]; [0; 1]; [1]].
Proof. repeat split; vm_compute; reflexivity. Qed.
