(* C04 — the struct side of the managed backends: `_fieldsForLifetimeX` accessors (JS struct.js.jinja, Dart struct.dart.jinja)
   built from StructBorrowInfo::compute_for_struct_field and iter_fields_with_lifetimes_from_set.  A method spreads
   `p._fieldsForLifetimeX` into its edge arrays; what that expression evaluates to, through any depth of nested structs, must be
   every field that carries the lifetime plugged into parameter X. *)
From Coq Require Import List Arith Bool Lia.
Import ListNotations.
From DV Require Import Lifetimes.Model.

(* one entry of an accessor: the field itself, or the accessor of a nested struct field for one of its parameters *)
Inductive acc := AField (f : nat) | ANested (f : nat) (slot : nat).

Definition uses (t : ty) (l : nat) : bool := existsb (fun a => match a with Lt u => u =? l | Static => false end) (ty_lts t).

(* borrowed_struct_lifetime_map restricted to one outer lifetime: the inner parameters it is plugged into, ascending (BTreeMap) *)
Definition inner_slots (args : list lt) (l : nat) : list nat :=
  flat_map (fun sa => match snd sa with Lt u => if u =? l then [fst sa] else [] | Static => [] end) (combine (seq 0 (length args)) args).

Definition accessor (d : tdef) (l : nat) : list acc :=
  flat_map (fun ft => if uses (snd ft) l
                      then match snd ft with
                           | TStruct _ _ args => map (ANested (fst ft)) (inner_slots args l)
                           | _ => [AField (fst ft)]
                           end
                      else []) (combine (seq 0 (length (d_fields d))) (d_fields d)).

(* what the accessor evaluates to at run time: paths of fields (outermost first) *)
Fixpoint expand (ds : defs) (fuel : nat) (tid l : nat) : list (list nat) :=
  match fuel with
  | 0 => []
  | S f =>
      flat_map (fun a => match a with
                         | AField fi => [[fi]]
                         | ANested fi slot =>
                             match nth_error (d_fields (def_of ds tid)) fi with
                             | Some (TStruct _ tid' _) => map (cons fi) (expand ds f tid' slot)
                             | _ => []
                             end
                         end) (accessor (def_of ds tid) l)
  end.

(* specification: the fields (at any depth) whose type mentions the lifetime plugged into parameter l *)
Inductive carries (ds : defs) : nat -> nat -> list nat -> Prop :=
| c_leaf tid l fi t : nth_error (d_fields (def_of ds tid)) fi = Some t ->
    (forall o tid' args, t <> TStruct o tid' args) -> uses t l = true -> carries ds tid l [fi]
| c_nested tid l fi o tid' args slot p : nth_error (d_fields (def_of ds tid)) fi = Some (TStruct o tid' args) ->
    nth_error args slot = Some (Lt l) -> carries ds tid' slot p -> carries ds tid l (fi :: p).

(* struct nesting depth (by-value containment is acyclic) *)
Fixpoint sdepth_le (ds : defs) (d : nat) (tid : nat) : bool :=
  forallb (fun t => match t with
                    | TStruct _ tid' _ => match d with 0 => false | S d' => sdepth_le ds d' tid' end
                    | _ => true
                    end) (d_fields (def_of ds tid)).

(* correspondence: the entries parsed from the generated accessor *)
Definition acc_eqb (a b : acc) : bool :=
  match a, b with
  | AField f, AField g => f =? g
  | ANested f s, ANested g t => (f =? g) && (s =? t)
  | _, _ => false
  end.
Fixpoint accs_eqb (a b : list acc) : bool :=
  match a, b with [], [] => true | x :: a', y :: b' => acc_eqb x y && accs_eqb a' b' | _, _ => false end.
Definition agree_accessor (ds : defs) (tid l : nat) (observed : list acc) : bool := accs_eqb (accessor (def_of ds tid) l) observed.
