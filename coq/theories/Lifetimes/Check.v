(* C04 — boolean comparisons used by the generated correspondence goals (coq/cases/C04).  Definitions only. *)
From Coq Require Import List Arith Bool.
Import ListNotations.
From DV Require Import Lifetimes.Model.

Fixpoint list_eqb {A} (eqb : A -> A -> bool) (a b : list A) : bool :=
  match a, b with
  | [], [] => true
  | x :: a', y :: b' => eqb x y && list_eqb eqb a' b'
  | _, _ => false
  end.

Definition edge_eqb (a b : edge) : bool :=
  match a, b with
  | EOpaque p, EOpaque q => p =? q
  | ESlice p, ESlice q => p =? q
  | EStruct p s o, EStruct q t o' => (p =? q) && (s =? t) && Bool.eqb o o'
  | EPanic p, EPanic q => p =? q
  | _, _ => false
  end.

Definition entry_eqb (a b : nat * (list nat * list edge)) : bool :=
  (fst a =? fst b) && list_eqb Nat.eqb (fst (snd a)) (fst (snd b)) && list_eqb edge_eqb (snd (snd a)) (snd (snd b)).

(* the real borrow_map() of a method, rendered by the oracle, equals the model's *)
Definition agree_map (m : msig) (observed : list (nat * (list nat * list edge))) : bool :=
  list_eqb entry_eqb (borrow_map m) observed.

(* TypeContext::from_syn accepted / rejected this method (no "Method should explicitly include ..." / elided-return error) *)
Definition agree_validate (ds : defs) (m : msig) (accepted : bool) : bool :=
  Bool.eqb (validate_method ds m) accepted.

(* ... and this struct definition *)
Definition agree_validate_def (ds : defs) (tid : nat) (accepted : bool) : bool :=
  let d := def_of ds tid in Bool.eqb (forallb (validate_ty ds (d_env d)) (d_fields d)) accepted.
