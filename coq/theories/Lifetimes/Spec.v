(* C04 — what Rust's rules say, independently of how the tool computes it.  Definitions only.

   [outlives ds m r x]: the declared bounds of the method, the bounds implied by references `&'a T<'b>` in its
   signature, and the bounds every struct / opaque type used in the signature requires of its own parameters
   (declared on the type, implied by `&'a T<'b>` fields, or required in turn by the types of its fields: rustc's
   explicit + inferred outlives predicates) force 'x to live at least as long as 'r.
   Outside the statement: bounds rustc infers from an opaque type's private fields (they are not part of the bridge),
   and derivations that pass through 'static. *)
From Coq Require Import List Arith Bool Relations.
Import ListNotations.
From DV Require Import Lifetimes.Model.

(* (short, long) pairs written down by a sequence of bound declarations / reference types *)
Definition pairs_of_op (o : op) : list (nat * nat) :=
  match o with
  | Decl l ss => map (fun s => (s, l)) ss
  | Impl b ps => map (fun p => (b, p)) ps
  end.
Definition constraints (ops : list op) : list (nat * nat) := flat_map pairs_of_op ops.

(* what a type definition requires of its lifetime parameters: least fixpoint through nested field types *)
Inductive wf_edge (ds : defs) : nat -> nat -> nat -> Prop :=
| wf_own tid x y :
    In (x, y) (constraints (d_ops (def_of ds tid))) -> wf_edge ds tid x y
| wf_nested tid t tid' args x y u v :
    In t (d_fields (def_of ds tid)) -> ty_use t = Some (tid', args) -> wf_edge ds tid' x y ->
    nth_error args x = Some (Lt u) -> nth_error args y = Some (Lt v) -> wf_edge ds tid u v.

(* the bounds a signature writes down or implies through its reference types; unlike Model.m_ops (what the tool records)
   this does not depend on whether a type is written by name or as `Self` *)
Definition spec_ops (m : msig) : list op :=
  decl_ops (m_decl m) ++ flat_map (ref_ops (m_n m)) (m_params m ++ m_ret m).

Inductive rust_edge (ds : defs) (m : msig) : nat -> nat -> Prop :=
| re_own u v :
    In (u, v) (constraints (spec_ops m)) -> rust_edge ds m u v
| re_use t tid args x y u v :
    In t (m_params m ++ m_ret m) -> ty_use t = Some (tid, args) -> wf_edge ds tid x y ->
    nth_error args x = Some (Lt u) -> nth_error args y = Some (Lt v) -> rust_edge ds m u v.

Definition outlives (ds : defs) (m : msig) : nat -> nat -> Prop := clos_refl_trans_1n nat (rust_edge ds m).

(* the inputs a value carrying lifetime 'r may borrow from: parameter position, and for a struct the lifetime slot *)
Definition spec_edge (ds : defs) (m : msig) (r : nat) (e : edge) : Prop :=
  match e with
  | EStruct p slot opt => exists tid args u,
      nth_error (m_params m) p = Some (TStruct opt tid args) /\ nth_error args slot = Some (Lt u) /\ outlives ds m r u
  | EOpaque p => exists sp opt b tid args u,
      nth_error (m_params m) p = Some (TOpaque sp opt b tid args) /\ In (Lt u) (args ++ opt_list b) /\ outlives ds m r u
  | ESlice p => exists opt b u,
      nth_error (m_params m) p = Some (TSlice opt b) /\ In (Lt u) (opt_list b) /\ outlives ds m r u
  | EPanic _ => False
  end.

(* ---------- well-formedness: what rustc and the lowering guarantee about the inputs of the analysis ---------- *)
Definition lt_ok (l : lt) : Prop := exists i, l = Lt i.                      (* not 'static *)
Definition decl_ok (n : nat) (decl : list (nat * list nat)) : Prop :=
  forall l ss, In (l, ss) decl -> l < n /\ forall s, In s ss -> s < n.
(* a use T<args>: right number of arguments, none of them 'static *)
Definition use_ok (ds : defs) (t : ty) : Prop :=
  forall tid args, ty_use t = Some (tid, args) ->
    length args = d_n (def_of ds tid) /\ (forall a, In a args -> lt_ok a) /\ (forall a, In a (ty_self_lt t) -> lt_ok a).
Definition def_ok (ds : defs) (d : tdef) : Prop :=
  decl_ok (d_n d) (d_decl d) /\
  forall t, In t (d_fields d) -> use_ok ds t /\ forall i, In (Lt i) (ty_lts t) -> i < d_n d.
Definition defs_ok (ds : defs) : Prop := forall d, In d ds -> def_ok ds d.
Definition sig_ok (ds : defs) (m : msig) : Prop :=
  decl_ok (m_n m) (m_decl m) /\ forall t, In t (m_params m ++ m_ret m) -> use_ok ds t.

(* the recorded exception: an optional slice the return value borrows from (visit_param panics) *)
Definition no_borrowed_opt_slice (ds : defs) (m : msig) (r : nat) : Prop :=
  forall p b u, nth_error (m_params m) p = Some (TSlice true b) -> In (Lt u) (opt_list b) -> ~ outlives ds m r u.

(* the same well-formedness conditions as decidable checks (Proofs.v: *_okb_sound) *)
Definition lt_okb (l : lt) : bool := match l with Lt _ => true | Static => false end.
Definition decl_okb (n : nat) (decl : list (nat * list nat)) : bool :=
  forallb (fun d => (fst d <? n) && forallb (fun s => s <? n) (snd d)) decl.
Definition use_okb (ds : defs) (t : ty) : bool :=
  match ty_use t with
  | None => true
  | Some (tid, args) => (length args =? d_n (def_of ds tid)) && forallb lt_okb args && forallb lt_okb (ty_self_lt t)
  end.
Definition def_okb (ds : defs) (d : tdef) : bool :=
  decl_okb (d_n d) (d_decl d) &&
  forallb (fun t => use_okb ds t && forallb (fun l => match l with Lt i => i <? d_n d | Static => true end) (ty_lts t)) (d_fields d).
Definition defs_okb (ds : defs) : bool := forallb (def_okb ds) ds.
Definition sig_okb (ds : defs) (m : msig) : bool :=
  decl_okb (m_n m) (m_decl m) && forallb (use_okb ds) (m_params m ++ m_ret m).
