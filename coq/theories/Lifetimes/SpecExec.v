(* C04 — an executable version of Spec.outlives, proved equivalent to it, so that the specification itself (not only the
   model of the tool) can be confronted with rustc's verdicts on generated signatures. *)
From Coq Require Import List Arith Bool Lia Relations.
Import ListNotations.
From DV Require Import Lifetimes.Model Lifetimes.Spec Lifetimes.Proofs.

Definition subst_pairs (args : list lt) (ps : list (nat * nat)) : list (nat * nat) :=
  flat_map (fun p => match nth_error args (fst p), nth_error args (snd p) with
                     | Some (Lt u), Some (Lt v) => [(u, v)]
                     | _, _ => []
                     end) ps.

(* requirements of a definition on its parameters, through nested field types (fuel = nesting depth + 1) *)
Fixpoint wf_pairs (fuel : nat) (ds : defs) (tid : nat) : list (nat * nat) :=
  match fuel with
  | 0 => []
  | S f =>
      constraints (d_ops (def_of ds tid)) ++
      flat_map (fun t => match ty_use t with
                         | Some (tid', args) => subst_pairs args (wf_pairs f ds tid')
                         | None => []
                         end) (d_fields (def_of ds tid))
  end.

(* nesting depth through any use of a definition (opaque definitions have no fields: depth 0) *)
Fixpoint udepth_le (ds : defs) (d : nat) (tid : nat) : bool :=
  forallb (fun t => match ty_use t with
                    | Some (tid', _) => match d with 0 => false | S d' => udepth_le ds d' tid' end
                    | None => true
                    end) (d_fields (def_of ds tid)).

Lemma subst_pairs_In args ps u v :
  In (u, v) (subst_pairs args ps) <-> exists x y, In (x, y) ps /\ nth_error args x = Some (Lt u) /\ nth_error args y = Some (Lt v).
Proof.
  unfold subst_pairs. rewrite in_flat_map. split.
  - intros [[x y] [Hin H]]. cbn [fst snd] in H. destruct (nth_error args x) as [[|a]|] eqn:Hx; try destruct H.
    destruct (nth_error args y) as [[|b]|] eqn:Hy; try destruct H. inversion H; subst. exists x, y. auto.
    destruct H.
  - intros (x & y & Hin & Hx & Hy). exists (x, y). split; [exact Hin|]. cbn [fst snd]. rewrite Hx, Hy. left. reflexivity.
Qed.

Lemma udepth_child ds f tid t tid' args :
  udepth_le ds f tid = true -> In t (d_fields (def_of ds tid)) -> ty_use t = Some (tid', args) ->
  exists f', f = S f' /\ udepth_le ds f' tid' = true.
Proof.
  intros H Hin Hu. destruct f as [|f']; cbn [udepth_le] in H; rewrite forallb_forall in H; specialize (H _ Hin); rewrite Hu in H.
  - discriminate.
  - exists f'. split; [reflexivity|exact H].
Qed.

Theorem wf_pairs_exact ds : forall f tid x y, udepth_le ds f tid = true -> (In (x, y) (wf_pairs (S f) ds tid) <-> wf_edge ds tid x y).
Proof.
  induction f as [|f IH]; intros tid x y Hd; cbn [wf_pairs]; rewrite in_app_iff, in_flat_map; split.
  - intros [H|[t [Ht H]]]; [apply wf_own; exact H|].
    destruct (ty_use t) as [[tid' args]|] eqn:Hu; [|destruct H].
    destruct (udepth_child ds 0 tid t tid' args Hd Ht Hu) as [f' [Hf _]]. discriminate.
  - intros H. inversion H as [? ? ? Hc|? t tid' args x' y' ? ? Ht Hu Hw Hx Hy]; subst; [left; exact Hc|].
    destruct (udepth_child ds 0 tid t tid' args Hd Ht Hu) as [f' [Hf _]]. discriminate.
  - intros [H|[t [Ht H]]]; [apply wf_own; exact H|].
    destruct (ty_use t) as [[tid' args]|] eqn:Hu; [|destruct H].
    destruct (udepth_child ds (S f) tid t tid' args Hd Ht Hu) as [f' [Hf Hd']]. inversion Hf; subst f'.
    apply subst_pairs_In in H. destruct H as (x' & y' & Hin & Hx & Hy).
    eapply wf_nested; [exact Ht|exact Hu| |exact Hx|exact Hy]. apply (IH tid' x' y' Hd'). exact Hin.
  - intros H. inversion H as [? ? ? Hc|? t tid' args x' y' ? ? Ht Hu Hw Hx Hy]; subst; [left; exact Hc|].
    right. exists t. split; [exact Ht|]. rewrite Hu.
    destruct (udepth_child ds (S f) tid t tid' args Hd Ht Hu) as [f' [Hf Hd']]. inversion Hf; subst f'.
    apply subst_pairs_In. exists x', y'. split; [apply (IH tid' x' y' Hd'); exact Hw|split; assumption].
Qed.

(* all pairs of a method signature, and the closure computed with the same DFS as the tool's (proved correct in Proofs.v) *)
Definition rust_pairs (fuel : nat) (ds : defs) (m : msig) : list (nat * nat) :=
  constraints (spec_ops m) ++
  flat_map (fun t => match ty_use t with
                     | Some (tid, args) => subst_pairs args (wf_pairs fuel ds tid)
                     | None => []
                     end) (m_params m ++ m_ret m).

Definition bound (ps : list (nat * nat)) : nat := S (fold_left (fun a p => Nat.max a (Nat.max (fst p) (snd p))) ps 0).
Definition outlives_b (fuel : nat) (ds : defs) (m : msig) (r x : nat) : bool :=
  let ps := rust_pairs fuel ds m in
  memb x (all_longer (add_pairs (empty_graph (Nat.max (S r) (bound ps))) ps) r).

Lemma fold_max_ge ps : forall a, a <= fold_left (fun a p => Nat.max a (Nat.max (fst p) (snd p))) ps a.
Proof. induction ps as [|p ps IH]; intros a; cbn [fold_left]; [lia|]. etransitivity; [|apply IH]. lia. Qed.

Lemma fold_max_mono ps : forall a b, a <= b ->
  fold_left (fun a p => Nat.max a (Nat.max (fst p) (snd p))) ps a <= fold_left (fun a p => Nat.max a (Nat.max (fst p) (snd p))) ps b.
Proof. induction ps as [|p ps IH]; intros a b H; cbn [fold_left]; [exact H|]. apply IH. lia. Qed.

Lemma bound_gt ps u v : In (u, v) ps -> u < bound ps /\ v < bound ps.
Proof.
  unfold bound. intros H. assert (Hm : Nat.max u v <= fold_left (fun a p => Nat.max a (Nat.max (fst p) (snd p))) ps 0).
  { generalize 0. induction ps as [|p ps IH]; intros a; [destruct H|]. cbn [fold_left]. destruct H as [->|H].
    - cbn [fst snd]. etransitivity; [|apply fold_max_ge]. lia.
    - apply IH. exact H. }
  lia.
Qed.

Lemma rust_pairs_exact ds m f : (forall tid, udepth_le ds f tid = true) ->
  forall u v, In (u, v) (rust_pairs (S f) ds m) <-> rust_edge ds m u v.
Proof.
  intros Hd u v. unfold rust_pairs. rewrite in_app_iff, in_flat_map. split.
  - intros [H|[t [Ht H]]]; [apply re_own; exact H|].
    destruct (ty_use t) as [[tid args]|] eqn:Hu; [|destruct H].
    apply subst_pairs_In in H. destruct H as (x & y & Hin & Hx & Hy).
    eapply re_use; [exact Ht|exact Hu| |exact Hx|exact Hy]. apply (wf_pairs_exact ds f tid x y (Hd tid)). exact Hin.
  - intros H. destruct H as [u v Hc|t tid args x y u v Ht Hu Hw Hx Hy]; [left; exact Hc|].
    right. exists t. split; [exact Ht|]. rewrite Hu. apply subst_pairs_In. exists x, y.
    split; [apply (wf_pairs_exact ds f tid x y (Hd tid)); exact Hw|split; assumption].
Qed.

Lemma reach_iff_clos g (R : nat -> nat -> Prop) : (forall a b, direct g a b <-> R a b) ->
  forall a b, reach g a b <-> clos_refl_trans_1n nat R a b.
Proof.
  intros Hdir a b. unfold reach. split; intros H.
  - induction H as [|x y z Hxy _ IH]; [apply Relation_Operators.rt1n_refl|]. eapply Relation_Operators.rt1n_trans; [apply Hdir; exact Hxy|exact IH].
  - induction H as [|x y z Hxy _ IH]; [apply Relation_Operators.rt1n_refl|]. eapply Relation_Operators.rt1n_trans; [apply Hdir; exact Hxy|exact IH].
Qed.

(* THEOREM: the executable specification decides Spec.outlives *)
Theorem outlives_b_exact ds m f r x : (forall tid, udepth_le ds f tid = true) ->
  (outlives_b (S f) ds m r x = true <-> outlives ds m r x).
Proof.
  intros Hd. unfold outlives_b, outlives. rewrite memb_In, all_longer_is_closure.
  apply reach_iff_clos. intros a b. rewrite direct_add_pairs. unfold direct at 1. rewrite longer_empty. unfold empty_graph. rewrite repeat_length.
  rewrite <- (rust_pairs_exact ds m f Hd). split.
  - intros [[]|[H _]]. exact H.
  - intros H. right. split; [exact H|]. destruct (bound_gt _ a b H). lia.
Qed.

(* correspondence: rustc accepts `fn probe<..>(.., v: &'x u8) -> &'r u8 { v }` under this signature *)
Definition agree_rustc (fuel : nat) (ds : defs) (m : msig) (r x : nat) (accepted : bool) : bool :=
  Bool.eqb (outlives_b fuel ds m r x) accepted.
