(* Ownership model of the runtime's FFI-safe owners (runtime/src/result.rs, slices.rs, callback.rs).
   Payloads with drop glue are tokens; a history is a list of operations on registers; the model
   records which tokens get dropped, in order.  Definitions only. *)
From Coq Require Import List Arith Bool.
Import ListNotations.

Inductive val :=
| VStd (ok : bool) (tok : option nat) (* Result<T,E> / Option<T> owning payload [tok]; None arm of an Option: no payload *)
| VDip (ok : bool) (tok : option nat) (* DiplomatResult / DiplomatOption *)
| VBox (tok : option nat)             (* Box<[T]> / Box<str>: the allocation is the token; None = empty box, no allocation *)
| VOwned (tok : option nat)           (* DiplomatOwnedSlice; None = NULL view built by the foreign side *)
| VCb (dtor : bool) (tok : nat).      (* DiplomatCallback; dtor=false: no destructor supplied *)

Inductive op :=
| OMk (r : nat) (ok : bool)           (* a fresh std Result<Tok,Tok> in register r *)
| OMkNone (r : nat)                   (* Option<Tok>::None *)
| OMkUnitOk (r : nat)                 (* Result<(), Tok>::Ok(()) : the Ok arm owns nothing *)
| OFrom (r : nat)                     (* Result -> DiplomatResult  (From<Result>, From<Option>) *)
| OInto (r : nat)                     (* DiplomatResult -> Result  (From<DiplomatResult>, into_option) *)
| OClone (r r2 : nat)                 (* Clone for DiplomatResult: payload cloned into a fresh token *)
| OAsRef (r : nat)                    (* as_ref / Deref: reads, owns nothing *)
| OMkBox (r : nat)
| OBoxToOwned (r : nat)               (* From<Box<[T]>> for DiplomatOwnedSlice *)
| OOwnedToBox (r : nat)               (* From<DiplomatOwnedSlice<T>> for Box<[T]> *)
| OMkNullOwned (r : nat)
| OMkCb (r : nat) (dtor : bool)
| ODrop (r : nat).

(* [log]: tokens dropped so far, in order.  [forgot]: tokens whose owner was dropped although the
   Rust side holds no way to release them (callbacks created without a destructor). *)
Record st := mkSt { regs : list (option val); log : list nat; forgot : list nat; next : nat }.

Definition get (s : st) (r : nat) : option val := nth r (regs s) None.
Fixpoint set_nth {A} (l : list A) (n : nat) (x : A) (d : A) : list A :=
  match n, l with
  | O, [] => [x]
  | O, _ :: t => x :: t
  | S n', [] => d :: set_nth [] n' x d
  | S n', h :: t => h :: set_nth t n' x d
  end.
Definition put (s : st) (r : nat) (v : option val) (lg fg : list nat) (nx : nat) : st :=
  mkSt (set_nth (regs s) r v None) (log s ++ lg) (forgot s ++ fg) nx.

(* tokens dropping a value releases / cannot release *)
Definition released (v : val) : list nat :=
  match v with
  | VStd _ (Some t) | VDip _ (Some t) | VBox (Some t) | VOwned (Some t) | VCb true t => [t]
  | _ => []
  end.
Definition forgotten (v : val) : list nat :=
  match v with VCb false t => [t] | _ => [] end.

(* [into_extra]: tokens dropped by From<DiplomatResult> for Result *in addition* to handing the payload
   to the returned Result.  The repaired code (argument wrapped in ManuallyDrop) drops nothing;
   the code before the repair let the moved-from shell run its Drop impl, i.e. [fun t => [t]]. *)
Definition step (into_extra : nat -> list nat) (s : st) (o : op) : option st :=
  match o with
  | OMk r ok => match get s r with None => Some (put s r (Some (VStd ok (Some (next s)))) [] [] (S (next s))) | _ => None end
  | OMkNone r => match get s r with None => Some (put s r (Some (VStd false None)) [] [] (next s)) | _ => None end
  | OMkUnitOk r => match get s r with None => Some (put s r (Some (VStd true None)) [] [] (next s)) | _ => None end
  | OFrom r => match get s r with Some (VStd ok t) => Some (put s r (Some (VDip ok t)) [] [] (next s)) | _ => None end
  | OInto r => match get s r with
               | Some (VDip ok (Some t)) => Some (put s r (Some (VStd ok (Some t))) (into_extra t) [] (next s))
               | Some (VDip ok None) => Some (put s r (Some (VStd ok None)) [] [] (next s))
               | _ => None end
  | OClone r r2 => match get s r, get s r2 with
                   | Some (VDip ok (Some _)), None => Some (put s r2 (Some (VDip ok (Some (next s)))) [] [] (S (next s)))
                   | Some (VDip ok None), None => Some (put s r2 (Some (VDip ok None)) [] [] (next s))
                   | _, _ => None end
  | OAsRef r => match get s r with Some _ => Some s | None => None end
  | OMkBox r => match get s r with None => Some (put s r (Some (VBox (Some (next s)))) [] [] (S (next s))) | _ => None end
  | OBoxToOwned r => match get s r with Some (VBox t) => Some (put s r (Some (VOwned t)) [] [] (next s)) | _ => None end
  | OOwnedToBox r => match get s r with
                     | Some (VOwned t) => Some (put s r (Some (VBox t)) [] [] (next s))  (* NULL becomes the empty box *)
                     | _ => None end
  | OMkNullOwned r => match get s r with None => Some (put s r (Some (VOwned None)) [] [] (next s)) | _ => None end
  | OMkCb r d => match get s r with None => Some (put s r (Some (VCb d (next s))) [] [] (S (next s))) | _ => None end
  | ODrop r => match get s r with Some v => Some (put s r None (released v) (forgotten v) (next s)) | None => None end
  end.

Fixpoint run (ie : nat -> list nat) (s : st) (ops : list op) : option st :=
  match ops with
  | [] => Some s
  | o :: r => match step ie s o with Some s' => run ie s' r | None => None end
  end.

Definition init : st := mkSt [] [] [] 0.
Definition fixed_into (_ : nat) : list nat := [].
Definition buggy_into (t : nat) : list nat := [t].

Definition of_opt {A} (f : val -> list A) (v : option val) : list A :=
  match v with Some v => f v | None => [] end.
Definition live_released (s : st) : list nat := flat_map (of_opt released) (regs s).
Definition live_forgotten (s : st) : list nat := flat_map (of_opt forgotten) (regs s).
(* end of program: every register still holding a value is dropped *)
Definition final_log (s : st) : list nat := log s ++ live_released s.
Definition final_forgot (s : st) : list nat := forgot s ++ live_forgotten s.
Definition all_tokens (s : st) : list nat := final_log s ++ final_forgot s.

(* per-operation drop logs, for correspondence *)
Fixpoint run_logs (ie : nat -> list nat) (s : st) (ops : list op) : list (list nat) :=
  match ops with
  | [] => []
  | o :: r => match step ie s o with
              | Some s' => skipn (length (log s)) (log s') :: run_logs ie s' r
              | None => []
              end
  end.
Fixpoint listnat_eqb (a b : list nat) : bool :=
  match a, b with
  | [], [] => true
  | x :: a', y :: b' => Nat.eqb x y && listnat_eqb a' b'
  | _, _ => false
  end.
Fixpoint all2 {A B} (f : A -> B -> bool) (a : list A) (b : list B) : bool :=
  match a, b with
  | [], [] => true
  | x :: a', y :: b' => f x y && all2 f a' b'
  | _, _ => false
  end.
Definition agree_own (ops : list op) (observed : list (list nat)) : bool :=
  all2 listnat_eqb (run_logs fixed_into init ops) observed.

(* end-to-end histories (several model operations per foreign call): the whole drop sequence *)
Definition agree_own_flat (ops : list op) (observed : list nat) : bool :=
  listnat_eqb (concat (run_logs fixed_into init ops)) observed.
