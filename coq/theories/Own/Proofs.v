From Coq Require Import List Arith Bool Lia Permutation.
Import ListNotations.
From DV Require Import Base.Lists Own.Model.

Section FlatMap.
  Context {A : Type} (f : option val -> list A) (Hf : f None = []).

  Lemma flat_map_set_nth r : forall l x,
    Permutation (f (nth r l None) ++ flat_map f (set_nth l r x None)) (f x ++ flat_map f l).
  Proof.
    induction r as [|r IH]; intros l x.
    - destruct l as [|h t]; cbn [nth set_nth flat_map].
      + rewrite Hf. cbn. apply Permutation_refl.
      + rewrite !app_assoc. apply Permutation_app_tail. apply Permutation_app_comm.
    - destruct l as [|h t]; cbn [nth set_nth flat_map].
      + rewrite Hf. cbn [app]. specialize (IH [] x). cbn [nth flat_map] in IH.
        destruct r; cbn [nth] in IH; rewrite Hf in IH; cbn [app] in IH; exact IH.
      + specialize (IH t x).
        rewrite (app_assoc (f x)). rewrite (Permutation_app_comm (f x) (f h)). rewrite <- app_assoc.
        rewrite app_assoc. rewrite (Permutation_app_comm (f (nth r t None)) (f h)). rewrite <- app_assoc.
        apply Permutation_app_head. exact IH.
  Qed.
End FlatMap.

Lemma of_opt_none {A} (f : val -> list A) : of_opt f None = [].
Proof. reflexivity. Qed.

(* Replacing the value in register r: token bookkeeping as a multiset equation. *)
Lemma put_tokens s r v lg fg nx :
  Permutation
    (of_opt released (get s r) ++ of_opt forgotten (get s r) ++ all_tokens (put s r v lg fg nx))
    (lg ++ fg ++ of_opt released v ++ of_opt forgotten v ++ all_tokens s).
Proof.
  unfold all_tokens, final_log, final_forgot, live_released, live_forgotten, put, get. cbn [regs log forgot].
  pose proof (flat_map_set_nth (of_opt released) (of_opt_none released) r (regs s) v) as P1.
  pose proof (flat_map_set_nth (of_opt forgotten) (of_opt_none forgotten) r (regs s) v) as P2.
  set (R := of_opt released (nth r (regs s) None)) in *.
  set (F := of_opt forgotten (nth r (regs s) None)) in *.
  set (LR' := flat_map (of_opt released) (set_nth (regs s) r v None)) in *.
  set (LF' := flat_map (of_opt forgotten) (set_nth (regs s) r v None)) in *.
  set (LR := flat_map (of_opt released) (regs s)) in *.
  set (LF := flat_map (of_opt forgotten) (regs s)) in *.
  (* LHS = R ++ F ++ (log ++ lg ++ LR') ++ (forgot ++ fg ++ LF') *)
  transitivity ((log s ++ lg) ++ (forgot s ++ fg) ++ (R ++ LR') ++ (F ++ LF')).
  { rewrite <- !app_assoc.
    apply Permutation_trans with (l' := R ++ F ++ log s ++ lg ++ LR' ++ forgot s ++ fg ++ LF'); [apply Permutation_refl|].
    (* move R and F inward *)
    repeat rewrite app_assoc.
    repeat rewrite <- app_assoc.
    eapply Permutation_trans.
    { apply Permutation_app_comm. }
    rewrite <- !app_assoc.
    (* now: F ++ log ++ lg ++ LR' ++ forgot ++ fg ++ LF' ++ R *)
    eapply Permutation_trans.
    { apply Permutation_app_comm. }
    rewrite <- !app_assoc.
    (* log ++ lg ++ LR' ++ forgot ++ fg ++ LF' ++ R ++ F *)
    apply Permutation_app_head. apply Permutation_app_head.
    (* LR' ++ forgot ++ fg ++ LF' ++ R ++ F  ~  forgot ++ fg ++ R ++ LR' ++ F ++ LF' *)
    apply Permutation_trans with (l' := (forgot s ++ fg) ++ LR' ++ LF' ++ R ++ F).
    { rewrite <- !app_assoc. rewrite (app_assoc LR'). rewrite (app_assoc LR').
      rewrite (Permutation_app_comm LR' (forgot s)) at 1.
      rewrite <- !app_assoc. apply Permutation_app_head.
      rewrite app_assoc. rewrite (Permutation_app_comm LR' fg). rewrite <- !app_assoc. apply Permutation_refl. }
    rewrite <- !app_assoc. apply Permutation_app_head. apply Permutation_app_head.
    (* LR' ++ LF' ++ R ++ F ~ R ++ LR' ++ F ++ LF' *)
    rewrite (app_assoc LR' LF'). rewrite (Permutation_app_comm (LR' ++ LF') (R ++ F)).
    rewrite <- !app_assoc. apply Permutation_app_head.
    rewrite app_assoc. rewrite (Permutation_app_comm F LR'). rewrite <- app_assoc. apply Permutation_refl. }
  rewrite P1, P2.
  (* (log ++ lg) ++ (forgot ++ fg) ++ (rv ++ LR) ++ (fv ++ LF) ~ lg ++ fg ++ rv ++ fv ++ (log ++ LR) ++ (forgot ++ LF) *)
  set (rv := of_opt released v). set (fv := of_opt forgotten v).
  rewrite <- !app_assoc.
  apply Permutation_trans with (l' := lg ++ log s ++ forgot s ++ fg ++ rv ++ LR ++ fv ++ LF).
  { rewrite app_assoc. rewrite (Permutation_app_comm (log s) lg). rewrite <- app_assoc. apply Permutation_refl. }
  apply Permutation_app_head.
  apply Permutation_trans with (l' := fg ++ log s ++ forgot s ++ rv ++ LR ++ fv ++ LF).
  { rewrite (app_assoc (log s)). rewrite (app_assoc (log s ++ forgot s)).
    rewrite (Permutation_app_comm (log s ++ forgot s) fg). rewrite <- !app_assoc. apply Permutation_refl. }
  apply Permutation_app_head.
  apply Permutation_trans with (l' := rv ++ log s ++ forgot s ++ LR ++ fv ++ LF).
  { rewrite (app_assoc (log s)). rewrite (app_assoc (log s ++ forgot s)).
    rewrite (Permutation_app_comm (log s ++ forgot s) rv). rewrite <- !app_assoc. apply Permutation_refl. }
  apply Permutation_app_head.
  apply Permutation_trans with (l' := fv ++ log s ++ forgot s ++ LR ++ LF).
  { rewrite (app_assoc (log s)). rewrite (app_assoc (log s ++ forgot s)). rewrite (app_assoc ((log s ++ forgot s) ++ LR)).
    rewrite (Permutation_app_comm _ fv). rewrite <- !app_assoc. apply Permutation_refl. }
  apply Permutation_app_head. apply Permutation_app_head.
  rewrite app_assoc. rewrite (Permutation_app_comm (forgot s) LR). rewrite <- app_assoc. apply Permutation_refl.
Qed.

Definition Inv (s : st) : Prop := Permutation (all_tokens s) (seq 0 (next s)).

Lemma seq_snoc n : seq 0 (S n) = seq 0 n ++ [n].
Proof. rewrite seq_S. reflexivity. Qed.

Lemma put_inv s r v lg fg nx fresh :
  Inv s ->
  Permutation (lg ++ fg ++ of_opt released v ++ of_opt forgotten v)
              (of_opt released (get s r) ++ of_opt forgotten (get s r) ++ fresh) ->
  seq 0 nx = seq 0 (next s) ++ fresh ->
  Inv (put s r v lg fg nx).
Proof.
  unfold Inv. intros HI HP Hseq.
  pose proof (put_tokens s r v lg fg nx) as P.
  set (R := of_opt released (get s r)) in *. set (F := of_opt forgotten (get s r)) in *.
  assert (P2 : Permutation ((R ++ F) ++ all_tokens (put s r v lg fg nx)) ((R ++ F) ++ fresh ++ all_tokens s)).
  { rewrite <- !app_assoc. rewrite P.
    apply Permutation_trans with (l' := (lg ++ fg ++ of_opt released v ++ of_opt forgotten v) ++ all_tokens s);
      [rewrite <- !app_assoc; apply Permutation_refl|].
    rewrite HP. rewrite <- !app_assoc. apply Permutation_refl. }
  apply Permutation_app_inv_l in P2.
  change (next (put s r v lg fg nx)) with nx. rewrite Hseq, P2, HI. apply Permutation_app_comm.
Qed.

(* One step of the repaired runtime preserves the token equation. *)
Lemma step_inv s o s' : Inv s -> step fixed_into s o = Some s' -> Inv s'.
Proof.
  intros HI Hs.
  destruct o; cbn [step] in Hs;
  repeat match type of Hs with
  | context [match get s ?r with _ => _ end] => destruct (get s r) as [[? [?|]|? [?|]|[?|]|[?|]|[|] ?]|] eqn:?
  end; try discriminate; inversion Hs; subst s'; clear Hs; try exact HI;
  (eapply (put_inv _ _ _ _ _ _ []); [exact HI| |now rewrite app_nil_r]) ||
  (eapply (put_inv _ _ _ _ _ _ [next s]); [exact HI| |apply seq_snoc]);
  match goal with H : get s _ = _ |- _ => rewrite H end;
  cbn [of_opt released forgotten app fixed_into];
  repeat match goal with d : bool |- _ => destruct d end; apply Permutation_refl.
Qed.

Lemma init_inv : Inv init.
Proof. unfold Inv. cbn. constructor. Qed.

Lemma run_inv ops : forall s s', Inv s -> run fixed_into s ops = Some s' -> Inv s'.
Proof.
  induction ops as [|o r IH]; intros s s' HI Hr; cbn [run] in Hr.
  - inversion Hr; subst; exact HI.
  - destruct (step fixed_into s o) as [s1|] eqn:Hs; [|discriminate].
    eapply IH; [|exact Hr]. eapply step_inv; eassumption.
Qed.

(* Every token ever created is, at the end of the program, either dropped exactly once or belongs to a
   destructor-less callback (never dropped); nothing is dropped twice; nothing is dropped that was not created. *)
Theorem exactly_once ops s :
  run fixed_into init ops = Some s ->
  Permutation (final_log s ++ final_forgot s) (seq 0 (next s)) /\
  NoDup (final_log s) /\
  (forall t, t < next s -> ~ In t (final_forgot s) -> count_occ Nat.eq_dec (final_log s) t = 1) /\
  (forall t, In t (final_log s) -> t < next s).
Proof.
  intros Hr. pose proof (run_inv ops init s init_inv Hr) as HI. unfold Inv, all_tokens in HI.
  assert (ND : NoDup (final_log s ++ final_forgot s)).
  { eapply Permutation_NoDup; [symmetry; exact HI|apply seq_NoDup]. }
  split; [exact HI|]. split; [eapply NoDup_app_remove_r; exact ND|]. split.
  - intros t Ht Hnf.
    assert (Hin : In t (final_log s ++ final_forgot s)).
    { eapply Permutation_in; [symmetry; exact HI|]. apply in_seq. lia. }
    apply in_app_or in Hin. destruct Hin as [Hin|Hin]; [|contradiction].
    apply NoDup_count_occ'; [eapply NoDup_app_remove_r; exact ND|exact Hin].
  - intros t Hin.
    assert (H : In t (seq 0 (next s))) by (eapply Permutation_in; [exact HI|apply in_or_app; now left]).
    apply in_seq in H. lia.
Qed.

(* at every prefix of a history: no token has been dropped twice, and nothing still owned by a
   register has been dropped (no use after drop) *)
Theorem never_twice ops s :
  run fixed_into init ops = Some s ->
  NoDup (log s) /\ (forall t, In t (live_released s) -> ~ In t (log s)).
Proof.
  intros Hr. destruct (exactly_once ops s Hr) as (_ & ND & _). unfold final_log in ND.
  split; [eapply NoDup_app_remove_r; exact ND|].
  intros t Hl Hlog. apply NoDup_app_remove_l in ND as ND2.
  revert ND Hl Hlog. generalize (log s) (live_released s). intros l1 l2 ND Hl Hlog.
  induction l1 as [|a l1 IH]; [contradiction|].
  cbn in ND. inversion ND as [|? ? Hn ND']; subst. destruct Hlog as [->|Hlog].
  - apply Hn. apply in_or_app. now right.
  - apply IH; assumption.
Qed.

(* the conversions themselves move the payload and drop nothing *)
Theorem convert_preserves_owner s r ok t :
  get s r = Some (VDip ok (Some t)) ->
  exists s', step fixed_into s (OInto r) = Some s' /\ log s' = log s /\ get s' r = Some (VStd ok (Some t)).
Proof.
  intros H. cbn [step]. rewrite H. eexists. split; [reflexivity|]. cbn [put log fixed_into]. split; [apply app_nil_r|].
  unfold get, put. cbn [regs]. clear H. generalize (regs s). induction r as [|r IH]; intros [|h l]; cbn; auto.
Qed.

(* the code before the repair (shell dropped after the payload was moved out) violates the property:
   the witness history is what the correspondence check replays on the implementation *)
Theorem into_result_buggy_refuted :
  exists ops s, run buggy_into init ops = Some s /\ count_occ Nat.eq_dec (final_log s) 0 = 2.
Proof. exists [OMk 0 true; OFrom 0; OInto 0], (mkSt [Some (VStd true (Some 0))] [0] [] 1). split; reflexivity. Qed.

Example exactly_once_nonvacuous :
  exists s, run fixed_into init [OMk 0 true; OFrom 0; OClone 0 1; OInto 0; ODrop 0; OMkCb 2 false; OMkBox 3; OBoxToOwned 3; ODrop 2; OMkNullOwned 4; OOwnedToBox 4] = Some s
            /\ final_log s = [0; 1; 3] /\ final_forgot s = [2].
Proof. eexists. split; [reflexivity|]. split; reflexivity. Qed.
