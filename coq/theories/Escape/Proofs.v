(* C09 — facts about identifier escaping (Escape/Model.v), re-checked against the regenerated keyword tables. *)
From Coq Require Import List String Bool Arith Lia.
Import ListNotations.
From DV Require Import gen.Tables Escape.Model.
Local Open Scope string_scope.

Lemma mem_In x l : mem x l = true <-> In x l.
Proof.
  unfold mem. rewrite existsb_exists. split.
  - intros [y [Hy E]]. apply String.eqb_eq in E. subst. auto.
  - intros H. exists x. split; auto. apply String.eqb_refl.
Qed.

(* an escaped name is never a keyword *)
Lemma escape_never_keyword kw name : suffix_free kw = true -> mem (escape kw name) kw = false.
Proof.
  intros S. unfold escape. destruct (mem name kw) eqn:E; auto.
  unfold suffix_free in S. rewrite forallb_forall in S. apply mem_In in E. specialize (S name E).
  apply negb_true_iff in S. auto.
Qed.

Lemma escape_non_keyword kw name : mem name kw = false -> escape kw name = name.
Proof. intros E. unfold escape. rewrite E. auto. Qed.

Lemma tables_suffix_free :
  suffix_free c_keywords = true /\ suffix_free cpp_keywords = true /\ suffix_free js_reserved = true /\ suffix_free py_keywords = true.
Proof. vm_compute. auto. Qed.

Lemma escaped_is_not_a_keyword name :
  mem (c_ident name) c_keywords = false /\ mem (cpp_ident name) cpp_keywords = false /\
  mem (js_ident name) js_reserved = false /\ mem (py_ident name) py_keywords = false.
Proof.
  destruct tables_suffix_free as [A [B [C D]]].
  repeat split; apply escape_never_keyword; assumption.
Qed.

(* the C++ table extends the C table *)
Lemma cpp_extends_c k : mem k c_keywords = true -> mem k cpp_keywords = true.
Proof. rewrite !mem_In. unfold cpp_keywords. rewrite in_app_iff. auto. Qed.

(* ---------- when two names collide ---------- *)
Lemma length_append a b : String.length (a ++ b) = String.length a + String.length b.
Proof. induction a as [|c a IH]; cbn; auto. Qed.

Lemma append_inj_r c : forall a b, a ++ c = b ++ c -> a = b.
Proof.
  induction a as [|x a IH]; intros [|y b] H; cbn in H; auto.
  - apply (f_equal String.length) in H. cbn in H. rewrite length_append in H. lia.
  - apply (f_equal String.length) in H. cbn in H. rewrite length_append in H. lia.
  - inversion H. f_equal. auto.
Qed.

(* escaping is injective except on a keyword k and the name "k_": the only way two different parameter names of one
   method can come out equal (the recorded finding `int` / `int_`) *)
Lemma escape_collision_iff kw a b : a <> b ->
  (escape kw a = escape kw b <->
   (mem a kw = true /\ mem b kw = false /\ b = a ++ "_") \/ (mem b kw = true /\ mem a kw = false /\ a = b ++ "_")).
Proof.
  intros N. unfold escape. destruct (mem a kw) eqn:Ea, (mem b kw) eqn:Eb; split.
  - intros H. apply append_inj_r in H. contradiction.
  - intros [[_ [F _]]|[_ [F _]]]; discriminate.
  - intros H. left. auto.
  - intros [[_ [_ H]]|[_ [F _]]]; [auto|discriminate].
  - intros H. right. auto.
  - intros [[F _]|[_ [_ H]]]; [discriminate|auto].
  - intros H. contradiction.
  - intros [[F _]|[F _]]; discriminate.
Qed.

(* the recorded finding is an instance, for the tables the code has now *)
Lemma c_collision_witness : c_ident "int" = c_ident "int_" /\ "int" <> "int_".
Proof. split; [vm_compute; reflexivity|discriminate]. Qed.
