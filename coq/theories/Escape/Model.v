(* C09 — identifier escaping: a name that is a keyword of the target language gets a trailing underscore.
   Definitions only.

   Modelled code:
     tool/src/c/formatter.rs        fmt_identifier (C_KEYWORDS; CPP_KEYWORDS = a clone of C_KEYWORDS extended)
     tool/src/cpp/formatter.rs      fmt_identifier (delegates to the C formatter with is_for_cpp)
     tool/src/js/formatter.rs       fmt_method_name / fmt_method_field_name / fmt_method_param_name (RESERVED)
     tool/src/nanobind/formatter.rs fmt_identifier (PY_KEYWORDS)
   The keyword tables themselves are regenerated from those files on every run (gen/Tables.v, Tie A); tablegen also
   checks that the `if table.contains(name) { format!("{name}_") } else { name }` skeleton is still what the code says.
   Case conversion (heck's to_lower_camel_case in the JS formatter) is applied before this function and is not modelled. *)
From Coq Require Import List String Bool.
Import ListNotations.
From DV Require Import gen.Tables.
Local Open Scope string_scope.

Definition mem (x : string) (l : list string) : bool := existsb (String.eqb x) l.

Definition escape (kw : list string) (name : string) : string :=
  if mem name kw then name ++ "_" else name.

Definition cpp_keywords : list string := c_keywords ++ cpp_extra_keywords.

Definition c_ident := escape c_keywords.
Definition cpp_ident := escape cpp_keywords.
Definition js_ident := escape js_reserved.
Definition py_ident := escape py_keywords.

(* no keyword followed by an underscore is again a keyword: what makes one round of escaping enough *)
Definition suffix_free (kw : list string) : bool := forallb (fun k => negb (mem (k ++ "_") kw)) kw.

(* correspondence goals: the parameter name a backend emitted for the Rust parameter [name] *)
Definition agree_ident (kw : list string) (name observed : string) : bool := String.eqb (escape kw name) observed.
