From Coq Require Import List ZArith Bool Arith Lia.
Import ListNotations.
From DV Require Import Base.Lists Enums.Model.
Local Open Scope Z_scope.

Lemma contig_from_app k p d :
  contig_from k (p ++ [d]) = contig_from k p && (k + Z.of_nat (length p) =? d).
Proof.
  revert k. induction p as [|a p IH]; intros k; cbn [app contig_from length].
  - rewrite Z.add_0_r, andb_true_r. reflexivity.
  - rewrite IH. rewrite <- andb_assoc. f_equal. f_equal. f_equal. lia.
Qed.

Lemma contig_from_nth k ds : contig_from k ds = true ->
  forall i, (i < length ds)%nat -> nthZ i ds = k + Z.of_nat i.
Proof.
  revert k. induction ds as [|d r IH]; intros k H i Hi; cbn in Hi; [lia|].
  cbn [contig_from] in H. apply andb_true_iff in H. destruct H as [H1 H2]. apply Z.eqb_eq in H1.
  destruct i as [|i]; unfold nthZ; cbn [nth]; [lia|].
  change (nth i r 0) with (nthZ i r). rewrite (IH (k + 1) H2 i) by lia. lia.
Qed.

Lemma index_of_nth ds : NoDup ds -> forall i, (i < length ds)%nat -> index_of (nthZ i ds) ds = Some i.
Proof.
  induction 1 as [|d r Hn Hd IH]; intros i Hi; cbn in Hi; [lia|].
  destruct i as [|i]; unfold nthZ; cbn [nth index_of].
  - now rewrite Z.eqb_refl.
  - destruct (Z.eqb_spec d (nth i r 0)) as [E|E].
    + exfalso. apply Hn. rewrite E. apply nth_In. lia.
    + change (nth i r 0) with (nthZ i r). rewrite IH by lia. reflexivity.
Qed.

Lemma in_range_contig ds : is_contiguous ds = true ->
  forall i, (i < length ds)%nat -> in_range (nthZ i ds) ds = Some i.
Proof.
  intros H i Hi. rewrite (contig_from_nth 0 ds H i Hi). unfold in_range. cbn [Z.add].
  assert (E : (0 <=? Z.of_nat i) && (Z.of_nat i <? Z.of_nat (length ds)) = true).
  { apply andb_true_iff. split; [apply Z.leb_le|apply Z.ltb_lt]; lia. }
  rewrite E. now rewrite Nat2Z.id.
Qed.

(* ---- Kotlin's fold ---- *)
Definition table (p : list Z) : list (nat * Z) := combine (seq 0 (length p)) p.
Definition repr (p : list Z) : kt_variants := if is_contiguous p then KContig (length p) else KNon (table p).

Lemma table_app p d : table (p ++ [d]) = table p ++ [(length p, d)].
Proof.
  unfold table. rewrite app_length. cbn [length]. rewrite Nat.add_1_r, seq_S. cbn [Nat.add].
  rewrite combine_app by (now rewrite seq_length). reflexivity.
Qed.

Lemma combine_contig p : forall s, contig_from (Z.of_nat s) p = true ->
  combine (seq s (length p)) p = map (fun k => (k, Z.of_nat k)) (seq s (length p)).
Proof.
  induction p as [|d r IH]; intros s H; cbn; [reflexivity|].
  cbn [contig_from] in H. apply andb_true_iff in H. destruct H as [H1 H2]. apply Z.eqb_eq in H1. subst d.
  f_equal. apply IH. replace (Z.of_nat (S s)) with (Z.of_nat s + 1) by lia. exact H2.
Qed.

Lemma table_contig p : is_contiguous p = true -> table p = map (fun k => (k, Z.of_nat k)) (seq 0 (length p)).
Proof. intros H. apply (combine_contig p 0%nat H). Qed.

Lemma kt_fold suffix : forall p,
  fold_left kt_step (combine (seq (length p) (length suffix)) suffix) (repr p) = repr (p ++ suffix).
Proof.
  induction suffix as [|d r IH]; intros p; cbn [length seq combine fold_left].
  - now rewrite app_nil_r.
  - replace (p ++ d :: r) with ((p ++ [d]) ++ r) by (now rewrite <- app_assoc).
    rewrite <- IH. rewrite app_length. cbn [length]. rewrite Nat.add_1_r. f_equal.
    unfold repr, kt_step. unfold is_contiguous at 2. rewrite contig_from_app. fold (is_contiguous p). cbn [Z.add].
    destruct (is_contiguous p) eqn:Hc; cbn [andb].
    + destruct (Z.of_nat (length p) =? d) eqn:E.
      * rewrite app_length. cbn. now rewrite Nat.add_1_r.
      * rewrite table_app, table_contig by exact Hc. reflexivity.
    + now rewrite table_app.
Qed.

Lemma kt_variants_repr ds : kt_variants_of ds = repr ds.
Proof. unfold kt_variants_of. apply (kt_fold ds []). Qed.

Lemma assoc_combine ds : forall s i, (i < length ds)%nat ->
  assoc_nat (s + i) (combine (seq s (length ds)) ds) = Some (nthZ i ds).
Proof.
  induction ds as [|d r IH]; intros s i Hi; cbn in Hi; [lia|]. cbn [length seq combine assoc_nat].
  destruct i as [|i].
  - rewrite Nat.add_0_r, Nat.eqb_refl. reflexivity.
  - destruct (Nat.eqb_spec s (s + S i)) as [E|_]; [lia|].
    replace (s + S i)%nat with (S s + i)%nat by lia. rewrite IH by lia. reflexivity.
Qed.

Lemma assoc_table ds i : (i < length ds)%nat -> assoc_nat i (table ds) = Some (nthZ i ds).
Proof. intros Hi. apply (assoc_combine ds 0%nat i Hi). Qed.

Lemma rassoc_combine ds : NoDup ds -> forall s i, (i < length ds)%nat ->
  rassoc (nthZ i ds) (combine (seq s (length ds)) ds) = Some (s + i)%nat.
Proof.
  induction 1 as [|d r Hn Hd IH]; intros s i Hi; cbn in Hi; [lia|]. cbn [length seq combine rassoc].
  destruct i as [|i]; unfold nthZ; cbn [nth].
  - rewrite Z.eqb_refl. f_equal. lia.
  - destruct (Z.eqb_spec d (nth i r 0)) as [E|_].
    + exfalso. apply Hn. rewrite E. apply nth_In. lia.
    + change (nth i r 0) with (nthZ i r). rewrite IH by lia. f_equal. lia.
Qed.

Lemma rassoc_table ds i : NoDup ds -> (i < length ds)%nat -> rassoc (nthZ i ds) (table ds) = Some i.
Proof. intros Hn Hi. apply (rassoc_combine ds Hn 0%nat i Hi). Qed.

(* ---- the property, for enums of any size ---- *)
Theorem enum_values_agree vs b i :
  let ds := discriminants vs in
  NoDup ds -> (i < length ds)%nat ->
  value_of b ds i = nthZ i ds /\ from_native b ds (nthZ i ds) = Some i.
Proof.
  intros ds Hn Hi. destruct b; cbn [value_of from_native].
  - split; [reflexivity|now apply index_of_nth].
  - split; [reflexivity|now apply index_of_nth].
  - destruct (is_contiguous ds) eqn:Hc.
    + split; [|now apply in_range_contig].
      rewrite (contig_from_nth 0 ds Hc i Hi). cbn [Z.add]. rewrite Nat2Z.id.
      now rewrite (contig_from_nth 0 ds Hc i Hi).
    + split; [reflexivity|now apply index_of_nth].
  - destruct (is_contiguous ds) eqn:Hc.
    + split; [|now apply in_range_contig]. now rewrite (contig_from_nth 0 ds Hc i Hi).
    + split; [reflexivity|now apply index_of_nth].
  - rewrite kt_variants_repr. unfold repr. destruct (is_contiguous ds) eqn:Hc.
    + split; [|now apply in_range_contig]. now rewrite (contig_from_nth 0 ds Hc i Hi).
    + rewrite assoc_table by exact Hi. split; [reflexivity|now apply rassoc_table].
  - split; [reflexivity|now apply index_of_nth].
Qed.

(* Kotlin's two representations both denote  position |-> discriminant *)
Theorem kotlin_fold_correct ds :
  kt_variants_of ds = if is_contiguous ds then KContig (length ds) else KNon (combine (seq 0 (length ds)) ds).
Proof. exact (kt_variants_repr ds). Qed.

(* the array shortcut is taken exactly when disc_i = i for all i *)
Theorem contiguous_iff ds :
  is_contiguous ds = true <-> (forall i, (i < length ds)%nat -> nthZ i ds = Z.of_nat i).
Proof.
  split; [intros H i Hi; now rewrite (contig_from_nth 0 ds H i Hi)|].
  unfold is_contiguous. generalize 0%nat as s. intros s.
  assert (G : forall ds s, (forall i, (i < length ds)%nat -> nthZ i ds = Z.of_nat (s + i)) -> contig_from (Z.of_nat s) ds = true).
  { clear. induction ds as [|d r IH]; intros s H; [reflexivity|]. cbn [contig_from]. apply andb_true_iff. split.
    - apply Z.eqb_eq. specialize (H 0%nat). unfold nthZ in H; cbn in H. rewrite H by lia. f_equal. lia.
    - replace (Z.of_nat s + 1) with (Z.of_nat (S s)) by lia. apply IH. intros i Hi.
      specialize (H (S i)). unfold nthZ in *; cbn in H. rewrite H by lia. f_equal. lia. }
  intros H. destruct s; [apply (G ds 0%nat H)|apply (G ds 0%nat H)].
Qed.

(* implicit discriminants: previous + 1 *)
Lemma disc_from_length last vs : length (disc_from last vs) = length vs.
Proof. revert last. induction vs as [|[d|] r IH]; intros last; cbn; [reflexivity| |]; now rewrite IH. Qed.

Example enum_example :
  discriminants [Some 5; Some 2; None; Some (-7); None] = [5; 2; 3; -7; -6] /\
  value_of Kotlin [5; 2; 3; -7; -6] 2 = 3 /\ from_native Js [0; 2; 1; 3] 2 = Some 1%nat /\
  value_of Js [0; 1; 2] 1 = 1 /\ kt_variants_of [0; 1; 5] = KNon [(0%nat, 0); (1%nat, 1); (2%nat, 5)].
Proof. repeat split. Qed.
