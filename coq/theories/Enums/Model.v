(* core/src/ast/enums.rs (discriminant inference) and each backend's numbering scheme.
   Definitions only. *)
From Coq Require Import List ZArith Bool Arith.
Import ListNotations.
Local Open Scope Z_scope.

(* Enum::new: explicit literal, or previous + 1, starting from -1.  This is also rustc's rule. *)
Fixpoint disc_from (last : Z) (vs : list (option Z)) : list Z :=
  match vs with
  | [] => []
  | Some d :: r => d :: disc_from d r
  | None :: r => (last + 1) :: disc_from (last + 1) r
  end.
Definition discriminants (vs : list (option Z)) : list Z := disc_from (-1) vs.

(* js/gen.rs, dart/mod.rs: is_contiguous — variant i has discriminant i *)
Fixpoint contig_from (i : Z) (ds : list Z) : bool :=
  match ds with
  | [] => true
  | d :: r => (i =? d) && contig_from (i + 1) r
  end.
Definition is_contiguous (ds : list Z) : bool := contig_from 0 ds.

Inductive backend := C | Cpp | Js | Dart | Kotlin | Nanobind.

Fixpoint index_of (n : Z) (ds : list Z) : option nat :=
  match ds with
  | [] => None
  | d :: r => if d =? n then Some 0%nat else option_map S (index_of n r)
  end.
Definition nthZ (i : nat) (ds : list Z) : Z := nth i ds 0.
Definition in_range (n : Z) (ds : list Z) : option nat :=
  if (0 <=? n) && (n <? Z.of_nat (length ds)) then Some (Z.to_nat n) else None.

(* kotlin/mod.rs EnumVariants::new — a fold that stays Contiguous(names) while i = disc, and converts the
   accumulated prefix to (name, index = position) pairs at the first mismatch *)
Inductive kt_variants := KContig (n : nat) | KNon (tbl : list (nat * Z)).  (* names are positions *)
Definition kt_step (acc : kt_variants) (iv : nat * Z) : kt_variants :=
  let '(i, d) := iv in
  match acc with
  | KContig n => if Z.of_nat i =? d then KContig (S n)
                 else KNon (map (fun k => (k, Z.of_nat k)) (seq 0 n) ++ [(i, d)])
  | KNon tbl => KNon (tbl ++ [(i, d)])
  end.
Definition kt_variants_of (ds : list Z) : kt_variants :=
  fold_left kt_step (combine (seq 0 (length ds)) ds) (KContig 0).
Fixpoint assoc_nat (i : nat) (t : list (nat * Z)) : option Z :=
  match t with [] => None | (k, v) :: r => if Nat.eqb k i then Some v else assoc_nat i r end.
Fixpoint rassoc (n : Z) (t : list (nat * Z)) : option nat :=
  match t with [] => None | (k, v) :: r => if v =? n then Some k else rassoc n r end.

(* the native value the binding uses for variant number i *)
Definition value_of (b : backend) (ds : list Z) (i : nat) : Z :=
  match b with
  | C | Cpp | Nanobind => nthZ i ds                           (* `Name = disc` enumerators *)
  | Js => if is_contiguous ds
          then nthZ (Z.to_nat (nthZ i ds)) ds                  (* static Name = #objectValues[disc], an array *)
          else nthZ i ds                                       (* ... an object keyed by disc *)
  | Dart => if is_contiguous ds then Z.of_nat i else nthZ i ds (* .index  vs  _ffi switch *)
  | Kotlin => match kt_variants_of ds with
              | KContig _ => Z.of_nat i                        (* ordinal *)
              | KNon t => match assoc_nat i t with Some v => v | None => 0 end
              end
  end.

(* the variant a binding selects for a native value received from Rust *)
Definition from_native (b : backend) (ds : list Z) (n : Z) : option nat :=
  match b with
  | C | Cpp | Nanobind => index_of n ds                        (* switch over the enumerators, then cast *)
  | Js => if is_contiguous ds then in_range n ds else index_of n ds
  | Dart => if is_contiguous ds then in_range n ds else index_of n ds   (* values[n] vs firstWhere(_ffi == n) *)
  | Kotlin => match kt_variants_of ds with
              | KContig _ => in_range n ds                     (* entries[native] *)
              | KNon t => rassoc n t
              end
  end.

(* ---- correspondence ---- *)
Fixpoint listZ_eqb (a b : list Z) : bool :=
  match a, b with
  | [], [] => true
  | x :: a', y :: b' => (x =? y) && listZ_eqb a' b'
  | _, _ => false
  end.
Definition opt_nat_eqb (a b : option nat) : bool :=
  match a, b with None, None => true | Some x, Some y => Nat.eqb x y | _, _ => false end.
(* observed: each variant's value in the binding, and the variant index selected for rustc's value of variant i *)
Definition agree_backend (b : backend) (vs : list (option Z)) (vals : list Z) (back : list (option nat)) : bool :=
  let ds := discriminants vs in
  listZ_eqb (map (value_of b ds) (seq 0 (length ds))) vals &&
  (fix go (l1 : list Z) (l2 : list (option nat)) :=
     match l1, l2 with
     | [], [] => true
     | d :: r1, o :: r2 => opt_nat_eqb (from_native b ds d) o && go r1 r2
     | _, _ => false
     end) ds back.
Definition agree_rustc (vs : list (option Z)) (rust : list Z) : bool := listZ_eqb (discriminants vs) rust.
