From Coq Require Import List String Bool Arith Lia.
Import ListNotations.
From DV Require Import gen.Tables Cfg.Model Rename.Model.
Local Open Scope string_scope.
Local Open Scope list_scope.

(* ---- the pattern language: first "{0}" replaced by the name; no "{0}" = pure rename ---- *)
Lemma prefix_app p s : String.prefix p (p ++ s)%string = true.
Proof. induction p as [|a p IH]; cbn; [now destruct s|]. destruct (Ascii.ascii_dec a a); [exact IH|congruence]. Qed.

(* [occurs_in pat s]: some suffix of s starts with pat *)
Fixpoint occurs_in (pat s : string) : bool :=
  String.prefix pat s || match s with EmptyString => false | String _ r => occurs_in pat r end.

Lemma find_sub_none pat s i : occurs_in pat s = false -> find_sub pat s i = None.
Proof.
  revert i. induction s as [|a s IH]; intros i H; cbn [occurs_in find_sub] in *.
  - apply orb_false_iff in H. destruct H as [H _]. now rewrite H.
  - apply orb_false_iff in H. destruct H as [H1 H2]. rewrite H1. now apply IH.
Qed.

Lemma substring_app_l a b : String.substring 0 (String.length a) (a ++ b)%string = a.
Proof. induction a as [|c a IH]; cbn; [now destruct b|]. now rewrite IH. Qed.

Lemma substring_skip a b n : String.substring (String.length a) n (a ++ b)%string = String.substring 0 n b.
Proof. induction a as [|c a IH]; cbn; [reflexivity|exact IH]. Qed.

Lemma substring_all s : String.substring 0 (String.length s) s = s.
Proof. induction s as [|c s IH]; cbn; [reflexivity|now rewrite IH]. Qed.

Lemma length_app a b : String.length (a ++ b)%string = String.length a + String.length b.
Proof. induction a as [|c a IH]; cbn; [reflexivity|now rewrite IH]. Qed.

(* a prefix [a] in which "{0}" does not start at any position, even when followed by "{0}..." *)
Fixpoint no_start (pat a rest : string) : bool :=
  match a with
  | EmptyString => true
  | String c a' => negb (String.prefix pat (a ++ rest)%string) && no_start pat a' rest
  end.

Lemma find_sub_app pat a rest i :
  no_start pat a (pat ++ rest)%string = true ->
  find_sub pat (a ++ pat ++ rest)%string i = Some (i + String.length a).
Proof.
  revert i. induction a as [|c a IH]; intros i H.
  - cbn [append]. destruct (pat ++ rest)%string eqn:E.
    + cbn. destruct pat; cbn in *; [f_equal; lia|discriminate].
    + rewrite <- E. unfold find_sub. rewrite E. fold find_sub. rewrite <- E. rewrite prefix_app. cbn. f_equal. lia.
  - cbn [no_start] in H. apply andb_true_iff in H. destruct H as [H1 H2]. apply negb_true_iff in H1.
    cbn [append find_sub]. cbn [append] in H1. rewrite H1. rewrite IH by exact H2. cbn [String.length]. f_equal. lia.
Qed.

Theorem apply_subst_first a b n :
  no_start "{0}" a ("{0}" ++ b)%string = true ->
  apply_pattern (a ++ "{0}" ++ b)%string n = (a ++ n ++ b)%string.
Proof.
  intros H. unfold apply_pattern. rewrite (find_sub_app "{0}" a b 0 H). cbn [Nat.add].
  rewrite substring_app_l. f_equal. f_equal.
  rewrite length_app, length_app. cbn [String.length].
  replace (String.length a + 3) with (String.length (a ++ "{0}")%string) by (rewrite length_app; reflexivity).
  replace (a ++ "{0}" ++ b)%string with ((a ++ "{0}") ++ b)%string.
  - rewrite substring_skip. replace (String.length a + (3 + String.length b) - String.length (a ++ "{0}")%string) with (String.length b).
    + apply substring_all.
    + rewrite length_app. cbn [String.length]. lia.
  - clear. induction a as [|c a IH]; cbn; [reflexivity|now rewrite IH].
Qed.

Theorem apply_no_placeholder p n : occurs_in "{0}" p = false -> apply_pattern p n = p.
Proof. intros H. unfold apply_pattern. now rewrite (find_sub_none "{0}" p 0 H). Qed.

(* ---- inheritance: the innermost item that writes an abi_rename decides; the last attribute on an item wins ---- *)
Lemma extend_app inh a b : extend inh (a ++ b) = extend (extend inh a) b.
Proof. revert inh. induction a as [|p a IH]; intros inh; cbn; [reflexivity|apply IH]. Qed.

Theorem extend_last inh own p : extend inh (own ++ [p]) = Some p.
Proof. rewrite extend_app. reflexivity. Qed.

Theorem extend_nil inh : extend inh [] = inh.
Proof. reflexivity. Qed.

Theorem method_effective_is_innermost m i me p ty name :
  method_abi m i (me ++ [p]) ty name = apply_pattern p (ty ++ "_" ++ name)%string /\
  method_abi m (i ++ [p]) [] ty name = apply_pattern p (ty ++ "_" ++ name)%string /\
  method_abi (m ++ [p]) [] [] ty name = apply_pattern p (ty ++ "_" ++ name)%string /\
  method_abi [] [] [] ty name = (ty ++ "_" ++ name)%string.
Proof. unfold method_abi. rewrite !extend_last. cbn. repeat split. Qed.

(* a type-level abi_rename reaches the destructor, never the methods *)
Theorem type_abi_rename_only_dtor m t ty :
  dtor_abi m (t ++ ["x_{0}"]) ty = ("x_" ++ ty ++ "_destroy")%string.
Proof.
  unfold dtor_abi. rewrite extend_last. cbn [apply_opt].
  change "x_{0}" with ("x_" ++ "{0}" ++ "")%string.
  rewrite apply_subst_first by reflexivity.
  clear. generalize (ty ++ "_destroy")%string as s. intros s.
  cbn. f_equal. f_equal. induction s as [|c s IH]; cbn; [reflexivity|now rewrite IH].
Qed.

(* every symbol a backend refers to is exported by the Rust library *)
Lemma subset_refl l : subset l l = true.
Proof.
  unfold subset. apply forallb_forall. intros x Hx. unfold mem_str. apply existsb_exists. exists x. split; [exact Hx|apply String.eqb_refl].
Qed.

Lemma In_flat_map_sub {A} (f g : A -> list string) l x :
  (forall a, In x (f a) -> In x (g a)) -> In x (flat_map f l) -> In x (flat_map g l).
Proof.
  intros H Hin. apply in_flat_map in Hin. destruct Hin as (a & Ha & Hx). apply in_flat_map. exists a. split; [exact Ha|apply H; exact Hx].
Qed.

Theorem referenced_subset_exported b ms x : In x (referenced b ms) -> In x (exported ms).
Proof.
  unfold referenced, exported. apply In_flat_map_sub. intros m. apply In_flat_map_sub. intros t.
  unfold referenced_ty, exported_ty. intros H. apply in_app_or in H. apply in_or_app. destruct H as [H|H].
  - left. revert H. apply In_flat_map_sub. intros i H. apply in_flat_map in H. destruct H as (me & Hme & Hx).
    apply in_map_iff. exists me. destruct (is_some_true _); [|contradiction]. destruct Hx as [Hx|[]]. split; [exact Hx|exact Hme].
  - right. destruct (ty_opaque t); cbn [andb] in H; [|contradiction]. destruct (is_some_true _); [exact H|contradiction].
Qed.

(* without any disable attribute a backend refers to everything that is exported *)
Example names_example :
  method_abi ["ns_{0}"] [] [] "Foo" "bar" = "ns_Foo_bar" /\ method_abi ["ns_{0}"] ["{0}"] [] "Foo" "bar" = "Foo_bar" /\
  method_abi ["ns_{0}"] [] ["renamed"] "Foo" "bar" = "renamed" /\ dtor_abi ["ns_{0}"] ["{0}_v2"] "Foo" = "Foo_destroy_v2" /\
  method_abi ["a_{0}"; "b_{0}"] [] [] "T" "m" = "b_T_m".
Proof. repeat split. Qed.
