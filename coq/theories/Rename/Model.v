(* ABI symbol names (core/src/ast/{attrs,methods,opaque,modules}.rs, macro/src/lib.rs) and the symbols each
   backend refers to.  Definitions only. *)
From Coq Require Import List String Bool Arith.
Import ListNotations.
From DV Require Import gen.Tables Cfg.Model.
Local Open Scope string_scope.
Local Open Scope list_scope.

(* RenameAttr::extend over the abi_rename attributes written on one item, in source order: the last one wins,
   and an item without any keeps what it inherits *)
Fixpoint extend (inherited : option string) (own : list string) : option string :=
  match own with [] => inherited | p :: r => extend (Some p) r end.

Definition apply_opt (p : option string) (name : string) : string :=
  match p with Some p => apply_pattern p name | None => name end.

(* Method::from_syn: module -> impl -> method, then applied to Type_method *)
Definition method_abi (m i me : list string) (ty name : string) : string :=
  apply_opt (extend (extend (extend None m) i) me) (ty ++ "_" ++ name)%string.
(* OpaqueType::dtor_abi_name: module -> type, applied to Type_destroy *)
Definition dtor_abi (m t : list string) (ty : string) : string :=
  apply_opt (extend (extend None m) t) (ty ++ "_destroy")%string.

(* a bridge module as far as symbols are concerned *)
Record meth := mkMeth { me_name : string; me_abi : list string; me_attrs : list attr }.
Record impl := mkImpl { im_abi : list string; im_attrs : list attr; im_methods : list meth }.
Record tydef := mkTy { ty_name : string; ty_opaque : bool; ty_abi : list string; ty_attrs : list attr; ty_impls : list impl }.
Record bmod := mkMod { mo_abi : list string; mo_attrs : list attr; mo_types : list tydef }.

(* what gen_bridge exports: every public method of every type and a destructor per opaque — regardless of diplomat::attr *)
Definition exported_ty (m : bmod) (t : tydef) : list string :=
  flat_map (fun i => map (fun me => method_abi (mo_abi m) (im_abi i) (me_abi me) (ty_name t) (me_name me)) (im_methods i)) (ty_impls t)
  ++ (if ty_opaque t then [dtor_abi (mo_abi m) (ty_abi t) (ty_name t)] else []).
Definition exported (ms : list bmod) : list string :=
  flat_map (fun m => flat_map (exported_ty m) (mo_types m)) ms.

(* what backend b refers to: methods that are present for b, and destructors of opaques that are present *)
Definition is_some_true (o : option bool) : bool := match o with Some true => true | _ => false end.
Definition referenced_ty (b : string) (m : bmod) (t : tydef) : list string :=
  flat_map (fun i => flat_map (fun me =>
      if is_some_true (method_present b (mo_attrs m) (ty_attrs t) (im_attrs i) (me_attrs me))
      then [method_abi (mo_abi m) (im_abi i) (me_abi me) (ty_name t) (me_name me)] else []) (im_methods i)) (ty_impls t)
  ++ (if ty_opaque t && is_some_true (type_present b (mo_attrs m) (ty_attrs t))
      then [dtor_abi (mo_abi m) (ty_abi t) (ty_name t)] else []).
Definition referenced (b : string) (ms : list bmod) : list string :=
  flat_map (fun m => flat_map (referenced_ty b m) (mo_types m)) ms.

(* ---- correspondence: set equality with what nm / the generated files show ---- *)
Definition mem_str (x : string) (l : list string) : bool := existsb (String.eqb x) l.
Definition subset (a b : list string) : bool := forallb (fun x => mem_str x b) a.
Definition same_set (a b : list string) : bool := subset a b && subset b a.
Definition agree_exported (ms : list bmod) (nm : list string) : bool := same_set (exported ms) nm.
Definition agree_referenced (b : string) (ms : list bmod) (refs : list string) : bool := same_set (referenced b ms) refs.
