From Coq Require Import List Arith NArith Bool Lia.
Import ListNotations.
From DV Require Import Base.Lists Write.Model.

Lemma splice_length m a ch : a + length ch <= length m -> length (splice m a ch) = length m.
Proof.
  intros H. unfold splice. rewrite !app_length, firstn_length, skipn_length. lia.
Qed.

Lemma firstn_splice m a ch :
  a + length ch <= length m -> firstn (a + length ch) (splice m a ch) = firstn a m ++ ch.
Proof.
  intros H. unfold splice.
  assert (Ha : length (firstn a m) = a) by (rewrite firstn_length; lia).
  rewrite firstn_app, Ha.
  rewrite (@firstn_all2 _ (a + length ch) (firstn a m)) by lia.
  replace (a + length ch - a) with (length ch) by lia.
  rewrite firstn_app, firstn_all, Nat.sub_diag. cbn [firstn]. now rewrite app_nil_r.
Qed.

Lemma firstn_splice_before m a ch n :
  n <= a -> a <= length m -> firstn n (splice m a ch) = firstn n m.
Proof.
  intros Hn Ha. unfold splice.
  rewrite firstn_app, firstn_firstn, firstn_length.
  replace (Nat.min n a) with n by lia. replace (n - Nat.min a (length m)) with 0 by lia.
  cbn [firstn]. now rewrite app_nil_r.
Qed.

Lemma skipn_splice_after m a ch n :
  a + length ch <= n -> a + length ch <= length m -> skipn n (splice m a ch) = skipn n m.
Proof.
  intros Hn Ha. unfold splice.
  assert (Hf : length (firstn a m) = a) by (rewrite firstn_length; lia).
  rewrite skipn_app, Hf. rewrite (@skipn_all2 _ n (firstn a m)) by lia. cbn [app].
  rewrite skipn_app. rewrite (@skipn_all2 _ (n - a) ch) by lia. cbn [app].
  rewrite skipn_skipn. f_equal. lia.
Qed.

Lemma splice_idem m a ch : a + length ch <= length m -> splice (splice m a ch) a ch = splice m a ch.
Proof.
  intros H. unfold splice at 1.
  rewrite (firstn_splice_before m a ch a) by lia.
  rewrite (skipn_splice_after m a ch (a + length ch)) by lia. reflexivity.
Qed.

Lemma grow_mem_length s nc f : cap s <= length (mem s) -> cap s <= nc -> length (grow_mem s nc f) = nc.
Proof.
  intros H1 H2. unfold grow_mem. rewrite app_length, firstn_length, repeat_length. lia.
Qed.

Lemma grow_mem_prefix s nc f n :
  n <= cap s -> cap s <= length (mem s) -> firstn n (grow_mem s nc f) = firstn n (mem s).
Proof.
  intros Hn Hc. unfold grow_mem.
  rewrite firstn_app, firstn_firstn, firstn_length.
  replace (Nat.min n (cap s)) with n by lia.
  replace (n - Nat.min (cap s) (length (mem s))) with 0 by lia.
  cbn [firstn]. now rewrite app_nil_r.
Qed.

(* One write: the three possible outcomes, characterised. *)
Lemma write_str_cases s ch g :
  wf s -> failed s = false ->
  let '(s', ev) := write_str s ch g in
  wf s' /\ Forall ev_in_bounds ev /\
  ( (ev_failed ev = true /\ grows s ch = true /\ g = GFail /\
     failed s' = true /\ mem s' = mem s /\ len s' = len s /\ cap s' = cap s)
  \/ (ev_failed ev = false /\ failed s' = false /\ len s' = len s + length ch /\
      firstn (len s') (mem s') = firstn (len s) (mem s) ++ ch /\
      (grows s ch = false -> cap s' = cap s /\ length (mem s') = length (mem s)
                              /\ skipn (len s') (mem s') = skipn (len s') (mem s))) ).
Proof.
  intros [Hl Hc] Hf. unfold write_str, grows. rewrite Hf. cbn [negb andb].
  destruct (cap s <? len s + length ch) eqn:Hg.
  - apply Nat.ltb_lt in Hg. destruct g as [|extra fill].
    + cbn. split; [split; cbn; lia|]. split; [repeat constructor|]. left. repeat split; reflexivity.
    + assert (Hgl : length (grow_mem s (len s + length ch + extra) fill) = len s + length ch + extra)
        by (apply grow_mem_length; lia).
      cbn [fst snd]. split.
      * split; cbn [len cap mem]; [lia|]. rewrite splice_length; lia.
      * split.
        { repeat constructor; cbn; lia. }
        right. cbn [len cap mem failed ev_failed existsb orb]. repeat split; try reflexivity.
        -- rewrite firstn_splice by lia. now rewrite grow_mem_prefix by lia.
        -- discriminate.
        -- discriminate.
        -- discriminate.
  - apply Nat.ltb_ge in Hg. cbn [fst snd]. split.
    + split; cbn [len cap mem]; [lia|]. rewrite splice_length; lia.
    + split.
      { repeat constructor; cbn; lia. }
      right. cbn [len cap mem failed ev_failed existsb orb]. repeat split; try reflexivity.
      * rewrite firstn_splice by lia. reflexivity.
      * rewrite splice_length; lia.
      * apply skipn_splice_after; lia.
Qed.

Lemma write_str_sticky s ch g : failed s = true -> write_str s ch g = (s, []).
Proof. intros H. unfold write_str. now rewrite H. Qed.

Lemma run_sticky chunks : forall s gs, failed s = true ->
  fst (run s chunks gs) = s /\ Forall (fun ev => ev = []) (snd (run s chunks gs)).
Proof.
  induction chunks as [|c cs IH]; intros s gs Hf; cbn [run].
  - split; [reflexivity|constructor].
  - rewrite write_str_sticky by assumption.
    assert (Hg : grows s c = false) by (unfold grows; now rewrite Hf).
    rewrite Hg. specialize (IH s gs Hf).
    destruct (run s cs gs) as [s2 evs]. cbn [fst snd] in *. destruct IH as [-> IH2].
    split; [reflexivity|]. constructor; [reflexivity|assumption].
Qed.

Lemma first_fail_all_nil evss : Forall (fun ev : list event => ev = []) evss -> first_fail evss = length evss.
Proof.
  induction 1 as [|ev r Hev _ IH]; [reflexivity|]. subst ev. cbn. now rewrite IH.
Qed.

Lemma run_length chunks : forall s gs, length (snd (run s chunks gs)) = length chunks.
Proof.
  induction chunks as [|c cs IH]; intros s gs; cbn [run]; [reflexivity|].
  destruct (write_str s c (hd GFail gs)) as [s1 ev].
  specialize (IH s1 (if grows s c then tl gs else gs)).
  destruct (run s1 cs _) as [s2 evs]. cbn [snd length] in *. now rewrite IH.
Qed.

(* Main invariant-by-induction theorem over arbitrary histories. *)
Lemma run_exact chunks : forall s gs,
  wf s -> failed s = false ->
  let '(s', evss) := run s chunks gs in
  let k := first_fail evss in
  wf s' /\ Forall (Forall ev_in_bounds) evss /\
  firstn (len s') (mem s') = firstn (len s) (mem s) ++ concat (firstn k chunks) /\
  len s' = len s + length (concat (firstn k chunks)) /\
  failed s' = negb (k =? length chunks) /\ k <= length chunks.
Proof.
  induction chunks as [|c cs IH]; intros s gs Hwf Hf; cbn [run].
  - cbn. rewrite app_nil_r, Hf. repeat split; try apply Hwf; try constructor; lia.
  - pose proof (write_str_cases s c (hd GFail gs) Hwf Hf) as H1.
    destruct (write_str s c (hd GFail gs)) as [s1 ev].
    destruct H1 as (Hwf1 & Hb1 & [Hfail | Hok]).
    + destruct Hfail as (Hev & Hgr & _ & Hf1 & Hm & Hl & Hc).
      pose proof (run_sticky cs s1 (if grows s c then tl gs else gs) Hf1) as [Hs Hn].
      destruct (run s1 cs _) as [s2 evs]. cbn [fst snd] in *. subst s2.
      cbn [first_fail]. rewrite Hev. cbn [firstn concat].
      rewrite app_nil_r, Hm, Hl, Hf1. cbn [length Nat.eqb negb].
      repeat split; try apply Hwf1; try lia.
      constructor; [assumption|].
      eapply Forall_impl; [|exact Hn]. intros a ->. constructor.
    + destruct Hok as (Hev & Hf1 & Hl1 & Hm1 & _).
      specialize (IH s1 (if grows s c then tl gs else gs) Hwf1 Hf1).
      destruct (run s1 cs _) as [s2 evs].
      cbn [first_fail]. rewrite Hev.
      destruct IH as (Hwf2 & Hb2 & Hm2 & Hl2 & Hf2 & Hk).
      cbn [firstn concat length]. rewrite app_length.
      repeat split; try apply Hwf2.
      * constructor; assumption.
      * rewrite Hm2, Hm1. now rewrite app_assoc.
      * lia.
      * rewrite Hf2. reflexivity.
      * lia.
Qed.

(* The same statement against [spec], which never looks at memory. *)
Lemma run_meets_spec chunks : forall s gs,
  wf s -> failed s = false ->
  let '(r, f) := spec (len s) (cap s) chunks gs in
  let s' := fst (run s chunks gs) in
  firstn (len s') (mem s') = firstn (len s) (mem s) ++ r /\ failed s' = f /\
  len s' = len s + length r.
Proof.
  induction chunks as [|c cs IH]; intros s gs Hwf Hf; cbn [run spec].
  - cbn. rewrite app_nil_r. repeat split; [assumption|lia].
  - pose proof (write_str_cases s c (hd GFail gs) Hwf Hf) as H1.
    unfold write_str, grows in *. rewrite Hf in *. cbn [negb andb] in *.
    destruct (cap s <? len s + length c) eqn:Hg.
    + destruct gs as [|[|extra fill] gs']; cbn [hd tl] in *.
      * cbn. pose proof (run_sticky cs (mkW (mem s) (len s) (cap s) true) [] eq_refl) as [Hs _].
        destruct (run _ cs []) as [s2 evs]. cbn [fst] in *. subst s2. cbn.
        rewrite app_nil_r. repeat split; lia.
      * pose proof (run_sticky cs (mkW (mem s) (len s) (cap s) true) gs' eq_refl) as [Hs _].
        destruct (run _ cs gs') as [s2 evs]. cbn [fst] in *. subst s2. cbn.
        rewrite app_nil_r. repeat split; lia.
      * destruct H1 as (Hwf1 & _ & [Hfail | Hok]); [cbn in Hfail; destruct Hfail as (? & _); discriminate|].
        destruct Hok as (_ & Hf1 & Hl1 & Hm1 & _).
        set (s1 := mkW _ _ _ false) in *.
        specialize (IH s1 gs' Hwf1 Hf1).
        change (len s1) with (len s + length c) in IH at 1.
        change (cap s1) with (len s + length c + extra) in IH.
        destruct (spec (len s + length c) (len s + length c + extra) cs gs') as [r f].
        destruct (run s1 cs gs') as [s2 evs]. cbn [fst] in *.
        destruct IH as (Hm2 & Hf2 & Hl2).
        rewrite Hm2, Hm1, Hl2, app_length, <- app_assoc. repeat split; try assumption.
        cbn [len s1]. lia.
    + destruct H1 as (Hwf1 & _ & [Hfail | Hok]); [cbn in Hfail; destruct Hfail as (? & _); discriminate|].
      destruct Hok as (_ & Hf1 & Hl1 & Hm1 & _).
      set (s1 := mkW _ _ _ false) in *.
      specialize (IH s1 gs Hwf1 Hf1).
      change (len s1) with (len s + length c) in IH at 1.
      change (cap s1) with (cap s) in IH.
      destruct (spec (len s + length c) (cap s) cs gs) as [r f].
      destruct (run s1 cs gs) as [s2 evs]. cbn [fst] in *.
      destruct IH as (Hm2 & Hf2 & Hl2).
      rewrite Hm2, Hm1, Hl2, app_length, <- app_assoc. repeat split; try assumption.
      cbn [len s1]. lia.
Qed.

(* ---- property-level statements ---- *)

Theorem write_seq_exact s chunks gs :
  wf s -> failed s = false ->
  let s' := fst (run s chunks gs) in
  let k := first_fail (snd (run s chunks gs)) in
  firstn (len s') (mem s') = firstn (len s) (mem s) ++ concat (firstn k chunks) /\
  (failed s' = true <-> k < length chunks).
Proof.
  intros Hwf Hf. pose proof (run_exact chunks s gs Hwf Hf) as H.
  destruct (run s chunks gs) as [s' evss]. cbn [fst snd].
  destruct H as (_ & _ & Hm & _ & Hfl & Hk). split; [exact Hm|].
  rewrite Hfl. destruct (Nat.eqb_spec (first_fail evss) (length chunks)); cbn; split; intros; try lia; try discriminate; reflexivity.
Qed.

Theorem write_seq_no_partial s chunks gs :
  wf s -> failed s = false ->
  exists k, k <= length chunks /\
    len (fst (run s chunks gs)) = len s + length (concat (firstn k chunks)).
Proof.
  intros Hwf Hf. pose proof (run_exact chunks s gs Hwf Hf) as H.
  destruct (run s chunks gs) as [s' evss]. cbn [fst].
  exists (first_fail evss). cbv zeta in H. tauto.
Qed.

Theorem write_seq_in_bounds s chunks gs :
  wf s -> failed s = false ->
  wf (fst (run s chunks gs)) /\ Forall (Forall ev_in_bounds) (snd (run s chunks gs)).
Proof.
  intros Hwf Hf. pose proof (run_exact chunks s gs Hwf Hf) as H.
  destruct (run s chunks gs) as [s' evss]. cbn [fst snd]. cbv zeta in H. tauto.
Qed.

Theorem write_sticky s chunks gs :
  failed s = true ->
  fst (run s chunks gs) = s /\ get_bytes s = None /\ get_len s = 0.
Proof.
  intros Hf. split; [apply run_sticky; assumption|]. unfold get_bytes, get_len. now rewrite Hf.
Qed.

Theorem write_spec_agrees s chunks gs :
  wf s -> failed s = false -> len s = 0 ->
  let s' := fst (run s chunks gs) in
  firstn (len s') (mem s') = fst (spec 0 (cap s) chunks gs) /\ failed s' = snd (spec 0 (cap s) chunks gs).
Proof.
  intros Hwf Hf Hl. pose proof (run_meets_spec chunks s gs Hwf Hf) as H. rewrite Hl in H.
  destruct (spec 0 (cap s) chunks gs) as [r f]. cbn [firstn app fst snd] in *. tauto.
Qed.

(* Fixed-size writer: NUL lands inside the caller's buffer; nothing after it is touched;
   flush is idempotent. *)
Theorem simple_flush_in_caller_buffer buf chunks :
  1 <= length buf ->
  let s := run_simple buf chunks in
  let '(s', ev) := simple_flush s in
  len s < length buf /\ Forall ev_in_bounds ev /\ length (mem s') = length buf /\
  firstn (S (len s)) (mem s') = firstn (len s) (mem s) ++ [0%N] /\
  fst (simple_flush s') = s' /\
  exists k, k <= length chunks /\ firstn (len s) (mem s) = concat (firstn k chunks).
Proof.
  intros Hb. unfold run_simple.
  assert (Hwf : wf (simple_init buf)) by (unfold wf, simple_init; cbn; lia).
  pose proof (run_exact chunks (simple_init buf) [] Hwf eq_refl) as H.
  assert (Hmemlen : forall cs s, wf s -> cap s + 1 = length (mem s) ->
            length (mem (fst (run s cs []))) = length (mem s) /\ cap (fst (run s cs [])) = cap s).
  { induction cs as [|c cs IH]; intros s Hs Hc; cbn [run]; [split; reflexivity|].
    cbn [hd]. unfold write_str, grows.
    destruct (failed s) eqn:Hf.
    - cbn [negb andb]. specialize (IH s Hs Hc). destruct (run s cs []); exact IH.
    - cbn [negb andb]. destruct (cap s <? len s + length c) eqn:Hg.
      + cbn [tl].
        pose proof (run_sticky cs (mkW (mem s) (len s) (cap s) true) [] eq_refl) as [Hst _].
        destruct (run _ cs []) as [s2 e2]. cbn [fst] in *. subst s2. split; reflexivity.
      + apply Nat.ltb_ge in Hg. destruct Hs as [Hs1 Hs2].
        assert (Hsl : length (splice (mem s) (len s) c) = length (mem s)) by (apply splice_length; lia).
        set (s1 := mkW _ _ _ false).
        specialize (IH s1). destruct (run s1 cs []) as [s2 e2]. cbn [fst] in *.
        destruct IH as [I1 I2].
        * unfold wf; cbn [len cap mem s1]. lia.
        * cbn [len cap mem s1]. lia.
        * cbn [mem cap s1] in *. split; lia. }
  specialize (Hmemlen chunks (simple_init buf) Hwf).
  destruct (run (simple_init buf) chunks []) as [s evss]. cbn [fst] in *.
  destruct H as (Hwf' & _ & Hm & _ & _ & Hk).
  destruct Hmemlen as [Hml Hcp]; [cbn; lia|]. cbn [simple_init mem cap len] in *.
  destruct Hwf' as [Hw1 Hw2].
  unfold simple_flush. cbn [fst len cap mem failed].
  assert (Hsl : length (splice (mem s) (len s) [0%N]) = length (mem s)) by (apply splice_length; cbn; lia).
  split; [lia|]. split; [constructor; [cbn; lia|constructor]|]. split; [lia|]. split.
  - replace (S (len s)) with (len s + length [0%N]) by (cbn; lia).
    apply firstn_splice. cbn; lia.
  - split.
    + f_equal. apply splice_idem. cbn; lia.
    + exists (first_fail evss). split; [lia|]. exact Hm.
Qed.

Lemma all_ok_spec chunks : forall l c gs,
  (forall n, all_ok (skipn n gs) = true) -> length chunks <= length gs ->
  spec l c chunks gs = (concat chunks, false).
Proof.
  induction chunks as [|ch cs IH]; intros l c gs Hok Hlen; cbn [spec concat]; [reflexivity|].
  destruct gs as [|g gs']; [cbn in Hlen; lia|].
  assert (Hok' : forall n, all_ok (skipn n gs') = true) by (intros n; exact (Hok (S n))).
  cbn [length] in Hlen.
  destruct (c <? l + length ch).
  - pose proof (Hok 0) as H0. cbn in H0. destruct g as [|extra fill]; [discriminate|].
    rewrite IH by (assumption || lia). reflexivity.
  - rewrite (IH _ _ (g :: gs')); [reflexivity| exact Hok | cbn; lia].
Qed.

(* Rust-owned writer: growth never fails, so everything written is there. *)
Theorem owned_never_fails c chunks gs :
  all_ok gs = true -> length chunks <= length gs ->
  let s' := fst (run (owned_init c) chunks gs) in
  get_bytes s' = Some (concat chunks) /\ get_len s' = length (concat chunks).
Proof.
  intros Hok Hlen.
  assert (Hwf : wf (owned_init c)) by (unfold wf, owned_init; cbn; rewrite repeat_length; lia).
  pose proof (run_meets_spec chunks (owned_init c) gs Hwf eq_refl) as H.
  rewrite all_ok_spec in H; [| |assumption].
  - cbn [owned_init len firstn app] in H. destruct H as (Hm & Hf & Hl).
    unfold get_bytes, get_len. rewrite Hf, Hm, Hl. split; reflexivity.
  - intros n. unfold all_ok in *. rewrite forallb_forall in *. intros x Hx. apply Hok.
    eapply In_skipn; eauto.
Qed.

(* C++ WriteFromString: grow always succeeds exactly, flush trims; the std::string is the
   concatenation of everything written. *)
Theorem cpp_string_result c chunks :
  let s' := fst (run (owned_init c) chunks (cpp_grow_script (length chunks))) in
  cpp_string_after_flush s' = concat chunks /\ failed s' = false.
Proof.
  assert (Hwf : wf (owned_init c)) by (unfold wf, owned_init; cbn; rewrite repeat_length; lia).
  pose proof (run_meets_spec chunks (owned_init c) (cpp_grow_script (length chunks)) Hwf eq_refl) as H.
  rewrite all_ok_spec in H.
  - cbn [owned_init len firstn app] in H. unfold cpp_string_after_flush. tauto.
  - intros n. unfold all_ok, cpp_grow_script. rewrite forallb_forall. intros x Hx.
    apply In_skipn in Hx. apply repeat_spec in Hx. now subst.
  - unfold cpp_grow_script. now rewrite repeat_length.
Qed.

(* Non-vacuity: concrete states meeting the hypotheses, and a failing-growth history. *)
Example wf_example : wf (caller_init 4 7%N) /\ failed (caller_init 4 7%N) = false.
Proof. unfold wf; cbn; split; [lia|reflexivity]. Qed.
Example fail_example :
  let r := run (caller_init 2 0%N) [[1;2]; [3]; [4]]%N [GOk 0 9%N; GFail] in
  first_fail (snd r) = 2 /\ failed (fst r) = true /\ firstn (len (fst r)) (mem (fst r)) = [1;2;3]%N.
Proof. vm_compute. repeat split. Qed.
