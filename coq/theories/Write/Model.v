(* Executable model of runtime/src/write.rs (DiplomatWrite).  Definitions only: the model must
   still run in the correspondence check when a proof breaks. *)
From Coq Require Import List Arith NArith Bool.
Import ListNotations.

Definition byte := N.

(* The #[repr(C)] struct, minus the function pointers: [mem] is the allocation [buf] points to,
   [cap] the field of that name (the writer may touch mem[0..cap) only). *)
Record wstate := mkW { mem : list byte; len : nat; cap : nat; failed : bool }.

(* Outcome of one call of the caller-supplied grow(self, requested):
   GFail            returns false, touches nothing;
   GOk extra fill   returns true, new buffer of [requested + extra] bytes: old contents kept
                    (realloc semantics), the new tail holds [fill]. *)
Inductive gout := GFail | GOk (extra : nat) (fill : byte).

Inductive event :=
| EGrow (requested : nat) (ok : bool)
| ECopy (lo hi capnow memlen : nat).   (* bytes [lo,hi) stored while cap = capnow, |mem| = memlen *)

Definition splice (m : list byte) (at_ : nat) (chunk : list byte) : list byte :=
  firstn at_ m ++ chunk ++ skipn (at_ + length chunk) m.

Definition grow_mem (s : wstate) (newcap : nat) (fill : byte) : list byte :=
  firstn (cap s) (mem s) ++ repeat fill (newcap - cap s).

(* fmt::Write::write_str, line by line. *)
Definition write_str (s : wstate) (chunk : list byte) (g : gout) : wstate * list event :=
  if failed s then (s, [])
  else
    let needed := len s + length chunk in
    if cap s <? needed then
      match g with
      | GFail => (mkW (mem s) (len s) (cap s) true, [EGrow needed false])
      | GOk extra fill =>
          let nc := needed + extra in
          let m' := grow_mem s nc fill in
          (mkW (splice m' (len s) chunk) needed nc false,
           [EGrow needed true; ECopy (len s) needed nc (length m')])
      end
    else (mkW (splice (mem s) (len s) chunk) needed (cap s) false,
          [ECopy (len s) needed (cap s) (length (mem s))]).

Definition grows (s : wstate) (chunk : list byte) : bool :=
  negb (failed s) && (cap s <? len s + length chunk).

(* A history: one write per chunk; an outcome is consumed only when grow() is actually called;
   an exhausted outcome list means grow() fails. *)
Fixpoint run (s : wstate) (chunks : list (list byte)) (gs : list gout)
  : wstate * list (list event) :=
  match chunks with
  | [] => (s, [])
  | c :: cs =>
      let g := hd GFail gs in
      let gs' := if grows s c then tl gs else gs in
      let '(s1, ev) := write_str s c g in
      let '(s2, evs) := run s1 cs gs' in
      (s2, ev :: evs)
  end.

(* States after every prefix (for per-operation correspondence). *)
Fixpoint run_trace (s : wstate) (chunks : list (list byte)) (gs : list gout) : list wstate :=
  match chunks with
  | [] => []
  | c :: cs =>
      let g := hd GFail gs in
      let gs' := if grows s c then tl gs else gs in
      let s1 := fst (write_str s c g) in
      s1 :: run_trace s1 cs gs'
  end.

(* diplomat_buffer_write_get_bytes / _len: None = NULL. *)
Definition get_bytes (s : wstate) : option (list byte) :=
  if failed s then None else Some (firstn (len s) (mem s)).
Definition get_len (s : wstate) : nat := if failed s then 0 else len s.

(* diplomat_simple_write(buf, buf_size): cap = buf_size - 1, grow always fails,
   flush writes 0 at buf[len]. [buf] is the caller's buffer (buf_size bytes). *)
Definition simple_init (buf : list byte) : wstate :=
  mkW buf 0 (length buf - 1) false.
Definition simple_flush (s : wstate) : wstate * list event :=
  (mkW (splice (mem s) (len s) [0%N]) (len s) (cap s) (failed s),
   [ECopy (len s) (S (len s)) (S (cap s)) (length (mem s))]).
Definition run_simple (buf : list byte) (chunks : list (list byte)) : wstate :=
  fst (run (simple_init buf) chunks []).

(* diplomat_buffer_write_create(cap): Rust-owned Vec, grow = reserve (always succeeds; the
   capacity the allocator hands back is the oracle's [extra]). *)
Definition owned_init (c : nat) : wstate := mkW (repeat 0%N c) 0 c false.
Definition all_ok (gs : list gout) : bool :=
  forallb (fun g => match g with GOk _ _ => true | GFail => false end) gs.

(* C++ diplomat::WriteFromString (runtime.hpp.jinja): context = std::string, buf = string.data(),
   cap = string.size() after resize(string.capacity()); grow = resize to the requested size and
   re-point (so extra = 0, fill = 0); flush = resize(len).  The string value after flush: *)
Definition cpp_string_after_flush (s : wstate) : list byte := firstn (len s) (mem s).
Definition cpp_grow_script (n : nat) : list gout := repeat (GOk 0 0%N) n.

(* What the property's text prescribes, computed without the state machine's memory:
   which chunks land (those before the first failed growth) and whether a growth failed. *)
Fixpoint spec (l c : nat) (chunks : list (list byte)) (gs : list gout) : list byte * bool :=
  match chunks with
  | [] => ([], false)
  | ch :: cs =>
      let needed := l + length ch in
      if c <? needed then
        match gs with
        | GOk extra _ :: gs' =>
            let '(r, f) := spec needed (needed + extra) cs gs' in (ch ++ r, f)
        | _ => ([], true)
        end
      else let '(r, f) := spec needed c cs gs in (ch ++ r, f)
  end.

(* index of the first chunk during which a grow() returned false *)
Definition ev_failed (evs : list event) : bool :=
  existsb (fun e => match e with EGrow _ false => true | _ => false end) evs.
Fixpoint first_fail (evss : list (list event)) : nat :=
  match evss with
  | [] => 0
  | evs :: r => if ev_failed evs then 0 else S (first_fail r)
  end.

Definition wf (s : wstate) : Prop := len s <= cap s /\ cap s <= length (mem s).
Definition ev_in_bounds (e : event) : Prop :=
  match e with
  | EGrow _ _ => True
  | ECopy lo hi c ml => lo <= hi /\ hi <= c /\ c <= ml
  end.

(* ---- correspondence: what the oracle observes after each write ---- *)
Record wobs := mkObs { o_len : nat; o_cap : nat; o_failed : bool; o_mem : list byte }.
Definition obs_of (s : wstate) : wobs := mkObs (len s) (cap s) (failed s) (firstn (cap s) (mem s)).
Definition list_N_eqb := fix go (a b : list N) : bool :=
  match a, b with
  | [], [] => true
  | x :: a', y :: b' => N.eqb x y && go a' b'
  | _, _ => false
  end.
Definition wobs_eqb (a b : wobs) : bool :=
  Nat.eqb (o_len a) (o_len b) && Nat.eqb (o_cap a) (o_cap b) &&
  Bool.eqb (o_failed a) (o_failed b) && list_N_eqb (o_mem a) (o_mem b).
Fixpoint all2 {A B} (f : A -> B -> bool) (a : list A) (b : list B) : bool :=
  match a, b with
  | [], [] => true
  | x :: a', y :: b' => f x y && all2 f a' b'
  | _, _ => false
  end.

(* caller-supplied writer: initial buffer of [c] bytes holding [fill0] *)
Definition caller_init (c : nat) (fill0 : byte) : wstate := mkW (repeat fill0 c) 0 c false.
Record wcase := mkCase { k_cap : nat; k_fill : byte; k_chunks : list (list byte); k_gs : list gout }.
Definition agree_caller (k : wcase) (observed : list wobs) : bool :=
  all2 wobs_eqb (map obs_of (run_trace (caller_init (k_cap k) (k_fill k)) (k_chunks k) (k_gs k))) observed.

(* fixed-size writer: observed = whole caller buffer after flush, len, failed *)
Definition agree_simple (bufsize : nat) (fill0 : byte) (chunks : list (list byte))
           (o_final_mem : list byte) (o_l : nat) (o_f : bool) : bool :=
  let s := run_simple (repeat fill0 bufsize) chunks in
  let s' := fst (simple_flush s) in
  list_N_eqb (mem s') o_final_mem && Nat.eqb (len s') o_l && Bool.eqb (failed s') o_f
  && list_N_eqb (mem (fst (simple_flush s'))) o_final_mem.

(* owned writer: observed after each op: get_len, get_bytes contents (None = NULL) *)
Definition opt_bytes_eqb (a b : option (list byte)) : bool :=
  match a, b with
  | None, None => true
  | Some x, Some y => list_N_eqb x y
  | _, _ => false
  end.
Definition agree_owned (c : nat) (chunks : list (list byte)) (gs : list gout)
           (observed : list (nat * nat * option (list byte))) : bool :=
  all2 (fun s '(l, cp, bs) => Nat.eqb (get_len s) l && Nat.eqb (cap s) cp && opt_bytes_eqb (get_bytes s) bs)
       (run_trace (owned_init c) chunks gs) observed.

(* C++ binding (e2e): std::string returned by a generated method that wrote [chunks] *)
Definition agree_cpp (chunks : list (list byte)) (observed : list byte) : bool :=
  let s := fst (run (owned_init 0) chunks (cpp_grow_script (length chunks))) in
  list_N_eqb (cpp_string_after_flush s) observed && negb (failed s).
