(* C17 — Configuration sources combine with the documented precedence. *)
From Coq Require Import List Bool String ZArith.
Import ListNotations.
From DV Require Import Config.Model Config.Proofs.
Local Open Scope string_scope.
Local Open Scope list_scope.

(* for every finite sequence of (well-typed) writes, the effective lib_name / unsafe_references_in_callbacks
   for a language is the last language-scoped write if any, else the last shared write *)
Theorem C17_effective : forall ws lang,
  known_lang lang = true -> forallb well_typed ws = true ->
  exists c s, run empty ws = Some c /\ get_overridden c lang = Some s /\
    lib_name s = str_of (effective lang "lib_name" ws) /\
    unsafe_refs s = bool_of (effective lang "unsafe_references_in_callbacks" ws).
Proof. exact effective_correct. Qed.
Print Assumptions C17_effective.

(* "last" respects the documented order config.toml < --config < #[diplomat::config] *)
Theorem C17_source_order : forall file cli attr sc n,
  last_write sc n (sources file cli attr) =
  match last_write sc n attr with
  | Some v => Some v
  | None => match last_write sc n cli with
            | Some v => Some v
            | None => last_write sc n (map file_write file)
            end
  end.
Proof. exact source_order. Qed.
Print Assumptions C17_source_order.

(* a language-scoped key overrides the shared key only for that language *)
Theorem C17_scoped_only_that_language : forall ws l l' n v,
  l <> l' -> effective l' n (ws ++ [(Some l, n, v)]) = effective l' n ws.
Proof. exact scoped_only_that_language. Qed.
Print Assumptions C17_scoped_only_that_language.

(* kebab-case keys in the file mean the same as snake_case keys *)
Theorem C17_kebab_snake : forall file cli attr,
  sources (map file_write file) cli attr = sources file cli attr.
Proof. exact kebab_snake_equiv. Qed.
Print Assumptions C17_kebab_snake.
