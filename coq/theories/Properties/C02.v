(* C02 — C++ bindings preserve values and outcomes in both directions (conversion semantics; libstdc++ and
   template instantiation are executed by the correspondence runs, not modelled). *)
From Coq Require Import List ZArith Bool.
Import ListNotations.
From DV Require Import Utf8.Model Cpp.Model Cpp.Proofs Cpp.Ops.

Theorem C02_to_cpp_to_c : forall t x, well_typed t x = true -> to_cpp t (to_c t x) = x.
Proof. exact to_cpp_to_c. Qed.
Print Assumptions C02_to_cpp_to_c.

Theorem C02_ret_arm_preserved : forall tok terr r,
  match r with ROk a => well_typed tok a = true | RErr b => well_typed terr b = true end ->
  let '(po, pe, flag) := ret_to_c tok terr r in ret_to_cpp tok terr po pe flag = r.
Proof. exact ret_arm_preserved. Qed.
Print Assumptions C02_ret_arm_preserved.

Theorem C02_none_ignores_payload : forall t junk, to_cpp (TOpt t) (COpt junk false) = VOptV None.
Proof. exact none_ignores_payload. Qed.
Print Assumptions C02_none_ignores_payload.

Theorem C02_invalid_utf8_never_reaches_rust : forall bytes,
  (~ wf_utf8 bytes -> call_with_str bytes = Utf8Error) /\
  (wf_utf8 bytes -> call_with_str bytes = ReachesRust bytes).
Proof. exact invalid_utf8_never_reaches_rust. Qed.
Print Assumptions C02_invalid_utf8_never_reaches_rust.

(* the six relational operators synthesised from a `comparison` method describe one trichotomy of its result ... *)
Theorem C02_relational_trichotomy : forall c : Z,
  match rels_of c with
  | [eq; ne; le; ge; lt; gt] =>
      ne = negb eq /\ le = negb gt /\ ge = negb lt /\ le = (lt || eq) /\ ge = (gt || eq) /\
      (if lt then negb eq && negb gt else if eq then negb gt else gt) = true
  | _ => False
  end.
Proof. exact rels_trichotomy. Qed.
Print Assumptions C02_relational_trichotomy.

(* ... and swapping the operands of an antisymmetric comparison mirrors them *)
Theorem C02_relational_swap : forall c : Z,
  match rels_of c, rels_of (- c) with
  | [eq; ne; le; ge; lt; gt], [eq'; ne'; le'; ge'; lt'; gt'] => eq' = eq /\ ne' = ne /\ le' = ge /\ ge' = le /\ lt' = gt /\ gt' = lt
  | _, _ => False
  end.
Proof. exact rels_swap. Qed.
Print Assumptions C02_relational_swap.

(* chained compound assignments apply the Rust method left to right with `this` as the left operand *)
Theorem C02_compound_chain : forall (T : Type) (op : T -> T -> T) a bs b,
  compound_chain T op a (bs ++ [b]) = op (compound_chain T op a bs) b.
Proof. exact compound_chain_snoc. Qed.
Print Assumptions C02_compound_chain.
