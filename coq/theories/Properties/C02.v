(* C02 — C++ bindings preserve values and outcomes in both directions (conversion semantics; libstdc++ and
   template instantiation are executed by the correspondence runs, not modelled). *)
From Coq Require Import List ZArith Bool.
Import ListNotations.
From DV Require Import Utf8.Model Cpp.Model Cpp.Proofs.

Theorem C02_to_cpp_to_c : forall t x, well_typed t x = true -> to_cpp t (to_c t x) = x.
Proof. exact to_cpp_to_c. Qed.
Print Assumptions C02_to_cpp_to_c.

Theorem C02_ret_arm_preserved : forall tok terr r,
  match r with ROk a => well_typed tok a = true | RErr b => well_typed terr b = true end ->
  let '(po, pe, flag) := ret_to_c tok terr r in ret_to_cpp tok terr po pe flag = r.
Proof. exact ret_arm_preserved. Qed.
Print Assumptions C02_ret_arm_preserved.

Theorem C02_none_ignores_payload : forall t junk, to_cpp (TOpt t) (COpt junk false) = VOptV None.
Proof. exact none_ignores_payload. Qed.
Print Assumptions C02_none_ignores_payload.

Theorem C02_invalid_utf8_never_reaches_rust : forall bytes,
  (~ wf_utf8 bytes -> call_with_str bytes = Utf8Error) /\
  (wf_utf8 bytes -> call_with_str bytes = ReachesRust bytes).
Proof. exact invalid_utf8_never_reaches_rust. Qed.
Print Assumptions C02_invalid_utf8_never_reaches_rust.
