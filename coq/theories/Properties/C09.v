(* C09 — Whatever the tool accepts builds (partial: "compiles" is decided by the real compilers on generated
   corpora; Coq carries the include-once / declared-before-use bookkeeping of the C headers). *)
From Coq Require Import List Arith Bool.
Import ListNotations.
From DV Require Import Headers.Model Headers.Proofs.

(* the declared-before-use check composes over concatenated header text *)
Theorem C09_check_composes : forall d a b, ok_from d (a ++ b) = ok_from d a && ok_from (rev (decls a) ++ d) b.
Proof. exact ok_from_app. Qed.
Print Assumptions C09_check_composes.

(* a block of prototypes is fine once every type it mentions has been declared *)
Theorem C09_uses_after_decls_ok : forall d refs, (forall x, In x refs -> In x d) -> ok_from d (map Use refs) = true.
Proof. exact uses_after_decls_ok. Qed.
Print Assumptions C09_uses_after_decls_ok.

(* the general statement: include-once expansion of any type's header declares every type before it is used, for every
   set of definitions whose by-value containment has bounded depth (rustc guarantees it is acyclic), whatever the pointer
   and method-signature references between the types look like, cycles included *)
Theorem C09_headers_declare_before_use : forall e f t,
  (forall x, depth_le e f x = true) -> declared_before_use (expand_h e (S f) t) = true.
Proof. exact headers_declare_before_use. Qed.
Print Assumptions C09_headers_declare_before_use.

(* ---------- identifier escaping (keyword-named parameters and methods), for the keyword tables the code has now ---------- *)
From Coq Require Import String.
From DV Require Import gen.Tables Escape.Model Escape.Proofs.
Local Open Scope string_scope.

(* an escaped name is never a keyword of the target language: C, C++, JS (strict mode), Python *)
Theorem C09_escaped_is_not_a_keyword : forall name,
  mem (c_ident name) c_keywords = false /\ mem (cpp_ident name) cpp_keywords = false /\
  mem (js_ident name) js_reserved = false /\ mem (py_ident name) py_keywords = false.
Proof. exact escaped_is_not_a_keyword. Qed.
Print Assumptions C09_escaped_is_not_a_keyword.

(* every C keyword is escaped in C++ headers too *)
Theorem C09_cpp_table_extends_c : forall k, mem k c_keywords = true -> mem k cpp_keywords = true.
Proof. exact cpp_extends_c. Qed.
Print Assumptions C09_cpp_table_extends_c.

(* two different names come out equal only for a keyword k and the name "k_" — exactly the class of the recorded
   finding (`int` / `int_`), for any keyword table *)
Theorem C09_escape_collisions_are_the_recorded_class : forall kw a b, a <> b ->
  (escape kw a = escape kw b <->
   (mem a kw = true /\ mem b kw = false /\ b = a ++ "_") \/ (mem b kw = true /\ mem a kw = false /\ a = b ++ "_")).
Proof. exact escape_collision_iff. Qed.
Print Assumptions C09_escape_collisions_are_the_recorded_class.

Theorem C09_escape_injective_refuted : c_ident "int" = c_ident "int_" /\ "int" <> "int_".
Proof. exact c_collision_witness. Qed.
Print Assumptions C09_escape_injective_refuted.

(* ---------- C++ headers (Headers/Cpp.v): T.hpp = T.d.hpp, then X.hpp for every other type mentioned, then inline bodies ---------- *)
From DV Require Import Headers.Cpp Headers.CppProofs.

(* in the include-once expansion of any T.hpp every class is defined before a by-value field or an inline method body needs
   it complete: any set of types with acyclic by-value containment, any pointer / signature references, cycles between impl
   headers included (the flag says the expansion did not run out of fuel) *)
Theorem C09_cpp_complete_before_body : forall e fd fuel t,
  (forall x, depth_le e fd x = true) ->
  snd (hpp_events e (S fd) fuel t) = true -> declared_before_use (fst (hpp_events e (S fd) fuel t)) = true.
Proof. exact cpp_complete_before_body. Qed.
Print Assumptions C09_cpp_complete_before_body.

(* and the decl header forward-declares every name its method declarations mention *)
Theorem C09_cpp_decl_names_declared : forall e t, decl_names_ok e t = true.
Proof. exact cpp_decl_names_declared. Qed.
Print Assumptions C09_cpp_decl_names_declared.

(* ... and the fuel never runs out: with every mentioned type below n, n + 1 levels of includes suffice *)
Theorem C09_cpp_complete_before_body_total : forall e fd n t,
  (forall x, depth_le e fd x = true) -> wf_env e n -> t < n ->
  declared_before_use (fst (hpp_events e (S fd) (S n) t)) = true.
Proof. exact cpp_complete_before_body_total. Qed.
Print Assumptions C09_cpp_complete_before_body_total.

(* ---------- include guards of the C++ headers (Headers/Guard.v): the path with '/' turned into '_', plus a suffix ---------- *)
From DV Require Import Headers.Guard.
(* when no namespace or type name contains an underscore, two different header paths never share a guard ... *)
Theorem C09_cpp_guard_injective_on_clean_names : forall (A : Type) (sep : A) r c d s decl decl',
  clean A sep c -> clean A sep d -> Forall (clean A sep) r -> Forall (clean A sep) s ->
  guard A sep c r decl = guard A sep d s decl' -> c = d /\ r = s /\ decl = decl'.
Proof. exact guard_injective_on_clean_names. Qed.
Print Assumptions C09_cpp_guard_injective_on_clean_names.

(* ... and otherwise they can: namespace `geo` + type `Point` and the root type `geo_Point` (recorded finding) *)
Theorem C09_cpp_guard_injective_refuted :
  guard nat 0 [7; 5; 15] [[16; 15; 9; 14; 20]] true = guard nat 0 [7; 5; 15; 0; 16; 15; 9; 14; 20] [] true /\
  ([7; 5; 15], [[16; 15; 9; 14; 20]]) <> ([7; 5; 15; 0; 16; 15; 9; 14; 20], @nil (list nat)).
Proof. exact guard_injective_refuted. Qed.
Print Assumptions C09_cpp_guard_injective_refuted.
