(* C09 — Whatever the tool accepts builds (partial: "compiles" is decided by the real compilers on generated
   corpora; Coq carries the include-once / declared-before-use bookkeeping of the C headers). *)
From Coq Require Import List Arith Bool.
Import ListNotations.
From DV Require Import Headers.Model Headers.Proofs.

(* the declared-before-use check composes over concatenated header text *)
Theorem C09_check_composes : forall d a b, ok_from d (a ++ b) = ok_from d a && ok_from (rev (decls a) ++ d) b.
Proof. exact ok_from_app. Qed.
Print Assumptions C09_check_composes.

(* a block of prototypes is fine once every type it mentions has been declared *)
Theorem C09_uses_after_decls_ok : forall d refs, (forall x, In x refs -> In x d) -> ok_from d (map Use refs) = true.
Proof. exact uses_after_decls_ok. Qed.
Print Assumptions C09_uses_after_decls_ok.

(* the general statement: include-once expansion of any type's header declares every type before it is used, for every
   set of definitions whose by-value containment has bounded depth (rustc guarantees it is acyclic), whatever the pointer
   and method-signature references between the types look like, cycles included *)
Theorem C09_headers_declare_before_use : forall e f t,
  (forall x, depth_le e f x = true) -> declared_before_use (expand_h e (S f) t) = true.
Proof. exact headers_declare_before_use. Qed.
Print Assumptions C09_headers_declare_before_use.
