(* C16 — Runtime slice and string views round-trip and UTF-8 checking is exact. *)
From Coq Require Import List NArith Bool.
Import ListNotations.
From DV Require Import Slices.Model Slices.Proofs Utf8.Model Utf8.Proofs.

(* slice -> view -> slice gives the same pointer/length and contents, for every length *)
Theorem C16_view_roundtrip : forall (A : Type) (mem : N -> A) (s : rslice),
  s_ptr s <> PNull ->
  contents mem (from_view (to_view s)) = contents mem s /\ to_view (from_view (to_view s)) = to_view s.
Proof. exact @view_roundtrip_contents. Qed.
Print Assumptions C16_view_roundtrip.

Theorem C16_view_roundtrip_eq : forall s, s_ptr s <> PNull -> from_view (to_view s) = s.
Proof. exact view_roundtrip. Qed.
Print Assumptions C16_view_roundtrip_eq.

(* NULL with length 0 (indeed any length) is accepted as the empty slice, and is a valid reference *)
Theorem C16_null_is_empty : forall (A : Type) (mem : N -> A) n,
  from_view (mkV PNull n) = mkS PDangling 0 /\ contents mem (from_view (mkV PNull n)) = [] /\
  valid_ref (from_view (mkV PNull n)).
Proof. exact @null_zero_is_empty. Qed.
Print Assumptions C16_null_is_empty.

(* boxed slices (incl. zero-length ones, whose pointer is dangling, never NULL) *)
Theorem C16_owned_roundtrip : forall b, s_ptr b <> PNull ->
  owned_from_view (owned_to_view b) = b /\ owned_drop (owned_to_view b) = Some (s_ptr b, s_len b).
Proof. exact owned_roundtrip. Qed.
Print Assumptions C16_owned_roundtrip.

Theorem C16_owned_null : forall (A : Type) (mem : N -> A),
  owned_from_view (mkV PNull 0) = mkS PDangling 0 /\ owned_drop (mkV PNull 0) = None /\
  contents mem (owned_from_view (mkV PNull 0)) = [].
Proof. exact @owned_null_empty. Qed.
Print Assumptions C16_owned_null.

(* the UTF-8 check answers true exactly for well-formed UTF-8 (RFC 3629 encodings of scalar values),
   for byte strings of every length *)
Theorem C16_utf8_exact : forall bs, utf8_valid bs = true <-> wf_utf8 bs.
Proof. exact utf8_dfa_correct. Qed.
Print Assumptions C16_utf8_exact.
