(* C12 — String output through DiplomatWrite is exact and never overruns its buffer.
   Only statements, each closed by [exact]; proofs live in Write/Proofs.v. *)
From Coq Require Import List Arith NArith Bool.
Import ListNotations.
From DV Require Import Write.Model Write.Proofs.

(* the buffer finally holds exactly the concatenation of the chunks written before the first
   failed growth; failure is reported through the flag iff some growth failed *)
Theorem C12_exact : forall s chunks gs,
  wf s -> failed s = false ->
  let s' := fst (run s chunks gs) in
  let k := first_fail (snd (run s chunks gs)) in
  firstn (len s') (mem s') = firstn (len s) (mem s) ++ concat (firstn k chunks) /\
  (failed s' = true <-> k < length chunks).
Proof. exact write_seq_exact. Qed.
Print Assumptions C12_exact.

(* never a partial chunk *)
Theorem C12_no_partial : forall s chunks gs,
  wf s -> failed s = false ->
  exists k, k <= length chunks /\
    len (fst (run s chunks gs)) = len s + length (concat (firstn k chunks)).
Proof. exact write_seq_no_partial. Qed.
Print Assumptions C12_no_partial.

(* no byte beyond the current capacity is touched; len <= cap <= |buf| is invariant *)
Theorem C12_in_bounds : forall s chunks gs,
  wf s -> failed s = false ->
  wf (fst (run s chunks gs)) /\ Forall (Forall ev_in_bounds) (snd (run s chunks gs)).
Proof. exact write_seq_in_bounds. Qed.
Print Assumptions C12_in_bounds.

(* sticky flag: nothing changes afterwards, accessors answer NULL / 0 *)
Theorem C12_sticky : forall s chunks gs,
  failed s = true ->
  fst (run s chunks gs) = s /\ get_bytes s = None /\ get_len s = 0.
Proof. exact write_sticky. Qed.
Print Assumptions C12_sticky.

(* agreement with the memory-free specification *)
Theorem C12_spec : forall s chunks gs,
  wf s -> failed s = false -> len s = 0 ->
  let s' := fst (run s chunks gs) in
  firstn (len s') (mem s') = fst (spec 0 (cap s) chunks gs) /\ failed s' = snd (spec 0 (cap s) chunks gs).
Proof. exact write_spec_agrees. Qed.
Print Assumptions C12_spec.

(* fixed-size writer: flush NUL-terminates inside the caller's buffer, idempotently *)
Theorem C12_simple_flush : forall buf chunks,
  1 <= length buf ->
  let s := run_simple buf chunks in
  let '(s', ev) := simple_flush s in
  len s < length buf /\ Forall ev_in_bounds ev /\ length (mem s') = length buf /\
  firstn (S (len s)) (mem s') = firstn (len s) (mem s) ++ [0%N] /\
  fst (simple_flush s') = s' /\
  exists k, k <= length chunks /\ firstn (len s) (mem s) = concat (firstn k chunks).
Proof. exact simple_flush_in_caller_buffer. Qed.
Print Assumptions C12_simple_flush.

(* Rust-owned writer never fails *)
Theorem C12_owned : forall c chunks gs,
  all_ok gs = true -> length chunks <= length gs ->
  let s' := fst (run (owned_init c) chunks gs) in
  get_bytes s' = Some (concat chunks) /\ get_len s' = length (concat chunks).
Proof. exact owned_never_fails. Qed.
Print Assumptions C12_owned.

(* C++ WriteFromString returns exactly what Rust wrote *)
Theorem C12_cpp_string : forall c chunks,
  let s' := fst (run (owned_init c) chunks (cpp_grow_script (length chunks))) in
  cpp_string_after_flush s' = concat chunks /\ failed s' = false.
Proof. exact cpp_string_result. Qed.
Print Assumptions C12_cpp_string.
