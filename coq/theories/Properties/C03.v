(* C03 — Values crossing the boundary are destroyed exactly once (ownership logic of the runtime's
   FFI-safe owners; memory errors themselves are exhibited by sanitizer runs, not proved absent). *)
From Coq Require Import List Arith Bool Permutation.
Import ListNotations.
From DV Require Import Own.Model Own.Proofs.

(* For every history of create / convert / clone / borrow / drop operations that type-checks, at the end
   of the program every token ever created has been dropped exactly once, except destructor-less
   callbacks (which the Rust side must not release); nothing is dropped twice or without having been created. *)
Theorem C03_exactly_once : forall ops s,
  run fixed_into init ops = Some s ->
  Permutation (final_log s ++ final_forgot s) (seq 0 (next s)) /\
  NoDup (final_log s) /\
  (forall t, t < next s -> ~ In t (final_forgot s) -> count_occ Nat.eq_dec (final_log s) t = 1) /\
  (forall t, In t (final_log s) -> t < next s).
Proof. exact exactly_once. Qed.
Print Assumptions C03_exactly_once.

(* at every prefix: never dropped twice, and nothing a live owner still holds has been dropped *)
Theorem C03_never_twice : forall ops s,
  run fixed_into init ops = Some s ->
  NoDup (log s) /\ (forall t, In t (live_released s) -> ~ In t (log s)).
Proof. exact never_twice. Qed.
Print Assumptions C03_never_twice.

(* converting moves the payload, drops nothing *)
Theorem C03_convert_preserves_owner : forall s r ok t,
  get s r = Some (VDip ok (Some t)) ->
  exists s', step fixed_into s (OInto r) = Some s' /\ log s' = log s /\ get s' r = Some (VStd ok (Some t)).
Proof. exact convert_preserves_owner. Qed.
Print Assumptions C03_convert_preserves_owner.

(* the conversion as it was before the repair (fix: commit in /repo) violates the property *)
Theorem C03_unrepaired_into_refuted :
  exists ops s, run buggy_into init ops = Some s /\ count_occ Nat.eq_dec (final_log s) 0 = 2.
Proof. exact into_result_buggy_refuted. Qed.
Print Assumptions C03_unrepaired_into_refuted.
