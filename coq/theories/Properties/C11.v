(* C11 — Enum variants carry the same numeric value in Rust and in every binding. *)
From Coq Require Import List ZArith Bool Arith.
Import ListNotations.
From DV Require Import Enums.Model Enums.Proofs.
Local Open Scope Z_scope.

(* for every enum (any number of variants, any mix of explicit / implicit discriminants) whose
   discriminants are pairwise distinct (rustc enforces this), every backend numbers variant i with the
   discriminant, and maps that value back to variant i *)
Theorem C11_values_agree : forall vs b i,
  let ds := discriminants vs in
  NoDup ds -> (i < length ds)%nat ->
  value_of b ds i = nthZ i ds /\ from_native b ds (nthZ i ds) = Some i.
Proof. exact enum_values_agree. Qed.
Print Assumptions C11_values_agree.

Theorem C11_kotlin_fold : forall ds,
  kt_variants_of ds = if is_contiguous ds then KContig (length ds) else KNon (combine (seq 0 (length ds)) ds).
Proof. exact kotlin_fold_correct. Qed.
Print Assumptions C11_kotlin_fold.

Theorem C11_contiguous_iff : forall ds,
  is_contiguous ds = true <-> (forall i, (i < length ds)%nat -> nthZ i ds = Z.of_nat i).
Proof. exact contiguous_iff. Qed.
Print Assumptions C11_contiguous_iff.
