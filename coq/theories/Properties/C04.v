(* C04 — Borrow edges keep alive everything a returned value may borrow from. *)
From Coq Require Import List Bool Relations.
Import ListNotations.
From DV Require Import Lifetimes.Model Lifetimes.Spec Lifetimes.Proofs.

(* For every accepted method and every lifetime 'r of its return type, the inputs reported for 'r are exactly the
   parameters (self, opaque, slice, struct lifetime slot) whose type mentions a lifetime that Rust's rules (declared
   bounds, bounds implied by &'a T<'b>, bounds required by the struct / opaque definitions used, nested ones included)
   force to outlive 'r.  Any number of lifetimes, any bounds (cycles included), any nesting of definitions. *)
Theorem C04_borrow_edges_exact : forall ds m r,
  defs_okb ds = true -> validate_defs ds = true -> sig_okb ds m = true -> validate_method ds m = true ->
  In r (ret_lts m) -> no_borrowed_opt_slice ds m r ->
  forall e, In e (edges_for m r) <-> spec_edge ds m r e.
Proof. exact borrow_edges_exact_b. Qed.
Print Assumptions C04_borrow_edges_exact.

(* all_longer_lifetimes (stack + visited DFS) = reflexive-transitive closure of the recorded bounds; never out of fuel *)
Theorem C04_all_longer_is_closure : forall g r x, In x (all_longer g r) <-> reach g r x.
Proof. exact all_longer_is_closure. Qed.
Print Assumptions C04_all_longer_is_closure.

(* LifetimeEnv construction: skipping a `&'a T<'b>` bound that already follows from recorded ones loses nothing *)
Theorem C04_env_is_closure_of_written_bounds : forall n ops, (forall a b, cpair ops a b -> a < n) ->
  forall a b, reach (build n ops) a b <-> clos_refl_trans_1n nat (cpair ops) a b.
Proof. exact build_is_closure. Qed.
Print Assumptions C04_env_is_closure_of_written_bounds.

(* validation of definitions: whatever a definition requires of its parameters, through any depth of nested fields,
   follows from the bounds recorded for that definition *)
Theorem C04_definition_bounds_are_recorded : forall ds, defs_ok ds -> validate_defs ds = true ->
  forall tid x y, wf_edge ds tid x y -> In (def_of ds tid) ds ->
    x < d_n (def_of ds tid) /\ y < d_n (def_of ds tid) /\ reach (d_env (def_of ds tid)) x y.
Proof. exact wf_edge_recorded. Qed.
Print Assumptions C04_definition_bounds_are_recorded.

(* validation of methods: the recorded bounds of an accepted method generate Rust's whole outlives relation *)
Theorem C04_outlives_iff_recorded : forall ds m, defs_ok ds -> validate_defs ds = true -> sig_ok ds m -> validate_method ds m = true ->
  forall r x, r < m_n m -> (outlives ds m r x <-> reach (m_env m) r x).
Proof. exact outlives_iff_recorded. Qed.
Print Assumptions C04_outlives_iff_recorded.

(* the borrow map has one entry per lifetime of the return type, and an entry does not depend on which other keys exist *)
Theorem C04_borrow_map_keys : forall m r, In r (map fst (borrow_map m)) <-> In r (ret_lts m).
Proof. exact borrow_map_keys. Qed.
Print Assumptions C04_borrow_map_keys.

Theorem C04_borrow_map_entry : forall m r ls es, In (r, (ls, es)) (borrow_map m) -> es = edges_for m r.
Proof. exact borrow_map_entry. Qed.
Print Assumptions C04_borrow_map_entry.

(* struct side (JS / Dart `_fieldsForLifetimeX`): through any depth of nested structs the accessor evaluates to exactly the
   fields whose type carries the lifetime plugged into parameter X *)
From DV Require Import Lifetimes.Struct Lifetimes.StructProofs.
Theorem C04_struct_accessor_exact : forall ds f tid l p,
  sdepth_le ds f tid = true -> (In p (expand ds (S f) tid l) <-> carries ds tid l p).
Proof. exact expand_exact. Qed.
Print Assumptions C04_struct_accessor_exact.

(* the specification is decidable: its executable form (evaluated against rustc's verdicts on every run) is equivalent to it *)
From DV Require Import Lifetimes.SpecExec.
Theorem C04_spec_executable : forall ds m f r x, (forall tid, udepth_le ds f tid = true) ->
  (outlives_b (S f) ds m r x = true <-> outlives ds m r x).
Proof. exact outlives_b_exact. Qed.
Print Assumptions C04_spec_executable.

(* ---------- written lifetimes -> HIR lifetimes (core/src/hir/elision.rs, Lifetimes/Elision.v) ---------- *)
From DV Require Import gen.Tables Lifetimes.Elision Lifetimes.ElisionProofs.

(* the state machine finds a source for elided output lifetimes exactly when Rust's rule names one: `&self`, or a
   single lifetime position among the parameters, the lifetimes of `Self` not counted; and it is that lifetime *)
Theorem C04_elision_source_is_rusts_rule : forall g ps0 s0 ps s1,
  lower_self (s_n g) (s_self g) = (ps0, s0) -> lower_params s0 (s_params g) = (ps, s1) ->
  src s1 = match s_self g with
           | SelfRef _ _ _ => SelfParam (self_borrow ps0)
           | _ => classify (lowered_positions (s_params g) ps)
           end.
Proof. exact elision_source_rule. Qed.
Print Assumptions C04_elision_source_is_rusts_rule.

Theorem C04_elision_source_exists_iff : forall g,
  has_source (elision_source g) = match rust_target (s_self g) (s_params g) with TSelf | TPos _ => true | _ => false end.
Proof. exact source_iff_rust_target. Qed.
Print Assumptions C04_elision_source_exists_iff.

(* a method written with elided lifetimes in its return type, once accepted, gets exactly the edges Rust's rules
   require for the same method with the source lifetime written out *)
Theorem C04_elided_return_edges : forall g h ds m k m' k' r,
  elision_source g = SelfParam h \/ elision_source g = OneParam h ->
  lower_sig g = Some (m, k) -> lower_sig (spell_ret (alt_of_lt h) g) = Some (m', k') ->
  defs_okb ds = true -> validate_defs ds = true -> sig_okb ds m = true -> validate_method ds m = true ->
  In r (ret_lts m) -> no_borrowed_opt_slice ds m r ->
  k = k' /\ forall e, In e (edges_for m r) <-> spec_edge ds m' r e.
Proof. exact elided_return_edges. Qed.
Print Assumptions C04_elided_return_edges.

(* the two panics of ReturnLifetimeLowerer fire only on signatures rustc refuses itself (E0106) *)
Theorem C04_lowering_panics_only_without_source : forall g,
  lower_sig g = None <->
  (ret_elided (s_ret g) = true /\
   match rust_target (s_self g) (s_params g) with TNone | TAmbiguous => True | _ => False end).
Proof. exact lowering_panics_iff. Qed.
Print Assumptions C04_lowering_panics_only_without_source.
