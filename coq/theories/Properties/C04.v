(* C04 — Borrow edges keep alive everything a returned value may borrow from. *)
From Coq Require Import List Bool Relations.
Import ListNotations.
From DV Require Import Lifetimes.Model Lifetimes.Spec Lifetimes.Proofs.

(* For every accepted method and every lifetime 'r of its return type, the inputs reported for 'r are exactly the
   parameters (self, opaque, slice, struct lifetime slot) whose type mentions a lifetime that Rust's rules (declared
   bounds, bounds implied by &'a T<'b>, bounds required by the struct / opaque definitions used, nested ones included)
   force to outlive 'r.  Any number of lifetimes, any bounds (cycles included), any nesting of definitions. *)
Theorem C04_borrow_edges_exact : forall ds m r,
  defs_okb ds = true -> validate_defs ds = true -> sig_okb ds m = true -> validate_method ds m = true ->
  In r (ret_lts m) -> no_borrowed_opt_slice ds m r ->
  forall e, In e (edges_for m r) <-> spec_edge ds m r e.
Proof. exact borrow_edges_exact_b. Qed.
Print Assumptions C04_borrow_edges_exact.

(* all_longer_lifetimes (stack + visited DFS) = reflexive-transitive closure of the recorded bounds; never out of fuel *)
Theorem C04_all_longer_is_closure : forall g r x, In x (all_longer g r) <-> reach g r x.
Proof. exact all_longer_is_closure. Qed.
Print Assumptions C04_all_longer_is_closure.

(* LifetimeEnv construction: skipping a `&'a T<'b>` bound that already follows from recorded ones loses nothing *)
Theorem C04_env_is_closure_of_written_bounds : forall n ops, (forall a b, cpair ops a b -> a < n) ->
  forall a b, reach (build n ops) a b <-> clos_refl_trans_1n nat (cpair ops) a b.
Proof. exact build_is_closure. Qed.
Print Assumptions C04_env_is_closure_of_written_bounds.

(* validation of definitions: whatever a definition requires of its parameters, through any depth of nested fields,
   follows from the bounds recorded for that definition *)
Theorem C04_definition_bounds_are_recorded : forall ds, defs_ok ds -> validate_defs ds = true ->
  forall tid x y, wf_edge ds tid x y -> In (def_of ds tid) ds ->
    x < d_n (def_of ds tid) /\ y < d_n (def_of ds tid) /\ reach (d_env (def_of ds tid)) x y.
Proof. exact wf_edge_recorded. Qed.
Print Assumptions C04_definition_bounds_are_recorded.

(* validation of methods: the recorded bounds of an accepted method generate Rust's whole outlives relation *)
Theorem C04_outlives_iff_recorded : forall ds m, defs_ok ds -> validate_defs ds = true -> sig_ok ds m -> validate_method ds m = true ->
  forall r x, r < m_n m -> (outlives ds m r x <-> reach (m_env m) r x).
Proof. exact outlives_iff_recorded. Qed.
Print Assumptions C04_outlives_iff_recorded.

(* the borrow map has one entry per lifetime of the return type, and an entry does not depend on which other keys exist *)
Theorem C04_borrow_map_keys : forall m r, In r (map fst (borrow_map m)) <-> In r (ret_lts m).
Proof. exact borrow_map_keys. Qed.
Print Assumptions C04_borrow_map_keys.

Theorem C04_borrow_map_entry : forall m r ls es, In (r, (ls, es)) (borrow_map m) -> es = edges_for m r.
Proof. exact borrow_map_entry. Qed.
Print Assumptions C04_borrow_map_entry.

(* struct side (JS / Dart `_fieldsForLifetimeX`): through any depth of nested structs the accessor evaluates to exactly the
   fields whose type carries the lifetime plugged into parameter X *)
From DV Require Import Lifetimes.Struct Lifetimes.StructProofs.
Theorem C04_struct_accessor_exact : forall ds f tid l p,
  sdepth_le ds f tid = true -> (In p (expand ds (S f) tid l) <-> carries ds tid l p).
Proof. exact expand_exact. Qed.
Print Assumptions C04_struct_accessor_exact.

(* the specification is decidable: its executable form (evaluated against rustc's verdicts on every run) is equivalent to it *)
From DV Require Import Lifetimes.SpecExec.
Theorem C04_spec_executable : forall ds m f r x, (forall tid, udepth_le ds f tid = true) ->
  (outlives_b (S f) ds m r x = true <-> outlives ds m r x).
Proof. exact outlives_b_exact. Qed.
Print Assumptions C04_spec_executable.
