(* C10 — Option and Result use one consistent wire encoding everywhere. *)
From Coq Require Import List String Bool NArith.
Import ListNotations.
From DV Require Import gen.Tables Abi.Model Abi.Proofs.
Local Open Scope string_scope.
Local Open Scope list_scope.

(* std Option and DiplomatOption spellings: identical C declarations and identical representation *)
Theorem C10_spelling_irrelevant : forall env v,
  c_param_ty (POpt true v) = c_param_ty (POpt false v) /\
  ffi_param_abi env (POpt true v) = ffi_param_abi env (POpt false v) /\
  (forall m, c_ret_ty m (ROpt true v) = c_ret_ty m (ROpt false v)) /\
  c_result_members (ROpt true v) = c_result_members (ROpt false v) /\
  ffi_ret_abi env (ROpt true v) = ffi_ret_abi env (ROpt false v).
Proof. exact spelling_irrelevant. Qed.
Print Assumptions C10_spelling_irrelevant.

(* unit arms occupy no payload *)
Theorem C10_unit_arm_no_payload : forall env v,
  c_result_members (RRes ArmUnit (ArmV v)) = [("err", c_vty v)] /\
  c_result_members (RRes (ArmV v) ArmUnit) = [("ok", c_vty v)] /\
  c_result_members (RRes ArmUnit ArmUnit) = [] /\
  c_result_members (RRes ArmZst ArmUnit) = [] /\
  norm (ffi_ret_abi env (RRes ArmUnit ArmUnit)) = ARec [ABool] /\
  size_align (ffi_ret_abi env (RRes ArmUnit ArmUnit)) = (1, 1)%N /\
  size_align (ffi_ret_abi env (RRes ArmZst ArmUnit)) = (1, 1)%N.
Proof. exact unit_arm_no_payload. Qed.
Print Assumptions C10_unit_arm_no_payload.

(* {payload, is_ok}: the flag directly follows the payload *)
Theorem C10_flag_after_payload : forall p,
  let '(s, a) := size_align (rust_prim_abi p) in
  offsets [AUni [rust_prim_abi p; AUnit]; ABool] = [0%N; s] /\
  size_align (result_abi (rust_prim_abi p) AUnit) = (round_up (s + 1) a, a).
Proof. exact option_flag_offset. Qed.
Print Assumptions C10_flag_after_payload.

(* an absent optional pointer is the null pointer: pointer options have no flag at all *)
Theorem C10_pointer_options : forall env,
  ffi_param_abi env POOpt = APtr /\ ffi_ret_abi env ROptBox = APtr /\ ffi_ret_abi env ROptRef = APtr /\
  c_param_ty POOpt = "const Op*" /\ (forall m, c_ret_ty m ROptBox = "Op*").
Proof. exact pointer_options_are_pointers. Qed.
Print Assumptions C10_pointer_options.
