(* C13 — Backend-conditional attributes apply exactly where their condition holds. *)
From Coq Require Import List String Bool Arith.
Import ListNotations.
From DV Require Import gen.Tables Cfg.Model Cfg.Proofs.
Local Open Scope string_scope.
Local Open Scope list_scope.

(* the evaluator computes the propositional meaning of the condition (formulas of any depth) *)
Theorem C13_sat_sound : forall b c a v f, sat b c a = ROk v f -> v = denote b c.
Proof. exact sat_sound. Qed.
Print Assumptions C13_sat_sound.

(* non-interference: where the condition is false the attribute is as if not written (any payload, any place) *)
Theorem C13_false_cfg_is_noop : forall b c p l1 l2 parent f,
  sat b c true = ROk false f ->
  from_ast b (l1 ++ (c, p) :: l2) parent = from_ast b (l1 ++ l2) parent.
Proof. exact false_cfg_is_noop. Qed.
Print Assumptions C13_false_cfg_is_noop.

(* disabled <-> inherited disable or an own disable whose condition holds *)
Theorem C13_disable_iff : forall b attrs parent,
  disable (from_ast b attrs parent) = disable parent || existsb (sat_disable b) attrs.
Proof. exact disable_iff. Qed.
Print Assumptions C13_disable_iff.

(* a method is emitted iff no applicable disable sits on the module, its type, its impl block or itself *)
Theorem C13_method_present : forall b m t i me v,
  method_present b m t i me = Some v ->
  v = negb (existsb (sat_disable b) m || existsb (sat_disable b) t || existsb (sat_disable b) (i ++ me)).
Proof. exact method_present_spec. Qed.
Print Assumptions C13_method_present.

(* innermost applicable rename wins *)
Theorem C13_rename_effective : forall b attrs parent,
  rename (from_ast b attrs parent) = last_some (map (sat_rename b) attrs) (rename parent).
Proof. exact rename_effective. Qed.
Print Assumptions C13_rename_effective.
