(* C08 — JS bindings read and write structs with the real wasm32 repr(C) layout. *)
From Coq Require Import List NArith Bool.
Import ListNotations.
From DV Require Import Layout.Model Layout.Proofs.
Local Open Scope N_scope.

(* offsets, size and alignment computed by the JS backend are the repr(C) ones, for every (arbitrarily nested)
   struct over primitives of size 1/2/4/8, enums, pointers, slices, nested structs and options, in any field order *)
Theorem C08_offsets_are_reprC : forall fs,
  forallb wf fs = true -> fs <> [] ->
  let '(infos, size, align, _) := struct_info fs in
  map f_off infos = spec_offsets 0 fs /\ size = spec_size fs /\ align = spec_align fs.
Proof. exact offsets_are_reprC. Qed.
Print Assumptions C08_offsets_are_reprC.

(* the typed padding recorded after each field is exactly the gap to the next field (or the end of the struct), in
   units of that field's alignment; the divisibility assertion in layout.rs cannot fire *)
Theorem C08_padding_typed_exact : forall fs,
  forallb wf fs = true -> fs <> [] ->
  let '(infos, size, _, _) := struct_info fs in pads_ok fs infos size.
Proof. exact padding_typed_exact. Qed.
Print Assumptions C08_padding_typed_exact.

(* alignments are powers of two <= 8 and divide sizes (receive buffers are allocated with (size, align)) *)
Theorem C08_size_multiple_of_align : forall t, wf t = true -> good t.
Proof. exact wf_good. Qed.
Print Assumptions C08_size_multiple_of_align.
