(* C08 — JS bindings read and write structs with the real wasm32 repr(C) layout. *)
From Coq Require Import List NArith Bool.
Import ListNotations.
From DV Require Import Layout.Model Layout.Proofs Layout.Memory Layout.Flat.
Local Open Scope N_scope.

(* offsets, size and alignment computed by the JS backend are the repr(C) ones, for every (arbitrarily nested)
   struct over primitives of size 1/2/4/8, enums, pointers, slices, nested structs and options, in any field order *)
Theorem C08_offsets_are_reprC : forall fs,
  forallb wf fs = true -> fs <> [] ->
  let '(infos, size, align, _) := struct_info fs in
  map f_off infos = spec_offsets 0 fs /\ size = spec_size fs /\ align = spec_align fs.
Proof. exact offsets_are_reprC. Qed.
Print Assumptions C08_offsets_are_reprC.

(* the typed padding recorded after each field is exactly the gap to the next field (or the end of the struct), in
   units of that field's alignment; the divisibility assertion in layout.rs cannot fire *)
Theorem C08_padding_typed_exact : forall fs,
  forallb wf fs = true -> fs <> [] ->
  let '(infos, size, _, _) := struct_info fs in pads_ok fs infos size.
Proof. exact padding_typed_exact. Qed.
Print Assumptions C08_padding_typed_exact.

(* alignments are powers of two <= 8 and divide sizes (receive buffers are allocated with (size, align)) *)
Theorem C08_size_multiple_of_align : forall t, wf t = true -> good t.
Proof. exact wf_good. Qed.
Print Assumptions C08_size_multiple_of_align.

(* the values JS reads back from the bytes it (or Rust) wrote equal the stored ones: every well-formed type, any nesting,
   any field order, any memory contents around it *)
Theorem C08_read_after_write : forall t v m base,
  wf t = true -> typed t v -> (N.to_nat base + N.to_nat (tsize t) <= length m)%nat ->
  read_val t (write_val t v m base) base = v.
Proof. exact read_after_write. Qed.
Print Assumptions C08_read_after_write.

(* a write stays inside [base, base + size) *)
Theorem C08_write_in_bounds : forall t v m base i,
  wf t = true -> typed t v -> (N.to_nat base + N.to_nat (tsize t) <= length m)%nat ->
  outside base (tsize t) i -> nth_error (write_val t v m base) i = nth_error m i.
Proof. exact write_in_bounds. Qed.
Print Assumptions C08_write_in_bounds.

(* the flattened (legacy "padded direct") argument list built by the generated JS is the one the documented wasm C ABI
   rule prescribes: for every struct without zero-sized members and without the one unresolved corner (okf) *)
Theorem C08_flat_js_is_documented : forall t, wf t = true -> okf t = true -> flat_js_top t = flat_doc_top t.
Proof. exact flat_js_is_documented. Qed.
Print Assumptions C08_flat_js_is_documented.

(* ---------- the receive buffer of an optional / fallible struct return (Layout/Result.v) ---------- *)
From DV Require Import Layout.Result.

(* JS allocates the buffer with the alignment of DiplomatResult<T, E>, large enough to hold the flag, and reads the flag
   at the offset repr(C) gives it: behind the union, whose size is that of the larger payload rounded up to the
   common alignment *)
Theorem C08_result_buffer_is_reprC : forall t e, sa_good t -> sa_good e ->
  fst t <= res_flag_off t e /\ fst e <= res_flag_off t e /\
  res_flag_off t e mod res_align t e = 0 /\
  js_flag_off (js_recv t e) = res_flag_off t e /\
  res_flag_off t e < fst (js_recv t e) /\ fst (js_recv t e) <= res_size t e /\
  snd (js_recv t e) = res_align t e.
Proof. exact js_recv_is_reprC. Qed.
Print Assumptions C08_result_buffer_is_reprC.

(* the computation as it stood before the repair (largest payload + 1, aligned like the success type) is wrong for
   Result<{u8;5}, {u32}>, and the repair changes no buffer that was right *)
Theorem C08_result_buffer_unrepaired_refuted : exists t e, sa_good t /\ sa_good e /\
  js_flag_off (js_recv_unrepaired t e) <> res_flag_off t e /\
  fst (js_recv_unrepaired t e) <= res_flag_off t e /\ snd (js_recv_unrepaired t e) <> res_align t e.
Proof. exact unrepaired_refuted. Qed.
Print Assumptions C08_result_buffer_unrepaired_refuted.

Theorem C08_result_buffer_repair_is_conservative : forall t e,
  0 < res_align t e -> N.max (fst t) (fst e) mod res_align t e = 0 -> snd e <= snd t ->
  js_recv_unrepaired t e = js_recv t e.
Proof. exact repair_is_conservative. Qed.
Print Assumptions C08_result_buffer_repair_is_conservative.

(* an absent optional field: the repaired writeOptionToArrayBuffer stores is_ok = 0 (C08_read_after_write covers it for any
   previous memory contents); the unrepaired one wrote nothing and read back Some from a dirty buffer *)
Theorem C08_absent_option_unrepaired_refuted :
  exists m, length m = 2%nat /\ read_val (FOpt (FPrim 1)) (write_none_unrepaired m) 0 <> VNone /\
            read_val (FOpt (FPrim 1)) (write_val (FOpt (FPrim 1)) VNone m 0) 0 = VNone.
Proof. exact none_unrepaired_refuted. Qed.
Print Assumptions C08_absent_option_unrepaired_refuted.
