(* C08 — JS bindings read and write structs with the real wasm32 repr(C) layout. *)
From Coq Require Import List NArith Bool.
Import ListNotations.
From DV Require Import Layout.Model Layout.Proofs Layout.Memory Layout.Flat.
Local Open Scope N_scope.

(* offsets, size and alignment computed by the JS backend are the repr(C) ones, for every (arbitrarily nested)
   struct over primitives of size 1/2/4/8, enums, pointers, slices, nested structs and options, in any field order *)
Theorem C08_offsets_are_reprC : forall fs,
  forallb wf fs = true -> fs <> [] ->
  let '(infos, size, align, _) := struct_info fs in
  map f_off infos = spec_offsets 0 fs /\ size = spec_size fs /\ align = spec_align fs.
Proof. exact offsets_are_reprC. Qed.
Print Assumptions C08_offsets_are_reprC.

(* the typed padding recorded after each field is exactly the gap to the next field (or the end of the struct), in
   units of that field's alignment; the divisibility assertion in layout.rs cannot fire *)
Theorem C08_padding_typed_exact : forall fs,
  forallb wf fs = true -> fs <> [] ->
  let '(infos, size, _, _) := struct_info fs in pads_ok fs infos size.
Proof. exact padding_typed_exact. Qed.
Print Assumptions C08_padding_typed_exact.

(* alignments are powers of two <= 8 and divide sizes (receive buffers are allocated with (size, align)) *)
Theorem C08_size_multiple_of_align : forall t, wf t = true -> good t.
Proof. exact wf_good. Qed.
Print Assumptions C08_size_multiple_of_align.

(* the values JS reads back from the bytes it (or Rust) wrote equal the stored ones: every well-formed type, any nesting,
   any field order, any memory contents around it *)
Theorem C08_read_after_write : forall t v m base,
  wf t = true -> typed t v -> (N.to_nat base + N.to_nat (tsize t) <= length m)%nat ->
  read_val t (write_val t v m base) base = v.
Proof. exact read_after_write. Qed.
Print Assumptions C08_read_after_write.

(* a write stays inside [base, base + size) *)
Theorem C08_write_in_bounds : forall t v m base i,
  wf t = true -> typed t v -> (N.to_nat base + N.to_nat (tsize t) <= length m)%nat ->
  outside base (tsize t) i -> nth_error (write_val t v m base) i = nth_error m i.
Proof. exact write_in_bounds. Qed.
Print Assumptions C08_write_in_bounds.

(* the flattened (legacy "padded direct") argument list built by the generated JS is the one the documented wasm C ABI
   rule prescribes: for every struct without zero-sized members and without the one unresolved corner (okf) *)
Theorem C08_flat_js_is_documented : forall t, wf t = true -> okf t = true -> flat_js_top t = flat_doc_top t.
Proof. exact flat_js_is_documented. Qed.
Print Assumptions C08_flat_js_is_documented.
