(* C06 — Every backend calls exactly the symbols the Rust library exports. *)
From Coq Require Import List String Bool Arith.
Import ListNotations.
From DV Require Import gen.Tables Cfg.Model Rename.Model Rename.Proofs.
Local Open Scope string_scope.
Local Open Scope list_scope.

(* naming scheme: the first {0} of a pattern is replaced by Type_method / Type_destroy ... *)
Theorem C06_apply_subst_first : forall a b n,
  no_start "{0}" a ("{0}" ++ b)%string = true ->
  apply_pattern (a ++ "{0}" ++ b)%string n = (a ++ n ++ b)%string.
Proof. exact apply_subst_first. Qed.
Print Assumptions C06_apply_subst_first.

(* ... and a pattern without placeholder is a pure rename *)
Theorem C06_apply_no_placeholder : forall p n, occurs_in "{0}" p = false -> apply_pattern p n = p.
Proof. exact apply_no_placeholder. Qed.
Print Assumptions C06_apply_no_placeholder.

(* inheritance module > impl > method: the innermost abi_rename decides, the default is Type_method *)
Theorem C06_innermost : forall m i me p ty name,
  method_abi m i (me ++ [p]) ty name = apply_pattern p (ty ++ "_" ++ name)%string /\
  method_abi m (i ++ [p]) [] ty name = apply_pattern p (ty ++ "_" ++ name)%string /\
  method_abi (m ++ [p]) [] [] ty name = apply_pattern p (ty ++ "_" ++ name)%string /\
  method_abi [] [] [] ty name = (ty ++ "_" ++ name)%string.
Proof. exact method_effective_is_innermost. Qed.
Print Assumptions C06_innermost.

(* whatever a backend refers to is exported (for every module, backend and attribute placement) *)
Theorem C06_referenced_subset_exported : forall b ms x, In x (referenced b ms) -> In x (exported ms).
Proof. exact referenced_subset_exported. Qed.
Print Assumptions C06_referenced_subset_exported.
