(* C01 — Rust extern "C" layer and generated C headers agree on the ABI (type-level agreement; value
   transport itself is observed end to end and relies on rustc and the C compiler implementing one C ABI). *)
From Coq Require Import List String Bool NArith.
Import ListNotations.
From DV Require Import gen.Tables Abi.Model Abi.Proofs.
Local Open Scope string_scope.
Local Open Scope list_scope.

Theorem C01_prim_abi : forall p, c_name_abi (c_prim_name p) = Some (rust_prim_abi p).
Proof. exact c_prim_abi_agrees. Qed.
Print Assumptions C01_prim_abi.

Theorem C01_capi_rows : forall p, assoc_s (c_derived_name p) capi_rows = Some (c_prim_name p).
Proof. exact capi_row_agrees. Qed.
Print Assumptions C01_capi_rows.

Theorem C01_param_abi_prim : forall env sp p mu,
  option_map norm (c_decl_abi env (PV (VPrim p))) = Some (norm (ffi_param_abi env (PV (VPrim p)))) /\
  option_map norm (c_decl_abi env (POpt sp (VPrim p))) = Some (norm (ffi_param_abi env (POpt sp (VPrim p)))) /\
  option_map norm (c_decl_abi env (PSlice p mu)) = Some (norm (ffi_param_abi env (PSlice p mu))) /\
  option_map norm (c_decl_abi env (POptSlice p)) = Some (norm (ffi_param_abi env (POptSlice p))).
Proof. exact param_abi_agrees_prim. Qed.
Print Assumptions C01_param_abi_prim.

Theorem C01_param_abi_other : forall env sp n mu w,
  option_map norm (c_decl_abi env (PV (VEnum n))) = Some (norm (ffi_param_abi env (PV (VEnum n)))) /\
  option_map norm (c_decl_abi env (POpt sp (VEnum n))) = Some (norm (ffi_param_abi env (POpt sp (VEnum n)))) /\
  option_map norm (c_decl_abi env (PORef mu)) = Some (norm (ffi_param_abi env (PORef mu))) /\
  option_map norm (c_decl_abi env POOpt) = Some (norm (ffi_param_abi env POOpt)) /\
  option_map norm (c_decl_abi env PWrite) = Some (norm (ffi_param_abi env PWrite)) /\
  option_map norm (c_decl_abi env (PStr w)) = Some (norm (ffi_param_abi env (PStr w))) /\
  option_map norm (c_decl_abi env POptStr) = Some (norm (ffi_param_abi env POptStr)).
Proof. exact param_abi_agrees_other. Qed.
Print Assumptions C01_param_abi_other.

Theorem C01_param_abi_struct : forall env sp n,
  is_zst (env n) = false -> norm (env n) = env n ->
  option_map norm (c_decl_abi env (PV (VStruct n))) = Some (norm (ffi_param_abi env (PV (VStruct n)))) /\
  option_map norm (c_decl_abi env (POpt sp (VStruct n))) = Some (norm (ffi_param_abi env (POpt sp (VStruct n)))).
Proof. exact param_abi_agrees_struct. Qed.
Print Assumptions C01_param_abi_struct.
