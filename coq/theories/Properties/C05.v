(* C05 — The lowering gate accepts exactly the documented FFI-safe API shapes. *)
From Coq Require Import List Bool.
Import ListNotations.
From DV Require Import Gate.Model Gate.Spec Gate.Proofs.

(* the gate's input arm accepts exactly what the rules allow in inputs (all types, unbounded nesting, all flag settings) *)
Theorem C05_inputs : forall fl t s, lt fl s t = true <-> InOk fl s t.
Proof. exact lt_iff. Qed.
Print Assumptions C05_inputs.

(* outputs (return payloads, out-struct fields, callback parameters) *)
Theorem C05_outputs : forall fl s r t, lot fl s r t = true <-> OutOk fl s r t.
Proof. exact lot_iff. Qed.
Print Assumptions C05_outputs.

(* return types: Result only at the top level, Option of a pointer is a nullable pointer *)
Theorem C05_returns : forall fl t, lret fl t = true <-> RetOk fl t.
Proof. exact lret_iff. Qed.
Print Assumptions C05_returns.

(* callback parameters: outputs, and no references unless explicitly allowed *)
Theorem C05_callback_params : forall fl t, cb_param_ok fl t = true <-> CbParamOk fl t.
Proof. exact cb_param_ok_iff. Qed.
Print Assumptions C05_callback_params.

(* DiplomatWrite only as the last parameter *)
Theorem C05_write_only_last : forall fl ps,
  accept_params fl (ps ++ [TWrite]) = forallb (lt fl false) ps /\
  (forall a b, accept_params fl (a ++ TWrite :: b ++ [TPrim]) = false).
Proof. exact write_only_last. Qed.
Print Assumptions C05_write_only_last.

(* "no elided lifetimes in return types" (rule 9): an elided lifetime of the return type whose source is itself not a
   named lifetime (`fn f(&self) -> &T`, `fn f(x: &T) -> &T`) makes validation refuse the method, whatever else the
   signature contains (Lifetimes/Elision.v models core/src/hir/elision.rs, Lifetimes/Model.v the validation) *)
From Coq Require Import Arith.
From DV Require Import gen.Tables Lifetimes.Model Lifetimes.Elision Lifetimes.ElisionProofs.
Theorem C05_elided_return_rejected : forall g i m k ds,
  (elision_source g = SelfParam (Lt i) \/ elision_source g = OneParam (Lt i)) -> s_n g <= i ->
  ret_elided (s_ret g) = true -> lower_sig g = Some (m, k) -> validate_method ds m = false.
Proof. exact elided_return_of_anonymous_source_rejected. Qed.
Print Assumptions C05_elided_return_rejected.
