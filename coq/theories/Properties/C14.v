(* C14 — Output is a deterministic, order-independent, local function of the bridge (partial: the collection
   and ordering of items is proved; that the renderers never consult hash-iteration order is exercised by
   differential runs of the real tool). *)
From Coq Require Import List Arith Bool.
Import ListNotations.
From DV Require Import Collect.Model Collect.Proofs.

(* what the reader collects: every declared/implemented name, with the methods of its impl blocks in source order *)
Theorem C14_collect_lookup : forall items n,
  lookup n (collect items) = if existsb (Nat.eqb n) (names_of items) then Some (methods_of n items) else None.
Proof. exact collect_lookup. Qed.
Print Assumptions C14_collect_lookup.

(* order independence under every reordering that keeps each type's impl blocks in their relative order *)
Theorem C14_order_independent : forall items items',
  (forall n, existsb (Nat.eqb n) (names_of items) = existsb (Nat.eqb n) (names_of items')) ->
  (forall n, methods_of n items = methods_of n items') ->
  collect items = collect items'.
Proof. exact collect_order_independent. Qed.
Print Assumptions C14_order_independent.

(* items outside the reader's grammar have no influence *)
Theorem C14_others_ignored : forall l1 t l2, collect (l1 ++ Other t :: l2) = collect (l1 ++ l2).
Proof. exact others_ignored. Qed.
Print Assumptions C14_others_ignored.

(* locality: removing a type leaves every other entry unchanged *)
Theorem C14_unrelated_type_local : forall items n k,
  k <> n -> lookup k (collect (filter (keep n) items)) = lookup k (collect items).
Proof. exact unrelated_type_local. Qed.
Print Assumptions C14_unrelated_type_local.
