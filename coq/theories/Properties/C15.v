(* C15 — After successful lowering no backend crashes (partial: Coq carries the argument that the finite witness
   enumeration covers every shape the gate can accept; absence of panics on each witness is observed by running
   the real backends). *)
From Coq Require Import List Bool Arith.
Import ListNotations.
From DV Require Import Gate.Model Dispatch.Model Dispatch.Proofs.

(* whatever the gate accepts as an output / non-callback input / return type is at most 3 constructors deep, i.e. it is
   literally one of the enumerated witnesses (enumeration depth 3 in the thorough tier, depth 2 + pointer options in quick) *)
Theorem C15_outputs_enumerated : forall fl s r t, lot fl s r t = true -> classify t = t.
Proof. exact accepted_outputs_are_classes. Qed.
Print Assumptions C15_outputs_enumerated.

Theorem C15_inputs_enumerated : forall fl s t, lt fl s t = true -> (forall ps r, t <> TFunction ps r) -> classify t = t.
Proof. exact accepted_inputs_are_classes. Qed.
Print Assumptions C15_inputs_enumerated.

Theorem C15_returns_enumerated : forall fl t, lret fl t = true -> classify t = t.
Proof. exact accepted_returns_are_classes. Qed.
Print Assumptions C15_returns_enumerated.
