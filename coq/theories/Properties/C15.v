(* C15 — After successful lowering no backend crashes (partial: Coq carries the argument that the finite witness
   enumeration covers every shape the gate can accept; absence of panics on each witness is observed by running
   the real backends). *)
From Coq Require Import List Bool Arith String.
Import ListNotations.
From DV Require Import Gate.Model Dispatch.Model Dispatch.Proofs gen.Tables Docs.Model Docs.Proofs.

(* whatever the gate accepts as an output / non-callback input / return type is at most 3 constructors deep, i.e. it is
   literally one of the enumerated witnesses (enumeration depth 3 in the thorough tier, depth 2 + pointer options in quick) *)
Theorem C15_outputs_enumerated : forall fl s r t, lot fl s r t = true -> classify t = t.
Proof. exact accepted_outputs_are_classes. Qed.
Print Assumptions C15_outputs_enumerated.

Theorem C15_inputs_enumerated : forall fl s t, lt fl s t = true -> (forall ps r, t <> TFunction ps r) -> classify t = t.
Proof. exact accepted_inputs_are_classes. Qed.
Print Assumptions C15_inputs_enumerated.

Theorem C15_returns_enumerated : forall fl t, lret fl t = true -> classify t = t.
Proof. exact accepted_returns_are_classes. Qed.
Print Assumptions C15_returns_enumerated.

(* the documentation renderer every backend calls (Docs::to_markdown, DocsUrlGenerator::gen_for_rust_link; None = panic)
   never fails, whatever the doc text, link kinds, display styles, path lengths and base-URL settings are: in particular
   the unreachable!() arm for Mod is unreachable. (Paths are non-empty by construction: syn parses no empty path.) *)
Theorem C15_docs_url_total : forall g l, l_path l <> [] -> exists u, gen_url g l = Some u.
Proof. exact gen_url_total. Qed.
Print Assumptions C15_docs_url_total.

Theorem C15_docs_markdown_total : forall g d, (forall l, In l (d_links d) -> l_path l <> []) -> exists s, to_markdown g d = Some s.
Proof. exact to_markdown_total. Qed.
Print Assumptions C15_docs_markdown_total.

(* the statement was false of the generator as it stood before fix 06b6163 (witness: rust_link(Foo, FnInStruct)) ... *)
Theorem C15_docs_url_unrepaired_refuted : exists g l, l_path l <> [] /\ gen_url_unrepaired g l = None.
Proof. exact unrepaired_refuted. Qed.
Print Assumptions C15_docs_url_unrepaired_refuted.

(* ... and the repair leaves every link for which the old generator produced a URL exactly as it was *)
Theorem C15_docs_repair_is_conservative : forall g l u, gen_url_unrepaired g l = Some u -> gen_url g l = Some u.
Proof. exact repair_is_conservative. Qed.
Print Assumptions C15_docs_repair_is_conservative.

(* what a link is, on the split path crate :: modules ++ item :: members *)
Theorem C15_docs_url_shape : forall g t disp c mods item ms pre,
  page_prefix t = Some pre -> List.length (item :: ms) = need t ->
  gen_url g (mkLink (c :: mods ++ item :: ms)%list t disp) =
    Some (root g c ++ dirs (c :: mods) ++ pre ++ item ++ ".html" ++ members_part t ms)%string.
Proof. exact gen_url_shape. Qed.
Print Assumptions C15_docs_url_shape.

(* every lifetime lowering hands to the backends for a method (self, parameters, output) is 'static or an index below
   LifetimeEnv::num_lifetimes: LifetimeEnv::fmt_lifetime cannot reach its "Found out of range lifetime" panic on a
   lifetime of the method's own signature, however lifetimes are written, elided or hidden (Lifetimes/Elision.v) *)
From Coq Require Import Arith.
From DV Require Import gen.Tables Lifetimes.Model Lifetimes.Elision Lifetimes.ElisionProofs.
Theorem C15_lowered_lifetimes_in_range : forall g m k,
  ssig_ok g -> lower_sig g = Some (m, k) ->
  s_n g <= k /\ Forall (below k) (flat_map ty_lts (m_params m ++ m_ret m)).
Proof. exact lowered_lifetimes_in_range. Qed.
Print Assumptions C15_lowered_lifetimes_in_range.

(* demo_gen's search for constructor calls (Dispatch/Ctor.v) always ends, whatever the constructors of the opaque types need
   (number of types + 1 levels suffice); before its repair (c6b6c41) it did not end for a constructor that needs its own type *)
From DV Require Import Dispatch.Ctor.
Theorem C15_demo_constructor_search_terminates : forall e n t,
  ctab_ok e n -> t < n -> construct e (S n) [] t <> None.
Proof. exact construct_terminates. Qed.
Print Assumptions C15_demo_constructor_search_terminates.

Theorem C15_demo_constructor_search_unrepaired_diverges : forall fuel, construct_unrepaired [Some [0]] fuel 0 = None.
Proof. exact unrepaired_diverges. Qed.
Print Assumptions C15_demo_constructor_search_unrepaired_diverges.
