(* C07 — Dart and Kotlin native declarations match each function's and struct's C ABI. *)
From Coq Require Import List String Bool NArith.
Import ListNotations.
From DV Require Import gen.Tables Abi.Model Abi.Proofs.

(* Dart: every primitive is declared with exactly the width, signedness and float kind of the Rust primitive *)
Theorem C07_dart_prims : forall p, dart_name_abi (dart_prim_ffi p) = Some (rust_prim_abi p).
Proof. exact dart_prim_agrees. Qed.
Print Assumptions C07_dart_prims.

(* Kotlin/JNA: same width and kind (JNA has no unsigned types), for parameter/return and for struct-field declarations *)
Theorem C07_kotlin_prims : forall p,
  option_map erase_sign (kt_name_abi (kt_prim_ffi p)) = Some (erase_sign (rust_prim_abi p)) /\
  option_map erase_sign (kt_name_abi (kt_prim_native p)) = Some (erase_sign (rust_prim_abi p)).
Proof. exact kotlin_prim_agrees_width. Qed.
Print Assumptions C07_kotlin_prims.
