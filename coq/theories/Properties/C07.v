(* C07 — Dart and Kotlin native declarations match each function's and struct's C ABI. *)
From Coq Require Import List String Bool NArith.
Import ListNotations.
From DV Require Import gen.Tables Abi.Model Abi.Proofs.

(* Dart: every primitive is declared with exactly the width, signedness and float kind of the Rust primitive *)
Theorem C07_dart_prims : forall p, dart_name_abi (dart_prim_ffi p) = Some (rust_prim_abi p).
Proof. exact dart_prim_agrees. Qed.
Print Assumptions C07_dart_prims.

(* Kotlin/JNA: same width and kind (JNA has no unsigned types), for parameter/return and for struct-field declarations *)
Theorem C07_kotlin_prims : forall p,
  option_map erase_sign (kt_name_abi (kt_prim_ffi p)) = Some (erase_sign (rust_prim_abi p)) /\
  option_map erase_sign (kt_name_abi (kt_prim_native p)) = Some (erase_sign (rust_prim_abi p)).
Proof. exact kotlin_prim_agrees_width. Qed.
Print Assumptions C07_kotlin_prims.

(* inside JNA Structures (struct mirrors, Option / Result records) a Kotlin Boolean would be 4 bytes wide; the declarations
   the backend uses there (fmt_primitive_type_native, regenerated into gen/Tables.v on every run) have the width of the
   Rust primitive for every primitive, bool included *)
Theorem C07_kotlin_field_prims : forall p,
  option_map erase_sign (kt_field_abi (kt_prim_native p)) = Some (erase_sign (rust_prim_abi p)).
Proof. exact kotlin_field_prim_agrees_width. Qed.
Print Assumptions C07_kotlin_field_prims.

Theorem C07_kotlin_boolean_field_is_wide :
  option_map (fun a => fst (size_align a)) (kt_field_abi "Boolean") = Some 4%N /\ fst (size_align (rust_prim_abi PBool)) = 1%N.
Proof. exact kotlin_boolean_field_is_wide. Qed.
Print Assumptions C07_kotlin_boolean_field_is_wide.
