(* UTF-8: the validator (Unicode Table 3-7 byte ranges, what core::str::from_utf8 / diplomat_is_str
   decide) and the specification (RFC 3629 encodings of Unicode scalar values). Definitions only. *)
From Coq Require Import List NArith Bool.
Import ListNotations.
Local Open Scope N_scope.

Definition in_range (lo hi b : N) : bool := (lo <=? b) && (b <=? hi).
Definition cont (b : N) : bool := in_range 0x80 0xBF b.

(* second-byte range for a 3-byte lead b0 (E0..EF) *)
Definition ok3 (b0 b1 : N) : bool :=
  if b0 =? 0xE0 then in_range 0xA0 0xBF b1
  else if b0 =? 0xED then in_range 0x80 0x9F b1
  else in_range 0xE1 0xEF b0 && cont b1.
(* second-byte range for a 4-byte lead b0 (F0..F4) *)
Definition ok4 (b0 b1 : N) : bool :=
  if b0 =? 0xF0 then in_range 0x90 0xBF b1
  else if b0 =? 0xF4 then in_range 0x80 0x8F b1
  else in_range 0xF1 0xF3 b0 && cont b1.

Fixpoint utf8_valid (bs : list N) : bool :=
  match bs with
  | [] => true
  | b0 :: r0 =>
    if b0 <? 0x80 then utf8_valid r0
    else match r0 with
    | [] => false
    | b1 :: r1 =>
      if in_range 0xC2 0xDF b0 then cont b1 && utf8_valid r1
      else match r1 with
      | [] => false
      | b2 :: r2 =>
        if in_range 0xE0 0xEF b0 then ok3 b0 b1 && cont b2 && utf8_valid r2
        else match r2 with
        | [] => false
        | b3 :: r3 => in_range 0xF0 0xF4 b0 && ok4 b0 b1 && cont b2 && cont b3 && utf8_valid r3
        end
      end
    end
  end.

(* ---- specification ---- *)
Definition scalar (c : N) : bool := (c <? 0xD800) || ((0xDFFF <? c) && (c <? 0x110000)).

Definition encode (c : N) : list N :=
  if c <? 0x80 then [c]
  else if c <? 0x800 then [0xC0 + c / 64; 0x80 + c mod 64]
  else if c <? 0x10000 then [0xE0 + c / 4096; 0x80 + (c / 64) mod 64; 0x80 + c mod 64]
  else [0xF0 + c / 262144; 0x80 + (c / 4096) mod 64; 0x80 + (c / 64) mod 64; 0x80 + c mod 64].

Inductive wf_utf8 : list N -> Prop :=
| wf_nil : wf_utf8 []
| wf_cons c r : scalar c = true -> wf_utf8 r -> wf_utf8 (encode c ++ r).

(* exactly one well-formed sequence *)
Definition seq_ok (l : list N) : bool :=
  match l with
  | [b0] => b0 <? 0x80
  | [b0; b1] => in_range 0xC2 0xDF b0 && cont b1
  | [b0; b1; b2] => in_range 0xE0 0xEF b0 && ok3 b0 b1 && cont b2
  | [b0; b1; b2; b3] => in_range 0xF0 0xF4 b0 && ok4 b0 b1 && cont b2 && cont b3
  | _ => false
  end.

Definition decode_seq (l : list N) : N :=
  match l with
  | [b0] => b0
  | [b0; b1] => (b0 - 0xC0) * 64 + (b1 - 0x80)
  | [b0; b1; b2] => (b0 - 0xE0) * 4096 + (b1 - 0x80) * 64 + (b2 - 0x80)
  | [b0; b1; b2; b3] => (b0 - 0xF0) * 262144 + (b1 - 0x80) * 4096 + (b2 - 0x80) * 64 + (b3 - 0x80)
  | _ => 0
  end.

(* correspondence helpers *)
Definition bytes256 : list N := map N.of_nat (seq 0 256).
Definition memN (x : N) (l : list N) : bool := existsb (N.eqb x) l.
(* for a fixed prefix p: exactly the bytes in [acc] make p ++ [b] valid *)
Definition agree_last (p : list N) (acc : list N) : bool :=
  forallb (fun b => Bool.eqb (utf8_valid (p ++ [b])) (memN b acc)) bytes256.
Definition agree_all (cases : list (list N * bool)) : bool :=
  forallb (fun '(bs, o) => Bool.eqb (utf8_valid bs) o) cases.
