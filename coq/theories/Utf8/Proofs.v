From Coq Require Import List NArith Bool Lia ZArith ZifyBool ZifyN.
Import ListNotations.
From DV Require Import Utf8.Model.
Local Open Scope N_scope.

Ltac Zify.zify_post_hook ::= Z.div_mod_to_equations.

Lemma r_true lo hi b : lo <= b <= hi -> in_range lo hi b = true.
Proof. intros [H1 H2]. unfold in_range. apply andb_true_iff. split; apply N.leb_le; assumption. Qed.

Lemma ok3_intro b0 b1 :
  0xE0 <= b0 <= 0xEF -> 0x80 <= b1 <= 0xBF -> (b0 = 0xE0 -> 0xA0 <= b1) -> (b0 = 0xED -> b1 <= 0x9F) ->
  ok3 b0 b1 = true.
Proof.
  intros H0 H1 Ha Hb. unfold ok3.
  destruct (N.eqb_spec b0 0xE0) as [E|E]; [apply r_true; lia|].
  destruct (N.eqb_spec b0 0xED) as [E'|E']; [apply r_true; lia|].
  unfold cont. rewrite !r_true by lia. reflexivity.
Qed.

Lemma ok4_intro b0 b1 :
  0xF0 <= b0 <= 0xF4 -> 0x80 <= b1 <= 0xBF -> (b0 = 0xF0 -> 0x90 <= b1) -> (b0 = 0xF4 -> b1 <= 0x8F) ->
  ok4 b0 b1 = true.
Proof.
  intros H0 H1 Ha Hb. unfold ok4.
  destruct (N.eqb_spec b0 0xF0) as [E|E]; [apply r_true; lia|].
  destruct (N.eqb_spec b0 0xF4) as [E'|E']; [apply r_true; lia|].
  unfold cont. rewrite !r_true by lia. reflexivity.
Qed.

(* S1: every scalar value encodes to exactly one well-formed sequence (pure arithmetic, all c). *)
Lemma encode_seq_ok c : scalar c = true -> seq_ok (encode c) = true.
Proof.
  unfold scalar, encode. intros Hs.
  assert (Hc : c < 0xD800 \/ 0xDFFF < c < 0x110000).
  { apply orb_true_iff in Hs. destruct Hs as [H|H]; [left; apply N.ltb_lt; exact H|].
    apply andb_true_iff in H. destruct H as [H1 H2]. apply N.ltb_lt in H1, H2. right. lia. }
  clear Hs.
  destruct (N.ltb_spec c 0x80) as [L1|L1]; [cbn [seq_ok]; apply N.ltb_lt; exact L1|].
  destruct (N.ltb_spec c 0x800) as [L2|L2].
  { cbn [seq_ok]. unfold cont. rewrite !r_true by lia. reflexivity. }
  destruct (N.ltb_spec c 0x10000) as [L3|L3].
  { cbn [seq_ok]. unfold cont. rewrite ok3_intro by lia. rewrite !r_true by lia. reflexivity. }
  cbn [seq_ok]. unfold cont. rewrite ok4_intro by lia. rewrite !r_true by lia. reflexivity.
Qed.

Ltac btac :=
  repeat match goal with
  | H : _ && _ = true |- _ => apply andb_true_iff in H; destruct H
  | H : in_range _ _ _ = true |- _ => unfold in_range in H
  | H : cont _ = true |- _ => unfold cont in H
  | H : (_ <=? _) = true |- _ => apply N.leb_le in H
  | H : (_ <? _) = true |- _ => apply N.ltb_lt in H
  | H : (_ =? _) = true |- _ => apply N.eqb_eq in H
  | H : (_ =? _) = false |- _ => apply N.eqb_neq in H
  end.

(* a well-formed sequence in front of r is consumed by the validator *)
Lemma valid_app_seq l r : seq_ok l = true -> utf8_valid (l ++ r) = utf8_valid r.
Proof.
  intros H.
  destruct l as [|b0 [|b1 [|b2 [|b3 [|b4 l]]]]]; cbn [seq_ok] in H; try discriminate.
  - cbn [app utf8_valid]. now rewrite H.
  - cbn [app utf8_valid]. apply andb_true_iff in H. destruct H as [H0 H1].
    assert (Hn : (b0 <? 0x80) = false) by (apply N.ltb_ge; btac; lia).
    rewrite Hn, H0, H1. reflexivity.
  - cbn [app utf8_valid]. apply andb_true_iff in H. destruct H as [H H2].
    apply andb_true_iff in H. destruct H as [H0 H1].
    assert (Hn : (b0 <? 0x80) = false) by (apply N.ltb_ge; btac; lia).
    assert (Hm : in_range 0xC2 0xDF b0 = false).
    { unfold in_range. apply andb_false_iff. right. apply N.leb_gt. btac. lia. }
    rewrite Hn, Hm, H0, H1, H2. reflexivity.
  - cbn [app utf8_valid]. apply andb_true_iff in H. destruct H as [H H3].
    apply andb_true_iff in H. destruct H as [H H2].
    apply andb_true_iff in H. destruct H as [H0 H1].
    assert (Hn : (b0 <? 0x80) = false) by (apply N.ltb_ge; btac; lia).
    assert (Hm : in_range 0xC2 0xDF b0 = false).
    { unfold in_range. apply andb_false_iff. right. apply N.leb_gt. btac. lia. }
    assert (Hk : in_range 0xE0 0xEF b0 = false).
    { unfold in_range. apply andb_false_iff. right. apply N.leb_gt. btac. lia. }
    rewrite Hn, Hm, Hk, H0, H1, H2, H3. reflexivity.
Qed.

Lemma wf_valid bs : wf_utf8 bs -> utf8_valid bs = true.
Proof.
  induction 1 as [|c r Hc _ IH]; [reflexivity|].
  rewrite valid_app_seq; [exact IH|apply encode_seq_ok; exact Hc].
Qed.

(* S2: a well-formed sequence is the encoding of the scalar value it decodes to. *)

Lemma dm a b q r : r < b -> a = b * q + r -> a / b = q /\ a mod b = r.
Proof.
  intros Hr Ha. split; symmetry; [eapply N.div_unique|eapply N.mod_unique]; eassumption.
Qed.

Lemma ok3_cases b0 b1 : ok3 b0 b1 = true ->
  (b0 = 0xE0 /\ 0xA0 <= b1 <= 0xBF) \/ (b0 = 0xED /\ 0x80 <= b1 <= 0x9F) \/
  (0xE1 <= b0 <= 0xEF /\ b0 <> 0xED /\ 0x80 <= b1 <= 0xBF).
Proof.
  unfold ok3. destruct (b0 =? 0xE0) eqn:E0; [intros; btac; lia|].
  destruct (b0 =? 0xED) eqn:E1; intros; btac; lia.
Qed.

Lemma ok4_cases b0 b1 : ok4 b0 b1 = true ->
  (b0 = 0xF0 /\ 0x90 <= b1 <= 0xBF) \/ (b0 = 0xF4 /\ 0x80 <= b1 <= 0x8F) \/
  (0xF1 <= b0 <= 0xF3 /\ 0x80 <= b1 <= 0xBF).
Proof.
  unfold ok4. destruct (b0 =? 0xF0) eqn:E0; [intros; btac; lia|].
  destruct (b0 =? 0xF4) eqn:E1; intros; btac; lia.
Qed.

Lemma seq_ok_decode l : seq_ok l = true -> scalar (decode_seq l) = true /\ encode (decode_seq l) = l.
Proof.
  intros H.
  destruct l as [|b0 [|b1 [|b2 [|b3 [|b4 l]]]]]; cbn [seq_ok] in H; try discriminate.
  - cbn [decode_seq]. btac. unfold scalar, encode.
    assert (E : (b0 <? 0x80) = true) by (apply N.ltb_lt; lia). rewrite E.
    assert (E2 : (b0 <? 0xD800) = true) by (apply N.ltb_lt; lia). now rewrite E2.
  - cbn [decode_seq]. btac.
    set (c := (b0 - 0xC0) * 64 + (b1 - 0x80)).
    assert (Hc : 0x80 <= c < 0x800) by (unfold c; lia).
    unfold scalar, encode.
    assert (E1 : (c <? 0x80) = false) by (apply N.ltb_ge; lia).
    assert (E2 : (c <? 0x800) = true) by (apply N.ltb_lt; lia).
    assert (E3 : (c <? 0xD800) = true) by (apply N.ltb_lt; lia).
    rewrite E1, E2, E3. split; [reflexivity|].
    destruct (dm c 64 (b0 - 0xC0) (b1 - 0x80)) as [? ?]; [lia|unfold c; lia|].
    f_equal; [lia|]. f_equal. lia.
  - cbn [decode_seq]. apply andb_true_iff in H. destruct H as [H H2].
    apply andb_true_iff in H. destruct H as [H0 H1]. apply ok3_cases in H1. btac.
    set (c := (b0 - 0xE0) * 4096 + (b1 - 0x80) * 64 + (b2 - 0x80)).
    destruct (dm c 4096 (b0 - 0xE0) ((b1 - 0x80) * 64 + (b2 - 0x80))) as [Hq1 _]; [lia|unfold c; lia|].
    destruct (dm c 64 ((b0 - 0xE0) * 64 + (b1 - 0x80)) (b2 - 0x80)) as [Hd Hq3]; [lia|unfold c; lia|].
    destruct (dm (c / 64) 64 (b0 - 0xE0) (b1 - 0x80)) as [_ Hq2]; [lia|rewrite Hd; lia|].
    assert (Hc : 0x800 <= c < 0x10000 /\ (c < 0xD800 \/ 0xDFFF < c)) by (unfold c; lia).
    unfold scalar, encode.
    assert (E1 : (c <? 0x80) = false) by (apply N.ltb_ge; lia).
    assert (E2 : (c <? 0x800) = false) by (apply N.ltb_ge; lia).
    assert (E3 : (c <? 0x10000) = true) by (apply N.ltb_lt; lia).
    rewrite E1, E2, E3, Hq1, Hq2, Hq3. split.
    + destruct Hc as [_ [Hc|Hc]].
      * assert (E : (c <? 0xD800) = true) by (apply N.ltb_lt; lia). now rewrite E.
      * assert (E : (0xDFFF <? c) = true) by (apply N.ltb_lt; lia).
        assert (E' : (c <? 0x110000) = true) by (apply N.ltb_lt; lia).
        rewrite E, E'. apply orb_true_r.
    + f_equal; [lia|]. f_equal; [lia|]. f_equal. lia.
  - cbn [decode_seq]. apply andb_true_iff in H. destruct H as [H H3].
    apply andb_true_iff in H. destruct H as [H H2].
    apply andb_true_iff in H. destruct H as [H0 H1]. apply ok4_cases in H1. btac.
    set (c := (b0 - 0xF0) * 262144 + (b1 - 0x80) * 4096 + (b2 - 0x80) * 64 + (b3 - 0x80)).
    destruct (dm c 262144 (b0 - 0xF0) ((b1 - 0x80) * 4096 + (b2 - 0x80) * 64 + (b3 - 0x80))) as [Hq1 _]; [lia|unfold c; lia|].
    destruct (dm c 4096 ((b0 - 0xF0) * 64 + (b1 - 0x80)) ((b2 - 0x80) * 64 + (b3 - 0x80))) as [Hd2 _]; [lia|unfold c; lia|].
    destruct (dm (c / 4096) 64 (b0 - 0xF0) (b1 - 0x80)) as [_ Hq2]; [lia|rewrite Hd2; lia|].
    destruct (dm c 64 ((b0 - 0xF0) * 4096 + (b1 - 0x80) * 64 + (b2 - 0x80)) (b3 - 0x80)) as [Hd3 Hq4]; [lia|unfold c; lia|].
    destruct (dm (c / 64) 64 ((b0 - 0xF0) * 64 + (b1 - 0x80)) (b2 - 0x80)) as [_ Hq3]; [lia|rewrite Hd3; lia|].
    assert (Hc : 0x10000 <= c < 0x110000) by (unfold c; lia).
    unfold scalar, encode.
    assert (E1 : (c <? 0x80) = false) by (apply N.ltb_ge; lia).
    assert (E2 : (c <? 0x800) = false) by (apply N.ltb_ge; lia).
    assert (E3 : (c <? 0x10000) = false) by (apply N.ltb_ge; lia).
    rewrite E1, E2, E3, Hq1, Hq2, Hq3, Hq4. split.
    + assert (E : (0xDFFF <? c) = true) by (apply N.ltb_lt; lia).
      assert (E' : (c <? 0x110000) = true) by (apply N.ltb_lt; lia).
      rewrite E, E'. apply orb_true_r.
    + f_equal; [lia|]. f_equal; [lia|]. f_equal; [lia|]. f_equal. lia.
Qed.

(* the validator peels off one well-formed sequence *)
Lemma valid_peel bs : bs <> [] -> utf8_valid bs = true ->
  exists l r, bs = l ++ r /\ seq_ok l = true /\ utf8_valid r = true.
Proof.
  intros Hne H. destruct bs as [|b0 r0]; [congruence|]. cbn [utf8_valid] in H.
  destruct (b0 <? 0x80) eqn:E0.
  { exists [b0], r0. cbn [seq_ok app]. auto. }
  destruct r0 as [|b1 r1]; [discriminate|].
  destruct (in_range 0xC2 0xDF b0) eqn:E1.
  { apply andb_true_iff in H. destruct H as [H1 H].
    exists [b0; b1], r1. cbn [seq_ok app]. rewrite E1, H1. auto. }
  destruct r1 as [|b2 r2]; [discriminate|].
  destruct (in_range 0xE0 0xEF b0) eqn:E2.
  { apply andb_true_iff in H. destruct H as [H H'].
    apply andb_true_iff in H. destruct H as [H1 H2].
    exists [b0; b1; b2], r2. cbn [seq_ok app]. rewrite E2, H1, H2. auto. }
  destruct r2 as [|b3 r3]; [discriminate|].
  apply andb_true_iff in H. destruct H as [H H'].
  apply andb_true_iff in H. destruct H as [H H3].
  apply andb_true_iff in H. destruct H as [H H2].
  apply andb_true_iff in H. destruct H as [H0 H1].
  exists [b0; b1; b2; b3], r3. cbn [seq_ok app]. rewrite H0, H1, H2, H3. auto.
Qed.

Lemma seq_ok_nonempty l : seq_ok l = true -> (1 <= length l)%nat.
Proof. destruct l; cbn; [discriminate|intros; lia]. Qed.

Lemma valid_wf bs : utf8_valid bs = true -> wf_utf8 bs.
Proof.
  remember (length bs) as n eqn:Hn. revert bs Hn.
  induction n as [n IH] using lt_wf_ind. intros bs Hn Hv.
  destruct bs as [|b r] eqn:Hbs; [constructor|]. rewrite <- Hbs in *.
  destruct (valid_peel bs) as (l & r' & Heq & Hl & Hr); [subst; discriminate|assumption|].
  destruct (seq_ok_decode l Hl) as [Hsc Henc].
  rewrite Heq, <- Henc. constructor; [exact Hsc|].
  apply (IH (length r')); [|reflexivity|exact Hr].
  subst n. rewrite Heq, app_length. pose proof (seq_ok_nonempty l Hl). lia.
Qed.

Theorem utf8_dfa_correct bs : utf8_valid bs = true <-> wf_utf8 bs.
Proof. split; [apply valid_wf|apply wf_valid]. Qed.

(* accepted bytes are bytes *)
Lemma valid_bytes bs : utf8_valid bs = true -> Forall (fun b => b < 0xF5) bs.
Proof.
  intros H. apply valid_wf in H. induction H as [|c r Hc _ IH]; [constructor|].
  apply Forall_app. split; [|exact IH].
  pose proof (encode_seq_ok c Hc) as Hs.
  destruct (encode c) as [|b0 [|b1 [|b2 [|b3 [|b4 l]]]]]; cbn [seq_ok] in Hs; try discriminate.
  - btac. repeat constructor; lia.
  - btac. repeat constructor; lia.
  - apply andb_true_iff in Hs. destruct Hs as [Hs H2]. apply andb_true_iff in Hs. destruct Hs as [H0 H1].
    apply ok3_cases in H1. btac. repeat constructor; lia.
  - apply andb_true_iff in Hs. destruct Hs as [Hs H3]. apply andb_true_iff in Hs. destruct Hs as [Hs H2].
    apply andb_true_iff in Hs. destruct Hs as [H0 H1]. apply ok4_cases in H1. btac. repeat constructor; lia.
Qed.

Example utf8_examples :
  utf8_valid [0x61; 0xC3; 0xA9; 0xE2; 0x82; 0xAC; 0xF0; 0x9F; 0x98; 0x80] = true /\
  utf8_valid [0xC0; 0x80] = false /\ utf8_valid [0xED; 0xA0; 0x80] = false /\
  utf8_valid [0xF4; 0x90; 0x80; 0x80] = false /\ utf8_valid [0xE2; 0x82] = false /\
  wf_utf8 (encode 0x20AC ++ encode 0x1F600 ++ []).
Proof. repeat split; try reflexivity. repeat constructor. Qed.
