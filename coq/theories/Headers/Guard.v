(* C09 — include guards of the generated C++ headers (tool/src/cpp/header.rs, impl Display for Header):
   path.replace(".d.hpp", "_D_HPP").replace(".hpp", "_HPP").replace("\\", "_").replace("/", "_").
   A header path is a non-empty list of components (namespace directories, then the type's file stem); the guard joins them
   with '_' and appends one of two suffixes.  Characters are abstract: [sep] is the underscore. *)
From Coq Require Import List Arith Bool.
Import ListNotations.

Section Guard.
Variable A : Type.
Variable sep : A.

Definition comp := list A.
Fixpoint join1 (c : comp) (r : list comp) : list A :=
  match r with
  | [] => c
  | d :: r' => c ++ sep :: join1 d r'
  end.
(* the guard of a decl / impl header: the joined path and which of the two suffixes follows *)
Definition guard (c : comp) (r : list comp) (decl : bool) : list A * bool := (join1 c r, decl).

Definition clean (c : comp) : Prop := ~ In sep c.

Lemma app_sep_inj (a b : comp) (x y : list A) : clean a -> clean b -> a ++ sep :: x = b ++ sep :: y -> a = b /\ x = y.
Proof.
  revert b. induction a as [|h a IH]; intros [|k b] Ca Cb H; cbn in H.
  - inversion H; subst. split; reflexivity.
  - inversion H as [[E _]]. exfalso. apply Cb. left. congruence.
  - inversion H as [[E _]]. exfalso. apply Ca. left. congruence.
  - inversion H as [[E H']]. subst k.
    destruct (IH b) as [E1 E2]; auto.
    + intros I. apply Ca. right. exact I.
    + intros I. apply Cb. right. exact I.
    + subst. split; reflexivity.
Qed.

Lemma clean_no_sep (a b : comp) (y : list A) : clean a -> a <> b ++ sep :: y.
Proof. intros Ca E. apply Ca. rewrite E. apply in_or_app. right. left. reflexivity. Qed.

(* without underscores in namespace and type names, different header paths get different guards *)
Theorem guard_injective_on_clean_names : forall r c d s decl decl',
  clean c -> clean d -> Forall clean r -> Forall clean s ->
  guard c r decl = guard d s decl' -> c = d /\ r = s /\ decl = decl'.
Proof.
  unfold guard. induction r as [|e r IH]; intros c d s decl decl' Cc Cd Fr Fs H; inversion H as [[H1 H2]]; clear H.
  - destruct s as [|f s]; cbn in H1; [auto|]. exfalso. eapply (clean_no_sep c d); eauto.
  - destruct s as [|f s]; cbn in H1.
    + exfalso. eapply (clean_no_sep d c). exact Cd. symmetry. exact H1.
    + inversion Fr; inversion Fs; subst.
      destruct (app_sep_inj c d _ _ Cc Cd H1) as [E1 E2]. subst.
      destruct (IH e f s true true) as [E3 [E4 _]]; auto.
      * unfold guard. rewrite E2. reflexivity.
      * subst. auto.
Qed.
End Guard.

(* with underscores it is not: namespace geo + type Point, and the root type geo_Point (0 stands for '_') *)
Example guard_injective_refuted :
  guard nat 0 [7; 5; 15] [[16; 15; 9; 14; 20]] true = guard nat 0 [7; 5; 15; 0; 16; 15; 9; 14; 20] [] true /\
  ([7; 5; 15], [[16; 15; 9; 14; 20]]) <> ([7; 5; 15; 0; 16; 15; 9; 14; 20], @nil (list nat)).
Proof. split; [reflexivity|discriminate]. Qed.

(* correspondence: the `#ifndef` line of a generated header; characters are their code points, '_' = 95.
   [observed] is the guard without its _D_HPP / _HPP suffix *)
Fixpoint nat_list_eqb (a b : list nat) : bool :=
  match a, b with
  | [], [] => true
  | x :: a', y :: b' => Nat.eqb x y && nat_list_eqb a' b'
  | _, _ => false
  end.
Definition agree_guard (c : list nat) (r : list (list nat)) (decl : bool) (observed : list nat) (observed_decl : bool) : bool :=
  nat_list_eqb (fst (guard nat 95 c r decl)) observed && Bool.eqb (snd (guard nat 95 c r decl)) observed_decl.
