(* C09 — the C++ headers are complete-before-use (Headers/Cpp.v). *)
From Coq Require Import List Arith Bool Lia.
Import ListNotations.
From DV Require Import Headers.Model Headers.Proofs Headers.Cpp.

(* both guard sets only contain types whose definition has been seen *)
Definition HInv (st : hstate) (declared : list nat) : Prop :=
  (forall s, In s (fst st) -> In s declared) /\ (forall s, In s (snd st) -> In s declared).

Local Notation hfun e fd f :=
  (fun '(s, acc, ok) x => let '(s', ev', ok') := expand_hpp e fd f x s in (s', acc ++ ev', ok && ok')).

Definition hstep_ok (e : env) (fd f : nat) (x : nat) : Prop :=
  forall st declared, HInv st declared ->
    let '(st', evs, ok) := expand_hpp e fd f x st in
    ok = true -> ok_from declared evs = true /\ In x (after declared evs) /\ HInv st' (after declared evs).

Lemma hfold_ok e fd f : forall xs st declared acc okacc,
  (forall x, In x xs -> hstep_ok e fd f x) ->
  HInv st (after declared acc) -> ok_from declared acc = true ->
  let '(st', evs, ok) :=
    fold_left (hfun e fd f) xs (st, acc, okacc) in
  ok = true ->
  ok_from declared evs = true /\ (forall x, In x xs -> In x (after declared evs)) /\ HInv st' (after declared evs) /\
  (forall y, In y (after declared acc) -> In y (after declared evs)).
Proof.
  induction xs as [|x xs IH]; intros st declared acc okacc Hstep Hinv Hok; cbn [fold_left].
  - intros _. repeat split; auto; try apply Hinv. intros x [].
  - pose proof (Hstep x (or_introl eq_refl) st (after declared acc) Hinv) as Hs.
    destruct (expand_hpp e fd f x st) as [[s' ev'] ok'] eqn:Hx.
    specialize (IH s' declared (acc ++ ev') (okacc && ok') (fun y Hy => Hstep y (or_intror Hy))).
    destruct (fold_left (hfun e fd f) xs (s', acc ++ ev', okacc && ok')) as [[sf evf] okf] eqn:Hf.
    intros Hokf.
    (* the accumulated flag is a conjunction: it is true at the end only if it was true here *)
    assert (Hmono : forall ys s0 a0 o0, let '(_, _, o) :=
              fold_left (hfun e fd f) ys (s0, a0, o0) in
              o = true -> o0 = true).
    { induction ys as [|y ys IHy]; intros s0 a0 o0; cbn [fold_left]; auto.
      destruct (expand_hpp e fd f y s0) as [[s1 e1] o1]. specialize (IHy s1 (a0 ++ e1) (o0 && o1)).
      destruct (fold_left (hfun e fd f) ys (s1, a0 ++ e1, o0 && o1)) as [[? ?] o]. intros H. apply IHy in H. apply andb_true_iff in H. tauto. }
    pose proof (Hmono xs s' (acc ++ ev') (okacc && ok')) as Hm. rewrite Hf in Hm. specialize (Hm Hokf).
    apply andb_true_iff in Hm. destruct Hm as [_ Hok'].
    destruct (Hs Hok') as (Hok1 & Hin & Hinv').
    assert (Hok2 : ok_from declared (acc ++ ev') = true) by (rewrite ok_from_app, Hok; exact Hok1).
    rewrite after_app in IH. specialize (IH Hinv' Hok2 Hokf). destruct IH as (I1 & I2 & I3 & I4).
    split; [exact I1|]. split; [|split; [exact I3|]].
    + intros y [<-|Hy]; [apply I4; exact Hin|apply I2; exact Hy].
    + intros y Hy. apply I4. apply after_incl. exact Hy.
Qed.

Lemma expand_hpp_ok e fd : (forall x, depth_le e fd x = true) -> forall f t, hstep_ok e (S fd) f t.
Proof.
  intros Hd. induction f as [|f IH]; intros t st declared Hinv.
  - cbn [expand_hpp]. destruct (mem t (snd st)) eqn:Hm.
    + intros _. apply mem_in in Hm. cbn [ok_from]. split; [reflexivity|]. split; [|exact Hinv]. apply (proj2 Hinv). exact Hm.
    + discriminate.
  - cbn [expand_hpp]. destruct (mem t (snd st)) eqn:Hm.
    + intros _. apply mem_in in Hm. cbn [ok_from]. split; [reflexivity|]. split; [|exact Hinv]. apply (proj2 Hinv). exact Hm.
    + (* the decl header first: Proofs.expand_d_ok, no decl header is being expanded at this point (A = []) *)
      pose proof (expand_d_ok e fd t [] (Hd t) (fst st) declared) as Hdk.
      assert (HI : Inv (fst st) declared []) by (intros s Hs; left; apply (proj1 Hinv); exact Hs).
      specialize (Hdk HI (fun a Ha => match Ha with end)).
      destruct (expand_d e (S fd) t (fst st)) as [sd1 ev1] eqn:Ed. destruct Hdk as (D1 & D2 & D3).
      pose proof (hfold_ok e (S fd) f (crefs e t) (sd1, t :: snd st) (after declared ev1) [] true) as Hfold.
      assert (H1 : forall x, In x (crefs e t) -> hstep_ok e (S fd) f x) by (intros x _; apply IH).
      assert (H3 : HInv (sd1, t :: snd st) (after (after declared ev1) [])).
      { split; cbn [fst snd]; unfold after at 1; cbn [decls rev app].
        - intros s Hs. destruct (D3 s Hs) as [H|[]]. exact H.
        - intros s [<-|Hs]; [exact D2|]. apply after_incl. apply (proj2 Hinv). exact Hs. }
      specialize (Hfold H1 H3 eq_refl).
      match goal with |- context[fold_left ?F ?L ?I] => change (fold_left F L I) with (fold_left (hfun e (S fd) f) (crefs e t) (sd1, t :: snd st, [], true)) end.
      change (fold_left (hfun e (S fd) f) (crefs e t) (sd1, t :: snd st, @nil ev, true)) with (fold_left (hfun e (S fd) f) (crefs e t) (sd1, t :: snd st, @nil ev, true)) in Hfold.
      destruct (fold_left (hfun e (S fd) f) (crefs e t) (sd1, t :: snd st, [], true)) as [[s2 ev2] ok2] eqn:E2.
      intros Hok2. destruct (Hfold Hok2) as (F1 & F2 & F3 & F4).
      assert (Ht : In t (after (after declared ev1) ev2)) by (apply F4; unfold after at 1; cbn [decls rev app]; exact D2).
      rewrite <- after_app in F2, F3, Ht.
      rewrite app_assoc. rewrite ok_from_app. rewrite ok_from_app, D1. change (rev (decls ev1) ++ declared) with (after declared ev1). rewrite F1. cbn [andb].
      split; [|split].
      * apply uses_after_decls_ok. intros x [<-|Hx]; [exact Ht|]. apply F2. exact Hx.
      * rewrite after_app. apply after_incl. exact Ht.
      * rewrite after_app. destruct F3 as [G1 G2]. split; intros s Hs; apply after_incl; auto.
Qed.

(* THEOREM: in the include-once expansion of any T.hpp, every class is defined before an inline method body (or a
   by-value field) needs it complete, for every set of types whose by-value containment is acyclic, whatever the
   pointer / signature references look like, cycles between impl headers included *)
Theorem cpp_complete_before_body e fd fuel t :
  (forall x, depth_le e fd x = true) ->
  snd (hpp_events e (S fd) fuel t) = true -> declared_before_use (fst (hpp_events e (S fd) fuel t)) = true.
Proof.
  intros Hd. unfold hpp_events, declared_before_use.
  pose proof (expand_hpp_ok e fd Hd fuel t ([], []) []) as H.
  assert (HI : HInv ([], []) []) by (split; intros s []).
  specialize (H HI). destruct (expand_hpp e (S fd) fuel t ([], [])) as [[st evs] ok]. cbn [fst snd].
  intros Hok. apply H. exact Hok.
Qed.

(* the decl header forward-declares every name its method declarations mention *)
Theorem cpp_decl_names_declared e t : decl_names_ok e t = true.
Proof.
  unfold decl_names_ok, forwards, crefs. apply forallb_forall. intros x Hx.
  destruct (x =? t) eqn:E; cbn [orb]; auto.
  apply mem_in. apply filter_In. split; auto. rewrite E. reflexivity.
Qed.

Example cpp_theorem_applies :
  (* two opaques whose methods mention each other, a struct holding a struct by value and pointing to both *)
  let e := [mkT [] [1; 2]; mkT [] [0]; mkT [3] [0; 1]; mkT [] []] in
  (forall x, x < 4 -> depth_le e 1 x = true) /\
  hpp_events e 2 5 0 = ([Declare 0; Declare 1; Use 1; Use 0; Declare 3; Use 3; Declare 2; Use 3; Use 2; Use 3; Use 0; Use 1; Use 0; Use 1; Use 2], true).
Proof. split; [intros x Hx; do 4 (destruct x as [|x]; [reflexivity|]); lia|vm_compute; reflexivity]. Qed.

(* ---------- the fuel always suffices: number of types + 1 ---------- *)
Definition missing (n : nat) (sh : list nat) : nat := length (filter (fun x => negb (mem x sh)) (seq 0 n)).

Lemma filter_mono (a b l : list nat) : (forall x, In x a -> In x b) ->
  length (filter (fun x => negb (mem x b)) l) <= length (filter (fun x => negb (mem x a)) l).
Proof.
  intros H. induction l as [|y r IH]; cbn [filter]; auto.
  destruct (mem y b) eqn:Eb, (mem y a) eqn:Ea; cbn [negb length]; try lia.
  apply mem_in in Ea. apply H in Ea. apply mem_in in Ea. congruence.
Qed.

Lemma filter_cons_lt t sh l : In t l -> ~ In t sh ->
  length (filter (fun x => negb (mem x (t :: sh))) l) < length (filter (fun x => negb (mem x sh)) l).
Proof.
  intros Hin Hn. induction l as [|y r IH]; [destruct Hin|].
  pose proof (filter_mono sh (t :: sh) r (fun x Hx => or_intror Hx)) as M.
  cbn [filter]. destruct (Nat.eq_dec y t) as [->|Ne].
  - assert (E1 : mem t (t :: sh) = true) by (apply mem_in; left; auto).
    assert (E2 : mem t sh = false) by (apply not_true_is_false; intros E; apply mem_in in E; contradiction).
    rewrite E1, E2. cbn [negb length]. lia.
  - destruct Hin as [->|Hin]; [contradiction|]. specialize (IH Hin).
    assert (E : mem y (t :: sh) = mem y sh).
    { unfold mem. cbn [existsb]. destruct (y =? t) eqn:Q; [apply Nat.eqb_eq in Q; contradiction|]. reflexivity. }
    rewrite E. destruct (mem y sh); cbn [negb length]; lia.
Qed.

Definition wf_env (e : env) (n : nat) : Prop := forall t x, In x (crefs e t) -> x < n.

Lemma expand_hpp_snd_mono e fd : forall f t st, forall s, In s (snd st) -> In s (snd (fst (fst (expand_hpp e fd f t st)))).
Proof.
  induction f as [|f IH]; intros t st s Hs; cbn [expand_hpp]; destruct (mem t (snd st)); cbn [fst snd]; auto.
  destruct (expand_d e fd t (fst st)) as [sd1 ev1].
  assert (G : forall ys s0 a0 o0, In s (snd s0) -> In s (snd (fst (fst (fold_left (hfun e fd f) ys (s0, a0, o0)))))).
  { induction ys as [|y ys IHy]; intros s0 a0 o0 H0; cbn [fold_left fst snd]; auto.
    pose proof (IH y s0 s H0) as Hy. destruct (expand_hpp e fd f y s0) as [[s1 e1] o1]. cbn [fst snd] in Hy. apply IHy. exact Hy. }
  specialize (G (crefs e t) (sd1, t :: snd st) [] true (or_intror Hs)).
  destruct (fold_left (hfun e fd f) (crefs e t) (sd1, t :: snd st, [], true)) as [[s2 ev2] ok2]. exact G.
Qed.

Lemma expand_hpp_fuel e fd n : wf_env e n -> forall f t st, t < n -> missing n (snd st) < f ->
  snd (expand_hpp e fd f t st) = true.
Proof.
  intros W. induction f as [|f IH]; intros t st Ht Hm; [lia|].
  cbn [expand_hpp]. destruct (mem t (snd st)) eqn:E; [reflexivity|].
  destruct (expand_d e fd t (fst st)) as [sd1 ev1].
  assert (Hn : ~ In t (snd st)) by (intros H; apply mem_in in H; congruence).
  assert (Hlt : missing n (t :: snd st) < missing n (snd st)).
  { unfold missing. apply filter_cons_lt; auto. apply in_seq. lia. }
  assert (G : forall ys s0 a0 o0, (forall y, In y ys -> y < n) -> (forall s, In s (t :: snd st) -> In s (snd s0)) -> o0 = true ->
             snd (fold_left (hfun e fd f) ys (s0, a0, o0)) = true).
  { induction ys as [|y ys IHy]; intros s0 a0 o0 Hy Hsub Ho; cbn [fold_left snd]; auto.
    assert (Hm0 : missing n (snd s0) < f).
    { pose proof (filter_mono (t :: snd st) (snd s0) (seq 0 n) Hsub). unfold missing in *. lia. }
    pose proof (IH y s0 (Hy y (or_introl eq_refl)) Hm0) as Hok.
    pose proof (expand_hpp_snd_mono e fd f y s0) as Hmono.
    destruct (expand_hpp e fd f y s0) as [[s1 e1] o1]. cbn [fst snd] in *.
    apply IHy; [intros z Hz; apply Hy; right; exact Hz| |rewrite Ho, Hok; reflexivity].
    intros s Hs. apply Hmono. apply Hsub. exact Hs. }
  specialize (G (crefs e t) (sd1, t :: snd st) [] true (fun y Hy => W t y Hy) (fun s Hs => Hs) eq_refl).
  destruct (fold_left (hfun e fd f) (crefs e t) (sd1, t :: snd st, [], true)) as [[s2 ev2] ok2]. exact G.
Qed.

(* the same statement without the flag: number of types + 1 levels of includes are always enough *)
Theorem cpp_complete_before_body_total e fd n t :
  (forall x, depth_le e fd x = true) -> wf_env e n -> t < n ->
  declared_before_use (fst (hpp_events e (S fd) (S n) t)) = true.
Proof.
  intros Hd W Ht. apply cpp_complete_before_body; auto.
  unfold hpp_events. pose proof (expand_hpp_fuel e (S fd) n W (S n) t ([], []) Ht) as H.
  assert (Hm : missing n (snd (@nil nat, @nil nat)) < S n).
  { unfold missing. cbn [snd].
    assert (L : forall (g : nat -> bool) l, length (filter g l) <= length l).
    { intros g l. induction l as [|y r IHl]; cbn [filter length]; auto. destruct (g y); cbn [length]; lia. }
    specialize (L (fun x => negb (mem x [])) (seq 0 n)). rewrite seq_length in L. lia. }
  specialize (H Hm). destruct (expand_hpp e (S fd) (S n) t ([], [])) as [[st evs] ok]. exact H.
Qed.
